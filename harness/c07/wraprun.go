package main

import (
	"fmt"
	"os"
	"regexp"
	"sort"
	"strconv"
	"strings"
	"sync"
	"sync/atomic"
	"time"

	"verif/harness/c03/rx"
)

const batchSize = 16

type wstats struct {
	programs, refs, refsChanging, deployFallbacks, txOKSame, refused, notRun atomic.Int64
	byGroup                                                                  sync.Map
}

// wall time spent per tx class (diagnostics, printed only)
var tClass sync.Map

func timed(class string, f func() rx.Res) rx.Res {
	t0 := time.Now()
	res := f()
	v, _ := tClass.LoadOrStore(class, new([2]atomic.Int64))
	a := v.(*[2]atomic.Int64)
	a[0].Add(int64(time.Since(t0)))
	a[1].Add(1)
	return res
}

func printTimes() {
	var ks []string
	tClass.Range(func(k, v any) bool { ks = append(ks, k.(string)); return true })
	sort.Strings(ks)
	for _, k := range ks {
		v, _ := tClass.Load(k)
		a := v.(*[2]atomic.Int64)
		fmt.Printf("time: %-28s n=%-6d total=%7.1fs avg=%6.1fms\n", k, a[1].Load(), float64(a[0].Load())/1e9, float64(a[0].Load())/1e6/float64(a[1].Load()))
	}
}

// staticReject: payload statements whose plain attacker realm was rejected at deployment (filled by the plain phase).
var staticReject sync.Map

var (
	wmu       sync.Mutex
	wfindings []wfinding
	wrefFail  []string
	wOKSame   []string
)

type wunit struct {
	e  *wprog   // one E program
	rn []*wprog // or a batch of R / N programs sharing one attacker realm
}

func mkUnits(ps []*wprog) []wunit {
	// program order is kept (payload-major, see expand): single E scripts and R/N batches interleave, so a budget-capped
	// run covers every wrapper and every context with the first payloads.
	var us []wunit
	var rn []*wprog
	for _, p := range ps {
		if p.ctx == "E" {
			us = append(us, wunit{e: p})
			continue
		}
		rn = append(rn, p)
		if len(rn) == batchSize {
			us = append(us, wunit{rn: rn})
			rn = nil
		}
	}
	if len(rn) > 0 {
		us = append(us, wunit{rn: rn})
	}
	return us
}

// runWrapped executes the reference programs, then the attack programs.
func runWrapped(all, depth1 []program, only string, show bool, getEnv func() *rx.Env, putEnv func(*rx.Env)) map[string]any {
	ws := wrappers(all, depth1, r.Thorough())
	refs, atks := expand(ws)
	if only != "" {
		var f []*wprog
		for _, p := range atks {
			if strings.Contains(p.label(), only) {
				f = append(f, p)
			}
		}
		atks = f
		need := map[string]bool{}
		for _, p := range atks {
			need[p.refKey] = true
		}
		var fr []*wprog
		for _, p := range refs {
			if need[p.refKey] {
				fr = append(fr, p)
			}
		}
		refs = fr
	}
	var refState sync.Map // refKey -> snap
	var refRefused sync.Map
	var st wstats
	var start snap
	var startOnce sync.Once
	var showMu sync.Mutex

	judge := func(p *wprog, ctxLabel string, res rx.Res, before, after snap) {
		nTx.Add(1)
		r.Eval()
		r.Distinct(fmt.Sprintf("%s|%s|%d|%v", p.ctx, p.label(), p.mode, p.isRef))
		noteState(after)
		if show {
			showMu.Lock()
			fmt.Printf("W %s %-6s ok=%-5v ref=%v %s | %s\n", p.ctx, ctxLabel, res.OK, p.isRef, p.label(), reason(res.Log))
			showMu.Unlock()
		}
		if p.isRef {
			st.refs.Add(1)
			if !res.OK && !strings.HasPrefix(reasonClass(res.Log), "INVALID-PROGRAM") && !strings.HasPrefix(reasonClass(res.Log), "other") {
				// the wrapper itself is refused by the VM (e.g. "illegal conversion" of a victim value to the attacker's type):
				// this route is closed; its payload programs are not run (a change that opens it makes the reference succeed).
				refRefused.Store(p.refKey, true)
				st.refused.Add(1)
				r.Outcome("wrapped reference refused by the VM: " + reasonClass(res.Log) + " (" + p.w.group + ": " + p.w.route + ")")
				return
			}
			if !res.OK || !strings.Contains(res.Data, "OBS:") {
				wmu.Lock()
				wrefFail = append(wrefFail, fmt.Sprintf("%s %s: ok=%v %s", p.ctx, p.label(), res.OK, reason(res.Log)))
				wmu.Unlock()
				r.Outcome("wrapped: REFERENCE FAILED")
				return
			}
			refState.Store(p.refKey, after)
			if len(diff(before, after)) > 0 {
				st.refsChanging.Add(1)
				r.Outcome("wrapped reference (no-op payload): tx ok, victim's own code changed its state")
			} else {
				r.Outcome("wrapped reference (no-op payload): tx ok, victim unchanged")
			}
			return
		}
		st.programs.Add(1)
		g := "wrapped " + p.w.group + ": "
		rv, ok := refState.Load(p.refKey)
		if !ok {
			r.Outcome(g + "skipped (no reference)")
			return
		}
		ref := rv.(snap)
		if !res.OK {
			rc := reasonClass(res.Log)
			if strings.HasPrefix(rc, "INVALID-PROGRAM") {
				mu.Lock()
				invalid = append(invalid, p.ctx+": "+p.label()+": "+reason(res.Log))
				mu.Unlock()
				r.Outcome("invalid-program")
				return
			}
			r.Outcome(g + "aborted: " + rc)
			if d := diff(before, after); len(d) > 0 {
				addFinding(fmt.Sprintf("aborted-tx-changed-victim:%s:%s", p.ctx, p.label()), map[string]any{"program": p.body, "changes": d})
			}
			return
		}
		d := diff(ref, after)
		if p.w.allowed {
			if len(d) > 0 {
				r.Outcome(g + "by design (victim itself calls /p/ code): changed")
			} else {
				r.Outcome(g + "by design (victim itself calls /p/ code): unchanged")
			}
			return
		}
		obs := strings.Contains(res.Data, "C07-OBS-DIFF")
		mk := func(kind string) wfinding {
			return wfinding{kind: kind, group: p.w.group, route: p.w.route, carrier: p.w.carrier, ctx: p.ctx, mode: p.mode, hasMode: p.w.modes > 0,
				handed: p.w.handed, payload: p.pl.label(), ptype: typName[p.pl.t], program: p.decls + "\n" + p.body, changes: d}
		}
		if obs {
			r.Outcome(g + "VIOLATION victim's Dump() differs after the recovered write")
			wmu.Lock()
			wfindings = append(wfindings, mk("victim-in-memory-state-changed"))
			wmu.Unlock()
		}
		if len(d) > 0 {
			r.Outcome(g + "VIOLATION victim state differs from the no-op reference")
			wmu.Lock()
			wfindings = append(wfindings, mk("victim-state-changed"))
			wmu.Unlock()
			return
		}
		if !obs {
			st.txOKSame.Add(1)
			r.Outcome(g + "tx ok, same as reference")
			wmu.Lock()
			wOKSame = append(wOKSame, p.ctx+" "+p.label())
			wmu.Unlock()
		}
	}

	runUnit := func(uidx int, u wunit) {
		e := getEnv()
		defer putEnv(e)
		startOnce.Do(func() { start = snapshot(e, victimPath) })
		before := start
		if u.e != nil {
			pop := e.Push()
			res := timed("E "+u.e.w.group, func() rx.Res { return e.Run(u.e.script()) })
			judge(u.e, "run", res, before, snapshot(e, victimPath))
			pop()
			return
		}
		call := func(path string, p *wprog) {
			pop := e.Push()
			var res rx.Res
			if p.ctx == "N" {
				res = timed("N "+p.w.group, func() rx.Res { return e.Run(ncScript(path, p)) })
			} else {
				res = timed("R call "+p.w.group, func() rx.Res { return e.Call(path, p.fn) })
			}
			var sn snap
			timed("snapshot", func() rx.Res { sn = snapshot(e, victimPath); return rx.Res{} })
			judge(p, "call", res, before, sn)
			pop()
		}
		tag := "a"
		if u.rn[0].isRef {
			tag = "r"
		}
		// One attacker realm for the whole batch. A program that is rejected at deployment (preprocess-time checks)
		// is located through the error position, deployed on its own (rejection = abort) and removed from the batch.
		var batch []*wprog
		for i, p := range u.rn {
			if _, rej := staticReject.Load(p.pl.code); rej && !p.isRef {
				// the same statement was rejected at deployment in the plain attacker realm: expect the same here
				// (if it deploys after all it is called and judged like any other program)
				single(e, uidx, 200+i, tag, p, before, judge, call)
				continue
			}
			batch = append(batch, p)
		}
		for try := 0; len(batch) > 0; try++ {
			pop := e.Push()
			pkg := fmt.Sprintf("wb%s%dx%d", tag, uidx, try)
			path := "gno.land/r/verif/" + pkg
			src := batchRealm(pkg, batch)
			dep := timed("R batch deploy", func() rx.Res { return e.AddPkg(path, map[string]string{"atk.gno": src}) })
			nTx.Add(1)
			if dep.OK {
				for _, p := range batch {
					call(path, p)
				}
				pop()
				return
			}
			pop()
			st.deployFallbacks.Add(1)
			bad := culprit(src, dep.Log, batch)
			if bad < 0 {
				break
			}
			single(e, uidx, try, tag, batch[bad], before, judge, call)
			batch = append(append([]*wprog{}, batch[:bad]...), batch[bad+1:]...)
		}
		for i, p := range batch {
			single(e, uidx, 100+i, tag, p, before, judge, call)
		}
	}

	ru := mkUnits(refs)
	r.ParFor(len(ru), func(i int) { runUnit(i, ru[i]) })
	{
		var f []*wprog
		for _, p := range atks {
			if _, no := refRefused.Load(p.refKey); no {
				st.notRun.Add(1)
				continue
			}
			f = append(f, p)
		}
		atks = f
	}
	au := mkUnits(atks)
	r.ParFor(len(au), func(i int) { runUnit(i, au[i]) })

	for _, f := range aggregateWrapped(wfindings) {
		findings = append(findings, f)
	}
	sort.Strings(wrefFail)
	for _, s := range wrefFail {
		fmt.Println("REFERENCE-FAILED:", s)
	}
	if show {
		sort.Strings(wOKSame)
		for _, s := range wOKSame {
			fmt.Println("WRAPPED-OK-SAME-AS-REFERENCE:", s)
		}
	}
	if show || os.Getenv("C07_TIMES") != "" {
		printTimes()
	}
	perGroup := map[string]int{}
	for _, p := range atks {
		perGroup[p.w.group+"/"+p.ctx]++
	}
	fmt.Printf("wrapped: wrappers=%d references=%d (changing victim state=%d, failed=%d) programs=%d judged=%d (+%d not run: wrapper refused) batch-redeploys=%d ok-same-as-reference=%d per group/context=%v\n",
		len(ws), len(refs), st.refsChanging.Load(), len(wrefFail), len(atks), st.programs.Load(), st.notRun.Load(), st.deployFallbacks.Load(), st.txOKSame.Load(), perGroup)
	return map[string]any{"wrappers": len(ws), "wrapped_references": len(refs), "wrapped_references_where_victim_stores_fresh_objects_or_touches": st.refsChanging.Load(),
		"wrapped_reference_failures": len(wrefFail), "wrapped_programs": len(atks), "wrapped_programs_judged": st.programs.Load(), "wrapped_programs_per_group_context": perGroup,
		"wrapped_tx_ok_same_as_reference": st.txOKSame.Load(),
		"wrappers_refused_by_vm":          st.refused.Load(), "wrapped_programs_not_run_wrapper_refused": st.notRun.Load(), "wrapped_batch_redeploys": st.deployFallbacks.Load()}
}

// single deploys one program in its own attacker realm.
func single(e *rx.Env, uidx, n int, tag string, p *wprog, before snap, judge func(*wprog, string, rx.Res, snap, snap), call func(string, *wprog)) {
	pop := e.Push()
	pkg := fmt.Sprintf("ws%s%dx%d", tag, uidx, n)
	path := "gno.land/r/verif/" + pkg
	dep := timed("R single deploy", func() rx.Res { return e.AddPkg(path, map[string]string{"atk.gno": batchRealm(pkg, []*wprog{p})}) })
	nTx.Add(1)
	if !dep.OK {
		judge(p, "deploy", dep, before, snapshot(e, victimPath))
	} else {
		call(path, p)
	}
	pop()
}

var posRe = regexp.MustCompile(`atk\.gno:(\d+):`)

// culprit maps the first source position of a deployment error to the program of the batch whose text contains it.
func culprit(src, log string, batch []*wprog) int {
	m := posRe.FindStringSubmatch(log)
	if m == nil {
		return -1
	}
	line, _ := strconv.Atoi(m[1])
	lines := strings.Split(src, "\n")
	if line < 1 || line > len(lines) {
		return -1
	}
	// walk back to the enclosing top-level declaration carrying the program's suffix
	for l := line - 1; l >= 0; l-- {
		t := lines[l]
		if strings.HasPrefix(t, "func ") || strings.HasPrefix(t, "type ") {
			for i, p := range batch {
				sfx := fmt.Sprintf("_%d", p.uid)
				if strings.Contains(t, sfx+"(") || strings.Contains(t, sfx+" ") || strings.Contains(t, sfx+")") {
					return i
				}
			}
			return -1
		}
	}
	return -1
}
