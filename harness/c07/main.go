// C07: a realm's persisted state changes only under that realm's authority.
//
// Victim realm V: one exported variable of each kind (int, declared int, struct, *struct, arrays, slices, maps,
// closure, interface, /p/-declared struct and pointer) and getters returning pointer/slice/map aliases; no
// mutating function on these paths. Attacker programs are generated type-directed (gen.go): base (variable,
// getter result, local alias, interface round trip) x selector chain (depth <= 1 quick / 2 thorough) x write form
// (=, op=, ++, through &x, deferred, inside a closure, tuple swap, append within capacity, append-then-index,
// copy, delete, insert, range writes, passing the alias to an attacker function or to a /p/ top-level helper,
// whole-variable assignment, ...) x context (MsgRun script; another realm's crossing function called by MsgCall;
// another realm's non-crossing function called from a MsgRun). Plus: constructing victim-declared types outside
// the victim, and persisting realm values.
// Oracle: the tx aborted, or every persisted object under the victim's package id is unchanged once the
// bookkeeping fields (RefCount, OwnerID, IsEscaped, ModTime, Hash, LastObjectSize, RefValue.Hash) are masked
// and no object appeared/disappeared. Writes the interrealm specification ALLOWS (victim-minted closure,
// /p/ method on a victim-owned receiver) are controls: they must succeed and change the state.
// Non-vacuity: every write statement is also compiled into a copy of the victim ("ctl" realm) where it must
// succeed and change that copy's state — so an abort in the attacker contexts is due to authority, not to an
// ill-formed program.
package main

import (
	_ "embed"
	"encoding/json"
	"flag"
	"fmt"
	"runtime/debug"
	"sort"
	"strings"
	"sync"
	"sync/atomic"
	"time"

	"verif/engine/vk"
	"verif/harness/c03/rx"
)

//go:embed victim.gno.txt
var victimSrc string

//go:embed victim_extra.gno.txt
var victimExtraSrc string

//go:embed ptypes.gno.txt
var ptypesSrc string

//go:embed alib.gno.txt
var alibSrc string

const (
	victimPath = "gno.land/r/verif/victim"
	ptypesPath = "gno.land/p/verif/ptypes"
	alibPath   = "gno.land/p/verif/alib" // attacker-authored /p/ library
)

var r *vk.Run

// masked canonical form of one stored object
var maskCache sync.Map

func masked(v string) string {
	if c, ok := maskCache.Load(v); ok {
		return c.(string)
	}
	js, err := rx.ObjJSON(v)
	out := ""
	if err != nil {
		out = "UNDECODABLE:" + err.Error()
	} else {
		var x any
		json.Unmarshal([]byte(js), &x)
		var walk func(v any) any
		walk = func(v any) any {
			switch t := v.(type) {
			case map[string]any:
				if t["@type"] == "/gno.RefValue" {
					delete(t, "Hash")
				}
				if oi, ok := t["ObjectInfo"].(map[string]any); ok {
					t["ObjectInfo"] = map[string]any{"ID": oi["ID"]}
				}
				for k, e := range t {
					t[k] = walk(e)
				}
			case []any:
				for i, e := range t {
					t[i] = walk(e)
				}
			}
			return v
		}
		b, _ := json.Marshal(walk(x))
		out = string(b)
	}
	maskCache.Store(v, out)
	return out
}

type snap map[string]string

func snapshot(e *rx.Env, path string) snap {
	s := snap{}
	for id, v := range e.Objects(path) {
		s[id] = masked(v)
	}
	return s
}

// diff lists changed / new / deleted object ids.
func diff(a, b snap) []string {
	var d []string
	for k, v := range a {
		if w, ok := b[k]; !ok {
			d = append(d, "deleted "+short(k))
		} else if v != w {
			d = append(d, "changed "+short(k))
		}
	}
	for k := range b {
		if _, ok := a[k]; !ok {
			d = append(d, "new "+short(k))
		}
	}
	sort.Strings(d)
	return d
}

func short(id string) string {
	if i := strings.IndexByte(id, ':'); i >= 0 {
		return id[i:]
	}
	return id
}

func reason(log string) string {
	l := log
	if i := strings.Index(l, "VM panic: "); i >= 0 {
		l = l[i+len("VM panic: "):]
	} else if i := strings.Index(l, "Data: "); i >= 0 {
		l = l[i+6:]
	}
	if i := strings.IndexByte(l, '\n'); i >= 0 {
		l = l[:i]
	}
	// strip the source position prefix
	if i := strings.Index(l, ".gno:"); i >= 0 {
		if j := strings.Index(l[i:], ": "); j >= 0 {
			l = l[i+j+2:]
		}
	}
	if len(l) > 140 {
		l = l[:140]
	}
	return l
}

func reasonClass(log string) string {
	for _, k := range []string{"cannot directly mutate", "readonly", "cannot allocate", "illegal conversion", "cannot persist realm", "realm values are ephemeral", "is immutable post-init",
		"cannot assign", "invariant violation", "unexpected unreal object", "out of gas", "nil pointer", "index out of range"} {
		if strings.Contains(log, k) {
			return k
		}
	}
	for _, k := range []string{"typecheck", "undefined", "not declared", "cannot use", "mismatched types", "declared and not used", "invalid operation", "expected", "syntax"} {
		if strings.Contains(log, k) {
			return "INVALID-PROGRAM(" + k + ")"
		}
	}
	return "other: " + reason(log)
}

var (
	nTx      atomic.Int64
	states   sync.Map
	nStates  atomic.Int64
	mu       sync.Mutex
	invalid  []string
	ctlNoChg []string
)

type finding struct {
	key    string
	detail map[string]any
}

var findings []finding

// addFinding aggregates per key: the contexts in which the same program misbehaves are listed in one violation.
func addFinding(key string, detail map[string]any) {
	mu.Lock()
	defer mu.Unlock()
	for i := range findings {
		if findings[i].key == key {
			if c, ok := detail["context"].(string); ok {
				cs, _ := findings[i].detail["contexts"].([]string)
				if !contains(cs, c) {
					cs = append(cs, c)
				}
				sort.Strings(cs)
				findings[i].detail["contexts"] = cs
			}
			if pp, ok := detail["programs_that_got_through"].([]string); ok {
				ps, _ := findings[i].detail["programs_that_got_through"].([]string)
				for _, x := range pp {
					if !contains(ps, x) {
						ps = append(ps, x)
					}
				}
				sort.Strings(ps)
				findings[i].detail["programs_that_got_through"] = ps
			}
			return
		}
	}
	if c, ok := detail["context"].(string); ok {
		detail["contexts"] = []string{c}
		delete(detail, "context")
	}
	findings = append(findings, finding{key, detail})
}

func contains(l []string, s string) bool {
	for _, x := range l {
		if x == s {
			return true
		}
	}
	return false
}

func noteState(s snap) {
	ks := make([]string, 0, len(s))
	for k := range s {
		ks = append(ks, k)
	}
	sort.Strings(ks)
	var b strings.Builder
	for _, k := range ks {
		b.WriteString(k)
		b.WriteString(s[k])
	}
	if _, loaded := states.LoadOrStore(b.String(), true); !loaded {
		nStates.Add(1)
	}
}

// evaluate one attacker transaction result.
func judge(p program, ctx string, res rx.Res, before, after snap, e *rx.Env, g *rx.GraphChecker) {
	nTx.Add(1)
	r.Eval()
	r.Distinct(fmt.Sprintf("%s|%s", ctx, p.code))
	noteState(after)
	d := diff(before, after)
	det := func() map[string]any {
		return map[string]any{"context": ctx, "access_path": p.path, "write_form": p.form, "program": p.code, "tx_ok": res.OK, "tx_log": reason(res.Log), "victim_object_changes": d}
	}
	if !res.OK {
		rc := reasonClass(res.Log)
		if strings.HasPrefix(rc, "INVALID-PROGRAM") {
			mu.Lock()
			invalid = append(invalid, ctx+": "+p.label()+": "+reason(res.Log))
			mu.Unlock()
			r.Outcome("invalid-program")
			return
		}
		r.Outcome("aborted: " + rc)
		if len(d) > 0 {
			addFinding(fmt.Sprintf("aborted-tx-changed-victim:%s:%s", ctx, p.label()), det())
		}
		return
	}
	switch p.kind {
	case "persist-realm":
		r.Outcome("VIOLATION persist-realm succeeded")
		addFinding("realm-value-persisted:"+p.form, det())
		return
	case "construct":
		if len(d) > 0 {
			r.Outcome("construct: tx ok, victim id-space changed")
			addFinding("victim-typed-object-created-outside-victim:"+p.form, det())
		} else {
			r.Outcome("construct: tx ok, nothing under the victim's id (" + p.form + ")")
		}
		return
	}
	if p.allowed {
		if len(d) > 0 {
			r.Outcome("allowed-by-spec: changed")
		} else {
			r.Outcome("allowed-by-spec: tx ok but unchanged")
		}
		return
	}
	if len(d) > 0 {
		r.Outcome("VIOLATION forbidden write changed the victim")
		if p.class != "" {
			dd := det()
			dd["programs_that_got_through"] = []string{p.form}
			addFinding("victim-state-changed:"+p.class, dd)
			return
		}
		addFinding("victim-state-changed:"+p.label(), det())
		return
	}
	r.Outcome("tx ok, victim unchanged")
}

func basePkgs() []rx.Pkg {
	return []rx.Pkg{
		{Path: ptypesPath, Files: map[string]string{"ptypes.gno": ptypesSrc}},
		{Path: victimPath, Files: map[string]string{"victim.gno": victimSrc, "victim_extra.gno": victimExtraSrc}},
		{Path: alibPath, Files: map[string]string{"alib.gno": alibSrc}},
	}
}

func main() {
	depthF := flag.Int("depth", 0, "selector chain depth (default 1 quick / 2 thorough)")
	only := flag.String("only", "", "substring filter on program labels")
	show := flag.Bool("show", false, "print every program outcome")
	dump := flag.Bool("dump", false, "print the attacker realm's objects and new victim objects after the crossing call")
	gcp := flag.Int("gc", 30, "GC percent")
	noplain := flag.Bool("noplain", false, "diagnostics: skip the plain (unwrapped) programs")
	nowrap := flag.Bool("nowrap", false, "diagnostics: skip the wrapped classes")
	probe := flag.String("probe", "", "diagnostics: run a hand-written scenario file (see probe.go) and exit")
	r = vk.New("exploration")
	debug.SetGCPercent(*gcp)
	if *probe != "" {
		runProbe(*probe)
	}
	r.SetBudget(400*time.Second, 25*time.Minute)
	depth := 1
	if r.Thorough() {
		depth = 2
	}
	if *depthF > 0 {
		depth = *depthF
	}
	progs := allPrograms(depth)
	allProgs := progs
	depth1Progs := progs
	if depth != 1 {
		depth1Progs = allPrograms(1)
	}
	if *noplain {
		progs = nil
	}
	if *only != "" {
		var f []program
		for _, p := range progs {
			if strings.Contains(p.label(), *only) {
				f = append(f, p)
			}
		}
		progs = f
	}
	pkgs := basePkgs()
	envs := make(chan *rx.Env, 64)
	getEnv := func() *rx.Env {
		select {
		case e := <-envs:
			return e
		default:
		}
		e, err := rx.NewEnv(pkgs)
		if err != nil {
			r.HarnessError("env: %v", err)
		}
		return e
	}
	envs <- getEnv()
	var ctlOK, ctlChanged, dumpSeen atomic.Int64
	var dumpBlind []string
	var showMu sync.Mutex
	r.ParFor(len(progs), func(i int) {
		p := progs[i]
		e := getEnv()
		defer func() { envs <- e }()
		g := rx.NewGraphChecker()
		before := snapshot(e, victimPath)
		var lines []string
		note := func(ctx string, res rx.Res, d []string) {
			if *show {
				lines = append(lines, fmt.Sprintf("   %-18s ok=%-5v changes=%v %s", ctx, res.OK, d, reason(res.Log)))
			}
		}
		// context 1: MsgRun script
		if !p.realmOnly {
			pop := e.Push()
			res := e.Run(runScript(p))
			after := snapshot(e, victimPath)
			judge(p, "msgrun", res, before, after, e, g)
			note("msgrun", res, diff(before, after))
			pop()
		}
		// contexts 2 and 3: attacker realm (deployed for this program only)
		{
			pop := e.Push()
			pkg := fmt.Sprintf("atk%d", p.id)
			path := "gno.land/r/verif/" + pkg
			src := atkRealm(p, pkg)
			if p.realmOnly {
				src = atkRealmCrossingOnly(p, pkg)
			}
			dep := e.AddPkg(path, map[string]string{"atk.gno": src})
			afterDep := snapshot(e, victimPath)
			if !dep.OK {
				staticReject.Store(p.code, true)
				judge(p, "realm-deploy", dep, before, afterDep, e, g)
				note("realm-deploy", dep, diff(before, afterDep))
			} else {
				if d := diff(before, afterDep); len(d) > 0 {
					addFinding("deploying-attacker-realm-changed-victim:"+p.label(), map[string]any{"changes": d, "program": p.code})
				}
				pop2 := e.Push()
				t0, _ := e.RealmTime(victimPath)
				rec0, _ := e.C.Get("base", "oid:"+rx.PkgID(victimPath)+":1#realm")
				res := e.Call(path, "Atk")
				after := snapshot(e, victimPath)
				if *dump {
					t1, _ := e.RealmTime(victimPath)
					rec1, _ := e.C.Get("base", "oid:"+rx.PkgID(victimPath)+":1#realm")
					fmt.Printf("victim realm Time %d -> %d ; record %q -> %q\n", t0, t1, rec0, rec1)
					objs := map[string]string{}
					for id, v := range e.Objects(path) {
						objs["oid:"+id] = v
					}
					for id, v := range e.Objects(victimPath) {
						if _, ok := before[id]; !ok {
							objs["oid:"+id] = v
						}
					}
					fmt.Println(rx.DebugObjects(objs))
				}
				judge(p, "realm-crossing", res, before, after, e, g)
				note("realm-crossing", res, diff(before, after))
				if res.OK {
					for _, gi := range g.Check(e, []string{victimPath, path, ptypesPath}) {
						if strings.HasPrefix(gi.Kind, "owner-") {
							r.Outcome("obs: C06 owner staleness after attacker tx")
						} else {
							addFinding("graph-invariant-after-attacker-tx:"+gi.Kind, map[string]any{"program": p.code, "issue": gi.Detail})
						}
					}
				}
				pop2()
				if !p.realmOnly {
					pop3 := e.Push()
					res := e.Run("package main\n\nimport atk \"" + path + "\"\n\nfunc main() {\n\tatk.Nc()\n}\n")
					after := snapshot(e, victimPath)
					judge(p, "realm-noncrossing", res, before, after, e, g)
					note("realm-noncrossing", res, diff(before, after))
					pop3()
				}
			}
			pop()
		}
		// control: the same statement inside a copy of the victim must work and change that copy
		// (a /p/ method on a /p/-stamped global receiver runs with the frozen /p/ realm as storage context: it cannot
		// write the victim even when the victim itself calls it, so that form has no in-victim control)
		if p.kind == "write" && !strings.Contains(p.form, "/p/-global receiver") {
			pop := e.Push()
			path := fmt.Sprintf("gno.land/r/verif/ctl%d", p.id)
			src := strings.Replace(ctlRealm(p, victimSrc), "package ctl", fmt.Sprintf("package ctl%d", p.id), 1)
			dep := e.AddPkg(path, map[string]string{"ctl.gno": src})
			nTx.Add(1)
			if !dep.OK {
				mu.Lock()
				invalid = append(invalid, "ctl-deploy: "+p.label()+": "+reason(dep.Log))
				mu.Unlock()
				r.Outcome("invalid-program")
			} else {
				b := snapshot(e, path)
				res := e.Call(path, "Ctl")
				nTx.Add(1)
				a := snapshot(e, path)
				d := diff(b, a)
				note("control(in-victim)", res, d)
				if res.OK {
					ctlOK.Add(1)
				}
				if res.OK {
					if strings.Contains(res.Data, "SEEN") {
						dumpSeen.Add(1)
					} else {
						mu.Lock()
						dumpBlind = append(dumpBlind, p.label())
						mu.Unlock()
					}
				}
				if res.OK && len(d) > 0 {
					ctlChanged.Add(1)
					r.Outcome("control: same statement with the victim's own authority changes the state")
				} else {
					mu.Lock()
					ctlNoChg = append(ctlNoChg, fmt.Sprintf("%s: ok=%v %s", p.label(), res.OK, reason(res.Log)))
					mu.Unlock()
					r.Outcome("control: no change / failed")
				}
			}
			pop()
		}
		if *show {
			showMu.Lock()
			fmt.Printf("[%d] %s   {%s}\n%s\n", p.id, p.label(), strings.ReplaceAll(p.code, "\n", "; "), strings.Join(lines, "\n"))
			showMu.Unlock()
		}
	})
	wcov := map[string]any{}
	if !*nowrap {
		wcov = runWrapped(allProgs, depth1Progs, *only, *show, getEnv, func(e *rx.Env) { envs <- e })
	}
	sort.Slice(findings, func(i, j int) bool { return findings[i].key < findings[j].key })
	for _, f := range findings {
		fmt.Println("FINDING:", f.key) // complete list (vk prints only the first 20 VIOLATION lines)
		r.Violation(f.key, f.detail)
	}
	sort.Strings(invalid)
	sort.Strings(ctlNoChg)
	for _, s := range invalid {
		fmt.Println("INVALID-PROGRAM:", s)
	}
	for _, s := range ctlNoChg {
		fmt.Println("CONTROL-WITHOUT-EFFECT:", s)
	}
	sort.Strings(dumpBlind)
	for _, s := range dumpBlind {
		fmt.Println("DUMP-BLIND (the victim's Dump() does not show this write; persisted-state comparison still covers it):", s)
	}
	nw := 0
	for _, p := range progs {
		if p.kind == "write" {
			nw++
		}
	}
	fmt.Printf("programs=%d (write=%d) txs=%d controls ok=%d changed=%d invalid=%d\n", len(progs), nw, nTx.Load(), ctlOK.Load(), ctlChanged.Load(), len(invalid))
	if len(progs) > 0 {
		r.Sample(map[string]any{"program": progs[0].code, "label": progs[0].label()})
		r.Sample(map[string]any{"program": progs[len(progs)/2].code, "label": progs[len(progs)/2].label()})
	}
	r.Assumptions = []string{
		"victim state = every persisted object under the victim's package id, bookkeeping fields masked",
		"writes the interrealm specification allows (victim-minted closure, /p/ method on a victim-owned receiver incl. method value/expression) are controls, not attacks",
	}
	cov := map[string]any{
		"programs": len(progs), "write_programs": nw, "transactions": nTx.Load(), "distinct_victim_states_seen": nStates.Load(), "chain_depth": depth,
		"controls_changed_state": ctlChanged.Load(), "invalid_programs": len(invalid), "controls_without_effect": len(ctlNoChg),
		"controls_seen_by_victim_dump": dumpSeen.Load(), "controls_not_seen_by_victim_dump": len(dumpBlind),
	}
	for k, v := range wcov {
		cov[k] = v
	}
	r.Finish("every generated attacker program (base x selector chain x write form) in 3 contexts + control inside a victim copy; every wrapper (recover / callback / hand-out / type pun) x payload x context against its no-op reference", !r.Capped(), cov)
}
