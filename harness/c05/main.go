// C05: GnoVM's software floating point (gnovm/pkg/gnolang/internal/softfloat) is bit-exact IEEE-754.
//
// Enumeration (no sampling):
//
//	U  exhaustive sweep of all 2^32 float32 bit patterns (and all int32/uint32) through every unary
//	   operation and conversion;
//	B  full product S×S of a structured operand set (every exponent × 9 mantissa patterns × sign) through
//	   every binary operation and comparison, at 32 and 64 bits;
//	T  constructed float32 rounding-tie families for the float32-via-float64 paths (mul, div);
//	I  int<->float conversions over the integer lattice {±2^k ± 2^j ± 2^l + d} and its float neighbourhood;
//	R  second, independent reference: math/big (exact arithmetic, single final rounding) + a hand-written
//	   IEEE special-value table on sub-products of B and on all of I.
//
// Oracle: the native amd64 SSE2 result (IEEE-754 RNE) bit-for-bit, NaN compared by NaN-ness only; math/big
// for R. Float-to-integer conversions are compared only when the truncated value is representable.
package main

import (
	"encoding/json"
	"fmt"
	"math"
	"math/big"
	"math/bits"
	"os"
	"sort"
	"strconv"
	"strings"
	"sync"
	"sync/atomic"
	"time"

	gno "github.com/gnolang/gno/gnovm/pkg/gnolang"
	"verif/engine/vk"
)

var r *vk.Run

// ---------------------------------------------------------------------------------------------
// failure tracking: one tracker per checked operation; the reported key is the minimal failing input
// (deterministic when the enumeration completes).

type tracker struct {
	name  string
	fails atomic.Int64
	minA  atomic.Uint64
	mu    sync.Mutex
	has   bool
	a, b  uint64
	got   string
	want  string
	arity int
}

var (
	trkMu sync.Mutex
	trks  = map[string]*tracker{}
)

func tk(name string, arity int) *tracker {
	trkMu.Lock()
	defer trkMu.Unlock()
	t := trks[name]
	if t == nil {
		t = &tracker{name: name, arity: arity}
		t.minA.Store(math.MaxUint64)
		trks[name] = t
	}
	return t
}

func (t *tracker) fail(a, b uint64, got, want any) {
	t.fails.Add(1)
	if a > t.minA.Load() {
		return
	}
	t.mu.Lock()
	if !t.has || a < t.a || (a == t.a && b < t.b) {
		t.has, t.a, t.b = true, a, b
		t.got, t.want = fmt.Sprintf("%#x", got), fmt.Sprintf("%#x", want)
		if bv, ok := got.(bool); ok {
			t.got, t.want = fmt.Sprint(bv), fmt.Sprint(want)
		}
		t.minA.Store(a)
	}
	t.mu.Unlock()
}

func reportTrackers() {
	var names []string
	for n := range trks {
		names = append(names, n)
	}
	sort.Strings(names)
	for _, n := range names {
		t := trks[n]
		if t.fails.Load() == 0 {
			continue
		}
		var key string
		if t.arity == 1 {
			key = fmt.Sprintf("%s(%#x)", t.name, t.a)
		} else {
			key = fmt.Sprintf("%s(%#x,%#x)", t.name, t.a, t.b)
		}
		r.Violation(key, map[string]any{"op": t.name, "a": fmt.Sprintf("%#x", t.a), "b": fmt.Sprintf("%#x", t.b),
			"got": t.got, "want": t.want, "failing_inputs": t.fails.Load(),
			"note": "minimal failing input of this operation; a/b are IEEE bit patterns (or integer bits for int->float)"})
	}
}

// ---------------------------------------------------------------------------------------------
// classification (outcome histogram)

const (
	cZero = iota
	cSub
	cNorm
	cInf
	cNaN
	nCls
)

var clsName = [nCls]string{"zero", "subnormal", "normal", "inf", "nan"}

func cls64(b uint64) int {
	e := (b >> 52) & 0x7ff
	m := b & (1<<52 - 1)
	switch {
	case e == 0x7ff && m != 0:
		return cNaN
	case e == 0x7ff:
		return cInf
	case e == 0 && m == 0:
		return cZero
	case e == 0:
		return cSub
	}
	return cNorm
}

func cls32(b uint32) int {
	e := (b >> 23) & 0xff
	m := b & (1<<23 - 1)
	switch {
	case e == 0xff && m != 0:
		return cNaN
	case e == 0xff:
		return cInf
	case e == 0 && m == 0:
		return cZero
	case e == 0:
		return cSub
	}
	return cNorm
}

func isNaN64(b uint64) bool { return b&0x7ff0000000000000 == 0x7ff0000000000000 && b&(1<<52-1) != 0 }
func isNaN32(b uint32) bool { return b&0x7f800000 == 0x7f800000 && b&(1<<23-1) != 0 }

func same64(got, want uint64) bool { return got == want || (isNaN64(got) && isNaN64(want)) }
func same32(got, want uint32) bool { return got == want || (isNaN32(got) && isNaN32(want)) }

type hist struct{ m map[string]*[nCls]int64 }

func (h *hist) add(op string, c int) {
	a := h.m[op]
	if a == nil {
		a = new([nCls]int64)
		h.m[op] = a
	}
	a[c]++
}

func (h *hist) merge(o *hist) {
	for op, arr := range o.m {
		t := h.m[op]
		if t == nil {
			t = new([nCls]int64)
			h.m[op] = t
		}
		for c, n := range arr {
			t[c] += n
		}
	}
}

func (h *hist) flush(label string) {
	for op, arr := range h.m {
		for c, n := range arr {
			if n > 0 {
				r.OutcomeN(label+"."+op+"."+clsName[c], n)
			}
		}
	}
}

func newHist() hist { return hist{m: map[string]*[nCls]int64{}} }

// ---------------------------------------------------------------------------------------------
// U: exhaustive 2^32 sweep

var sweepChunksDone atomic.Int64

func sweep32() {
	const chunkBits = 18
	nchunks := 1 << (32 - chunkBits)
	tNeg := tk("Fneg32", 1)
	tTo64 := tk("F32to64", 1)
	tRT := tk("F64to32(F32to64)", 1)
	tI32 := tk("F32toint32", 1)
	tI64 := tk("F32toint64", 1)
	tU64 := tk("F32touint64", 1)
	tEq := tk("Feq32(x,x)", 1)
	tCmpNeg := tk("Flt32/Fgt32(x,-x)", 1)
	tI2F32 := tk("Fint32to32", 1)
	tI2F64 := tk("Fint32to64", 1)
	tU2F32 := tk("Fuint64to32(uint32)", 1)
	tU2F64 := tk("Fuint64to64(uint32)", 1)
	tNeg64 := tk("Fneg64(F32to64)", 1)
	full := r.Thorough() // quick drops the checks that SxS / the lattice already cover (diagonal compares, uint32->float, neg64)
	nops := int64(9)
	if full {
		nops = 14
	}
	r.ParFor(nchunks, func(c int) {
		// bit-reversed chunk order: any prefix of the sweep (budget cap) is spread over the whole range
		c = int(bits.Reverse32(uint32(c)) >> chunkBits)
		base := uint32(c) << chunkBits
		var cl [nCls]int64
		var inr32, inr64, inru64 int64
		for k := uint32(0); k < 1<<chunkBits; k++ {
			x := base | k
			f := math.Float32frombits(x)
			d := float64(f)
			nan := f != f
			cl[cls32(x)]++
			// negation
			if g := gno.VerifFneg32(x); !same32(g, math.Float32bits(-f)) {
				tNeg.fail(uint64(x), 0, g, math.Float32bits(-f))
			}
			// widening, and narrowing back
			w := gno.VerifF32to64(x)
			if !same64(w, math.Float64bits(d)) {
				tTo64.fail(uint64(x), 0, w, math.Float64bits(d))
			}
			if full {
				if g := gno.VerifFneg64(w); !same64(g, math.Float64bits(-d)) {
					tNeg64.fail(uint64(x), 0, g, math.Float64bits(-d))
				}
				if g := gno.VerifFeq32(x, x); g != (f == f) {
					tEq.fail(uint64(x), 0, g, f == f)
				}
				nx := x ^ 0x80000000
				nf := -f
				if gl, gg := gno.VerifFlt32(x, nx), gno.VerifFgt32(x, nx); gl != (f < nf) || gg != (f > nf) {
					tCmpNeg.fail(uint64(x), 0, gl, f < nf)
				}
				if g := gno.VerifFuint64to32(uint64(x)); g != math.Float32bits(float32(x)) {
					tU2F32.fail(uint64(x), 0, g, math.Float32bits(float32(x)))
				}
				if g := gno.VerifFuint64to64(uint64(x)); g != math.Float64bits(float64(x)) {
					tU2F64.fail(uint64(x), 0, g, math.Float64bits(float64(x)))
				}
			}
			if g := gno.VerifF64to32(w); !same32(g, x) {
				tRT.fail(uint64(x), 0, g, x)
			}
			// float -> integer, only where the truncated value is representable
			if !nan {
				if d > -2147483649 && d < 2147483648 {
					inr32++
					if g := gno.VerifF32toint32(x); g != int32(f) {
						tI32.fail(uint64(x), 0, uint32(g), uint32(int32(f)))
					}
				}
				if d >= -9223372036854775808 && d < 9223372036854775808 {
					inr64++
					if g := gno.VerifF32toint64(x); g != int64(f) {
						tI64.fail(uint64(x), 0, uint64(g), uint64(int64(f)))
					}
				}
				if d > -1 && d < 18446744073709551616 {
					inru64++
					if g := gno.VerifF32touint64(x); g != uint64(f) {
						tU64.fail(uint64(x), 0, g, uint64(f))
					}
				}
			}
			// integer -> float: x read as int32 and as uint32
			i := int32(x)
			if g := gno.VerifFint32to32(i); g != math.Float32bits(float32(i)) {
				tI2F32.fail(uint64(x), 0, g, math.Float32bits(float32(i)))
			}
			if g := gno.VerifFint32to64(i); g != math.Float64bits(float64(i)) {
				tI2F64.fail(uint64(x), 0, g, math.Float64bits(float64(i)))
			}
		}
		r.EvalN(nops << chunkBits)
		for i, n := range cl {
			r.OutcomeN("sweep32.input."+clsName[i], n)
		}
		r.OutcomeN("sweep32.toint32.in_range", inr32)
		r.OutcomeN("sweep32.toint64.in_range", inr64)
		r.OutcomeN("sweep32.touint64.in_range", inru64)
		r.Distinct(fmt.Sprintf("sweep32:chunk=%d", c))
		sweepChunksDone.Add(1)
	})
}

// ---------------------------------------------------------------------------------------------
// structured operand sets

func mant64() []uint64 {
	return []uint64{0, 1, 2, 1<<51 - 1, 1 << 51, 1<<51 + 1, 1<<52 - 2, 1<<52 - 1, 0xAAAAAAAAAAAAA}
}
func mant32() []uint32 {
	return []uint32{0, 1, 2, 1<<22 - 1, 1 << 22, 1<<22 + 1, 1<<23 - 2, 1<<23 - 1, 0x2AAAAA}
}

func set64(exps []int, mants []uint64) []uint64 {
	var s []uint64
	for _, sg := range []uint64{0, 1} {
		for _, e := range exps {
			for _, m := range mants {
				s = append(s, sg<<63|uint64(e)<<52|m)
			}
		}
	}
	return s
}

func set32(exps []int, mants []uint32) []uint32 {
	var s []uint32
	for _, sg := range []uint32{0, 1} {
		for _, e := range exps {
			for _, m := range mants {
				s = append(s, sg<<31|uint32(e)<<23|m)
			}
		}
	}
	return s
}

func allExps(n int) []int {
	s := make([]int, n)
	for i := range s {
		s[i] = i
	}
	return s
}

// expSubset: every step-th exponent plus everything within ±near of the bias plus the edge bands.
func expSubset(n, bias, step, near, edge int) []int {
	in := map[int]bool{}
	for e := 0; e < n; e += step {
		in[e] = true
	}
	for e := bias - near; e <= bias+near; e++ {
		if e >= 0 && e < n {
			in[e] = true
		}
	}
	for e := 0; e <= edge; e++ {
		in[e] = true
		in[n-1-e] = true
	}
	var s []int
	for e := range in {
		s = append(s, e)
	}
	sort.Ints(s)
	return s
}

// ---------------------------------------------------------------------------------------------
// B: binary operations, native oracle

func binary64(S []uint64, label string) {
	tAdd, tSub, tMul, tDiv := tk("Fadd64", 2), tk("Fsub64", 2), tk("Fmul64", 2), tk("Fdiv64", 2)
	tEq, tLt, tLe, tGt, tGe, tCmp := tk("Feq64", 2), tk("Flt64", 2), tk("Fle64", 2), tk("Fgt64", 2), tk("Fge64", 2), tk("Fcmp64", 2)
	var hmu sync.Mutex
	total := newHist()
	var cmpTrue, cmpFalse atomic.Int64
	r.ParFor(len(S), func(i int) {
		a := S[i]
		fa := math.Float64frombits(a)
		h := newHist()
		var ct, cf int64
		for _, b := range S {
			fb := math.Float64frombits(b)
			g := gno.VerifFadd64(a, b)
			if w := math.Float64bits(fa + fb); !same64(g, w) {
				tAdd.fail(a, b, g, w)
			}
			h.add("add", cls64(g))
			g = gno.VerifFsub64(a, b)
			if w := math.Float64bits(fa - fb); !same64(g, w) {
				tSub.fail(a, b, g, w)
			}
			h.add("sub", cls64(g))
			g = gno.VerifFmul64(a, b)
			if w := math.Float64bits(fa * fb); !same64(g, w) {
				tMul.fail(a, b, g, w)
			}
			h.add("mul", cls64(g))
			g = gno.VerifFdiv64(a, b)
			if w := math.Float64bits(fa / fb); !same64(g, w) {
				tDiv.fail(a, b, g, w)
			}
			h.add("div", cls64(g))
			if gb := gno.VerifFeq64(a, b); gb != (fa == fb) {
				tEq.fail(a, b, gb, fa == fb)
			} else if gb {
				ct++
			} else {
				cf++
			}
			if gb := gno.VerifFlt64(a, b); gb != (fa < fb) {
				tLt.fail(a, b, gb, fa < fb)
			}
			if gb := gno.VerifFle64(a, b); gb != (fa <= fb) {
				tLe.fail(a, b, gb, fa <= fb)
			}
			if gb := gno.VerifFgt64(a, b); gb != (fa > fb) {
				tGt.fail(a, b, gb, fa > fb)
			}
			if gb := gno.VerifFge64(a, b); gb != (fa >= fb) {
				tGe.fail(a, b, gb, fa >= fb)
			}
			c, n := gno.VerifFcmp64(a, b)
			wn := fa != fa || fb != fb
			var wc int32
			if !wn {
				if fa < fb {
					wc = -1
				} else if fa > fb {
					wc = 1
				}
			}
			if n != wn || (!wn && sgn(c) != wc) {
				tCmp.fail(a, b, uint32(c), uint32(wc))
			}
		}
		r.EvalN(int64(10 * len(S)))
		r.Distinct(fmt.Sprintf("%s:a=%#x", label, a))
		cmpTrue.Add(ct)
		cmpFalse.Add(cf)
		hmu.Lock()
		total.merge(&h)
		hmu.Unlock()
	})
	total.flush(label)
	r.OutcomeN(label+".eq.true", cmpTrue.Load())
	r.OutcomeN(label+".eq.false", cmpFalse.Load())
}

func sgn(c int32) int32 {
	if c < 0 {
		return -1
	}
	if c > 0 {
		return 1
	}
	return 0
}

func binary32(S []uint32, label string) {
	tAdd, tSub, tMul, tDiv := tk("Fadd32", 2), tk("Fsub32", 2), tk("Fmul32", 2), tk("Fdiv32", 2)
	tEq, tLt, tLe, tGt, tGe := tk("Feq32", 2), tk("Flt32", 2), tk("Fle32", 2), tk("Fgt32", 2), tk("Fge32", 2)
	var hmu sync.Mutex
	total := newHist()
	var cmpTrue, cmpFalse atomic.Int64
	r.ParFor(len(S), func(i int) {
		a := S[i]
		fa := math.Float32frombits(a)
		h := newHist()
		var ct, cf int64
		for _, b := range S {
			fb := math.Float32frombits(b)
			check32(a, b, fa, fb, tAdd, tSub, tMul, tDiv, &h)
			if gb := gno.VerifFeq32(a, b); gb != (fa == fb) {
				tEq.fail(uint64(a), uint64(b), gb, fa == fb)
			} else if gb {
				ct++
			} else {
				cf++
			}
			if gb := gno.VerifFlt32(a, b); gb != (fa < fb) {
				tLt.fail(uint64(a), uint64(b), gb, fa < fb)
			}
			if gb := gno.VerifFle32(a, b); gb != (fa <= fb) {
				tLe.fail(uint64(a), uint64(b), gb, fa <= fb)
			}
			if gb := gno.VerifFgt32(a, b); gb != (fa > fb) {
				tGt.fail(uint64(a), uint64(b), gb, fa > fb)
			}
			if gb := gno.VerifFge32(a, b); gb != (fa >= fb) {
				tGe.fail(uint64(a), uint64(b), gb, fa >= fb)
			}
		}
		r.EvalN(int64(9 * len(S)))
		r.Distinct(fmt.Sprintf("%s:a=%#x", label, a))
		cmpTrue.Add(ct)
		cmpFalse.Add(cf)
		hmu.Lock()
		total.merge(&h)
		hmu.Unlock()
	})
	total.flush(label)
	r.OutcomeN(label+".eq.true", cmpTrue.Load())
	r.OutcomeN(label+".eq.false", cmpFalse.Load())
}

//go:noinline
func nat32(fa, fb float32) (s, d, p, q float32) { return fa + fb, fa - fb, fa * fb, fa / fb }

func check32(a, b uint32, fa, fb float32, tAdd, tSub, tMul, tDiv *tracker, h *hist) {
	ws, wd, wp, wq := nat32(fa, fb)
	g := gno.VerifFadd32(a, b)
	if w := math.Float32bits(ws); !same32(g, w) {
		tAdd.fail(uint64(a), uint64(b), g, w)
	}
	h.add("add", cls32(g))
	g = gno.VerifFsub32(a, b)
	if w := math.Float32bits(wd); !same32(g, w) {
		tSub.fail(uint64(a), uint64(b), g, w)
	}
	h.add("sub", cls32(g))
	g = gno.VerifFmul32(a, b)
	if w := math.Float32bits(wp); !same32(g, w) {
		tMul.fail(uint64(a), uint64(b), g, w)
	}
	h.add("mul", cls32(g))
	g = gno.VerifFdiv32(a, b)
	if w := math.Float32bits(wq); !same32(g, w) {
		tDiv.fail(uint64(a), uint64(b), g, w)
	}
	h.add("div", cls32(g))
}

// ---------------------------------------------------------------------------------------------
// T: constructed float32 rounding ties (double-rounding targets of the float32-via-float64 paths)

// mkf32 builds the float32 n*2^e exactly (n < 2^24, result must be representable); ok=false otherwise.
func mkf32(n uint64, e int) (uint32, bool) {
	if n == 0 || n >= 1<<24 {
		return 0, false
	}
	f := math.Ldexp(float64(n), e)
	g := float32(f)
	if float64(g) != f || math.IsInf(float64(g), 0) {
		return 0, false
	}
	return math.Float32bits(g), true
}

func ties32() {
	tAdd, tSub, tMul, tDiv := tk("Fadd32", 2), tk("Fsub32", 2), tk("Fmul32", 2), tk("Fdiv32", 2)
	h := newHist()
	var hmu sync.Mutex
	var nPairs, nTies atomic.Int64
	nb := func(x uint32) []uint32 { return []uint32{x, x + 1, x - 1} }
	// odd multiplier menu: all odd < 2^9, plus structured wider ones
	var small []uint64
	for n := uint64(1); n < 1<<9; n += 2 {
		small = append(small, n)
	}
	wide := func(bitsWanted int) []uint64 {
		if bitsWanted < 2 {
			return []uint64{1}
		}
		lo, hi := uint64(1)<<(bitsWanted-1), uint64(1)<<bitsWanted-1
		set := map[uint64]bool{}
		for d := uint64(0); d < 16; d++ {
			set[(lo+d)|1] = true
			set[(hi-d)|1] = true
		}
		alt := uint64(0x5555555555555555) & hi
		set[alt|lo|1] = true
		set[(alt<<1)&hi|lo|1] = true
		for k := 1; k < bitsWanted-1; k++ {
			set[lo|1<<k|1] = true
			set[(hi&^(1<<k))|1] = true
		}
		var s []uint64
		for v := range set {
			if v >= lo && v <= hi {
				s = append(s, v)
			}
		}
		sort.Slice(s, func(i, j int) bool { return s[i] < s[j] })
		return s
	}
	// (1) products: a (la bits) * b (25-la or 26-la bits), both odd => exact product is odd with 24..26 bits,
	// i.e. exactly on / next to a float32 rounding boundary; scaled to the normal range, to the subnormal
	// boundary and to the overflow boundary.
	scales := [][2]int{{0, 0}, {-60, -66}, {-70, -79}, {-75, -75}, {60, 43}, {64, 39}, {-20, 20}}
	r.ParFor(len(small), func(i int) {
		a := small[i]
		la := bits.Len64(a)
		lh := newHist()
		var np, nt int64
		for _, lb := range []int{24 - la, 25 - la, 26 - la} {
			for _, b := range wide(lb) {
				if b >= 1<<24 {
					continue
				}
				if p := a * b; bits.Len64(p) == 25 {
					nt++
				}
				for _, sc := range scales {
					xa, ok1 := mkf32(a, sc[0])
					xb, ok2 := mkf32(b, sc[1])
					if !ok1 || !ok2 {
						continue
					}
					for _, ya := range nb(xa) {
						for _, yb := range nb(xb) {
							for _, sg := range []uint32{0, 1 << 31} {
								np++
								check32(ya|sg, yb, math.Float32frombits(ya|sg), math.Float32frombits(yb), tAdd, tSub, tMul, tDiv, &lh)
							}
						}
					}
				}
			}
		}
		nPairs.Add(np)
		nTies.Add(nt)
		r.EvalN(4 * np)
		r.Distinct(fmt.Sprintf("ties32.mul:a=%d", a))
		hmu.Lock()
		h.merge(&lh)
		hmu.Unlock()
	})
	// (2) quotients landing exactly on a subnormal float32 tie: q = n*2^-150 (n odd), a = n*bm*2^ea, b = bm*2^eb.
	r.ParFor(len(small), func(i int) {
		n := small[i]
		lh := newHist()
		var np int64
		for _, bm := range small {
			if n*bm >= 1<<24 {
				continue
			}
			for _, eb := range []int{0, 20, 100, -20} {
				ea := eb - 150
				xa, ok1 := mkf32(n*bm, ea)
				xb, ok2 := mkf32(bm, eb)
				if !ok1 || !ok2 {
					continue
				}
				for _, ya := range nb(xa) {
					for _, yb := range nb(xb) {
						np++
						check32(ya, yb, math.Float32frombits(ya), math.Float32frombits(yb), tAdd, tSub, tMul, tDiv, &lh)
					}
				}
			}
		}
		nPairs.Add(np)
		r.EvalN(4 * np)
		r.Distinct(fmt.Sprintf("ties32.div:n=%d", n))
		hmu.Lock()
		h.merge(&lh)
		hmu.Unlock()
	})
	h.flush("ties32")
	r.OutcomeN("ties32.exact_25bit_products", nTies.Load())
	r.Sample(map[string]any{"family": "ties32", "pairs": nPairs.Load(), "example": "(2^12+1)*(2^12+1) = 2^24+2^13+1: exact float32 rounding tie"})
}

// ---------------------------------------------------------------------------------------------
// R: math/big reference (exact arithmetic, one final rounding) + IEEE special-value table

const (
	opAdd = iota
	opSub
	opMul
	opDiv
)

// special64 implements the IEEE-754 rules for operands that are NaN, infinite or zero.
// Returns (bits, isNaN, handled).
func special(op int, as, bs bool, ac, bc int) (neg bool, c int, handled bool) {
	if op == opSub {
		bs = !bs
		op = opAdd
	}
	if ac == cNaN || bc == cNaN {
		return false, cNaN, true
	}
	fin := func(c int) bool { return c == cSub || c == cNorm }
	switch op {
	case opAdd:
		switch {
		case ac == cInf && bc == cInf:
			if as != bs {
				return false, cNaN, true
			}
			return as, cInf, true
		case ac == cInf:
			return as, cInf, true
		case bc == cInf:
			return bs, cInf, true
		case ac == cZero && bc == cZero:
			return as && bs, cZero, true
		}
		return false, 0, false // x+0 handled by exact arithmetic below
	case opMul:
		switch {
		case (ac == cInf && bc == cZero) || (ac == cZero && bc == cInf):
			return false, cNaN, true
		case ac == cInf || bc == cInf:
			return as != bs, cInf, true
		case ac == cZero || bc == cZero:
			return as != bs, cZero, true
		}
	case opDiv:
		switch {
		case ac == cInf && bc == cInf, ac == cZero && bc == cZero:
			return false, cNaN, true
		case ac == cInf, bc == cZero:
			return as != bs, cInf, true
		case bc == cInf, ac == cZero:
			return as != bs, cZero, true
		}
	}
	_ = fin
	return false, 0, false
}

func pack64(neg bool, c int) uint64 {
	var b uint64
	switch c {
	case cInf:
		b = 0x7ff0000000000000
	case cNaN:
		return 0x7ff8000000000001
	}
	if neg {
		b |= 1 << 63
	}
	return b
}

func pack32(neg bool, c int) uint32 {
	var b uint32
	switch c {
	case cInf:
		b = 0x7f800000
	case cNaN:
		return 0x7fc00001
	}
	if neg {
		b |= 1 << 31
	}
	return b
}

// exact computes op(a,b) for finite operands (at least one non-zero for add) exactly as a big.Float (add/sub/mul)
// or big.Rat (div); exactly one of the results is non-nil.
func exact(op int, fa, fb float64) (*big.Float, *big.Rat) {
	const prec = 2400 // > span of all float64 exponents + 2*53: sums and products are exact
	switch op {
	case opAdd, opSub, opMul:
		x := new(big.Float).SetPrec(prec).SetMode(big.ToNearestEven).SetFloat64(fa)
		y := new(big.Float).SetPrec(prec).SetMode(big.ToNearestEven).SetFloat64(fb)
		z := new(big.Float).SetPrec(prec).SetMode(big.ToNearestEven)
		switch op {
		case opAdd:
			z.Add(x, y)
		case opSub:
			z.Sub(x, y)
		default:
			z.Mul(x, y)
		}
		if z.Acc() != big.Exact {
			panic("big reference not exact")
		}
		return z, nil
	}
	x := new(big.Rat).SetFloat64(math.Abs(fa))
	y := new(big.Rat).SetFloat64(math.Abs(fb))
	return nil, x.Quo(x, y)
}

func ref64(op int, a, b uint64) (want uint64, inexact bool) {
	as, bs := a>>63 != 0, b>>63 != 0
	if neg, c, ok := special(op, as, bs, cls64(a), cls64(b)); ok {
		return pack64(neg, c), false
	}
	fa, fb := math.Float64frombits(a), math.Float64frombits(b)
	zf, zr := exact(op, fa, fb)
	if zf != nil {
		v, acc := zf.Float64()
		return math.Float64bits(v), acc != big.Exact
	}
	v, ex := zr.Float64()
	w := math.Float64bits(v)
	if as != bs {
		w |= 1 << 63
	}
	return w, !ex
}

func ref32(op int, a, b uint32) (want uint32, inexact bool) {
	as, bs := a>>31 != 0, b>>31 != 0
	if neg, c, ok := special(op, as, bs, cls32(a), cls32(b)); ok {
		return pack32(neg, c), false
	}
	fa, fb := float64(math.Float32frombits(a)), float64(math.Float32frombits(b))
	zf, zr := exact(op, fa, fb)
	if zf != nil {
		v, acc := zf.Float32()
		return math.Float32bits(v), acc != big.Exact
	}
	v, ex := zr.Float32()
	w := math.Float32bits(v)
	if as != bs {
		w |= 1 << 31
	}
	return w, !ex
}

// refCmp: IEEE comparison from the decoded value (independent of native compares): returns -1,0,1 and unordered.
func refCmp64(a, b uint64) (int, bool) {
	if isNaN64(a) || isNaN64(b) {
		return 0, true
	}
	key := func(x uint64) int64 { // monotone integer key of a non-NaN float64; ±0 -> 0
		m := int64(x &^ (1 << 63))
		if x>>63 != 0 {
			return -m
		}
		return m
	}
	ka, kb := key(a), key(b)
	switch {
	case ka < kb:
		return -1, false
	case ka > kb:
		return 1, false
	}
	return 0, false
}

func bigBinary64(S []uint64, label string) {
	names := [4]string{"Fadd64", "Fsub64", "Fmul64", "Fdiv64"}
	fns := [4]func(a, b uint64) uint64{gno.VerifFadd64, gno.VerifFsub64, gno.VerifFmul64, gno.VerifFdiv64}
	var ts [4]*tracker
	for i, n := range names {
		ts[i] = tk(n+"/big", 2)
	}
	tc := tk("Fcmp64/ref", 2)
	var nInexact, nExact atomic.Int64
	r.ParFor(len(S), func(i int) {
		a := S[i]
		var ni, ne int64
		for _, b := range S {
			for op := 0; op < 4; op++ {
				w, inex := ref64(op, a, b)
				if g := fns[op](a, b); !same64(g, w) {
					ts[op].fail(a, b, g, w)
				}
				if inex {
					ni++
				} else {
					ne++
				}
			}
			wc, wn := refCmp64(a, b)
			c, n := gno.VerifFcmp64(a, b)
			lt, le, eq, ge, gt := gno.VerifFlt64(a, b), gno.VerifFle64(a, b), gno.VerifFeq64(a, b), gno.VerifFge64(a, b), gno.VerifFgt64(a, b)
			if n != wn || (!wn && int(sgn(c)) != wc) ||
				lt != (!wn && wc < 0) || le != (!wn && wc <= 0) || eq != (!wn && wc == 0) || ge != (!wn && wc >= 0) || gt != (!wn && wc > 0) {
				tc.fail(a, b, uint32(c), uint32(int32(wc)))
			}
		}
		nInexact.Add(ni)
		nExact.Add(ne)
		r.EvalN(int64(5 * len(S)))
		r.Distinct(fmt.Sprintf("%s:a=%#x", label, a))
	})
	r.OutcomeN(label+".result_rounded", nInexact.Load())
	r.OutcomeN(label+".result_exact_or_special", nExact.Load())
}

func bigBinary32(S []uint32, label string) {
	names := [4]string{"Fadd32", "Fsub32", "Fmul32", "Fdiv32"}
	fns := [4]func(a, b uint32) uint32{gno.VerifFadd32, gno.VerifFsub32, gno.VerifFmul32, gno.VerifFdiv32}
	var ts [4]*tracker
	for i, n := range names {
		ts[i] = tk(n+"/big", 2)
	}
	tn := tk("F64to32/big", 1)
	var nInexact, nExact atomic.Int64
	r.ParFor(len(S), func(i int) {
		a := S[i]
		var ni, ne int64
		for _, b := range S {
			for op := 0; op < 4; op++ {
				w, inex := ref32(op, a, b)
				if g := fns[op](a, b); !same32(g, w) {
					ts[op].fail(uint64(a), uint64(b), g, w)
				}
				if inex {
					ni++
				} else {
					ne++
				}
			}
		}
		nInexact.Add(ni)
		nExact.Add(ne)
		r.EvalN(int64(4 * len(S)))
		r.Distinct(fmt.Sprintf("%s:a=%#x", label, a))
	})
	_ = tn
	r.OutcomeN(label+".result_rounded", nInexact.Load())
	r.OutcomeN(label+".result_exact_or_special", nExact.Load())
}

// narrow64: F64to32 over a float64 set, native and big references.
func narrow64(S []uint64, label string) {
	tn, tb := tk("F64to32", 1), tk("F64to32/big", 1)
	var cl [nCls]atomic.Int64
	r.ParFor(len(S), func(i int) {
		x := S[i]
		f := math.Float64frombits(x)
		g := gno.VerifF64to32(x)
		if w := math.Float32bits(float32(f)); !same32(g, w) {
			tn.fail(x, 0, g, w)
		}
		c := cls64(x)
		if c == cNorm || c == cSub {
			v, _ := new(big.Float).SetFloat64(f).Float32()
			if w := math.Float32bits(v); g != w {
				tb.fail(x, 0, g, w)
			}
		}
		cl[cls32(g)].Add(1)
		r.EvalN(2)
	})
	for c := range cl {
		if n := cl[c].Load(); n > 0 {
			r.OutcomeN(label+".result."+clsName[c], n)
		}
	}
}

// ---------------------------------------------------------------------------------------------
// I: integer <-> float conversions

func intLattice(depth3 bool) []uint64 {
	set := map[uint64]bool{}
	add := func(v uint64) {
		for _, d := range []uint64{0, 1, ^uint64(0)} {
			set[v+d] = true
			set[-(v + d)] = true
			set[^(v + d)] = true
		}
	}
	for v := uint64(0); v < 1<<12; v++ {
		add(v)
	}
	for k := 0; k < 64; k++ {
		for j := 0; j <= k; j++ {
			for l := 0; l <= j; l++ {
				if !depth3 && l != j {
					continue
				}
				add(1<<k | 1<<j | 1<<l)
				add(1<<k - 1<<j + 1<<l)
				add(1<<k - 1<<j - 1<<l)
			}
		}
	}
	// mantissa-tail patterns around the 24- and 53-bit rounding points of every magnitude
	for k := 24; k < 64; k++ {
		for _, p := range []int{24, 53} {
			if k < p {
				continue
			}
			ulp := uint64(1) << (k - p + 1)
			half := ulp >> 1
			for _, m := range []uint64{0, ulp, 1<<k - ulp, (uint64(0xAAAAAAAAAAAAAAAA) & (1<<k - 1)) &^ (ulp - 1)} {
				for _, t := range []uint64{0, half, half - 1, half + 1, ulp - 1, 1} {
					add(1<<k | m | t)
				}
			}
		}
	}
	var s []uint64
	for v := range set {
		s = append(s, v)
	}
	sort.Slice(s, func(i, j int) bool { return s[i] < s[j] })
	return s
}

var (
	two63  = new(big.Int).Lsh(big.NewInt(1), 63)
	two64  = new(big.Int).Lsh(big.NewInt(1), 64)
	two31  = new(big.Int).Lsh(big.NewInt(1), 31)
	bigOne = big.NewInt(1)
)

func intToFloat(L []uint64) {
	t1, t2, t3, t4 := tk("Fint64to64", 1), tk("Fint64to32", 1), tk("Fuint64to64", 1), tk("Fuint64to32", 1)
	t5, t6 := tk("Fintto64", 1), tk("Fintto32", 1)
	b1, b2, b3, b4 := tk("Fint64to64/big", 1), tk("Fint64to32/big", 1), tk("Fuint64to64/big", 1), tk("Fuint64to32/big", 1)
	var rounded64, rounded32, exact64 atomic.Int64
	r.ParFor(len(L), func(i int) {
		v := L[i]
		sv := int64(v)
		g1, g2, g3, g4 := gno.VerifFint64to64(sv), gno.VerifFint64to32(sv), gno.VerifFuint64to64(v), gno.VerifFuint64to32(v)
		if w := math.Float64bits(float64(sv)); g1 != w {
			t1.fail(v, 0, g1, w)
		}
		if w := math.Float32bits(float32(sv)); g2 != w {
			t2.fail(v, 0, g2, w)
		}
		if w := math.Float64bits(float64(v)); g3 != w {
			t3.fail(v, 0, g3, w)
		}
		if w := math.Float32bits(float32(v)); g4 != w {
			t4.fail(v, 0, g4, w)
		}
		if g := gno.VerifFintto64(sv); g != g1 {
			t5.fail(v, 0, g, g1)
		}
		if g := gno.VerifFintto32(sv); g != g2 {
			t6.fail(v, 0, g, g2)
		}
		// big reference: exact integer -> one rounding
		bs := new(big.Float).SetPrec(64).SetInt64(sv)
		bu := new(big.Float).SetPrec(64).SetUint64(v)
		w64, acc := bs.Float64()
		if acc != big.Exact {
			rounded64.Add(1)
		} else {
			exact64.Add(1)
		}
		if g1 != math.Float64bits(w64) {
			b1.fail(v, 0, g1, math.Float64bits(w64))
		}
		w32, acc32 := bs.Float32()
		if acc32 != big.Exact {
			rounded32.Add(1)
		}
		if g2 != math.Float32bits(w32) {
			b2.fail(v, 0, g2, math.Float32bits(w32))
		}
		w64, _ = bu.Float64()
		if g3 != math.Float64bits(w64) {
			b3.fail(v, 0, g3, math.Float64bits(w64))
		}
		w32, _ = bu.Float32()
		if g4 != math.Float32bits(w32) {
			b4.fail(v, 0, g4, math.Float32bits(w32))
		}
		r.EvalN(10)
		r.Distinct(fmt.Sprintf("int:%#x", v))
	})
	r.OutcomeN("int_to_float64.rounded", rounded64.Load())
	r.OutcomeN("int_to_float64.exact", exact64.Load())
	r.OutcomeN("int_to_float32.rounded", rounded32.Load())
}

// floatToInt checks F64toint64/32, F64touint64, F64toint for every float in F whose truncation is representable.
func floatToInt(F []uint64, label string) {
	t64, t32, tu, tok := tk("F64toint64", 1), tk("F64toint32", 1), tk("F64touint64", 1), tk("F64toint", 1)
	n64, n32, nu := tk("F64toint64/native", 1), tk("F64toint32/native", 1), tk("F64touint64/native", 1)
	var in64, in32, inu, out atomic.Int64
	r.ParFor(len(F), func(i int) {
		x := F[i]
		c := cls64(x)
		if c == cNaN || c == cInf {
			out.Add(1)
			return
		}
		f := math.Float64frombits(x)
		T, _ := new(big.Float).SetFloat64(f).Int(nil) // truncation toward zero, exact
		neg63 := new(big.Int).Neg(two63)
		neg31 := new(big.Int).Neg(two31)
		any := false
		if T.Cmp(neg63) >= 0 && T.Cmp(two63) < 0 {
			any = true
			in64.Add(1)
			w := T.Int64()
			if g := gno.VerifF64toint64(x); g != w {
				t64.fail(x, 0, uint64(g), uint64(w))
			}
			if int64(f) != w {
				n64.fail(x, 0, uint64(int64(f)), uint64(w))
			}
			// F64toint: whenever it claims ok, the value must be the truncation
			if g, ok := gno.VerifF64toint(x); ok && g != w {
				tok.fail(x, 0, uint64(g), uint64(w))
			}
			r.EvalN(2)
		}
		if T.Cmp(neg31) >= 0 && T.Cmp(two31) < 0 {
			any = true
			in32.Add(1)
			w := int32(T.Int64())
			if g := gno.VerifF64toint32(x); g != w {
				t32.fail(x, 0, uint32(g), uint32(w))
			}
			if int32(f) != w {
				n32.fail(x, 0, uint32(int32(f)), uint32(w))
			}
			r.Eval()
		}
		if T.Sign() >= 0 && T.Cmp(two64) < 0 {
			any = true
			inu.Add(1)
			w := T.Uint64()
			if g := gno.VerifF64touint64(x); g != w {
				tu.fail(x, 0, g, w)
			}
			if uint64(f) != w {
				nu.fail(x, 0, uint64(f), w)
			}
			r.Eval()
		}
		if !any {
			out.Add(1)
		} else {
			r.Distinct(fmt.Sprintf("f2i:%#x", x))
		}
	})
	r.OutcomeN(label+".int64.in_range", in64.Load())
	r.OutcomeN(label+".int32.in_range", in32.Load())
	r.OutcomeN(label+".uint64.in_range", inu.Load())
	r.OutcomeN(label+".out_of_range_skipped", out.Load())
}

func floatNeighbourhood(L []uint64, S []uint64) []uint64 {
	set := map[uint64]bool{}
	addf := func(f float64) {
		b := math.Float64bits(f)
		for _, x := range []uint64{b, b + 1, b - 1, b ^ 1<<63, (b + 1) ^ 1<<63, (b - 1) ^ 1<<63} {
			set[x] = true
		}
	}
	for _, v := range L {
		f := float64(v)
		addf(f)
		addf(f + 0.5)
		addf(f - 0.5)
		addf(float64(int64(v)))
		addf(float64(int64(v)) + 0.5)
		addf(float64(int64(v)) - 0.5)
	}
	for _, x := range S {
		set[x] = true
	}
	var s []uint64
	for v := range set {
		s = append(s, v)
	}
	sort.Slice(s, func(i, j int) bool { return s[i] < s[j] })
	return s
}

// truncObservation: softfloat.Ftrunc64/Ftrunc32 are exported by the package but have no caller in GnoVM (no Gno
// program can reach them) and truncation is not among the operations the property lists, so a mismatch here is
// recorded as an out-of-scope observation in the evidence, NOT as a violation of C05.
var truncObs = map[string]any{}

func truncObservation(S64 []uint64, S32 []uint32) {
	var bad64, bad32 int
	min64, min32 := uint64(math.MaxUint64), uint32(math.MaxUint32)
	for _, x := range S64 {
		f := math.Float64frombits(x)
		if g := gno.VerifFtrunc64(x); !same64(g, math.Float64bits(math.Trunc(f))) {
			bad64++
			if x < min64 {
				min64 = x
			}
		}
	}
	for _, x := range S32 {
		f := math.Float32frombits(x)
		if g := gno.VerifFtrunc32(x); !same32(g, math.Float32bits(float32(math.Trunc(float64(f))))) {
			bad32++
			if x < min32 {
				min32 = x
			}
		}
	}
	truncObs["Ftrunc64_checked"], truncObs["Ftrunc64_mismatches"] = len(S64), bad64
	truncObs["Ftrunc32_checked"], truncObs["Ftrunc32_mismatches"] = len(S32), bad32
	if bad64 > 0 {
		truncObs["Ftrunc64_min_failing_input"] = fmt.Sprintf("%#x (%v) -> %v", min64, math.Float64frombits(min64), math.Float64frombits(gno.VerifFtrunc64(min64)))
	}
	if bad32 > 0 {
		truncObs["Ftrunc32_min_failing_input"] = fmt.Sprintf("%#x (%v) -> %v", min32, math.Float32frombits(min32), math.Float32frombits(gno.VerifFtrunc32(min32)))
	}
	if bad64+bad32 > 0 {
		fmt.Printf("NOTE (out of C05's scope, not a violation): softfloat.Ftrunc64/Ftrunc32 (no callers in GnoVM) disagree with math.Trunc on %d/%d and %d/%d structured inputs, e.g. Ftrunc64(-3) = %v\n",
			bad64, len(S64), bad32, len(S32), math.Float64frombits(gno.VerifFtrunc64(math.Float64bits(-3))))
	}
}

// ---------------------------------------------------------------------------------------------

var phaseStart = time.Now()

func phase(name string) {
	fmt.Printf("  phase %-22s %6.1fs  evals=%d\n", name, time.Since(phaseStart).Seconds(), r.Evals())
	phaseStart = time.Now()
}

func main() {
	r = vk.New("exploration")
	if r.ReplayIn != "" {
		replay()
		return
	}
	if os.Getenv("C05_BENCH") != "" {
		bench()
		return
	}
	r.SetBudget(85*time.Second, 25*time.Minute)

	// B: structured products first (cheap, broad), then the 2^32 sweep.
	var e64, e64big []int
	e32 := allExps(256)
	var e32big []int
	if r.Quick() {
		e64 = expSubset(2048, 1023, 4, 64, 32)
		e64big = expSubset(2048, 1023, 64, 6, 3)
		e32big = expSubset(256, 127, 4, 6, 3)
	} else {
		e64 = allExps(2048)
		e64big = expSubset(2048, 1023, 4, 64, 16)
		e32big = allExps(256)
	}
	S32 := set32(e32, mant32())
	S64 := set64(e64, mant64())
	bigM64 := []uint64{0, 1, 1 << 51, 1<<52 - 1, 0xAAAAAAAAAAAAA}
	bigM32 := []uint32{0, 1, 1 << 22, 1<<23 - 1, 0x2AAAAA}
	S64b := set64(e64big, bigM64)
	S32b := set32(e32big, bigM32)

	binary32(S32, "S32xS32")
	phase("binary32")
	ties32()
	phase("ties32")
	binary64(S64, "S64xS64")
	phase("binary64")
	bigBinary32(S32b, "big32")
	phase("bigBinary32")
	bigBinary64(S64b, "big64")
	phase("bigBinary64")
	narrow64(set64(allExps(2048), mant64()), "F64to32")
	// narrowing near every float32 rounding boundary: widen each S32 value, perturb the low 29 bits
	{
		var N []uint64
		for _, x := range S32 {
			if cls32(x) == cNaN || cls32(x) == cInf {
				continue
			}
			w := math.Float64bits(float64(math.Float32frombits(x)))
			for _, d := range []uint64{0, 1, 1 << 28, 1<<28 - 1, 1<<28 + 1, 1<<29 - 1, 3 << 27} {
				N = append(N, w+d, w-d)
			}
		}
		narrow64(N, "F64to32.boundaries")
	}
	phase("narrow64")
	L := intLattice(true)
	intToFloat(L)
	phase("intToFloat")
	L2 := intLattice(r.Thorough())
	floatToInt(floatNeighbourhood(L2, S64), "float_to_int")
	phase("floatToInt")
	r.Sample(map[string]any{"S32": len(S32), "S64": len(S64), "S32big": len(S32b), "S64big": len(S64b), "int_lattice": len(L)})
	r.Sample(map[string]any{"op": "Fadd64", "a": fmt.Sprintf("%#x", S64[10]), "b": fmt.Sprintf("%#x", S64[len(S64)-3])})
	r.Sample(map[string]any{"op": "Fdiv32", "a": fmt.Sprintf("%#x", S32[100]), "b": fmt.Sprintf("%#x", S32[2000])})

	sweep32()
	phase("sweep32")
	sweepDone := sweepChunksDone.Load()
	r.Sample(map[string]any{"sweep32_chunks_done": sweepDone, "of": 1 << 14, "ops_per_input": map[bool]int{false: 9, true: 14}[r.Thorough()]})

	truncObservation(S64, S32)
	reportTrackers()
	r.Assumptions = []string{
		"native amd64 SSE2 scalar arithmetic and conversions are IEEE-754 round-to-nearest-even (first reference)",
		"math/big Float/Rat exact arithmetic with a single final rounding (second, independent reference on sub-products)",
		"NaN results are compared by NaN-ness only (payload/sign of NaN is not specified by Go)",
		"float->integer conversions are checked only where the truncated value is representable in the target type",
		"binary operations at 64 bits (and at 32 bits beyond S32xS32 + tie families) are covered on a structured operand set, not all 2^128 / 2^64 pairs",
	}
	r.Finish("U: all 2^32 float32/int32/uint32 bit patterns x 9 (quick) / 14 (thorough) unary ops/conversions; B: full product SxS (S = exponents x 9 mantissa patterns x sign) x {add,sub,mul,div,eq,lt,le,gt,ge[,cmp]} at 32 and 64 bits vs native; T: constructed float32 tie families; I: integer lattice and its float neighbourhood through all int<->float conversions; R: the same ops vs math/big on sub-products. distinct = operand rows (a of each SxS), sweep chunks, lattice integers, in-range floats",
		true, map[string]any{"sweep32_inputs": sweepDone << 18, "S32": len(S32), "S64": len(S64), "int_lattice": len(L), "out_of_scope_observations": truncObs})
}

var sink uint64

func bench() {
	const n = 1 << 24
	run := func(name string, f func(x uint32) uint64) {
		t := time.Now()
		var acc uint64
		for i := uint32(0); i < n; i++ {
			acc += f(i * 251)
		}
		sink += acc
		fmt.Printf("%-14s %6.1f ns/op\n", name, float64(time.Since(t).Nanoseconds())/n)
	}
	run("Fneg32", func(x uint32) uint64 { return uint64(gno.VerifFneg32(x)) })
	run("F32to64", func(x uint32) uint64 { return gno.VerifF32to64(x) })
	run("F64to32", func(x uint32) uint64 { return uint64(gno.VerifF64to32(uint64(x) << 32)) })
	run("F32toint32", func(x uint32) uint64 { return uint64(gno.VerifF32toint32(x)) })
	run("F32toint64", func(x uint32) uint64 { return uint64(gno.VerifF32toint64(x)) })
	run("F32touint64", func(x uint32) uint64 { return gno.VerifF32touint64(x) })
	run("Feq32", func(x uint32) uint64 {
		if gno.VerifFeq32(x, x) {
			return 1
		}
		return 0
	})
	run("Fint32to32", func(x uint32) uint64 { return uint64(gno.VerifFint32to32(int32(x))) })
	run("Fint32to64", func(x uint32) uint64 { return gno.VerifFint32to64(int32(x)) })
	run("Fuint64to32", func(x uint32) uint64 { return uint64(gno.VerifFuint64to32(uint64(x))) })
	run("Fuint64to64", func(x uint32) uint64 { return gno.VerifFuint64to64(uint64(x)) })
}

// replay re-evaluates the single (op, a, b) of a replay artefact against the native reference.
func replay() {
	raw, err := os.ReadFile(r.ReplayIn)
	if err != nil {
		r.HarnessError("replay: %v", err)
	}
	var art struct {
		Detail struct{ Op, A, B string } `json:"detail"`
	}
	if err := json.Unmarshal(raw, &art); err != nil {
		r.HarnessError("replay: %v", err)
	}
	op := art.Detail.Op
	if i := strings.IndexAny(op, "/("); i >= 0 {
		op = op[:i]
	}
	a, _ := strconv.ParseUint(art.Detail.A, 0, 64)
	b, _ := strconv.ParseUint(art.Detail.B, 0, 64)
	f64, g64 := math.Float64frombits(a), math.Float64frombits(b)
	f32, g32 := math.Float32frombits(uint32(a)), math.Float32frombits(uint32(b))
	b2u := func(v bool) uint64 {
		if v {
			return 1
		}
		return 0
	}
	type pair struct{ got, want uint64 }
	tab := map[string]func() pair{
		"Fadd64": func() pair { return pair{gno.VerifFadd64(a, b), math.Float64bits(f64 + g64)} },
		"Fsub64": func() pair { return pair{gno.VerifFsub64(a, b), math.Float64bits(f64 - g64)} },
		"Fmul64": func() pair { return pair{gno.VerifFmul64(a, b), math.Float64bits(f64 * g64)} },
		"Fdiv64": func() pair { return pair{gno.VerifFdiv64(a, b), math.Float64bits(f64 / g64)} },
		"Feq64":  func() pair { return pair{b2u(gno.VerifFeq64(a, b)), b2u(f64 == g64)} },
		"Flt64":  func() pair { return pair{b2u(gno.VerifFlt64(a, b)), b2u(f64 < g64)} },
		"Fle64":  func() pair { return pair{b2u(gno.VerifFle64(a, b)), b2u(f64 <= g64)} },
		"Fgt64":  func() pair { return pair{b2u(gno.VerifFgt64(a, b)), b2u(f64 > g64)} },
		"Fge64":  func() pair { return pair{b2u(gno.VerifFge64(a, b)), b2u(f64 >= g64)} },
		"Fcmp64": func() pair {
			c, _ := gno.VerifFcmp64(a, b)
			w := 0
			if f64 < g64 {
				w = -1
			} else if f64 > g64 {
				w = 1
			}
			return pair{uint64(int64(sgn(c))), uint64(int64(w))}
		},
		"Fadd32": func() pair {
			return pair{uint64(gno.VerifFadd32(uint32(a), uint32(b))), uint64(math.Float32bits(f32 + g32))}
		},
		"Fsub32": func() pair {
			return pair{uint64(gno.VerifFsub32(uint32(a), uint32(b))), uint64(math.Float32bits(f32 - g32))}
		},
		"Fmul32": func() pair {
			return pair{uint64(gno.VerifFmul32(uint32(a), uint32(b))), uint64(math.Float32bits(f32 * g32))}
		},
		"Fdiv32": func() pair {
			return pair{uint64(gno.VerifFdiv32(uint32(a), uint32(b))), uint64(math.Float32bits(f32 / g32))}
		},
		"Feq32":       func() pair { return pair{b2u(gno.VerifFeq32(uint32(a), uint32(b))), b2u(f32 == g32)} },
		"Flt32":       func() pair { return pair{b2u(gno.VerifFlt32(uint32(a), uint32(b))), b2u(f32 < g32)} },
		"Fle32":       func() pair { return pair{b2u(gno.VerifFle32(uint32(a), uint32(b))), b2u(f32 <= g32)} },
		"Fgt32":       func() pair { return pair{b2u(gno.VerifFgt32(uint32(a), uint32(b))), b2u(f32 > g32)} },
		"Fge32":       func() pair { return pair{b2u(gno.VerifFge32(uint32(a), uint32(b))), b2u(f32 >= g32)} },
		"Fneg32":      func() pair { return pair{uint64(gno.VerifFneg32(uint32(a))), uint64(math.Float32bits(-f32))} },
		"F32to64":     func() pair { return pair{gno.VerifF32to64(uint32(a)), math.Float64bits(float64(f32))} },
		"F64to32":     func() pair { return pair{uint64(gno.VerifF64to32(a)), uint64(math.Float32bits(float32(f64)))} },
		"F32toint32":  func() pair { return pair{uint64(uint32(gno.VerifF32toint32(uint32(a)))), uint64(uint32(int32(f32)))} },
		"F32toint64":  func() pair { return pair{uint64(gno.VerifF32toint64(uint32(a))), uint64(int64(f32))} },
		"F32touint64": func() pair { return pair{gno.VerifF32touint64(uint32(a)), uint64(f32)} },
		"F64toint32":  func() pair { return pair{uint64(uint32(gno.VerifF64toint32(a))), uint64(uint32(int32(f64)))} },
		"F64toint64":  func() pair { return pair{uint64(gno.VerifF64toint64(a)), uint64(int64(f64))} },
		"F64toint":    func() pair { v, _ := gno.VerifF64toint(a); return pair{uint64(v), uint64(int64(f64))} },
		"F64touint64": func() pair { return pair{gno.VerifF64touint64(a), uint64(f64)} },
		"Fint32to32": func() pair {
			return pair{uint64(gno.VerifFint32to32(int32(a))), uint64(math.Float32bits(float32(int32(a))))}
		},
		"Fint32to64": func() pair { return pair{gno.VerifFint32to64(int32(a)), math.Float64bits(float64(int32(a)))} },
		"Fint64to32": func() pair {
			return pair{uint64(gno.VerifFint64to32(int64(a))), uint64(math.Float32bits(float32(int64(a))))}
		},
		"Fint64to64": func() pair { return pair{gno.VerifFint64to64(int64(a)), math.Float64bits(float64(int64(a)))} },
		"Fintto32": func() pair {
			return pair{uint64(gno.VerifFintto32(int64(a))), uint64(math.Float32bits(float32(int64(a))))}
		},
		"Fintto64":    func() pair { return pair{gno.VerifFintto64(int64(a)), math.Float64bits(float64(int64(a)))} },
		"Fuint64to32": func() pair { return pair{uint64(gno.VerifFuint64to32(a)), uint64(math.Float32bits(float32(a)))} },
		"Fuint64to64": func() pair { return pair{gno.VerifFuint64to64(a), math.Float64bits(float64(a))} },
	}
	f := tab[op]
	if f == nil {
		r.HarnessError("replay: unknown op %q", art.Detail.Op)
	}
	p := f()
	ok := p.got == p.want || (strings.HasSuffix(op, "64") && isNaN64(p.got) && isNaN64(p.want)) || (strings.HasSuffix(op, "32") && isNaN32(uint32(p.got)) && isNaN32(uint32(p.want)))
	fmt.Printf("replay %s(%#x,%#x): softfloat=%#x native=%#x\n", op, a, b, p.got, p.want)
	if !ok {
		fmt.Printf("VIOLATION property=C05 replay=%s\n", r.ReplayIn)
		os.Exit(1)
	}
	fmt.Println("replay: results agree on this tree")
	os.Exit(0)
}
