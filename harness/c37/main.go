// C37: proposer selection is fair and validator-set updates are well-behaved.
//
// Part A (fairness, static sets) — REAL types.ValidatorSet:
//   every ordered power tuple over {1,2,3,5,10} with n<=4 (thorough: n<=5, more powers): the proposer sequence of
//   3*total consecutive IncrementProposerPriority(1) calls; EVERY window of length total starting at every one of the
//   first 2*total states must contain each validator exactly `power` times; from every one of those states
//   CopyIncrementProposerPriority(times), times in {1,2,total,total+1}, must land on the proposer that `times` single
//   increments reach and must not disturb the original; priority spread <= 3*total at every state.
//   A big-integer smooth-weighted-round-robin reference is run alongside (reported, and used as oracle for the sets near
//   MaxTotalVotingPower where a full window cannot be enumerated).
// Part B (updates) — BFS with state dedup over sequences of change sets (depth 3, thorough 4) from several base sets, the
//   alphabet covering add / re-weight / remove / remove unknown / duplicates / negative / > Max / total overflow /
//   exactly-fits / remove all / remove all + add / invalid mixed (atomicity) / empty, interleaved with increments.
//   Oracle: map model.  must-reject inputs are rejected, a rejected update leaves the set deep-equal, an accepted one
//   yields exactly the model's membership and powers, sorted by address, duplicate free, TotalVotingPower == sum,
//   spread <= 3*total; a rejection of an acceptable change set is only tolerated when the documented "total before
//   removals" rule explains it.
package main

import (
	"bytes"
	"fmt"
	"math/big"
	"sort"
	"strings"
	"sync"
	"sync/atomic"
	"time"

	"github.com/gnolang/gno/tm2/pkg/bft/types"
	"github.com/gnolang/gno/tm2/pkg/crypto/ed25519"
	"verif/engine/vk"
)

var r *vk.Run

type key struct {
	pub  ed25519.PubKeyEd25519
	addr types.Address
}

var U []key // universe sorted by address

func uidx(a types.Address) int {
	for i, k := range U {
		if k.addr == a {
			return i
		}
	}
	return -1
}

var (
	nStates, nTrans atomic.Int64
	M               = types.MaxTotalVotingPower
)

// ---------- snapshots ----------

func snapshot(vs *types.ValidatorSet) string {
	var sb strings.Builder
	for _, v := range vs.Validators {
		fmt.Fprintf(&sb, "u%d:%d:%d;", uidx(v.Address), v.VotingPower, v.ProposerPriority)
	}
	if vs.Proposer != nil {
		fmt.Fprintf(&sb, "|P=u%d:%d:%d", uidx(vs.Proposer.Address), vs.Proposer.VotingPower, vs.Proposer.ProposerPriority)
	} else {
		sb.WriteString("|P=nil")
	}
	return sb.String()
}

func spreadOK(vs *types.ValidatorSet, factor int64) (bool, *big.Int, *big.Int) {
	mx, mn := new(big.Int), new(big.Int)
	tot := new(big.Int)
	for i, v := range vs.Validators {
		p := big.NewInt(v.ProposerPriority)
		if i == 0 || p.Cmp(mx) > 0 {
			mx.Set(p)
		}
		if i == 0 || p.Cmp(mn) < 0 {
			mn.Set(p)
		}
		tot.Add(tot, big.NewInt(v.VotingPower))
	}
	d := new(big.Int).Sub(mx, mn)
	lim := new(big.Int).Mul(tot, big.NewInt(factor))
	return d.Cmp(lim) <= 0, d, tot
}

// ---------- Part A ----------

type swrr struct {
	pw   []*big.Int
	prio []*big.Int
	tot  *big.Int
}

func newSWRR(powers []int64) *swrr {
	m := &swrr{tot: new(big.Int)}
	for _, p := range powers {
		m.pw = append(m.pw, big.NewInt(p))
		m.prio = append(m.prio, new(big.Int))
		m.tot.Add(m.tot, big.NewInt(p))
	}
	return m
}

func (m *swrr) step() int {
	best := 0
	for i := range m.prio {
		m.prio[i].Add(m.prio[i], m.pw[i])
		if m.prio[i].Cmp(m.prio[best]) > 0 { // tie -> lowest index (= lowest address)
			best = i
		}
	}
	m.prio[best].Sub(m.prio[best], m.tot)
	return best
}

func mkSet(idx []int, powers []int64) *types.ValidatorSet {
	vals := make([]*types.Validator, len(idx))
	for k, i := range idx {
		vals[k] = types.NewValidator(U[i].pub, powers[k])
	}
	return types.NewValidatorSet(vals)
}

func fairness(powers []int64, hist map[string]int64) {
	n := len(powers)
	idx := make([]int, n)
	for i := range idx {
		idx[i] = i
	}
	name := fmt.Sprintf("powers=%v", powers)
	var total int64
	for _, p := range powers {
		total += p
	}
	vs := mkSet(idx, powers)
	ref := newSWRR(powers)
	L := int(3*total) + 2
	seq := make([]int, 0, L)
	states := make([]*types.ValidatorSet, 0, 2*total)
	refAgree := true
	for k := 0; k < L; k++ {
		if k > 0 {
			if rec := vk.Catch(func() { vs.IncrementProposerPriority(1) }); rec != nil {
				r.Violation(name+fmt.Sprintf(" step=%d IncrementProposerPriority panicked", k), map[string]any{"panic": fmt.Sprint(rec)})
				return
			}
			nTrans.Add(1)
		}
		p := vs.GetProposer()
		pi := -1
		for i := 0; i < n; i++ {
			if vs.Validators[i].Address == p.Address {
				pi = i
			}
		}
		if pi < 0 {
			r.Violation(name+fmt.Sprintf(" step=%d proposer not in set", k), nil)
			return
		}
		seq = append(seq, pi)
		if ref.step() != pi {
			refAgree = false
		}
		if ok, d, _ := spreadOK(vs, 3); !ok {
			r.Violation(name+fmt.Sprintf(" step=%d priority spread %v > 3*total", k, d), map[string]any{"state": snapshot(vs)})
		}
		if k < int(2*total) {
			states = append(states, vs.Copy())
			nStates.Add(1)
			r.Distinct(name + "|" + snapshot(vs))
		}
	}
	if refAgree {
		hist["fairness:sequence_equals_bigint_swrr_reference"]++
	} else {
		hist["fairness:sequence_differs_from_bigint_swrr_reference(info)"]++
	}
	// every window
	cnt := make([]int64, n)
	for i := 0; i < int(total); i++ {
		cnt[seq[i]]++
	}
	for s := 0; s <= int(2*total); s++ {
		if s > 0 {
			cnt[seq[s-1]]--
			cnt[seq[s+int(total)-1]]++
		}
		for i := 0; i < n; i++ {
			if cnt[i] != powers[i] {
				r.Violation(name+fmt.Sprintf(" window_start=%d validator=%d proposed=%d want=%d", s, i, cnt[i], powers[i]),
					map[string]any{"powers": powers, "proposer_sequence": seq, "window_start": s})
				return
			}
		}
		hist["fairness:window_exact"]++
		r.Eval()
	}
	// increment counts from every early state
	for k, st := range states {
		before := snapshot(st)
		for _, times := range []int{1, 2, int(total), int(total) + 1} {
			if k+times >= len(seq) {
				continue
			}
			var cp *types.ValidatorSet
			if rec := vk.Catch(func() { cp = st.CopyIncrementProposerPriority(times) }); rec != nil {
				r.Violation(name+fmt.Sprintf(" state=%d CopyIncrementProposerPriority(%d) panicked", k, times), map[string]any{"panic": fmt.Sprint(rec)})
				continue
			}
			nTrans.Add(int64(times))
			r.Eval()
			got := cp.GetProposer()
			want := vs.Validators[seq[k+times]].Address
			if got.Address != want {
				r.Violation(name+fmt.Sprintf(" state=%d Increment(times=%d) proposer=u%d, %d single increments give u%d", k, times, uidx(got.Address), times, uidx(want)),
					map[string]any{"powers": powers, "state": before, "proposer_sequence": seq})
			}
			if snapshot(st) != before {
				r.Violation(name+fmt.Sprintf(" state=%d CopyIncrementProposerPriority(%d) modified the original set", k, times),
					map[string]any{"before": before, "after": snapshot(st)})
				before = snapshot(st)
			}
			hist["fairness:increment_times_consistent"]++
		}
	}
}

func nearMax(powers []int64, steps int, hist map[string]int64) {
	n := len(powers)
	idx := make([]int, n)
	for i := range idx {
		idx[i] = i
	}
	name := fmt.Sprintf("powers=%v(nearmax)", powers)
	vs := mkSet(idx, powers)
	ref := newSWRR(powers)
	cnt := make([]int64, n)
	for k := 0; k < steps; k++ {
		if k > 0 {
			if rec := vk.Catch(func() { vs.IncrementProposerPriority(1) }); rec != nil {
				r.Violation(name+fmt.Sprintf(" step=%d IncrementProposerPriority panicked", k), map[string]any{"panic": fmt.Sprint(rec)})
				return
			}
			nTrans.Add(1)
		}
		p := vs.GetProposer()
		want := ref.step()
		if vs.Validators[want].Address != p.Address {
			r.Violation(name+fmt.Sprintf(" step=%d proposer u%d differs from clipping-free reference u%d", k, uidx(p.Address), want), map[string]any{"state": snapshot(vs)})
			return
		}
		cnt[want]++
		if ok, d, _ := spreadOK(vs, 3); !ok {
			r.Violation(name+fmt.Sprintf(" step=%d priority spread %v > 3*total", k, d), map[string]any{"state": snapshot(vs)})
			return
		}
		nStates.Add(1)
		r.Eval()
	}
	// proportionality over the finite prefix: |count_i - steps*power_i/total| <= 1 (SWRR bound)
	tot := new(big.Int)
	for _, p := range powers {
		tot.Add(tot, big.NewInt(p))
	}
	for i := range powers {
		exp := new(big.Int).Mul(big.NewInt(int64(steps)), big.NewInt(powers[i]))
		exp.Div(exp, tot)
		d := cnt[i] - exp.Int64()
		if d < -1 || d > 1 {
			r.Violation(name+fmt.Sprintf(" validator=%d proposed %d of %d steps, proportional share %v", i, cnt[i], steps, exp), nil)
		}
	}
	r.Distinct(name)
	hist["fairness:nearmax_matches_reference"]++
}

// ---------- Part B ----------

type change struct {
	u int
	p int64
}

type op struct {
	name string
	inc  int                                 // >0: IncrementProposerPriority(inc)
	mk   func(m map[int]int64) []change       // change set (may depend on current membership)
	nilS bool                                // pass nil slice
}

func total(m map[int]int64) int64 {
	var t int64
	for _, p := range m {
		t += p
	}
	return t
}

func present(m map[int]int64) []int {
	var out []int
	for u := range m {
		out = append(out, u)
	}
	sort.Ints(out)
	return out
}

func fixed(cs ...change) func(map[int]int64) []change {
	return func(map[int]int64) []change { return cs }
}

func opsAlphabet(thorough bool) []op {
	var ops []op
	for u := 0; u < 6; u++ {
		for _, p := range []int64{0, 1, 10} {
			ops = append(ops, op{name: fmt.Sprintf("set(u%d=%d)", u, p), mk: fixed(change{u, p})})
		}
	}
	if thorough {
		for u := 0; u < 6; u++ {
			ops = append(ops, op{name: fmt.Sprintf("set(u%d=7)", u), mk: fixed(change{u, 7})})
		}
	}
	ops = append(ops,
		op{name: "add(u0=1,u3=1)", mk: fixed(change{0, 1}, change{3, 1})},
		op{name: "set(u1=0,u0=5)", mk: fixed(change{1, 0}, change{0, 5})},
		op{name: "set(u5=1,u2=1,u1=1)", mk: fixed(change{5, 1}, change{2, 1}, change{1, 1})},
		op{name: "removeAllPresent", mk: func(m map[int]int64) []change {
			var cs []change
			for _, u := range present(m) {
				cs = append(cs, change{u, 0})
			}
			return cs
		}},
		op{name: "removeAllPresent+add(firstAbsent=2)", mk: func(m map[int]int64) []change {
			var cs []change
			for _, u := range present(m) {
				cs = append(cs, change{u, 0})
			}
			for u := 0; u < 6; u++ {
				if _, ok := m[u]; !ok {
					cs = append(cs, change{u, 2})
					break
				}
			}
			return cs
		}},
		op{name: "dup(u1=1,u1=2)", mk: fixed(change{1, 1}, change{1, 2})},
		op{name: "dup(u3=0,u3=0)", mk: fixed(change{3, 0}, change{3, 0})},
		op{name: "dup(u0=4,u2=1,u0=4)", mk: fixed(change{0, 4}, change{2, 1}, change{0, 4})},
		op{name: "negative(u1=-1)", mk: fixed(change{1, -1})},
		op{name: "negative(u0=-5,u2=3)", mk: fixed(change{0, -5}, change{2, 3})},
		op{name: "overMax(u0=Max+1)", mk: fixed(change{0, M + 1})},
		op{name: "overMax(u4=MaxInt64)", mk: fixed(change{4, 1<<63 - 1})},
		op{name: "totalOverflow(u0 s.t. total=Max+1)", mk: func(m map[int]int64) []change {
			return []change{{0, M - (total(m) - m[0]) + 1}}
		}},
		op{name: "exactlyFits(u0 s.t. total=Max)", mk: func(m map[int]int64) []change {
			return []change{{0, M - (total(m) - m[0])}}
		}},
		op{name: "mixedInvalid(u0=7,removeFirstAbsent)", mk: func(m map[int]int64) []change {
			cs := []change{{0, 7}}
			for u := 5; u >= 1; u-- {
				if _, ok := m[u]; !ok {
					cs = append(cs, change{u, 0})
					break
				}
			}
			return cs
		}},
		op{name: "mixedInvalid(u5=3,u2=-1)", mk: fixed(change{5, 3}, change{2, -1})},
		op{name: "raiseLastPresentToFillMax,lowerFirstPresentTo1", mk: func(m map[int]int64) []change {
			// final total <= Max, but the running total before the decrease/removal is applied may exceed Max
			ps := present(m)
			if len(ps) < 2 {
				return []change{{ps[0], m[ps[0]]}}
			}
			first, last := ps[0], ps[len(ps)-1]
			return []change{{last, M - (total(m) - m[last] - m[first]) - 1}, {first, 1}}
		}},
		op{name: "lowerLastPresentTo1,raiseFirstPresentToFillMax", mk: func(m map[int]int64) []change {
			ps := present(m)
			if len(ps) < 2 {
				return []change{{ps[0], m[ps[0]]}}
			}
			first, last := ps[0], ps[len(ps)-1]
			return []change{{first, M - (total(m) - m[last] - m[first]) - 1}, {last, 1}}
		}},
		op{name: "empty[]", mk: fixed()},
		op{name: "nil", mk: fixed(), nilS: true},
		op{name: "inc(1)", inc: 1},
		op{name: "inc(3)", inc: 3},
	)
	return ops
}

type verdict struct {
	mustReject bool
	why        string
	mayReject  bool // conservative rejection explained by the "total before removals / running total" rule
	result     map[int]int64
}

func judge(m map[int]int64, cs []change) verdict {
	res := map[int]int64{}
	for u, p := range m {
		res[u] = p
	}
	if len(cs) == 0 {
		return verdict{result: res, why: "empty-noop"}
	}
	seen := map[int]bool{}
	for _, c := range cs {
		if seen[c.u] {
			return verdict{mustReject: true, why: "duplicate"}
		}
		seen[c.u] = true
	}
	for _, c := range cs {
		if c.p < 0 {
			return verdict{mustReject: true, why: "negative"}
		}
		if c.p > M {
			return verdict{mustReject: true, why: "power>Max"}
		}
	}
	for _, c := range cs {
		if c.p == 0 {
			if _, ok := m[c.u]; !ok {
				return verdict{mustReject: true, why: "unknown-removal"}
			}
		}
	}
	// running total with only the increases applied (upper bound of any intermediate total)
	upper := big.NewInt(total(m))
	for _, c := range cs {
		if c.p == 0 {
			delete(res, c.u)
			continue
		}
		if d := c.p - m[c.u]; d > 0 {
			upper.Add(upper, big.NewInt(d))
		}
		res[c.u] = c.p
	}
	if len(res) == 0 {
		return verdict{mustReject: true, why: "empty-result"}
	}
	fin := new(big.Int)
	for _, p := range res {
		fin.Add(fin, big.NewInt(p))
	}
	if fin.Cmp(big.NewInt(M)) > 0 {
		return verdict{mustReject: true, why: "total>Max"}
	}
	return verdict{result: res, why: "acceptable", mayReject: upper.Cmp(big.NewInt(M)) > 0}
}

type node struct {
	vs   *types.ValidatorSet
	m    map[int]int64
	path []string
}

func modelOf(vs *types.ValidatorSet) map[int]int64 {
	m := map[int]int64{}
	for _, v := range vs.Validators {
		m[uidx(v.Address)] = v.VotingPower
	}
	return m
}

func checkWellFormed(vs *types.ValidatorSet, m map[int]int64, key string) bool {
	ok := true
	bad := func(what string) {
		ok = false
		r.Violation(key+" => "+what, map[string]any{"state": snapshot(vs), "model": fmt.Sprint(m)})
	}
	if len(vs.Validators) != len(m) {
		bad(fmt.Sprintf("membership size %d, model %d", len(vs.Validators), len(m)))
		return false
	}
	sum := new(big.Int)
	for i, v := range vs.Validators {
		u := uidx(v.Address)
		if i > 0 && bytes.Compare(vs.Validators[i-1].Address[:], v.Address[:]) >= 0 {
			bad("validators not strictly sorted by address (unsorted or duplicate)")
		}
		if p, in := m[u]; !in || p != v.VotingPower {
			bad(fmt.Sprintf("validator u%d power %d, model %d (present=%v)", u, v.VotingPower, p, in))
		}
		if v.VotingPower <= 0 {
			bad(fmt.Sprintf("validator u%d with non-positive power in set", u))
		}
		sum.Add(sum, big.NewInt(v.VotingPower))
	}
	var tvp int64
	if rec := vk.Catch(func() { tvp = vs.TotalVotingPower() }); rec != nil {
		bad("TotalVotingPower panicked: " + fmt.Sprint(rec))
	} else if big.NewInt(tvp).Cmp(sum) != 0 {
		bad(fmt.Sprintf("TotalVotingPower()=%d, sum=%v", tvp, sum))
	}
	if okS, d, tot := spreadOK(vs, 3); !okS {
		bad(fmt.Sprintf("priority spread %v > 3*total (total=%v)", d, tot))
	}
	return ok
}

func updatesBFS(baseName string, idx []int, powers []int64, depth int, ops []op) (states, trans int64) {
	root := &node{vs: mkSet(idx, powers)}
	root.m = modelOf(root.vs)
	visited := map[string]bool{snapshot(root.vs): true}
	frontier := []*node{root}
	states = 1
	r.Distinct(baseName + "|" + snapshot(root.vs))
	for d := 0; d < depth && len(frontier) > 0 && !r.Expired(); d++ {
		type res struct {
			key string
			n   *node
		}
		results := make([][]res, len(frontier))
		hists := make([]map[string]int64, len(frontier))
		var tr atomic.Int64
		r.ParFor(len(frontier), func(fi int) {
			nd := frontier[fi]
			h := map[string]int64{}
			hists[fi] = h
			for _, o := range ops {
				tr.Add(1)
				key := fmt.Sprintf("%s path=%s op=%s", baseName, strings.Join(nd.path, ","), o.name)
				vs := nd.vs.Copy()
				before := snapshot(vs)
				if before != snapshot(nd.vs) {
					r.Violation(key+" => Copy() differs from original", map[string]any{"orig": snapshot(nd.vs), "copy": before})
				}
				var child *node
				if o.inc > 0 {
					if rec := vk.Catch(func() { vs.IncrementProposerPriority(o.inc) }); rec != nil {
						r.Violation(key+" => IncrementProposerPriority panicked", map[string]any{"panic": fmt.Sprint(rec), "state": before})
						continue
					}
					if !checkWellFormed(vs, nd.m, key) {
						continue
					}
					if vs.Proposer == nil || !vs.HasAddress(vs.Proposer.Address) {
						r.Violation(key+" => proposer after increment is not a member", map[string]any{"state": snapshot(vs)})
					}
					h["inc:ok"]++
					child = &node{vs: vs, m: nd.m}
				} else {
					cs := o.mk(nd.m)
					v := judge(nd.m, cs)
					var changes []*types.Validator
					if !o.nilS {
						changes = []*types.Validator{}
					}
					for _, c := range cs {
						val := types.NewValidator(U[c.u].pub, c.p)
						changes = append(changes, val)
					}
					var err error
					rec := vk.Catch(func() { err = vs.UpdateWithChangeSet(changes) })
					after := snapshot(vs)
					csS := fmt.Sprint(cs)
					switch {
					case rec != nil:
						r.Violation(key+" => UpdateWithChangeSet panicked", map[string]any{"panic": fmt.Sprint(rec), "changes": csS, "before": before, "after": after, "class": v.why})
						continue
					case err != nil:
						if after != before {
							r.Violation(key+" => rejected update changed the set", map[string]any{"changes": csS, "err": err.Error(), "before": before, "after": after})
							continue
						}
						if !v.mustReject {
							if v.mayReject {
								h["update:conservative_reject(running total > Max before decreases/removals)"]++
							} else {
								r.Violation(key+" => acceptable update rejected", map[string]any{"changes": csS, "err": err.Error(), "before": before})
							}
						} else {
							h["update:rejected:"+v.why]++
						}
						continue // state unchanged: no new node
					default:
						if v.mustReject {
							r.Violation(key+" => update that must be rejected ("+v.why+") was accepted", map[string]any{"changes": csS, "before": before, "after": after})
							continue
						}
						if !checkWellFormed(vs, v.result, key) {
							continue
						}
						if len(cs) == 0 && after != before {
							r.Violation(key+" => empty change set modified the set", map[string]any{"before": before, "after": after})
						}
						h["update:accepted:"+v.why]++
						child = &node{vs: vs, m: v.result}
					}
				}
				child.path = append(append([]string(nil), nd.path...), o.name)
				results[fi] = append(results[fi], res{snapshot(child.vs), child})
			}
		})
		trans += tr.Load()
		var next []*node
		for fi := range results {
			for k, v := range hists[fi] {
				r.OutcomeN(k, v)
			}
			for _, rs := range results[fi] {
				if !visited[rs.key] {
					visited[rs.key] = true
					next = append(next, rs.n)
					states++
					r.Distinct(baseName + "|" + rs.key)
				}
			}
		}
		frontier = next
	}
	// states at the last level are checked (well-formedness) when created; they are not expanded.
	return states, trans
}

func tuples(n int, alphabet []int64, f func([]int64)) {
	cur := make([]int64, n)
	var rec func(i int)
	rec = func(i int) {
		if i == n {
			f(append([]int64(nil), cur...))
			return
		}
		for _, a := range alphabet {
			cur[i] = a
			rec(i + 1)
		}
	}
	rec(0)
}

func main() {
	r = vk.New("model_checking")
	if r.ReplayIn != "" {
		fmt.Printf("replay %s: the exploration is deterministic and exhaustive; re-running the quick tier re-reports the recorded violation key if it still occurs\n", r.ReplayIn)
	}
	r.SetBudget(80*time.Second, 15*time.Minute)
	for i := 0; i < 6; i++ {
		p := ed25519.GenPrivKeyFromSecret([]byte(fmt.Sprintf("verif-c37-validator-%d", i)))
		pub := p.PubKey().(ed25519.PubKeyEd25519)
		U = append(U, key{pub, pub.Address()})
	}
	sort.Slice(U, func(a, b int) bool { return bytes.Compare(U[a].addr[:], U[b].addr[:]) < 0 })

	// Part A
	alphabet := []int64{1, 2, 3, 5, 10}
	maxN := 4
	if r.Thorough() {
		alphabet = []int64{1, 2, 3, 5, 10, 17}
		maxN = 5
	}
	var sets [][]int64
	for n := 1; n <= maxN; n++ {
		tuples(n, alphabet, func(p []int64) { sets = append(sets, p) })
	}
	if r.Thorough() {
		sets = append(sets, []int64{100, 1}, []int64{1, 100}, []int64{99, 50, 1}, []int64{64, 32, 16, 8, 4, 2})
	}
	var mu sync.Mutex
	r.ParFor(len(sets), func(i int) {
		h := map[string]int64{}
		fairness(sets[i], h)
		mu.Lock()
		for k, v := range h {
			r.OutcomeN(k, v)
		}
		mu.Unlock()
	})
	fairSets := len(sets)
	h := map[string]int64{}
	steps := 3000
	if r.Thorough() {
		steps = 50000
	}
	for _, pw := range [][]int64{{M}, {M / 2, M / 4, M / 8, M - M/2 - M/4 - M/8}, {M - 3, 1, 1, 1}, {1, M - 1}, {M / 3, M / 3, M / 3}} {
		nearMax(pw, steps, h)
	}
	for k, v := range h {
		r.OutcomeN(k, v)
	}
	r.Sample(map[string]any{"fairness_example": "powers=[3 1 1]: every window of 5 consecutive proposers contains u0 x3, u1 x1, u2 x1", "sets": fairSets})

	// Part B
	depth := 3
	if r.Thorough() {
		depth = 4
	}
	ops := opsAlphabet(r.Thorough())
	type base struct {
		name string
		idx  []int
		pw   []int64
	}
	bases := []base{
		{"base{u1:1}", []int{1}, []int64{1}},
		{"base{u1:10,u2:10,u4:10}", []int{1, 2, 4}, []int64{10, 10, 10}},
		{"base{u1:1,u2:2,u4:3,u5:5}", []int{1, 2, 4, 5}, []int64{1, 2, 3, 5}},
		{"base{u1:10,u4:1}", []int{1, 4}, []int64{10, 1}},
		{"base{u2:3,u4:3}", []int{2, 4}, []int64{3, 3}},
		{"base{u1:Max/2,u4:Max/4}", []int{1, 4}, []int64{M / 2, M / 4}},
	}
	if r.Thorough() {
		bases = append(bases, base{"base{u0:5,u3:1,u5:100}", []int{0, 3, 5}, []int64{5, 1, 100}},
			base{"base{u0..u5:1}", []int{0, 1, 2, 3, 4, 5}, []int64{1, 1, 1, 1, 1, 1}})
	}
	var opNames []string
	for _, o := range ops {
		opNames = append(opNames, o.name)
	}
	var bStates, bTrans int64
	for _, b := range bases {
		s, t := updatesBFS(b.name, b.idx, b.pw, depth, ops)
		bStates += s
		bTrans += t
		r.EvalN(t)
	}
	nStates.Add(bStates)
	nTrans.Add(bTrans)
	r.Sample(map[string]any{"update_ops": opNames, "depth": depth, "bases": len(bases)})
	r.Assumptions = []string{
		"fairness is stated for sets built by NewValidatorSet (all priorities equal) and not changed afterwards; windows start at every state reachable in the first 2*total increments",
		"sets near MaxTotalVotingPower cannot be run for a full window (2^60 heights): they are compared step by step with a clipping-free big-integer weighted round robin for a bounded number of steps",
		"a change set whose final total is <= Max may still be rejected when the running total (increases applied before decreases/removals, as documented in UpdateWithChangeSet) exceeds Max; this conservative rejection is tolerated and counted",
	}
	r.Finish("Part A: every ordered power tuple (n<=maxN) - all windows of length total from the first 2*total states, increment counts {1,2,total,total+1} from each; Part B: BFS (dedup on validators+powers+priorities+proposer) over update/increment sequences from 6+ base sets",
		true, map[string]any{"states": nStates.Load(), "transitions": nTrans.Load(), "traces_validated_against_impl": nTrans.Load(),
			"depth": depth, "fairness_sets": fairSets, "update_states": bStates, "update_transitions": bTrans, "update_alphabet": len(ops)})
}
