// C54: gnovm/pkg/gnofmt — formatting is idempotent and preserves the program.
//
// For every enumerated source x that parses (go/parser, ParseComments|AllErrors — exactly what gnofmt uses):
//
//	y = fmt(x) must succeed, y must parse, fmt(y) == y byte for byte,
//	AST(y) ≅ AST(x) ignoring positions, comment placement and the layout of import declarations,
//	the comment texts of y are those of x,
//
// for both entry points: FormatSource (layout only; the import set must be unchanged) and FormatImportFromSource
// (imports are rewritten against a resolver; a boring model states what may change: an import that is used by a selector
// must survive, an import that appears must be the resolver's first candidate for an unbound selector name, blank
// imports survive, a missing resolvable import must be added).
//
// go/printer itself is known not to be a perfect fixpoint / AST-preserving printer (it drops empty statements and
// redundant parentheses, normalises number literals, moves some comments).  Such behaviour is separated, not hidden:
// a failing case is classified "inherited" (counted, not a violation) iff go/format.Source shows the same failure on
// the same input (same AST as gnofmt's output / same comment set / go/format not a fixpoint either); for AST and comment
// changes the second upstream stage gnofmt delegates to, x/tools imports.Process(FormatOnly), is a reference as well.
//
// The package-level entry points FormatFile / FormatPackageFile (multi-file packages on disk, one shared Processor as in
// `gno fmt`) are covered by packages.go: the same oracle per file, plus "the result must not depend on what the Processor
// formatted or resolved before" (every operation sequence on a shared Processor == fresh Processors).
//
// Enumerated: every token sequence <= k over four small alphabets (statements, declarations, expressions with comment
// and blank-line tokens; import sections x 8 file bodies against a mock resolver with colliding package names), kept
// when it parses; every single-token deletion/duplication of corpus files that still parses (real FS resolver).
package main

import (
	"bytes"
	"fmt"
	"go/ast"
	"go/format"
	"go/parser"
	"go/scanner"
	"go/token"
	"io"
	"os"
	"path/filepath"
	"reflect"
	"runtime/debug"
	"sort"
	"strconv"
	"strings"
	"sync"
	"sync/atomic"
	"time"

	"github.com/gnolang/gno/gnovm/pkg/gnofmt"
	"golang.org/x/tools/imports"
	"verif/engine/vk"
)

var r *vk.Run

const fname = "in.gno"

// ---------------------------------------------------------------------------------------------
// mock resolver (same shape as gnofmt's own resolver_mock.go, which is unexported)

type mpkg struct {
	path, name string
	files      map[string]string
	order      []string
}

func (m *mpkg) Path() string    { return m.path }
func (m *mpkg) Name() string    { return m.name }
func (m *mpkg) Files() []string { return m.order }
func (m *mpkg) Read(fn string) (io.ReadCloser, error) {
	b, ok := m.files[fn]
	if !ok {
		return nil, fmt.Errorf("file not found %q", fn)
	}
	return io.NopCloser(strings.NewReader(b)), nil
}

type mresolver struct {
	byPath map[string]gnofmt.Package
	byName map[string][]gnofmt.Package
}

func (m *mresolver) ResolveName(n string) []gnofmt.Package { return m.byName[n] }
func (m *mresolver) ResolvePath(p string) gnofmt.Package {
	if pk, ok := m.byPath[p]; ok {
		return pk
	}
	return nil
}

// exports of the mock packages (also the reference model's knowledge)
type mockDef struct {
	path, name string
	exports    []string
}

var mockDefs = []mockDef{
	{"std/a", "a", []string{"A"}},
	{"ex/b", "b", []string{"B"}},
	{"ex/c/v0", "c", []string{"C"}}, // package name != last path element
	{"ex/d1/d", "d", []string{"D"}}, // two packages named d
	{"ex/d2/d", "d", []string{"D", "E"}},
}

func newMock() *mresolver {
	m := &mresolver{byPath: map[string]gnofmt.Package{}, byName: map[string][]gnofmt.Package{}}
	for _, d := range mockDefs {
		var b strings.Builder
		fmt.Fprintf(&b, "package %s\n\n", d.name)
		for _, e := range d.exports {
			fmt.Fprintf(&b, "var %s = 1\n", e)
		}
		p := &mpkg{path: d.path, name: d.name, files: map[string]string{d.name + ".gno": b.String()}, order: []string{d.name + ".gno"}}
		m.byPath[d.path] = p
		m.byName[d.name] = append(m.byName[d.name], p)
	}
	return m
}

// resolver knowledge used by the model: works for both the mock and the FS resolver
type knowledge interface {
	gnofmt.Resolver
}

// exported top-level names of a resolver package (independent re-implementation for the model)
func exportsOf(p gnofmt.Package) map[string]bool {
	out := map[string]bool{}
	for _, fn := range p.Files() {
		if !strings.HasSuffix(fn, ".gno") {
			continue
		}
		rc, err := p.Read(fn)
		if err != nil {
			continue
		}
		b, _ := io.ReadAll(rc)
		rc.Close()
		f, err := parser.ParseFile(token.NewFileSet(), fn, b, parser.SkipObjectResolution)
		if err != nil {
			return map[string]bool{} // gnofmt treats a package that does not parse as exposing nothing
		}
		for _, d := range f.Decls {
			switch d := d.(type) {
			case *ast.GenDecl:
				for _, s := range d.Specs {
					switch s := s.(type) {
					case *ast.TypeSpec:
						if ast.IsExported(s.Name.Name) {
							out[s.Name.Name] = true
						}
					case *ast.ValueSpec:
						for _, n := range s.Names {
							if ast.IsExported(n.Name) {
								out[n.Name] = true
							}
						}
					}
				}
			case *ast.FuncDecl:
				if d.Recv == nil && ast.IsExported(d.Name.Name) {
					out[d.Name.Name] = true
				}
			}
		}
	}
	return out
}

// ---------------------------------------------------------------------------------------------
// normal form of a parsed file: declarations without positions/comments, the import set, the comment texts

type normal struct {
	decls    string
	imports  []string // sorted "name path"
	comments []string // sorted content lines of all comments (see normComment)
}

var (
	posType     = reflect.TypeOf(token.NoPos)
	cgroupType  = reflect.TypeOf((*ast.CommentGroup)(nil))
	objectType  = reflect.TypeOf((*ast.Object)(nil))
	scopeType   = reflect.TypeOf((*ast.Scope)(nil))
	genDeclType = reflect.TypeOf((*ast.GenDecl)(nil))
)

func walk(b *strings.Builder, v reflect.Value) {
	switch v.Kind() {
	case reflect.Interface:
		if v.IsNil() {
			b.WriteString("nil")
			return
		}
		walk(b, v.Elem())
	case reflect.Pointer:
		if v.IsNil() {
			b.WriteString("nil")
			return
		}
		switch v.Type() {
		case cgroupType, objectType, scopeType:
			return
		}
		walk(b, v.Elem())
	case reflect.Struct:
		t := v.Type()
		b.WriteString(t.Name())
		b.WriteByte('{')
		for i := 0; i < v.NumField(); i++ {
			f := v.Field(i)
			switch f.Type() {
			case cgroupType, objectType, scopeType:
				continue
			case posType:
				// only whether the token is present (e.g. CallExpr.Ellipsis, TypeSpec.Assign), never where
				if f.Int() != 0 {
					b.WriteString("+")
				} else {
					b.WriteString("-")
				}
				continue
			}
			b.WriteString(t.Field(i).Name)
			b.WriteByte(':')
			walk(b, f)
			b.WriteByte(' ')
		}
		b.WriteByte('}')
	case reflect.Slice:
		b.WriteByte('[')
		for i := 0; i < v.Len(); i++ {
			walk(b, v.Index(i))
			b.WriteByte(',')
		}
		b.WriteByte(']')
	case reflect.String:
		b.WriteString(strconv.Quote(v.String()))
	case reflect.Int, reflect.Int8, reflect.Int16, reflect.Int32, reflect.Int64:
		b.WriteString(strconv.FormatInt(v.Int(), 10))
	case reflect.Bool:
		b.WriteString(strconv.FormatBool(v.Bool()))
	default:
		panic("walk: unhandled kind " + v.Kind().String())
	}
}

// normComment reduces a comment to its non-empty content lines without comment markers and surrounding blanks:
// "comment placement" and gofmt's doc-comment layout (`//c` -> `// c`, blank `//` lines at the ends, re-indentation of
// /* */ bodies) are not content; dropped, duplicated or edited comment text is.
func normComment(s string) []string {
	switch {
	case strings.HasPrefix(s, "//"):
		s = s[2:]
	case strings.HasPrefix(s, "/*"):
		s = strings.TrimSuffix(s[2:], "*/")
	}
	var out []string
	for _, l := range strings.Split(s, "\n") {
		if l = strings.TrimSpace(l); l != "" {
			out = append(out, l)
		}
	}
	return out
}

func normalize(f *ast.File) normal {
	var n normal
	var b strings.Builder
	b.WriteString("package " + f.Name.Name + "\n")
	for _, d := range f.Decls {
		if g, ok := d.(*ast.GenDecl); ok && g.Tok == token.IMPORT {
			for _, s := range g.Specs {
				is := s.(*ast.ImportSpec)
				name := ""
				if is.Name != nil {
					name = is.Name.Name
				}
				n.imports = append(n.imports, name+" "+is.Path.Value)
			}
			continue
		}
		walk(&b, reflect.ValueOf(d))
		b.WriteByte('\n')
	}
	n.decls = b.String()
	sort.Strings(n.imports)
	for _, cg := range f.Comments {
		for _, c := range cg.List {
			n.comments = append(n.comments, normComment(c.Text)...)
		}
	}
	sort.Strings(n.comments)
	return n
}

func sameStrings(a, b []string) bool {
	if len(a) != len(b) {
		return false
	}
	for i := range a {
		if a[i] != b[i] {
			return false
		}
	}
	return true
}

// set semantics (sortImports de-duplicates identical import specs)
func uniq(a []string) []string {
	var out []string
	for i, s := range a {
		if i == 0 || s != a[i-1] {
			out = append(out, s)
		}
	}
	return out
}

func parseSrc(src []byte) (*ast.File, error) {
	return parser.ParseFile(token.NewFileSet(), fname, src, parser.ParseComments|parser.AllErrors)
}

// ---------------------------------------------------------------------------------------------
// the reference model for the import-resolving entry point

type importModel struct {
	used      map[string]map[string]bool // unbound selector base name -> selected names
	bindings  map[string][]string        // effective name -> import keys ("name path") binding it
	blank     []string                   // blank imports
	mustAdd   [][]string                 // per unbound name with a candidate exposing every used selector: import keys of all justified candidates
	mayAdd    map[string]bool            // import keys of every justified candidate (exposes at least one used selector of an unbound name)
	choices   int                        // number of unbound names with >= 2 justified candidates
	ambiguous bool
}

var predeclared = map[string]bool{}

func init() {
	for _, s := range strings.Fields("any bool byte comparable complex64 complex128 error float32 float64 int int8 int16 int32 int64 rune string uint uint8 uint16 uint32 uint64 uintptr append cap close complex copy delete imag len make new panic print println real recover false iota nil true") {
		predeclared[s] = true
	}
}

func lastElem(p string) string {
	if i := strings.LastIndex(p, "/"); i >= 0 {
		return p[i+1:]
	}
	return p
}

func buildModel(f *ast.File, k knowledge, exports func(gnofmt.Package) map[string]bool, pkgTop map[string]bool) *importModel {
	m := &importModel{used: map[string]map[string]bool{}, bindings: map[string][]string{}, mayAdd: map[string]bool{}}
	top := map[string]bool{}
	for n := range pkgTop {
		top[n] = true
	}
	for _, d := range f.Decls {
		switch d := d.(type) {
		case *ast.GenDecl:
			for _, s := range d.Specs {
				switch s := s.(type) {
				case *ast.TypeSpec:
					top[s.Name.Name] = true
				case *ast.ValueSpec:
					for _, n := range s.Names {
						top[n.Name] = true
					}
				}
			}
		case *ast.FuncDecl:
			if d.Recv == nil {
				top[d.Name.Name] = true
			}
		}
	}
	ast.Inspect(f, func(n ast.Node) bool {
		if se, ok := n.(*ast.SelectorExpr); ok {
			if id, ok := se.X.(*ast.Ident); ok && id.Obj == nil && !predeclared[id.Name] && !top[id.Name] && id.Name != "_" {
				if m.used[id.Name] == nil {
					m.used[id.Name] = map[string]bool{}
				}
				m.used[id.Name][se.Sel.Name] = true
			}
		}
		return true
	})
	for _, is := range f.Imports {
		path, err := strconv.Unquote(is.Path.Value)
		if err != nil {
			m.ambiguous = true
			continue
		}
		key := " " + is.Path.Value
		name := lastElem(path)
		if p := k.ResolvePath(path); p != nil {
			name = p.Name()
		}
		if is.Name != nil {
			key = is.Name.Name + key
			if is.Name.Name == "_" {
				m.blank = append(m.blank, key)
				// gnofmt lets a blank import stand in for its package name; nothing is required of it here
				m.bindings[name] = append(m.bindings[name], key)
				continue
			}
			name = is.Name.Name
		}
		m.bindings[name] = append(m.bindings[name], key)
	}
	var names []string
	for name := range m.used {
		names = append(names, name)
	}
	sort.Strings(names)
	for _, name := range names {
		sels := m.used[name]
		if len(m.bindings[name]) > 0 {
			continue
		}
		var just []string
		full := false
		for _, cand := range k.ResolveName(name) {
			ex := exports(cand)
			hits := 0
			for s := range sels {
				if ex[s] {
					hits++
				}
			}
			if hits > 0 {
				key := " " + strconv.Quote(cand.Path())
				just = append(just, key)
				m.mayAdd[key] = true
			}
			if hits == len(sels) {
				full = true
			}
		}
		if len(just) >= 2 {
			m.choices++
		}
		if full {
			m.mustAdd = append(m.mustAdd, just)
		}
	}
	return m
}

// returns "" or a description of the first broken rule
func (m *importModel) judge(before, after []string) (kind, msg string) {
	has := func(l []string, k string) bool {
		i := sort.SearchStrings(l, k)
		return i < len(l) && l[i] == k
	}
	// (a) a used, unambiguously bound import survives
	for name := range m.used {
		b := uniq(sortedCopy(m.bindings[name]))
		if len(b) != 1 || len(m.bindings[name]) != 1 {
			continue // bound twice (not a valid program) or not bound
		}
		if strings.HasPrefix(b[0], "_ ") {
			continue
		}
		if !has(after, b[0]) {
			return "used-import-removed", fmt.Sprintf("import %q is used (selector on %q) but was removed", b[0], name)
		}
	}
	// (b) blank imports survive
	for _, k := range m.blank {
		if !has(after, k) {
			return "blank-import-removed", fmt.Sprintf("blank import %q was removed", k)
		}
	}
	// (c) everything new is justified
	for _, k := range after {
		if !has(before, k) && !m.mayAdd[k] {
			return "unjustified-import-added", fmt.Sprintf("import %q was added but the model has no unbound selector that resolves to it", k)
		}
	}
	// (d) everything resolvable is added
	for _, just := range m.mustAdd {
		found := false
		for _, k := range just {
			found = found || has(after, k)
		}
		if !found {
			return "resolvable-import-not-added", fmt.Sprintf("an unbound selector base is resolvable to %q (exposes every selector used), but no such import was added", just)
		}
	}
	return "", ""
}

func sortedCopy(a []string) []string {
	b := append([]string{}, a...)
	sort.Strings(b)
	return b
}

// ---------------------------------------------------------------------------------------------
// one case

const (
	entryLayout  = "FormatSource"
	entryImports = "FormatImportFromSource"
)

type env struct {
	res     gnofmt.Resolver
	exports func(gnofmt.Package) map[string]bool
	// package-level entry points (packages.go): the file under test lives on disk next to the other files of its package
	fmtFn   func(src []byte) ([]byte, error) // formats the package file with content src (fresh Processor)
	pkgTop  map[string]bool                  // top-level names declared by the other files of the package
	noModel bool                             // real corpus packages: the import model is not applied (see packages.go)
}

func runFmt(e *env, entry string, src []byte) (out []byte, err error, pan any) {
	if e.fmtFn != nil {
		pan = vk.Catch(func() { out, err = e.fmtFn(src) })
		return
	}
	pan = vk.Catch(func() {
		p := gnofmt.NewProcessor(e.res)
		if entry == entryLayout {
			out, err = p.FormatSource(fname, src)
		} else {
			out, err = p.FormatImportFromSource(fname, src)
		}
	})
	return
}

type tally struct {
	m map[string]int64
	n int64
}

func (t *tally) add(k string) {
	if t.m == nil {
		t.m = map[string]int64{}
	}
	t.m[k]++
}
func (t *tally) flush() {
	for k, v := range t.m {
		r.OutcomeN(k, v)
	}
	r.EvalN(t.n)
	t.m, t.n = nil, 0
}

var nFormatted atomic.Int64

// exactly the options gnofmt passes (processor.go formatNode)
var upstreamOpts = &imports.Options{TabWidth: 8, Comments: true, TabIndent: true, FormatOnly: true}

// Violations are aggregated per class (failure kind + entry point + root-cause signature of the input); each class is
// reported once, with its minimal failing input and the number of failing inputs.
type classRec struct {
	n      int64
	label  string
	src    string
	detail map[string]any
}

var (
	classMu sync.Mutex
	classes = map[string]*classRec{}
)

func report(class, label string, src []byte, detail map[string]any) {
	classMu.Lock()
	defer classMu.Unlock()
	c := classes[class]
	if c == nil {
		c = &classRec{}
		classes[class] = c
	}
	c.n++
	if c.n == 1 || len(src) < len(c.src) || (len(src) == len(c.src) && label < c.label) {
		c.label, c.src, c.detail = label, string(src), detail
	}
}

func flushClasses() {
	var keys []string
	for k := range classes {
		keys = append(keys, k)
	}
	sort.Strings(keys)
	for _, k := range keys {
		c := classes[k]
		r.Violation(k, map[string]any{"class": k, "failing_inputs_in_class": c.n, "minimal_input": c.src, "minimal_label": c.label, "detail": c.detail})
		if strings.TrimSpace(c.src) == "" { // package operations: the input is identified by its label
			fmt.Printf("  class %s: %d failing inputs; minimal: %s\n", k, c.n, c.label)
			continue
		}
		fmt.Printf("  class %s: %d failing inputs; minimal: %q\n", k, c.n, c.src)
	}
}

// signature of the input for classing: "dup-import-binding" when two import specs bind the same name (not a valid
// program), "comment-in-import-decl" when a comment sits on a line spanned by an import declaration.
func signature(fx *ast.File, res gnofmt.Resolver) string {
	names := map[string]int{}
	dup := false
	for _, is := range fx.Imports {
		path, _ := strconv.Unquote(is.Path.Value)
		name := lastElem(path)
		if p := res.ResolvePath(path); p != nil {
			name = p.Name()
		}
		if is.Name != nil {
			if is.Name.Name == "_" {
				continue
			}
			name = is.Name.Name
		}
		names[name]++
		if names[name] > 1 {
			dup = true
		}
	}
	var sig []string
	if dup {
		sig = append(sig, "dup-import-binding")
	}
	// an imported name whose first unresolved occurrence is not the base of a selector (not a valid program either)
	selBase := map[*ast.Ident]bool{}
	ast.Inspect(fx, func(n ast.Node) bool {
		if se, ok := n.(*ast.SelectorExpr); ok {
			if id, ok := se.X.(*ast.Ident); ok {
				selBase[id] = true
			}
		}
		return true
	})
	seen := map[string]bool{}
	for _, u := range fx.Unresolved {
		if seen[u.Name] {
			continue
		}
		seen[u.Name] = true
		if names[u.Name] > 0 && !selBase[u] {
			sig = append(sig, "pkgname-first-used-outside-selector")
			break
		}
	}
	return strings.Join(sig, "+")
}

func commentInImportDecl(src []byte) bool {
	fs := token.NewFileSet()
	f, err := parser.ParseFile(fs, fname, src, parser.ParseComments)
	if err != nil {
		return false
	}
	for _, d := range f.Decls {
		g, ok := d.(*ast.GenDecl)
		if !ok || g.Tok != token.IMPORT {
			continue
		}
		lo, hi := fs.Position(g.Pos()).Line, fs.Position(g.End()).Line
		for _, cg := range f.Comments {
			for _, c := range cg.List {
				if l := fs.Position(c.Pos()).Line; l >= lo && l <= hi {
					return true
				}
			}
		}
	}
	return false
}

func clip(s string) string {
	if len(s) > 4000 {
		return s[:4000] + "\n...(clipped)"
	}
	return s
}

// check one parseable source through one entry point.  label identifies the input.
func checkOne(e *env, entry, label string, src []byte, fx *ast.File, t *tally) {
	t.n++
	nFormatted.Add(1)
	sig := signature(fx, e.res)
	violation := func(what string, d map[string]any) {
		class := what + ":" + entry
		if sig != "" {
			class += ":" + sig
		}
		if what == "nondeterministic-output" && commentInImportDecl(src) {
			class += ":comment-in-import-decl"
		}
		report(class, label, src, d)
	}
	det := func(extra map[string]any) map[string]any {
		d := map[string]any{"entry": entry, "label": label, "src": string(src)}
		for k, v := range extra {
			d[k] = v
		}
		return d
	}
	y, err, pan := runFmt(e, entry, src)
	if pan != nil {
		violation("panic", det(map[string]any{"panic": fmt.Sprint(pan)}))
		return
	}
	// lazily computed go/format behaviour on the same input
	var g1 []byte
	var gerr error
	var gdone bool
	gofmt := func() ([]byte, error) {
		if !gdone {
			g1, gerr = format.Source(src)
			gdone = true
		}
		return g1, gerr
	}
	if err != nil {
		if g, ge := gofmt(); ge != nil {
			t.add("inherited_format_error")
			return
		} else if _, pe := parseSrc(g); pe != nil {
			// go/printer itself emits text that no longer parses (gnofmt notices because it re-parses, and refuses)
			t.add("inherited_printer_output_unparseable")
			return
		}
		violation("fmt-error", det(map[string]any{"error": err.Error()}))
		return
	}
	fy, perr := parseSrc(y)
	if perr != nil {
		violation("output-does-not-parse", det(map[string]any{"out": clip(string(y)), "error": perr.Error()}))
		return
	}
	if bytes.Equal(y, src) {
		t.add("already_formatted")
	} else {
		t.add("reformatted")
	}
	nx, ny := normalize(fx), normalize(fy)

	// 1. idempotence
	y2, err2, pan2 := runFmt(e, entry, y)
	switch {
	case pan2 != nil || err2 != nil:
		violation("second-pass-fails", det(map[string]any{"out": clip(string(y)), "error": fmt.Sprint(err2, pan2)}))
		return
	case !bytes.Equal(y2, y):
		// inherited iff go/format is not a fixpoint on this input either
		inherited := false
		if a, e1 := gofmt(); e1 == nil {
			if b, e2 := format.Source(a); e2 != nil || !bytes.Equal(a, b) {
				inherited = true
			} else if c, e3 := format.Source(b); e3 != nil || !bytes.Equal(b, c) {
				inherited = true
			}
		}
		if inherited {
			t.add("inherited_not_idempotent")
		} else {
			violation("not-idempotent", det(map[string]any{"pass1": clip(string(y)), "pass2": clip(string(y2))}))
			return
		}
	default:
		t.add("idempotent")
	}

	// 2. declarations preserved
	// go/format iterates on the same input (go/printer needs up to two extra passes to reach its own fixpoint, e.g. a doc
	// comment is only reformatted once it abuts the declaration exactly)
	var ngs []normal
	gofmtNormals := func() []normal {
		if ngs == nil {
			ngs = []normal{}
			cur, e1 := gofmt()
			for i := 0; i < 3 && e1 == nil; i++ {
				fg, e2 := parseSrc(cur)
				if e2 != nil {
					break
				}
				ngs = append(ngs, normalize(fg))
				cur, e1 = format.Source(cur)
			}
			// the other upstream stage gnofmt delegates to: x/tools imports.Process in format-only mode (it re-parses,
			// merges/sorts import declarations and prints; e.g. it turns a comment inside an import block into a
			// reformatted doc comment)
			cur2, e3 := imports.Process(fname, src, upstreamOpts)
			for i := 0; i < 2 && e3 == nil; i++ {
				fg, e2 := parseSrc(cur2)
				if e2 != nil {
					break
				}
				ngs = append(ngs, normalize(fg))
				cur2, e3 = imports.Process(fname, cur2, upstreamOpts)
			}
		}
		return ngs
	}
	inheritedDecls := func() bool {
		for _, g := range gofmtNormals() {
			if g.decls == ny.decls {
				return true
			}
		}
		return false
	}
	inheritedComments := func() bool {
		for _, g := range gofmtNormals() {
			if sameStrings(g.comments, ny.comments) {
				return true
			}
		}
		return false
	}
	if nx.decls != ny.decls {
		if inheritedDecls() {
			t.add("inherited_ast_change")
		} else {
			violation("ast-changed", det(map[string]any{"out": clip(string(y)), "ast_in": clip(nx.decls), "ast_out": clip(ny.decls), "ast_gofmt": gofmtNormals()}))
			return
		}
	} else {
		t.add("ast_preserved")
	}

	// 3. imports
	importsChanged := !sameStrings(uniq(nx.imports), uniq(ny.imports))
	if entry == entryLayout {
		if importsChanged {
			violation("layout-only-changed-imports", det(map[string]any{"out": clip(string(y)), "before": nx.imports, "after": ny.imports}))
			return
		}
	} else if e.noModel {
		t.add("imports_not_judged(real_package)")
	} else {
		m := buildModel(fx, e.res, e.exports, e.pkgTop)
		if kind, msg := m.judge(uniq(nx.imports), uniq(ny.imports)); kind != "" {
			violation("imports-"+kind, det(map[string]any{"out": clip(string(y)), "before": nx.imports, "after": ny.imports, "rule": msg}))
			return
		}
		switch {
		case len(ny.imports) > len(nx.imports) || len(m.mustAdd) > 0:
			t.add("imports_added")
		case importsChanged:
			t.add("imports_pruned")
		default:
			t.add("imports_unchanged")
		}
		if len(m.mustAdd) >= 2 || m.choices > 0 {
			// several imports are added in map-iteration order: the output must not depend on it
			t.add("multi_add_repeat_checked")
			for i := 0; i < 32; i++ {
				yy, _, _ := runFmt(e, entry, src)
				if !bytes.Equal(yy, y) {
					violation("nondeterministic-output", det(map[string]any{"out1": clip(string(y)), "out2": clip(string(yy))}))
					break
				}
			}
		}
	}

	// 4. comments: same texts (placement is free); an import that was pruned may take its comments with it
	if !sameStrings(nx.comments, ny.comments) {
		pruned := entry == entryImports && importsChanged && subMultiset(ny.comments, nx.comments)
		switch {
		case pruned:
			t.add("comments_dropped_with_pruned_import")
		case inheritedComments():
			t.add("inherited_comment_change")
		default:
			violation("comments-changed", det(map[string]any{"out": clip(string(y)), "before": nx.comments, "after": ny.comments}))
		}
	}
}

func subMultiset(a, b []string) bool { // both sorted
	j := 0
	for _, s := range a {
		for j < len(b) && b[j] < s {
			j++
		}
		if j >= len(b) || b[j] != s {
			return false
		}
		j++
	}
	return true
}

// ---------------------------------------------------------------------------------------------
// (a) token-sequence enumeration

type family struct {
	name     string
	pre, suf string
	alpha    []string
	entries  []string
}

var (
	stmtAlpha = []string{"x", "1", "=", ":=", ";", "\n", "\n\n", "{", "}", "(", ")", ",", "if", "for", "//c\n", "/*c*/"}
	declAlpha = []string{"var", "type", "func", "x", "y", "(", ")", "{", "}", "struct", "=", "1", ",", "\n", "//c\n", "/*c*/"}
	exprAlpha = []string{"x", "1", "(", ")", "[", "]", "{", "}", ",", ".", ":", "*", "+", "-", "\n", "/*c*/"}
	impAlpha  = []string{"import", "(", ")", `"std/a"`, `"ex/b"`, `"ex/c/v0"`, "b", "_", "\n", ";", "//c\n", "/*c*/"}
)

var families = []family{
	{"stmt", "package p\n\nfunc _() {\n", "\n}\n", stmtAlpha, []string{entryLayout, entryImports}},
	{"decl", "package p\n\n", "\n", declAlpha, []string{entryLayout, entryImports}},
	{"expr", "package p\n\nvar _ = ", "\n", exprAlpha, []string{entryLayout}},
}

// bodies appended to every parseable import section
var bodies = []struct{ name, src string }{
	{"none", ""},
	{"a.A", "var _ = a.A\n"},
	{"b.B", "var _ = b.B\n"},
	{"c.C", "var _ = c.C\n"},
	{"d.D", "var _ = d.D\n"},
	{"multi", "var _ = a.A + b.B + d.E + zz.Q\n"},
	{"topshadow", "var a = struct{ A int }{}\n\nvar _ = a.A\n"},
	{"localshadow", "func _() {\n\tb := struct{ B int }{}\n\t_ = b.B\n\t_ = c.C\n}\n"},
}

func renderSeq(pre, suf string, alpha []string, idx []int) ([]byte, string) {
	var b, l strings.Builder
	b.WriteString(pre)
	for j, i := range idx {
		if j > 0 {
			b.WriteByte(' ')
			l.WriteByte(' ')
		}
		b.WriteString(alpha[i])
		l.WriteString(strings.ReplaceAll(alpha[i], "\n", `\n`))
	}
	b.WriteString(suf)
	return []byte(b.String()), l.String()
}

// forEachSeq enumerates all sequences of length n over an alphabet of size A, in parallel over the first two positions.
func forEachSeq(A, n int, f func(idx []int, t *tally)) (count int64, complete bool) {
	top, split := 1, 0
	for split < n && split < 2 {
		top *= A
		split++
	}
	var cnt, done atomic.Int64
	r.ParFor(top, func(w int) {
		var t tally
		idx := make([]int, n)
		ww := w
		for j := split - 1; j >= 0; j-- {
			idx[j] = ww % A
			ww /= A
		}
		var rec func(pos int) bool
		rec = func(pos int) bool {
			if pos == n {
				f(idx, &t)
				cnt.Add(1)
				return true
			}
			for i := 0; i < A; i++ {
				idx[pos] = i
				if !rec(pos + 1) {
					return false
				}
				if pos == n-2 && r.Expired() {
					return false
				}
			}
			return true
		}
		if rec(split) {
			done.Add(1)
		}
		t.flush()
	})
	return cnt.Load(), int(done.Load()) == top
}

var nParsed, nParseable atomic.Int64

func enumFamily(e *env, fam family, n int) (int64, bool) {
	return forEachSeq(len(fam.alpha), n, func(idx []int, t *tally) {
		src, label := renderSeq(fam.pre, fam.suf, fam.alpha, idx)
		nParsed.Add(1)
		fx, err := parseSrc(src)
		if err != nil {
			return
		}
		nParseable.Add(1)
		r.Distinct(fam.name + ":" + label)
		for _, en := range fam.entries {
			if en != fam.entries[0] {
				fx, _ = parseSrc(src) // gnofmt never mutates our tree, but keep the inputs independent anyway
			}
			checkOne(e, en, fam.name+":"+label, src, fx, t)
		}
	})
}

func enumImports(e *env, n int) (int64, bool) {
	return forEachSeq(len(impAlpha), n, func(idx []int, t *tally) {
		head, label := renderSeq("package p\n\n", "\n\n", impAlpha, idx)
		nParsed.Add(1)
		if _, err := parseSrc(head); err != nil {
			return
		}
		nParseable.Add(1)
		for _, b := range bodies {
			src := append(append([]byte{}, head...), b.src...)
			for _, en := range []string{entryImports, entryLayout} {
				fx, err := parseSrc(src)
				if err != nil {
					r.HarnessError("import family: body %s does not parse after %q: %v", b.name, label, err)
				}
				r.Distinct("imp:" + label + "|" + b.name)
				checkOne(e, en, "imp:"+label+"|"+b.name, src, fx, t)
			}
		}
	})
}

// ---------------------------------------------------------------------------------------------
// (b) corpus mutations that still parse

type tokSpan struct {
	off, end int
	auto     bool
}

func tokenize(src []byte) []tokSpan {
	fs := token.NewFileSet()
	f := fs.AddFile(fname, -1, len(src))
	var s scanner.Scanner
	s.Init(f, src, nil, scanner.ScanComments)
	var out []tokSpan
	for {
		pos, tok, lit := s.Scan()
		if tok == token.EOF {
			return out
		}
		off := f.Offset(pos)
		sp := tokSpan{off: off}
		switch {
		case tok == token.SEMICOLON && lit == "\n":
			sp.auto = true
			sp.end = off
			if off < len(src) && src[off] == '\n' {
				sp.end = off + 1
			}
		case lit != "":
			sp.end = off + len(lit)
			if sp.end > len(src) || string(src[off:sp.end]) != lit {
				continue
			}
		default:
			sp.end = off + len(tok.String())
		}
		out = append(out, sp)
	}
}

func splice(src []byte, off, end int, ins string) []byte {
	out := make([]byte, 0, len(src)+len(ins))
	out = append(out, src[:off]...)
	out = append(out, ins...)
	return append(out, src[end:]...)
}

type corpusFile struct {
	rel string
	src []byte
}

func loadCorpus(repo string) []corpusFile {
	var out []corpusFile
	for _, root := range []string{"gnovm/tests/files", "examples"} {
		filepath.WalkDir(filepath.Join(repo, root), func(p string, d os.DirEntry, err error) error {
			if err != nil || d.IsDir() || !strings.HasSuffix(p, ".gno") {
				return nil
			}
			if b, err := os.ReadFile(p); err == nil {
				rel, _ := filepath.Rel(repo, p)
				out = append(out, corpusFile{rel, b})
			}
			return nil
		})
	}
	sort.Slice(out, func(i, j int) bool { return out[i].rel < out[j].rel })
	return out
}

func mutateFile(e *env, cf corpusFile, t *tally) (n int64, complete bool) {
	one := func(label string, src []byte) {
		n++
		nParsed.Add(1)
		fx, err := parseSrc(src)
		if err != nil {
			return
		}
		nParseable.Add(1)
		checkOne(e, entryLayout, cf.rel+":"+label, src, fx, t)
		fx, _ = parseSrc(src)
		checkOne(e, entryImports, cf.rel+":"+label, src, fx, t)
	}
	one("orig", cf.src)
	for i, sp := range tokenize(cf.src) {
		if r.Expired() {
			return n, false
		}
		if sp.end > sp.off {
			one(fmt.Sprintf("del@%d", i), splice(cf.src, sp.off, sp.end, " "))
		}
		if sp.auto {
			one(fmt.Sprintf("dup@%d", i), splice(cf.src, sp.off, sp.off, ";"))
		} else {
			one(fmt.Sprintf("dup@%d", i), splice(cf.src, sp.end, sp.end, " "+string(cf.src[sp.off:sp.end])))
		}
	}
	return n, true
}

// ---------------------------------------------------------------------------------------------

func main() {
	if os.Getenv("GOGC") == "" {
		debug.SetGCPercent(400)
	}
	r = vk.New("exploration")
	r.SetBudget(88*time.Second, 25*time.Minute)
	repo := os.Getenv("VERIF_REPO")
	if repo == "" {
		repo = "/repo"
	}
	mock := newMock()
	mockExports := map[string]map[string]bool{}
	for _, d := range mockDefs {
		mockExports[d.path] = exportsOf(mock.byPath[d.path])
	}
	menv := &env{res: mock, exports: func(p gnofmt.Package) map[string]bool { return mockExports[p.Path()] }}

	if sf := os.Getenv("C54_SHOW"); sf != "" { // debugging aid: print what the formatter does with one file (mock resolver)
		src, err := os.ReadFile(sf)
		if err != nil {
			r.HarnessError("%v", err)
		}
		for _, en := range []string{entryLayout, entryImports} {
			y, err, pan := runFmt(menv, en, src)
			fmt.Printf("== %s err=%v panic=%v\n%s", en, err, pan, y)
			y2, _, _ := runFmt(menv, en, y)
			fmt.Printf("== second pass identical=%v\n%s", bytes.Equal(y, y2), y2)
		}
		g, gerr := format.Source(src)
		fmt.Printf("== go/format err=%v\n%s", gerr, g)
		os.Exit(0)
	}

	exhaustive := true
	var info []string
	var nseq int64
	maxDepth := 0
	var depth map[string]int
	if r.Thorough() {
		depth = map[string]int{"stmt": 6, "decl": 6, "expr": 6, "imp": 6}
	} else {
		depth = map[string]int{"stmt": 5, "decl": 5, "expr": 5, "imp": 5}
	}
	onlyPkg := os.Getenv("C54_ONLY") == "pkg" // debugging aid: only the package phase (packages.go)
	if onlyPkg {
		depth = map[string]int{"stmt": -1, "decl": -1, "expr": -1, "imp": -1}
	}
	// multi-file packages on disk: FormatFile / FormatPackageFile, shared vs fresh Processor (packages.go).  First: it is
	// the cheapest part, a budget cap must not hit it.
	fsr := gnofmt.NewFSResolver()
	for _, root := range []string{"gnovm/stdlibs", "examples"} {
		if err := fsr.LoadPackages(filepath.Join(repo, root), func(path string, err error) error { return nil }); err != nil {
			r.HarnessError("LoadPackages %s: %v", root, err)
		}
	}
	pk := packagePhase(repo, fsr)
	if !pk.complete {
		exhaustive = false
	}
	for n := 0; n <= 6; n++ {
		for _, fam := range families {
			if n > depth[fam.name] {
				continue
			}
			p0 := nParseable.Load()
			cnt, ok := enumFamily(menv, fam, n)
			nseq += cnt
			if n >= 3 {
				info = append(info, fmt.Sprintf("%s/len=%d: %d sequences, %d parse, complete=%v", fam.name, n, cnt, nParseable.Load()-p0, ok))
			}
			if ok && n > maxDepth {
				maxDepth = n
			}
			exhaustive = exhaustive && ok
		}
		if n <= depth["imp"] {
			p0 := nParseable.Load()
			cnt, ok := enumImports(menv, n)
			nseq += cnt
			if n >= 3 {
				info = append(info, fmt.Sprintf("imp/len=%d x %d bodies: %d sequences, %d parse, complete=%v", n, len(bodies), cnt, nParseable.Load()-p0, ok))
			}
			exhaustive = exhaustive && ok
		}
	}
	enumFormatted := nFormatted.Load()

	// corpus with the real resolver (stdlibs + examples, like `gno fmt`)
	var expCache atomicMap
	fenv := &env{res: fsr, exports: func(p gnofmt.Package) map[string]bool { return expCache.get(p) }}
	if n := os.Getenv("C54_DEBUG_NAME"); n != "" {
		for _, c := range fsr.ResolveName(n) {
			ex := fenv.exports(c)
			fmt.Println("candidate", c.Path(), c.Files(), len(ex))
		}
		os.Exit(0)
	}
	corpus := loadCorpus(repo)
	if len(corpus) < 100 {
		r.HarnessError("corpus not found under %s", repo)
	}
	var sel []corpusFile
	for i, cf := range corpus {
		if r.Quick() && (i%16 != 0 || len(cf.src) > 2<<10) {
			continue
		}
		if r.Thorough() && len(cf.src) > 8<<10 || onlyPkg {
			continue
		}
		sel = append(sel, cf)
	}
	var nmut, filesDone atomic.Int64
	r.ParFor(len(sel), func(i int) {
		var t tally
		n, ok := mutateFile(fenv, sel[i], &t)
		nmut.Add(n)
		if ok {
			filesDone.Add(1)
			r.Distinct("file:" + sel[i].rel)
		}
		t.flush()
	})
	if int(filesDone.Load()) != len(sel) {
		exhaustive = false
	}
	flushClasses()
	for i, s := range info {
		if i < 3 {
			r.Sample(s)
		}
	}
	r.Sample(map[string]any{"family": "imp", "example": "package p\n\nimport ( b \"std/a\" ; \"ex/b\" )\n\nvar _ = b.B\n", "bodies": len(bodies)})
	r.Sample(map[string]any{"corpus_files_selected": len(sel), "corpus_files_total": len(corpus)})
	r.Assumptions = append(r.Assumptions,
		"sources are parsed with go/parser (ParseComments|AllErrors), the parser gnofmt itself uses; only error-free parses are formatted",
		"failures that go/format.Source reproduces on the same input (same AST as gnofmt's output, same comment set, or go/format not a fixpoint) are classified inherited_* in the outcome histogram, not violations",
		"import model: unused-import pruning is allowed, names bound by two imports (invalid programs) are not judged, dot imports are excluded (not allowed in Gno)",
		"bounded: sequences up to the stated length over the stated alphabets; single-token deletions/duplications of a deterministic subset of corpus files",
		"package entry points: fixture packages and a deterministic subset of real examples packages; operation sequences on one Processor up to the stated length; absolute paths only; for real packages the import model is not applied")
	r.Finish("fmt(fmt(x))==fmt(x); AST(fmt(x)) ≅ AST(x) modulo positions, comment placement, import layout; comment texts kept; import rewriting obeys the model; FormatFile/FormatPackageFile results independent of the Processor's history",
		exhaustive, map[string]any{
			"states":                        nParseable.Load(),
			"transitions":                   r.Evals(),
			"traces_validated_against_impl": r.Evals(),
			"depth":                         maxDepth,
			"token_sequences":               nseq,
			"candidates_parsed":             nParsed.Load(),
			"parseable_inputs":              nParseable.Load(),
			"enum_format_cases":             enumFormatted,
			"corpus_mutants":                nmut.Load(),
			"corpus_files":                  len(sel),
			"package_fixture_ops":           pk.ops,
			"package_op_sequences":          pk.sequences,
			"package_sequence_depth":        pk.depth,
			"package_ops_executed":          pk.executed,
			"package_fixture_mutants":       pk.mutants,
			"real_packages":                 pk.realPkgs,
			"real_package_files":            pk.realFiles,
			"plans":                         info,
		})
}

// cache of package exports for the FS resolver (model side)
type atomicMap struct {
	mu sync.Mutex
	m  map[string]map[string]bool
}

func (a *atomicMap) get(p gnofmt.Package) map[string]bool {
	a.mu.Lock()
	defer a.mu.Unlock()
	if a.m == nil {
		a.m = map[string]map[string]bool{}
	}
	if v, ok := a.m[p.Path()]; ok {
		return v
	}
	v := exportsOf(p)
	a.m[p.Path()] = v
	return v
}
