// Multi-file packages on disk: Processor.FormatFile and Processor.FormatPackageFile.
//
// `gno fmt` creates ONE Processor and calls FormatFile for every file it was asked to format.  The Processor caches
// (directory -> package, key -> parsed files + pooled top-level declarations, where the key is the directory for
// FormatFile and the package path for FormatPackageFile and for the packages parsed on behalf of the import resolver),
// so what it returns for a file may depend on what it formatted or resolved before.  Checked here:
//
//	(1) for every file of small on-disk fixture packages (2-3 files each; with and without gnomod.toml; two checkouts
//	    of the same module path with same-named but different files, both different from the package the resolver knows
//	    under that path; a realm using a package it does not import and a top-level name that shadows a resolvable
//	    package; two directories with the same base name) and every single-token deletion/duplication of it that
//	    parses: the oracle of checkOne (output parses, idempotent, declarations and comments kept, import model with the
//	    declarations of the sibling files pooled) through FormatFile / FormatPackageFile with a fresh Processor;
//	(2) every sequence of operations, repeats included (FormatFile of a fixture file, FormatPackageFile of a resolver package
//	    file, FormatImportFromSource of a source whose imports must be resolved) up to length 3 (quick) / 4 (thorough)
//	    on ONE shared Processor: each result must equal the fresh-Processor result of that operation;
//	(3) a package whose files were all formatted is a fixpoint;
//	(4) real packages of examples/ (deterministic subset) with the real resolver: oracle (1) without the import model,
//	    and shared-vs-fresh for the package followed by / preceded by a fork of it (same gnomod.toml, every file without
//	    its last declaration) outside the resolver's tree, with and without a preceding import resolution that makes
//	    the resolver parse the package.
package main

import (
	"fmt"
	"go/ast"
	"go/parser"
	"go/token"
	"os"
	"path/filepath"
	"sort"
	"strings"
	"sync/atomic"

	"github.com/gnolang/gno/gnovm/pkg/gnofmt"
	"verif/engine/vk"
)

type fxFile struct{ name, src string }

type fxPkg struct {
	rel      string // directory, relative to the fixture root
	mod      string // module path in gnomod.toml ("" = no gnomod.toml)
	resolver string // "" or the root ("stdlibs", "examples") this package is loaded from into the fixture resolver
	files    []fxFile
}

const fooMod = "gno.land/p/demo/foo"

var fixtures = []fxPkg{
	{"stdlibs/strings", "", "stdlibs", []fxFile{
		{"strings.gno", "package strings\n\nfunc ToUpper(s string) string { return s }\n\nfunc Repeat(s string, n int) string { return s }\n"},
	}},
	{"examples/gno.land/p/demo/foo", fooMod, "examples", []fxFile{
		{"foo.gno", "package foo\n\nfunc Hello() string { return  \"hello\" }\n"},
		{"util.gno", "package foo\n\nimport \"strings\"\n\nfunc shout(s string) string { return strings.ToUpper( s ) }\n\nvar Sep = \"-\"\n"},
	}},
	{"examples/gno.land/p/demo/bar", "gno.land/p/demo/bar", "examples", []fxFile{
		{"bar.gno", "package bar\n\nvar X = 1\n\nfunc Twice(s string) string { return strings.Repeat(s, 2) }\n"}, // import to add
	}},
	// two checkouts of the module the resolver knows as examples/gno.land/p/demo/foo, outside the resolver's tree
	{"co1/foo", fooMod, "", []fxFile{
		{"foo.gno", "package foo\n\nfunc Hello( name string ) string {\n\tif name == \"\" { return \"hello\" }\n\treturn \"hello \" + name\n}\n\nfunc Bye() string { return \"bye\" }\n"},
		{"util.gno", "package foo\n\nfunc shout(s string) string { return strings.ToUpper(s) + Sep }\n\nconst Sep = \"!\"\n"}, // import to add
	}},
	{"co2/foo", fooMod, "", []fxFile{
		{"foo.gno", "package foo\n\n// Hello greets.\nfunc Hello() string { return shout(\"hello\") }\n"},
		{"util.gno", "package foo\n\nimport (\n\t\"strings\"\n\t\"gno.land/p/demo/bar\"\n)\n\nfunc shout(s string) string { return strings.ToUpper(s) }\n"}, // import to prune
		{"extra.gno", "package foo\n\nvar Extra = bar.X\n"},                                                                                                 // only in this checkout; import to add
	}},
	{"work/app", "gno.land/r/demo/app", "", []fxFile{
		{"app.gno", "package app\n\nfunc Render(_ string) string { return foo.Hello() + cfg.Title }\n"},                                              // foo: import to add; cfg: declared in helper.gno
		{"helper.gno", "package app\n\nvar cfg = struct{ Title string }{ \"t\" }\n\nvar bar = struct{ X int }{}\n\nfunc n() int { return bar.X }\n"}, // bar shadows a resolvable package
	}},
	{"loose1/loose", "", "", []fxFile{
		{"a.gno", "package loose\n\nfunc A() int { return b() }\n"},
		{"b.gno", "package loose\n\nfunc b() int { return bar.X }\n"},
	}},
	{"loose2/loose", "", "", []fxFile{
		{"a.gno", "package loose\n\nfunc A() string { return strings.ToUpper(\"a\") }\n\nfunc A2() {}\n"},
		{"b.gno", "package loose\n\nvar strings2 = 1\n"},
	}},
}

const (
	entryFile    = "FormatFile"
	entryPkgFile = "FormatPackageFile"
)

type pkgOp struct {
	kind  string
	pkg   int // index into fixtures (FormatFile, FormatPackageFile)
	file  string
	src   string // FormatImportFromSource
	label string
}

type opResult struct{ out, err, pan string }

type world struct {
	root string
	res  *gnofmt.FSResolver
	ops  []pkgOp
}

func writePkg(dir string, mod string, files []fxFile) error {
	if err := os.MkdirAll(dir, 0o755); err != nil {
		return err
	}
	if mod != "" {
		if err := os.WriteFile(filepath.Join(dir, "gnomod.toml"), []byte("module = \""+mod+"\"\ngno = \"0.9\"\n"), 0o644); err != nil {
			return err
		}
	}
	for _, f := range files {
		if err := os.WriteFile(filepath.Join(dir, f.name), []byte(f.src), 0o644); err != nil {
			return err
		}
	}
	return nil
}

func newWorld(root string) *world {
	w := &world{root: root, res: gnofmt.NewFSResolver()}
	for _, p := range fixtures {
		if err := writePkg(filepath.Join(root, p.rel), p.mod, p.files); err != nil {
			r.HarnessError("fixtures: %v", err)
		}
	}
	for _, rr := range []string{"stdlibs", "examples"} {
		if err := w.res.LoadPackages(filepath.Join(root, rr), nil); err != nil {
			r.HarnessError("fixtures: LoadPackages %s: %v", rr, err)
		}
	}
	for pi, p := range fixtures {
		if p.resolver == "stdlibs" {
			continue // resolver-only package (keeps the operation alphabet at 18)
		}
		for _, f := range p.files {
			w.ops = append(w.ops, pkgOp{kind: entryFile, pkg: pi, file: f.name, label: fmt.Sprintf("%s(%s/%s)", entryFile, p.rel, f.name)})
		}
	}
	for pi, p := range fixtures {
		if p.resolver != "examples" {
			continue
		}
		for _, f := range p.files {
			w.ops = append(w.ops, pkgOp{kind: entryPkgFile, pkg: pi, file: f.name, label: fmt.Sprintf("%s(%s, %s)", entryPkgFile, w.pkgPath(pi), f.name)})
		}
	}
	w.ops = append(w.ops, pkgOp{kind: entryImports, file: "app.gno", src: fixtures[5].files[0].src, label: entryImports + "(app.gno: uses foo.Hello without importing it)"})
	return w
}

func (w *world) pkgPath(pi int) string {
	p := fixtures[pi]
	if p.mod != "" {
		return p.mod
	}
	return strings.TrimPrefix(p.rel, p.resolver+"/")
}

func (w *world) run(p *gnofmt.Processor, o *pkgOp) (res opResult) {
	var out []byte
	var err error
	pan := vk.Catch(func() {
		switch o.kind {
		case entryFile:
			out, err = p.FormatFile(filepath.Join(w.root, fixtures[o.pkg].rel, o.file))
		case entryPkgFile:
			pkg := w.res.ResolvePath(w.pkgPath(o.pkg))
			if pkg == nil {
				r.HarnessError("fixture resolver does not know %s", w.pkgPath(o.pkg))
			}
			out, err = p.FormatPackageFile(pkg, o.file)
		default:
			out, err = p.FormatImportFromSource(o.file, o.src)
		}
	})
	res.out = string(out)
	if err != nil {
		res.err = err.Error()
	}
	if pan != nil {
		res.pan = fmt.Sprint(pan)
	}
	return
}

func topNames(src []byte, into map[string]bool) {
	f, err := parseSrc(src)
	if f == nil || err != nil {
		return
	}
	for _, d := range f.Decls {
		switch d := d.(type) {
		case *ast.GenDecl:
			for _, s := range d.Specs {
				switch s := s.(type) {
				case *ast.TypeSpec:
					into[s.Name.Name] = true
				case *ast.ValueSpec:
					for _, n := range s.Names {
						into[n.Name] = true
					}
				}
			}
		case *ast.FuncDecl:
			if d.Recv == nil {
				into[d.Name.Name] = true
			}
		}
	}
}

// checkFileInPackage applies checkOne (and, if mutate, its single-token mutants) to one file of a package directory that
// was copied to a private scratch directory.  format(path) formats the file at path with a fresh Processor.
func checkFileInPackage(e *env, entry, label, path string, orig []byte, mutate bool, format func() ([]byte, error), t *tally) (n int64) {
	ee := *e
	ee.fmtFn = func(src []byte) ([]byte, error) {
		if err := os.WriteFile(path, src, 0o644); err != nil {
			r.HarnessError("scratch: %v", err)
		}
		return format()
	}
	one := func(lab string, src []byte) {
		n++
		nParsed.Add(1)
		fx, err := parseSrc(src)
		if err != nil {
			return
		}
		nParseable.Add(1)
		r.Distinct("pkg:" + label + ":" + lab)
		checkOne(&ee, entry, label+":"+lab, src, fx, t)
	}
	one("orig", orig)
	if mutate {
		for i, sp := range tokenize(orig) {
			if r.Expired() {
				break
			}
			if sp.end > sp.off {
				one(fmt.Sprintf("del@%d", i), splice(orig, sp.off, sp.end, " "))
			}
			if sp.auto {
				one(fmt.Sprintf("dup@%d", i), splice(orig, sp.off, sp.off, ";"))
			} else {
				one(fmt.Sprintf("dup@%d", i), splice(orig, sp.end, sp.end, " "+string(orig[sp.off:sp.end])))
			}
		}
	}
	os.WriteFile(path, orig, 0o644)
	return n
}

type pkgSummary struct {
	ops, depth          int
	sequences, executed int64
	mutants             int64
	realPkgs, realFiles int
	complete            bool
}

func seqLabel(w *world, seq []int) string {
	var parts []string
	for _, i := range seq {
		parts = append(parts, w.ops[i].label)
	}
	return strings.Join(parts, " -> ")
}

func packagePhase(repo string, fsr *gnofmt.FSResolver) pkgSummary {
	sum := pkgSummary{complete: true}
	root := filepath.Join(vk.Root, ".work", "c54", fmt.Sprintf("fx-%d", os.Getpid()))
	os.RemoveAll(root)
	if os.Getenv("C54_KEEP") == "" {
		defer os.RemoveAll(root)
	}
	w := newWorld(root)
	sum.ops = len(w.ops)
	var expCache atomicMap
	fenv := &env{res: w.res, exports: func(p gnofmt.Package) map[string]bool { return expCache.get(p) }}

	// fresh-Processor result of every operation
	fresh := make([]opResult, len(w.ops))
	for i := range w.ops {
		fresh[i] = w.run(gnofmt.NewProcessor(w.res), &w.ops[i])
	}

	// (1) the oracle of checkOne for every file operation and its mutants, on a private copy of the package
	var nmut atomic.Int64
	r.ParFor(len(w.ops), func(i int) {
		o := &w.ops[i]
		if o.kind == entryImports {
			return
		}
		var t tally
		defer t.flush()
		p := fixtures[o.pkg]
		scratch := filepath.Join(root, "scratch", fmt.Sprint(i))
		sub := p.rel
		if o.kind == entryPkgFile {
			sub = w.pkgPath(o.pkg)
		}
		dir := filepath.Join(scratch, sub)
		if err := writePkg(dir, p.mod, p.files); err != nil {
			r.HarnessError("scratch: %v", err)
		}
		path := filepath.Join(dir, o.file)
		var orig []byte
		e := *fenv
		e.pkgTop = map[string]bool{}
		for _, f := range p.files {
			if f.name == o.file {
				orig = []byte(f.src)
			} else {
				topNames([]byte(f.src), e.pkgTop)
			}
		}
		format := func() ([]byte, error) { return gnofmt.NewProcessor(w.res).FormatFile(path) }
		if o.kind == entryPkgFile {
			format = func() ([]byte, error) {
				pkg, err := gnofmt.ParsePackage(token.NewFileSet(), scratch, dir)
				if err != nil || pkg == nil {
					return nil, fmt.Errorf("ParsePackage(%s): %v", sub, err)
				}
				return gnofmt.NewProcessor(w.res).FormatPackageFile(pkg, o.file)
			}
		}
		// the copy must format like the original directory
		if out, err := format(); err != nil || string(out) != fresh[i].out {
			report("output-depends-on-directory:"+o.kind, o.label, orig, map[string]any{"label": o.label, "original_dir": fresh[i], "copy_out": string(out), "copy_err": fmt.Sprint(err)})
		}
		nmut.Add(checkFileInPackage(&e, o.kind, o.label, path, orig, true, format, &t))
	})
	sum.mutants = nmut.Load()

	// (2) every sequence of distinct operations on one shared Processor
	sum.depth = 3
	if r.Thorough() {
		sum.depth = 4
	}
	if d := os.Getenv("C54_SEQ_DEPTH"); d != "" {
		fmt.Sscan(d, &sum.depth)
	}
	var nseq, nexec, capped atomic.Int64
	N := len(w.ops)
	const repeats = true // the same operation may occur several times in a sequence (the second FormatFile of a file prints its cached, already rewritten AST)
	r.ParFor(N*N, func(k int) {
		a, b := k/N, k%N
		if a == b && !repeats {
			return
		}
		var t tally
		defer t.flush()
		used := make([]bool, N)
		seq := []int{a, b}
		used[a], used[b] = true, true
		var rec func()
		rec = func() {
			if r.Expired() {
				capped.Store(1)
				return
			}
			// replay the sequence on a new Processor (a Processor cannot be cloned)
			p := gnofmt.NewProcessor(w.res)
			nseq.Add(1)
			r.Distinct("seq:" + fmt.Sprint(seq))
			for j, oi := range seq {
				got := w.run(p, &w.ops[oi])
				nexec.Add(1)
				t.n++
				if got != fresh[oi] {
					t.add("history_dependent_result")
					report("depends-on-processor-history:"+w.ops[oi].kind, seqLabel(w, seq[:j+1]), []byte(strings.Repeat(" ", j+1)), map[string]any{
						"sequence_on_one_processor": seqLabel(w, seq[:j+1]), "operation": w.ops[oi].label,
						"with_fresh_processor": fresh[oi], "after_the_sequence": got})
					return
				}
			}
			t.add("history_independent_result")
			if len(seq) == sum.depth {
				return
			}
			for c := 0; c < N; c++ {
				if used[c] && !repeats {
					continue
				}
				was := used[c]
				used[c] = true
				seq = append(seq, c)
				rec()
				seq = seq[:len(seq)-1]
				used[c] = was
			}
		}
		rec()
	})
	sum.sequences, sum.executed = nseq.Load(), nexec.Load()
	if capped.Load() != 0 {
		sum.complete = false
	}

	// (3) a package whose files were all formatted is a fixpoint
	{
		var t tally
		for pi, p := range fixtures {
			var files []fxFile
			ok := true
			for i, o := range w.ops {
				if o.kind == entryFile && o.pkg == pi {
					files = append(files, fxFile{o.file, fresh[i].out})
					ok = ok && fresh[i].err == "" && fresh[i].pan == ""
				}
			}
			if !ok {
				continue // reported by (1)
			}
			dir := filepath.Join(root, "pass2", p.rel)
			if err := writePkg(dir, p.mod, files); err != nil {
				r.HarnessError("pass2: %v", err)
			}
			for _, f := range files {
				t.n++
				out, err := gnofmt.NewProcessor(w.res).FormatFile(filepath.Join(dir, f.name))
				if err != nil || string(out) != f.src {
					report("not-idempotent:FormatFile(whole package formatted)", p.rel+"/"+f.name, []byte(f.src), map[string]any{"pass1": f.src, "pass2": string(out), "error": fmt.Sprint(err)})
				} else {
					t.add("package_fixpoint")
				}
			}
		}
		t.flush()
	}

	// (4) real packages
	realPackages(repo, root, fsr, &sum)
	return sum
}

// ---------------------------------------------------------------------------------------------
// real packages of examples/ and forks of them

type realPkg struct {
	dir   string // absolute
	rel   string
	files []fxFile
	mod   []byte // gnomod.toml
}

func loadRealPackages(repo string) []realPkg {
	var out []realPkg
	ex := filepath.Join(repo, "examples")
	filepath.WalkDir(ex, func(p string, d os.DirEntry, err error) error {
		if err != nil || !d.IsDir() {
			return nil
		}
		if d.Name() == "filetests" || strings.HasPrefix(d.Name(), ".") {
			return filepath.SkipDir
		}
		mod, err := os.ReadFile(filepath.Join(p, "gnomod.toml"))
		if err != nil {
			return nil
		}
		ents, _ := os.ReadDir(p)
		rp := realPkg{dir: p, mod: mod}
		rp.rel, _ = filepath.Rel(repo, p)
		size, nontest := 0, 0
		for _, e := range ents {
			if e.IsDir() || !strings.HasSuffix(e.Name(), ".gno") {
				continue
			}
			b, err := os.ReadFile(filepath.Join(p, e.Name()))
			if err != nil {
				return nil
			}
			if !strings.HasSuffix(e.Name(), "_test.gno") && !strings.HasSuffix(e.Name(), "_filetest.gno") {
				nontest++
			}
			size += len(b)
			rp.files = append(rp.files, fxFile{e.Name(), string(b)})
		}
		if nontest >= 2 && size <= 48<<10 {
			out = append(out, rp)
		}
		return nil
	})
	sort.Slice(out, func(i, j int) bool { return out[i].rel < out[j].rel })
	return out
}

// the fork: every file without its last non-import top-level declaration (if it has at least two)
func forkSource(src string) string {
	fs := token.NewFileSet()
	f, err := parseSrcFS(fs, []byte(src))
	if err != nil || f == nil {
		return src
	}
	var decls []ast.Decl
	for _, d := range f.Decls {
		if g, ok := d.(*ast.GenDecl); ok && g.Tok == token.IMPORT {
			continue
		}
		decls = append(decls, d)
	}
	if len(decls) < 2 {
		return src
	}
	last := decls[len(decls)-1]
	start := last.Pos()
	switch d := last.(type) {
	case *ast.GenDecl:
		if d.Doc != nil {
			start = d.Doc.Pos()
		}
	case *ast.FuncDecl:
		if d.Doc != nil {
			start = d.Doc.Pos()
		}
	}
	tf := fs.File(f.Pos())
	return src[:tf.Offset(start)] + src[tf.Offset(last.End()):]
}

func realPackages(repo, root string, fsr *gnofmt.FSResolver, sum *pkgSummary) {
	all := loadRealPackages(repo)
	step := 16
	if r.Thorough() {
		step = 2
	}
	var sel []realPkg
	for i, p := range all {
		if i%step == 0 {
			sel = append(sel, p)
		}
	}
	if len(sel) < 3 {
		r.HarnessError("real packages not found under %s/examples (%d)", repo, len(all))
	}
	var expCache atomicMap
	base := &env{res: fsr, exports: func(p gnofmt.Package) map[string]bool { return expCache.get(p) }, noModel: true}
	var nfiles, capped atomic.Int64
	r.ParFor(len(sel), func(i int) {
		if r.Expired() {
			capped.Store(1)
			return
		}
		var t tally
		defer t.flush()
		rp := sel[i]
		name := filepath.Base(rp.dir)
		copyDir := filepath.Join(root, "real", fmt.Sprint(i), name)
		forkDir := filepath.Join(root, "fork", fmt.Sprint(i), name)
		var forkFiles []fxFile
		for _, f := range rp.files {
			forkFiles = append(forkFiles, fxFile{f.name, forkSource(f.src)})
		}
		for _, d := range []struct {
			dir   string
			files []fxFile
		}{{copyDir, rp.files}, {forkDir, forkFiles}} {
			if err := writePkg(d.dir, "", d.files); err != nil {
				r.HarnessError("real: %v", err)
			}
			os.WriteFile(filepath.Join(d.dir, "gnomod.toml"), rp.mod, 0o644)
		}
		// operations: FormatFile of every file of the package (in the repo, read only) and of the fork
		type rop struct {
			path, label string
		}
		var ops []rop
		for _, f := range rp.files {
			ops = append(ops, rop{filepath.Join(rp.dir, f.name), entryFile + "(" + rp.rel + "/" + f.name + ")"})
		}
		nOrig := len(ops)
		for _, f := range forkFiles {
			ops = append(ops, rop{filepath.Join(forkDir, f.name), entryFile + "(fork of " + rp.rel + "/" + f.name + ")"})
		}
		run := func(p *gnofmt.Processor, o rop) (res opResult) {
			var out []byte
			var err error
			if pan := vk.Catch(func() { out, err = p.FormatFile(o.path) }); pan != nil {
				res.pan = fmt.Sprint(pan)
			}
			if err != nil {
				res.err = err.Error()
			}
			res.out = string(out)
			return
		}
		fresh := make([]opResult, len(ops))
		for k, o := range ops {
			fresh[k] = run(gnofmt.NewProcessor(fsr), o)
		}
		// oracle (without the import model) on private copies: the package and the fork
		for _, d := range []struct {
			dir, what string
			files     []fxFile
		}{{copyDir, rp.rel, rp.files}, {forkDir, "fork of " + rp.rel, forkFiles}} {
			for _, f := range d.files {
				path := filepath.Join(d.dir, f.name)
				nfiles.Add(1)
				checkFileInPackage(base, entryFile, entryFile+"("+d.what+"/"+f.name+")", path, []byte(f.src), false,
					func() ([]byte, error) { return gnofmt.NewProcessor(fsr).FormatFile(path) }, &t)
			}
		}
		// shared Processor: package then fork, fork then package, and both after the resolver was made to parse the package
		var trigger string
		if f0, _ := parseSrc([]byte(rp.files[0].src)); f0 != nil {
			if pkg := fsrPackageOfDir(fsr, rp); pkg != nil {
				var ex []string
				for n := range base.exports(pkg) {
					ex = append(ex, n)
				}
				sort.Strings(ex)
				if len(ex) > 0 {
					trigger = "package zz\n\nvar _ = " + pkg.Name() + "." + ex[0] + "\n"
				}
			}
		}
		orders := [][]int{}
		var fwd, rev []int
		for k := range ops {
			fwd = append(fwd, k)
		}
		for k := nOrig; k < len(ops); k++ {
			rev = append(rev, k)
		}
		for k := nOrig - 1; k >= 0; k-- {
			rev = append(rev, k)
		}
		orders = append(orders, fwd, rev)
		for oi, order := range orders {
			for _, withTrigger := range []bool{false, true} {
				if withTrigger && trigger == "" {
					continue
				}
				p := gnofmt.NewProcessor(fsr)
				lab := ""
				if withTrigger {
					p.FormatImportFromSource("zz.gno", trigger)
					lab = entryImports + "(" + strings.TrimSpace(strings.ReplaceAll(trigger, "\n", " ")) + ") -> "
				}
				for j, k := range order {
					got := run(p, ops[k])
					t.n++
					if got != fresh[k] {
						t.add("history_dependent_result")
						var parts []string
						for _, kk := range order[:j+1] {
							parts = append(parts, ops[kk].label)
						}
						report("depends-on-processor-history:"+entryFile+":real-package", lab+strings.Join(parts, " -> "), []byte(strings.Repeat(" ", 100+j)), map[string]any{
							"sequence_on_one_processor": lab + strings.Join(parts, " -> "), "operation": ops[k].label, "order": oi,
							"with_fresh_processor": clipRes(fresh[k]), "after_the_sequence": clipRes(got)})
						break
					}
					t.add("history_independent_result")
				}
			}
		}
		r.Distinct("realpkg:" + rp.rel)
	})
	if capped.Load() != 0 {
		sum.complete = false
	}
	sum.realPkgs, sum.realFiles = len(sel), int(nfiles.Load())
}

func parseSrcFS(fs *token.FileSet, src []byte) (*ast.File, error) {
	return parser.ParseFile(fs, fname, src, parser.ParseComments|parser.AllErrors)
}

func clipRes(o opResult) opResult {
	o.out = clip(o.out)
	return o
}

func fsrPackageOfDir(fsr *gnofmt.FSResolver, rp realPkg) gnofmt.Package {
	// module = "..." line of gnomod.toml
	for _, l := range strings.Split(string(rp.mod), "\n") {
		l = strings.TrimSpace(l)
		if strings.HasPrefix(l, "module") {
			if i := strings.Index(l, "\""); i >= 0 {
				if j := strings.LastIndex(l, "\""); j > i {
					return fsr.ResolvePath(l[i+1 : j])
				}
			}
		}
	}
	return nil
}
