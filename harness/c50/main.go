// C50: examples/gno.land/p/nt/avl/v0 is a balanced ordered map.
//
// The explorer is a generated Gno program (explorer.gno.tmpl) executed by the GnoVM through the same store the
// `gno run` command uses (gnovm/pkg/test.ProdStore rooted at $VERIF_REPO, so gno.land/p/nt/avl/v0 is the real
// package from examples/).  Breadth-first search over Set/Remove histories with state de-duplication on
// (tree shape, keys, values); the Go side only cuts the frontier of each level into jobs, runs every job in a
// GnoVM worker process (all cores), de-duplicates the successor fingerprints the Gno program prints and
// relays the violations it reports.  Model, oracle and all calls into the package are written in Gno.
//
// Beside the BFS (which starts from the empty tree and never builds a tree taller than 3) the "deep start states"
// phase (deep.go; section of the same name in explorer.gno.tmpl) prefills trees of 10-16 keys in several insertion
// orders and explores every removal sequence up to 3 and every Set/Remove mix up to 2 from each, walking the whole
// tree after every operation (exact height/size fields through accessors added to a private copy of the package).
package main

import (
	"bytes"
	"context"
	_ "embed"
	"fmt"
	"os"
	"os/exec"
	"path/filepath"
	"runtime"
	"sort"
	"strconv"
	"strings"
	"sync"
	"time"

	gno "github.com/gnolang/gno/gnovm/pkg/gnolang"
	"github.com/gnolang/gno/gnovm/pkg/packages"
	"github.com/gnolang/gno/gnovm/pkg/test"
	"verif/engine/vk"
)

//go:embed explorer.gno.tmpl
var tmpl string

// ---------------------------------------------------------------------------------------------
// worker: run one Gno main package in a fresh GnoVM (same set-up as gnovm/cmd/gno run)

func repoRoot() string {
	if v := os.Getenv("VERIF_REPO"); v != "" {
		return v
	}
	return "/repo"
}

const avlPath = "gno.land/p/nt/avl/v0"

// The explorer is outside the package, so the unexported height field and the child pointers are read through four
// one-line accessors that the harness adds to a PRIVATE COPY of the package directory (the .gno sources themselves
// are copied verbatim from $VERIF_REPO/examples at every run; the GnoVM store is told to load the package from there).
const accessors = `package avl

// added by /verif/harness/c50 to a private copy of the package: read-only accessors for the structural checks
func (node *Node) VerifHeight() int  { return int(node.height) }
func (node *Node) VerifLeft() *Node  { return node.leftNode }
func (node *Node) VerifRight() *Node { return node.rightNode }
func (node *Node) VerifFields() (key string, value any, height int, size int, left, right *Node) {
	return node.key, node.value, int(node.height), node.size, node.leftNode, node.rightNode
}
`

func preparePkg(dst string) error {
	src := filepath.Join(repoRoot(), "examples", filepath.FromSlash(avlPath))
	os.RemoveAll(dst)
	if err := os.MkdirAll(dst, 0o755); err != nil {
		return err
	}
	ents, err := os.ReadDir(src)
	if err != nil {
		return err
	}
	n := 0
	for _, e := range ents {
		nm := e.Name()
		if e.IsDir() || strings.HasSuffix(nm, "_test.gno") || !(strings.HasSuffix(nm, ".gno") || nm == "gnomod.toml") {
			continue
		}
		b, err := os.ReadFile(filepath.Join(src, nm))
		if err != nil {
			return err
		}
		if err := os.WriteFile(filepath.Join(dst, nm), b, 0o644); err != nil {
			return err
		}
		n++
	}
	if n < 3 {
		return fmt.Errorf("only %d source files found in %s", n, src)
	}
	return os.WriteFile(filepath.Join(dst, "zz_verif_accessors.gno"), []byte(accessors), 0o644)
}

func worker(file, pkgDir string) {
	src, err := os.ReadFile(file)
	if err != nil {
		fmt.Println("WORKER-ERROR\t" + err.Error())
		os.Exit(3)
	}
	out := os.Stdout
	defer func() {
		if rec := recover(); rec != nil {
			msg := fmt.Sprint(rec)
			if len(msg) > 2000 {
				msg = msg[:2000]
			}
			fmt.Println("WORKER-ERROR\t" + strings.ReplaceAll(msg, "\n", " | "))
			os.Exit(3)
		}
	}()
	output := test.OutputWithError(out, out)
	_, st := test.ProdStore(repoRoot(), output, packages.PkgList{{Dir: pkgDir, ImportPath: avlPath, Name: "avl"}})
	m := gno.NewMachineWithOptions(gno.MachineOptions{
		Output: output, Store: st, MaxAllocBytes: 3_000_000_000, Context: test.Context("", "main", nil),
	})
	defer m.Release()
	pn := gno.NewPackageNode("main", "main", &gno.FileSet{})
	pv := pn.NewPackage(m.Alloc)
	m.Store.SetBlockNode(pn)
	m.Store.SetCachePackage(pv)
	m.SetActivePackage(pv)
	t0 := time.Now()
	f := m.MustParseFile(filepath.Base(file), string(src))
	m.RunFiles(f)
	if os.Getenv("C50_TIMING") != "" {
		fmt.Fprintln(os.Stderr, "load", time.Since(t0))
		defer func() { fmt.Fprintln(os.Stderr, "total", time.Since(t0), "cycles", m.Cycles) }()
	}
	ex, err := m.ParseExpr("main()")
	if err != nil {
		panic(err)
	}
	m.Eval(ex)
	fmt.Println("WORKER-DONE")
}

// ---------------------------------------------------------------------------------------------
// parent

var r *vk.Run

type jobResult struct {
	lines []string
	err   string
}

// worker processes running at once: the BFS levels use all cores; the deep phase runs beside them on its own,
// smaller allowance (the early BFS levels are narrow and mostly VM start-up)
var (
	semBFS  = make(chan struct{}, runtime.GOMAXPROCS(0))
	semDeep = make(chan struct{}, max(2, runtime.GOMAXPROCS(0)*3/4))
)

func runJobs(ctx context.Context, sem chan struct{}, dir string, tag string, level int, srcs []string) []jobResult {
	res := make([]jobResult, len(srcs))
	self, _ := os.Executable()
	var wg sync.WaitGroup
	for i := range srcs {
		wg.Add(1)
		go func(i int) {
			defer wg.Done()
			sem <- struct{}{}
			defer func() { <-sem }()
			if ctx.Err() != nil {
				res[i].err = "budget"
				return
			}
			file := filepath.Join(dir, fmt.Sprintf("%s%02d_j%03d.gno", tag, level, i))
			if err := os.WriteFile(file, []byte(srcs[i]), 0o644); err != nil {
				res[i].err = err.Error()
				return
			}
			cmd := exec.CommandContext(ctx, self, "-worker", file, filepath.Join(dir, "avlpkg"))
			cmd.Env = append(os.Environ(), "GOMAXPROCS=2", "GOMEMLIMIT=3GiB")
			var ob, eb bytes.Buffer
			cmd.Stdout, cmd.Stderr = &ob, &eb
			err := cmd.Run()
			lines := strings.Split(strings.TrimRight(ob.String(), "\n"), "\n")
			res[i].lines = lines
			if ctx.Err() != nil {
				res[i].err = "budget"
				return
			}
			if err != nil || len(lines) == 0 || lines[len(lines)-1] != "WORKER-DONE" {
				tail := ob.String()
				if len(tail) > 1500 {
					tail = tail[len(tail)-1500:]
				}
				res[i].err = fmt.Sprintf("worker failed: %v stdout-tail=%q stderr=%q", err, tail, eb.String())
			}
		}(i)
	}
	wg.Wait()
	return res
}

type deepSpec struct {
	dkeys, starts []string
	mixDepth      int
	fullReadDepth int
}

func fillTemplate(keys, paths []string, expand bool, d *deepSpec) string {
	s := tmpl
	if d == nil {
		// BFS job: the deep section is replaced by stubs (it would only add VM start-up time to every BFS job)
		d = &deepSpec{}
		i, j := strings.Index(s, "//DEEP-BEGIN"), strings.Index(s, "//DEEP-END")
		s = s[:i] + "var dStates, dLen int\n\nfunc deepHist() string { return \"\" }\n\nfunc deepStart(spec string) {}\n\n" + s[j:]
	}
	for _, kv := range [][2]string{
		{"/*KEYS*/", gnoStrings(keys)}, {"/*PATHS*/", gnoStrings(paths)}, {"/*EXPAND*/", strconv.FormatBool(expand)},
		{"/*DEEP*/", strconv.FormatBool(len(d.starts) > 0)}, {"/*DKEYS*/", gnoStrings(d.dkeys)}, {"/*STARTS*/", gnoStrings(d.starts)},
		{"/*MIXDEPTH*/", strconv.Itoa(d.mixDepth)}, {"/*FULLREADDEPTH*/", strconv.Itoa(d.fullReadDepth)},
	} {
		if n := strings.Count(s, kv[0]); n > 1 || (n == 0 && len(d.starts) > 0) {
			panic("template placeholder " + kv[0])
		}
		s = strings.Replace(s, kv[0], kv[1], 1)
	}
	return s
}

func gnoStrings(ss []string) string {
	q := make([]string, len(ss))
	for i, s := range ss {
		q[i] = strconv.Quote(s)
	}
	return strings.Join(q, ", ")
}

func main() {
	if len(os.Args) == 4 && os.Args[1] == "-worker" {
		worker(os.Args[2], os.Args[3])
		return
	}
	r = vk.New("model_checking")
	r.SetBudget(85*time.Second, 20*time.Minute)

	// quick: 5 keys -> the reachable state space is finite and small enough to be explored to its fixpoint
	// (the depth bound is never reached); thorough: 7 keys, depth bound / budget.
	keys := []string{"", "a", "aa", "ab", "b"}
	depth := 12
	if r.Thorough() {
		keys = []string{"", "a", "aa", "ab", "b", "c", "d"}
		depth = 9
	}
	if v := os.Getenv("C50_DEPTH"); v != "" {
		depth, _ = strconv.Atoi(v)
	}
	nops := 3 * len(keys)
	dir := filepath.Join(vk.Root, ".work", "c50", "jobs-"+r.Tier)
	os.RemoveAll(dir)
	os.MkdirAll(dir, 0o755)

	if err := preparePkg(filepath.Join(dir, "avlpkg")); err != nil {
		r.HarnessError("private copy of %s: %v", avlPath, err)
	}

	ctx, cancel := context.WithDeadline(context.Background(), time.Now().Add(r.Budget))
	defer cancel()

	// deep start states: runs in the background on the cores the narrow early BFS levels leave idle
	// quick: 10,11,12,14,16 keys; every removal sequence up to 3 from the 10..12-key trees, up to 2 from the larger ones
	sizes, remDepths := []int{10, 11, 12, 14, 16}, []int{3, 3, 3, 2, 2}
	mixDepth, fullReadDepth, deepJobs := 2, 1, 12
	if r.Thorough() {
		sizes, remDepths = nil, nil
		for n := 8; n <= 24; n++ {
			sizes = append(sizes, n)
			switch {
			case n <= 11:
				remDepths = append(remDepths, 4)
			case n <= 20:
				remDepths = append(remDepths, 3)
			default:
				remDepths = append(remDepths, 2)
			}
		}
		deepJobs = 6 * runtime.GOMAXPROCS(0)
	}
	if v := os.Getenv("C50_DEEP_SIZES"); v != "" { // debugging aid: comma separated sizes (removal depth 3), "none" = skip the phase
		sizes, remDepths = nil, nil
		for _, f := range strings.Split(v, ",") {
			if n, err := strconv.Atoi(f); err == nil {
				sizes, remDepths = append(sizes, n), append(remDepths, 3)
			}
		}
	}
	if os.Getenv("C50_LIST_STARTS") != "" { // debugging aid
		for i, n := range sizes {
			for _, st := range orderFamilies(n, r.Thorough()) {
				st.remDepth = remDepths[i]
				fmt.Println(st.spec())
			}
		}
		return
	}
	deepCh := make(chan deepResult, 1)
	go func() {
		if len(sizes) == 0 {
			deepCh <- deepResult{}
			return
		}
		deepCh <- runDeep(ctx, dir, sizes, remDepths, mixDepth, fullReadDepth, deepJobs)
	}()

	seen := map[string]bool{"": true} // fingerprint of the empty tree is ""
	r.Distinct("fp:")
	frontier := []string{""}
	var states, transitions, checks int64
	perLevel := []map[string]int{}
	completeDepth := -1
	type viol = violation
	var viols []viol
	harnessErr := ""

levels:
	for d := 0; d <= depth; d++ {
		expand := d < depth
		// cut the frontier into jobs: enough jobs for all cores, not too small (VM start-up ~0.5 s)
		njobs := runtime.GOMAXPROCS(0) // one wave: a job is mostly VM start-up
		if njobs > len(frontier) {
			njobs = len(frontier)
		}
		if per := (len(frontier) + njobs - 1) / njobs; per < 4 && len(frontier) >= 4 {
			njobs = (len(frontier) + 3) / 4
		}
		srcs := make([]string, njobs)
		for j := 0; j < njobs; j++ {
			var part []string
			for i := j; i < len(frontier); i += njobs {
				part = append(part, frontier[i])
			}
			srcs[j] = fillTemplate(keys, part, expand, nil)
		}
		results := runJobs(ctx, semBFS, dir, "l", d, srcs)
		lv := map[string]int{"depth": d, "frontier_states": len(frontier), "jobs": njobs}
		type succ struct{ path, fp string }
		var succs []succ
		for _, jr := range results { // a level cut short by the budget is discarded as a whole
			if jr.err == "budget" || (jr.err != "" && ctx.Err() != nil) {
				r.MarkCapped()
				break levels
			}
		}
		for _, jr := range results {
			if jr.err != "" {
				harnessErr = jr.err
				break levels
			}
			for _, ln := range jr.lines {
				f := strings.Split(ln, "\t")
				switch f[0] {
				case "T":
					if len(f) != 5 {
						harnessErr = "bad T line: " + ln
						break levels
					}
					transitions++
					r.Outcome(f[2])
					r.Outcome("height-" + f[3][1:])
					succs = append(succs, succ{f[1], f[4]})
				case "V":
					if len(f) != 4 {
						harnessErr = "bad V line: " + ln
						break levels
					}
					viols = append(viols, viol{f[1], f[2], f[3]})
				case "SUM":
					for _, kvp := range f[1:] {
						k, v, _ := strings.Cut(kvp, "=")
						n, _ := strconv.ParseInt(v, 10, 64)
						switch k {
						case "states":
							states += n
						case "checks":
							checks += n
						}
					}
				case "WORKER-DONE":
				default:
					harnessErr = "unexpected explorer output: " + ln
					break levels
				}
			}
		}
		if len(viols) > 0 {
			perLevel = append(perLevel, lv)
			break
		}
		// successors in canonical order (shortest path first, then lexicographic): deterministic representatives
		sort.Slice(succs, func(i, j int) bool { return succs[i].path < succs[j].path })
		var next []string
		for _, s := range succs {
			if !seen[s.fp] {
				seen[s.fp] = true
				r.Distinct("fp:" + s.fp)
				next = append(next, s.path)
			}
		}
		lv["new_states"] = len(next)
		perLevel = append(perLevel, lv)
		completeDepth = d
		frontier = next
		if len(frontier) == 0 {
			break
		}
		if r.Expired() && d < depth {
			break
		}
	}
	deepRes := <-deepCh
	if harnessErr == "" {
		harnessErr = deepRes.err
	}
	if harnessErr != "" {
		r.HarnessError("%s", harnessErr)
	}
	if deepRes.capped {
		r.MarkCapped()
	}
	bfsStates, bfsTransitions := states, transitions
	states += deepRes.states
	transitions += deepRes.transitions
	checks += deepRes.checks
	viols = append(viols, deepRes.viols...)
	r.EvalN(checks)
	// violations: only the shallowest BFS level at which any occur is reported (deeper levels are not explored:
	// every deeper history extends a violating one); grouped by signature (the check without its arguments), at
	// most 3 histories per signature in canonical order become VIOLATION keys.
	// BFS histories first (shortest, then lexicographic); deep-phase histories by number of operations, then size of
	// the start tree, then text
	rank := func(v viol) (int, int, int) {
		if !strings.HasPrefix(v.path, "deep ") {
			return 0, len(v.path), 0
		}
		pre, ops, _ := strings.Cut(v.path, " ops=")
		n := 0
		if ops != "(none)" {
			n = strings.Count(ops, ";") + 1
		}
		return 1, n, strings.Count(pre, ",")
	}
	sort.SliceStable(viols, func(i, j int) bool {
		a1, a2, a3 := rank(viols[i])
		b1, b2, b3 := rank(viols[j])
		switch {
		case a1 != b1:
			return a1 < b1
		case a2 != b2:
			return a2 < b2
		case a3 != b3:
			return a3 < b3
		case viols[i].path != viols[j].path:
			return viols[i].path < viols[j].path
		}
		return viols[i].check < viols[j].check
	})
	violStarts := map[string]int{} // deep phase: violating observations per start tree
	perSig := map[string]int{}
	reported := map[string]int{}
	for _, v := range viols {
		sig := v.check
		if i := strings.IndexAny(sig, " ("); i > 0 {
			sig = sig[:i]
		}
		if strings.HasPrefix(v.path, "deep ") {
			sig = "deep:" + sig
			st := strings.Fields(v.path)[1]
			violStarts[st]++
			if violStarts[st] > 1 { // one history per start tree: the reported keys show different trees
				perSig[sig]++
				continue
			}
		}
		perSig[sig]++
		reported[sig]++
		if reported[sig] > 3 || len(perSig) > 12 {
			continue
		}
		r.Violation(fmt.Sprintf("history=%s :: %s", v.path, v.check), map[string]any{"history": v.path, "check": v.check, "detail": v.detail, "keys": keys})
	}
	r.Sample(map[string]any{"keys": keys, "ops": []string{"Set(k,1)", "Set(k,2)", "Remove(k)"}, "ops_per_state": nops})
	if len(frontier) > 0 {
		r.Sample(map[string]any{"example_frontier_history_encoded": frontier[len(frontier)/2], "encoding": "letter = 'A'+op, op = kind*len(keys)+keyIndex"})
	}
	r.Assumptions = []string{
		"keys are drawn from the menu; Iterate bounds from the same menu (\"\" = unbounded, as documented)",
		"reference semantics = package documentation: Iterate [start,end), ReverseIterate [start,end] descending, negative offset clamps to 0, out-of-range GetByIndex panics",
		"the explorer runs against a private verbatim copy of the package directory to which the harness adds one file with three read-only accessors (height field, left child, right child); nothing else of the package is changed",
		"the Go mirror of the rebalancing algorithm only produces the coverage histogram rebalancing_cases_by_go_mirror (no-op operations skipped); it is not an oracle",
		"return value of the *ByOffset iterators is not specified and not compared",
	}
	exhaustive := (completeDepth >= depth || len(frontier) == 0) && !deepRes.capped
	deepCov := map[string]any{
		"sizes": deepRes.sizes, "start_trees": deepRes.starts, "jobs": deepRes.jobs, "removal_sequences_up_to": remDepths, "set_remove_mixes_up_to": mixDepth, "full_read_api_up_to_depth": fullReadDepth,
		"states": deepRes.states, "transitions": deepRes.transitions, "checks": deepRes.checks,
		"states_by_size_and_height": deepRes.heightBySize, "rebalancing_cases_by_go_mirror": deepRes.mirror,
	}
	r.Finish(fmt.Sprintf("BFS (written in Gno, executed by the GnoVM) over all histories of {Set(k,1),Set(k,2),Remove(k)} x %d keys up to depth %d with de-duplication on (shape,keys,values); every distinct state: all read APIs + all iterators over all bounds vs sorted-slice model, AVL balance, size fields, inner keys, persistence of old roots, exact height fields.  Deep start states: trees of %v keys prefilled in 7 insertion orders each (thorough 8), from every one all sequences of removals of present keys up to length %v (per size) and all Set/Remove mixes up to length %d (DFS on persistent roots); after every operation, prefill insertions included, the whole tree is walked (height and size fields exact, balance, inner keys, leaves == model); states up to %d operations from a start: Get/Has/rank for every key of the universe, GetByIndex, full and ranged Iterate/ReverseIterate and TraverseByOffset vs the model, deeper states: Size and Get/Has/rank/GetByIndex of the key of the last operation", len(keys), depth, deepRes.sizes, remDepths, mixDepth, fullReadDepth),
		exhaustive, map[string]any{
			"states": states, "transitions": transitions, "traces_validated_against_impl": transitions,
			"depth": depth, "complete_depth": completeDepth, "levels": perLevel, "api_checks": checks,
			"bfs_states": bfsStates, "bfs_transitions": bfsTransitions, "deep": deepCov,
			"keys": keys, "ops_per_state": nops, "violating_observations": len(viols), "violation_signatures": perSig, "deep_violating_observations_by_start": violStarts,
		})
}
