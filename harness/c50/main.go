// C50: examples/gno.land/p/nt/avl/v0 is a balanced ordered map.
//
// The explorer is a generated Gno program (explorer.gno.tmpl) executed by the GnoVM through the same store the
// `gno run` command uses (gnovm/pkg/test.ProdStore rooted at $VERIF_REPO, so gno.land/p/nt/avl/v0 is the real
// package from examples/).  Breadth-first search over Set/Remove histories with state de-duplication on
// (tree shape, keys, values); the Go side only cuts the frontier of each level into jobs, runs every job in a
// GnoVM worker process (all cores), de-duplicates the successor fingerprints the Gno program prints and
// relays the violations it reports.  Model, oracle and all calls into the package are written in Gno.
package main

import (
	"bytes"
	"context"
	_ "embed"
	"fmt"
	"os"
	"os/exec"
	"path/filepath"
	"runtime"
	"sort"
	"strconv"
	"strings"
	"sync"
	"time"

	gno "github.com/gnolang/gno/gnovm/pkg/gnolang"
	"github.com/gnolang/gno/gnovm/pkg/test"
	"verif/engine/vk"
)

//go:embed explorer.gno.tmpl
var tmpl string

// ---------------------------------------------------------------------------------------------
// worker: run one Gno main package in a fresh GnoVM (same set-up as gnovm/cmd/gno run)

func repoRoot() string {
	if v := os.Getenv("VERIF_REPO"); v != "" {
		return v
	}
	return "/repo"
}

func worker(file string) {
	src, err := os.ReadFile(file)
	if err != nil {
		fmt.Println("WORKER-ERROR\t" + err.Error())
		os.Exit(3)
	}
	out := os.Stdout
	defer func() {
		if rec := recover(); rec != nil {
			msg := fmt.Sprint(rec)
			if len(msg) > 2000 {
				msg = msg[:2000]
			}
			fmt.Println("WORKER-ERROR\t" + strings.ReplaceAll(msg, "\n", " | "))
			os.Exit(3)
		}
	}()
	output := test.OutputWithError(out, out)
	_, st := test.ProdStore(repoRoot(), output, nil)
	m := gno.NewMachineWithOptions(gno.MachineOptions{
		Output: output, Store: st, MaxAllocBytes: 3_000_000_000, Context: test.Context("", "main", nil),
	})
	defer m.Release()
	pn := gno.NewPackageNode("main", "main", &gno.FileSet{})
	pv := pn.NewPackage(m.Alloc)
	m.Store.SetBlockNode(pn)
	m.Store.SetCachePackage(pv)
	m.SetActivePackage(pv)
	t0 := time.Now()
	f := m.MustParseFile(filepath.Base(file), string(src))
	m.RunFiles(f)
	if os.Getenv("C50_TIMING") != "" {
		fmt.Fprintln(os.Stderr, "load", time.Since(t0))
		defer func() { fmt.Fprintln(os.Stderr, "total", time.Since(t0), "cycles", m.Cycles) }()
	}
	ex, err := m.ParseExpr("main()")
	if err != nil {
		panic(err)
	}
	m.Eval(ex)
	fmt.Println("WORKER-DONE")
}

// ---------------------------------------------------------------------------------------------
// parent

var r *vk.Run

type jobResult struct {
	lines []string
	err   string
}

func runJobs(ctx context.Context, dir string, level int, srcs []string) []jobResult {
	res := make([]jobResult, len(srcs))
	self, _ := os.Executable()
	sem := make(chan struct{}, runtime.GOMAXPROCS(0))
	var wg sync.WaitGroup
	for i := range srcs {
		wg.Add(1)
		go func(i int) {
			defer wg.Done()
			sem <- struct{}{}
			defer func() { <-sem }()
			if ctx.Err() != nil {
				res[i].err = "budget"
				return
			}
			file := filepath.Join(dir, fmt.Sprintf("l%02d_j%03d.gno", level, i))
			if err := os.WriteFile(file, []byte(srcs[i]), 0o644); err != nil {
				res[i].err = err.Error()
				return
			}
			cmd := exec.CommandContext(ctx, self, "-worker", file)
			cmd.Env = append(os.Environ(), "GOMAXPROCS=2", "GOMEMLIMIT=3GiB")
			var ob, eb bytes.Buffer
			cmd.Stdout, cmd.Stderr = &ob, &eb
			err := cmd.Run()
			lines := strings.Split(strings.TrimRight(ob.String(), "\n"), "\n")
			res[i].lines = lines
			if ctx.Err() != nil {
				res[i].err = "budget"
				return
			}
			if err != nil || len(lines) == 0 || lines[len(lines)-1] != "WORKER-DONE" {
				tail := ob.String()
				if len(tail) > 1500 {
					tail = tail[len(tail)-1500:]
				}
				res[i].err = fmt.Sprintf("worker failed: %v stdout-tail=%q stderr=%q", err, tail, eb.String())
			}
		}(i)
	}
	wg.Wait()
	return res
}

func gnoStrings(ss []string) string {
	q := make([]string, len(ss))
	for i, s := range ss {
		q[i] = strconv.Quote(s)
	}
	return strings.Join(q, ", ")
}

func main() {
	if len(os.Args) == 3 && os.Args[1] == "-worker" {
		worker(os.Args[2])
		return
	}
	r = vk.New("model_checking")
	r.SetBudget(75*time.Second, 20*time.Minute)

	// quick: 5 keys -> the reachable state space is finite and small enough to be explored to its fixpoint
	// (the depth bound is never reached); thorough: 7 keys, depth bound / budget.
	keys := []string{"", "a", "aa", "ab", "b"}
	depth := 12
	if r.Thorough() {
		keys = []string{"", "a", "aa", "ab", "b", "c", "d"}
		depth = 9
	}
	if v := os.Getenv("C50_DEPTH"); v != "" {
		depth, _ = strconv.Atoi(v)
	}
	nops := 3 * len(keys)
	dir := filepath.Join(vk.Root, ".work", "c50", "jobs-"+r.Tier)
	os.RemoveAll(dir)
	os.MkdirAll(dir, 0o755)

	ctx, cancel := context.WithDeadline(context.Background(), time.Now().Add(r.Budget))
	defer cancel()

	seen := map[string]bool{"": true} // fingerprint of the empty tree is ""
	r.Distinct("fp:")
	frontier := []string{""}
	var states, transitions, checks int64
	perLevel := []map[string]int{}
	completeDepth := -1
	type viol struct{ path, check, detail string }
	var viols []viol
	harnessErr := ""

levels:
	for d := 0; d <= depth; d++ {
		expand := d < depth
		// cut the frontier into jobs: enough jobs for all cores, not too small (VM start-up ~0.5 s)
		njobs := runtime.GOMAXPROCS(0) * 2
		if njobs > len(frontier) {
			njobs = len(frontier)
		}
		if per := (len(frontier) + njobs - 1) / njobs; per < 4 && len(frontier) >= 4 {
			njobs = (len(frontier) + 3) / 4
		}
		srcs := make([]string, njobs)
		for j := 0; j < njobs; j++ {
			var part []string
			for i := j; i < len(frontier); i += njobs {
				part = append(part, frontier[i])
			}
			s := strings.Replace(tmpl, "/*KEYS*/", gnoStrings(keys), 1)
			s = strings.Replace(s, "/*PATHS*/", gnoStrings(part), 1)
			s = strings.Replace(s, "/*EXPAND*/", strconv.FormatBool(expand), 1)
			srcs[j] = s
		}
		results := runJobs(ctx, dir, d, srcs)
		lv := map[string]int{"depth": d, "frontier_states": len(frontier), "jobs": njobs}
		type succ struct{ path, fp string }
		var succs []succ
		for _, jr := range results { // a level cut short by the budget is discarded as a whole
			if jr.err == "budget" || (jr.err != "" && ctx.Err() != nil) {
				r.MarkCapped()
				break levels
			}
		}
		for _, jr := range results {
			if jr.err != "" {
				harnessErr = jr.err
				break levels
			}
			for _, ln := range jr.lines {
				f := strings.Split(ln, "\t")
				switch f[0] {
				case "T":
					if len(f) != 5 {
						harnessErr = "bad T line: " + ln
						break levels
					}
					transitions++
					r.Outcome(f[2])
					r.Outcome("height-" + f[3][1:])
					succs = append(succs, succ{f[1], f[4]})
				case "V":
					if len(f) != 4 {
						harnessErr = "bad V line: " + ln
						break levels
					}
					viols = append(viols, viol{f[1], f[2], f[3]})
				case "SUM":
					for _, kvp := range f[1:] {
						k, v, _ := strings.Cut(kvp, "=")
						n, _ := strconv.ParseInt(v, 10, 64)
						switch k {
						case "states":
							states += n
						case "checks":
							checks += n
						}
					}
				case "WORKER-DONE":
				default:
					harnessErr = "unexpected explorer output: " + ln
					break levels
				}
			}
		}
		if len(viols) > 0 {
			perLevel = append(perLevel, lv)
			break
		}
		// successors in canonical order (shortest path first, then lexicographic): deterministic representatives
		sort.Slice(succs, func(i, j int) bool { return succs[i].path < succs[j].path })
		var next []string
		for _, s := range succs {
			if !seen[s.fp] {
				seen[s.fp] = true
				r.Distinct("fp:" + s.fp)
				next = append(next, s.path)
			}
		}
		lv["new_states"] = len(next)
		perLevel = append(perLevel, lv)
		completeDepth = d
		frontier = next
		if len(frontier) == 0 {
			break
		}
		if r.Expired() && d < depth {
			break
		}
	}
	if harnessErr != "" {
		r.HarnessError("%s", harnessErr)
	}
	r.EvalN(checks)
	// violations: only the shallowest BFS level at which any occur is reported (deeper levels are not explored:
	// every deeper history extends a violating one); grouped by signature (the check without its arguments), at
	// most 3 histories per signature in canonical order become VIOLATION keys.
	sort.Slice(viols, func(i, j int) bool {
		if len(viols[i].path) != len(viols[j].path) {
			return len(viols[i].path) < len(viols[j].path)
		}
		if viols[i].path != viols[j].path {
			return viols[i].path < viols[j].path
		}
		return viols[i].check < viols[j].check
	})
	perSig := map[string]int{}
	for _, v := range viols {
		sig := v.check
		if i := strings.IndexAny(sig, " ("); i > 0 {
			sig = sig[:i]
		}
		perSig[sig]++
		if perSig[sig] > 3 || len(perSig) > 12 {
			continue
		}
		r.Violation(fmt.Sprintf("history=%s :: %s", v.path, v.check), map[string]any{"history": v.path, "check": v.check, "detail": v.detail, "keys": keys})
	}
	r.Sample(map[string]any{"keys": keys, "ops": []string{"Set(k,1)", "Set(k,2)", "Remove(k)"}, "ops_per_state": nops})
	if len(frontier) > 0 {
		r.Sample(map[string]any{"example_frontier_history_encoded": frontier[len(frontier)/2], "encoding": "letter = 'A'+op, op = kind*len(keys)+keyIndex"})
	}
	r.Assumptions = []string{
		"keys are drawn from the menu; Iterate bounds from the same menu (\"\" = unbounded, as documented)",
		"reference semantics = package documentation: Iterate [start,end), ReverseIterate [start,end] descending, negative offset clamps to 0, out-of-range GetByIndex panics",
		"balance and size/inner-key invariants are checked on the real shape observed through TraverseInRange(leavesOnly=false); the unexported height field itself is not observable from another package",
		"return value of the *ByOffset iterators is not specified and not compared",
	}
	exhaustive := completeDepth >= depth || len(frontier) == 0
	r.Finish(fmt.Sprintf("BFS (written in Gno, executed by the GnoVM) over all histories of {Set(k,1),Set(k,2),Remove(k)} x %d keys up to depth %d with de-duplication on (shape,keys,values); every distinct state: all read APIs + all iterators over all bounds vs sorted-slice model, AVL balance, size fields, inner keys, persistence of old roots", len(keys), depth),
		exhaustive, map[string]any{
			"states": states, "transitions": transitions, "traces_validated_against_impl": transitions,
			"depth": depth, "complete_depth": completeDepth, "levels": perLevel, "api_checks": checks,
			"keys": keys, "ops_per_state": nops, "violating_observations": len(viols), "violation_signatures": perSig,
		})
}
