// Deep start states for C50 (see the section "deep start states" of explorer.gno.tmpl): the Go side only builds the
// list of start trees (size x insertion order), balances them over VM worker processes, counts what the Gno
// explorer reports and replays the same operation sequences on a Go MIRROR of the rebalancing algorithm to record
// which rebalancing cases the enumeration exercises (coverage evidence only - the mirror decides nothing).
package main

import (
	"context"
	"fmt"
	"sort"
	"strconv"
	"strings"
)

// deepKeys returns the sorted key universe: "", then a, aa, ab, b, ba, bb, ... (prefix collisions, adjacent keys).
func deepKeys(n int) []string {
	ks := []string{""}
	for i := 0; len(ks) < n; i++ {
		c := string(rune('a' + i/3))
		switch i % 3 {
		case 1:
			c += "a"
		case 2:
			c += "b"
		}
		ks = append(ks, c)
	}
	if !sort.StringsAreSorted(ks) {
		panic("deepKeys not sorted")
	}
	return ks
}

type deepStart struct {
	name     string
	order    []int // permutation of 0..n-1: index (by rank) of the i-th inserted key
	remDepth int
}

func (d deepStart) spec() string {
	b := make([]byte, len(d.order))
	for i, x := range d.order {
		b[i] = byte('A' + x)
	}
	return d.name + ":" + strconv.Itoa(d.remDepth) + ":" + string(b)
}

// insertion-order families
func orderFamilies(n int, thorough bool) []deepStart {
	var out []deepStart
	add := func(name string, p []int) {
		seen := make([]bool, n)
		for _, x := range p {
			if x < 0 || x >= n || seen[x] {
				panic("bad order " + name)
			}
			seen[x] = true
		}
		if len(p) != n {
			panic("bad order length " + name)
		}
		out = append(out, deepStart{fmt.Sprintf("%s/%d", name, n), p, 0})
	}
	asc := make([]int, n)
	desc := make([]int, n)
	for i := range asc {
		asc[i], desc[i] = i, n-1-i
	}
	add("ascending", asc)
	add("descending", desc)
	// zig-zag from the outside in: min, max, min+1, max-1, ...
	var zz []int
	for lo, hi := 0, n-1; lo <= hi; lo, hi = lo+1, hi-1 {
		zz = append(zz, lo)
		if hi != lo {
			zz = append(zz, hi)
		}
	}
	add("zigzag-out-in", zz)
	// zig-zag from the middle out
	var zi []int
	for i := len(zz) - 1; i >= 0; i-- {
		zi = append(zi, zz[i])
	}
	add("zigzag-in-out", zi)
	// medians first (level order of the perfectly balanced search tree): no rotation while building
	var med []int
	type iv struct{ lo, hi int }
	q := []iv{{0, n - 1}}
	for len(q) > 0 {
		x := q[0]
		q = q[1:]
		if x.lo > x.hi {
			continue
		}
		mid := (x.lo + x.hi) / 2
		med = append(med, mid)
		q = append(q, iv{x.lo, mid - 1}, iv{mid + 1, x.hi})
	}
	add("medians-first", med)
	// constant stride (smallest stride >= 5 coprime to n)
	st := 5
	for gcd(st, n) != 1 {
		st++
	}
	var sd []int
	for i := 0; i < n; i++ {
		sd = append(sd, (i*st+n/2)%n)
	}
	add(fmt.Sprintf("stride%d", st), sd)
	// the two halves interleaved, both ascending: 0, n/2, 1, n/2+1, ...
	var hv []int
	for i := 0; i < n-n/2; i++ {
		if i < n/2 {
			hv = append(hv, i)
		}
		hv = append(hv, n/2+i)
	}
	if thorough { // quick: left out to keep the tier's CPU time within bounds
		add("halves", hv)
	}
	// the order f,o,d,b,k,h,p,a,m,j of a reported 10-key example (ranks 3,8,2,1,6,4,9,0,7,5), larger trees append
	// the remaining keys in ascending order
	rep := []int{3, 8, 2, 1, 6, 4, 9, 0, 7, 5}
	if n >= 10 {
		p := append([]int{}, rep...)
		for i := 10; i < n; i++ {
			p = append(p, i)
		}
		add("reported10", p)
	}
	return out
}

func gcd(a, b int) int {
	for b != 0 {
		a, b = b, a%b
	}
	return a
}

type deepResult struct {
	states, transitions, checks int64
	starts                      int
	jobs                        int
	sizes                       []int
	viols                       []violation
	err                         string
	capped                      bool
	heightBySize                map[string]int
	mirror                      map[string]int
}

type violation struct{ path, check, detail string }

// estimated cost of one start (number of states visited from it)
func deepCost(n, remDepth, mixDepth int) int {
	c := 0
	p := 1
	for d := 1; d <= remDepth; d++ {
		p *= n - d + 1
		c += p
	}
	a := 2*n + 6
	p = 1
	for d := 1; d <= mixDepth; d++ {
		p *= a
		c += p
	}
	return c + n
}

// sizes[i] is explored with removal sequences up to remDepths[i]
func runDeep(ctx context.Context, dir string, sizes, remDepths []int, mixDepth, fullReadDepth, njobs int) (res deepResult) {
	res.heightBySize = map[string]int{}
	res.sizes = sizes
	maxN := 0
	var all []deepStart
	for i, n := range sizes {
		if n > maxN {
			maxN = n
		}
		for _, st := range orderFamilies(n, r.Thorough()) {
			st.remDepth = remDepths[i]
			all = append(all, st)
		}
	}
	dk := deepKeys(2*maxN + 1)
	res.starts = len(all)
	res.mirror = mirrorCoverage(all, mixDepth)
	// longest-processing-time-first assignment of the starts to njobs jobs
	cost := func(st deepStart) int { return deepCost(len(st.order), st.remDepth, mixDepth) }
	sort.SliceStable(all, func(i, j int) bool { return cost(all[i]) > cost(all[j]) })
	if njobs > len(all) {
		njobs = len(all)
	}
	load := make([]int, njobs)
	parts := make([][]string, njobs)
	for _, st := range all {
		b := 0
		for j := range load {
			if load[j] < load[b] {
				b = j
			}
		}
		load[b] += cost(st)
		parts[b] = append(parts[b], st.spec())
	}
	srcs := make([]string, njobs)
	for j := range srcs {
		srcs[j] = fillTemplate(nil, nil, false, &deepSpec{dk, parts[j], mixDepth, fullReadDepth})
	}
	res.jobs = njobs
	results := runJobs(ctx, semDeep, dir, "deep", 0, srcs)
	for _, jr := range results {
		if jr.err == "budget" || (jr.err != "" && ctx.Err() != nil) {
			res.capped = true // the jobs that did finish still count (their violations are real)
			continue
		}
		if jr.err != "" {
			res.err = jr.err
			return
		}
		for _, ln := range jr.lines {
			f := strings.Split(ln, "\t")
			switch f[0] {
			case "D": // D class hN size fingerprint
				if len(f) != 5 {
					res.err = "bad D line: " + ln
					return
				}
				if f[1] != "prefill" {
					r.Outcome("deep-" + f[1])
				}
				res.heightBySize["size"+f[3]+"-"+f[2]]++
				r.Distinct("deep:" + f[4])
			case "V":
				if len(f) != 4 {
					res.err = "bad V line: " + ln
					return
				}
				res.viols = append(res.viols, violation{f[1], f[2], f[3]})
			case "SUM":
				for _, kvp := range f[1:] {
					k, v, _ := strings.Cut(kvp, "=")
					n, _ := strconv.ParseInt(v, 10, 64)
					switch k {
					case "states":
						res.states += n
					case "transitions":
						res.transitions += n
					case "checks":
						res.checks += n
					}
				}
			case "WORKER-DONE":
			default:
				res.err = "unexpected explorer output: " + ln
				return
			}
		}
	}
	return
}

// ---------------------------------------------------------------------------------------------
// Go mirror of node.gno's Set/Remove/balance, used ONLY to count which rebalancing cases the enumerated sequences
// exercise (left-left, left-left on a grandchild height tie, left-right, and the mirrored three; by operation kind).

type mnode struct {
	key    int
	h, sz  int
	l, r   *mnode
	isLeaf bool
}

type mirrorT struct {
	cov  map[string]int
	kind string
}

func (t *mirrorT) fix(n *mnode) {
	n.h = max(n.l.h, n.r.h) + 1
	n.sz = n.l.sz + n.r.sz
}

func (t *mirrorT) rotR(n *mnode) *mnode {
	c := *n
	l := *c.l
	c.l = l.r
	l.r = &c
	t.fix(&c)
	t.fix(&l)
	return &l
}

func (t *mirrorT) rotL(n *mnode) *mnode {
	c := *n
	rr := *c.r
	c.r = rr.l
	rr.l = &c
	t.fix(&c)
	t.fix(&rr)
	return &rr
}

func (t *mirrorT) balance(n *mnode) *mnode {
	b := n.l.h - n.r.h
	if b > 1 {
		lb := n.l.l.h - n.l.r.h
		switch {
		case lb > 0:
			t.cov[t.kind+":left-left"]++
			return t.rotR(n)
		case lb == 0:
			t.cov[t.kind+":left-left-on-tie"]++
			return t.rotR(n)
		}
		t.cov[t.kind+":left-right"]++
		n.l = t.rotL(n.l)
		return t.rotR(n)
	}
	if b < -1 {
		rb := n.r.l.h - n.r.r.h
		switch {
		case rb < 0:
			t.cov[t.kind+":right-right"]++
			return t.rotL(n)
		case rb == 0:
			t.cov[t.kind+":right-right-on-tie"]++
			return t.rotL(n)
		}
		t.cov[t.kind+":right-left"]++
		n.r = t.rotR(n.r)
		return t.rotL(n)
	}
	return n
}

func (t *mirrorT) set(n *mnode, k int) (*mnode, bool) {
	if n == nil {
		return &mnode{key: k, sz: 1, isLeaf: true}, false
	}
	if n.isLeaf {
		nl := &mnode{key: k, sz: 1, isLeaf: true}
		switch {
		case k < n.key:
			return &mnode{key: n.key, h: 1, sz: 2, l: nl, r: n}, false
		case k == n.key:
			return nl, true
		}
		return &mnode{key: k, h: 1, sz: 2, l: n, r: nl}, false
	}
	c := *n
	var upd bool
	if k < c.key {
		c.l, upd = t.set(c.l, k)
	} else {
		c.r, upd = t.set(c.r, k)
	}
	if upd {
		return &c, true
	}
	t.fix(&c)
	return t.balance(&c), false
}

func (t *mirrorT) remove(n *mnode, k int) (nn *mnode, newKey int, removed bool) {
	if n == nil {
		return nil, -1, false
	}
	if n.isLeaf {
		if k == n.key {
			return nil, -1, true
		}
		return n, -1, false
	}
	if k < n.key {
		nl, nk, rem := t.remove(n.l, k)
		if !rem {
			return n, -1, false
		}
		if nl == nil {
			return n.r, n.key, true
		}
		c := *n
		c.l = nl
		t.fix(&c)
		return t.balance(&c), nk, true
	}
	nr, nk, rem := t.remove(n.r, k)
	if !rem {
		return n, -1, false
	}
	if nr == nil {
		return n.l, -1, true
	}
	c := *n
	c.r = nr
	if nk >= 0 {
		c.key = nk
	}
	t.fix(&c)
	return t.balance(&c), -1, true
}

func mirrorCoverage(starts []deepStart, mixDepth int) map[string]int {
	t := &mirrorT{cov: map[string]int{}}
	remDepth := 0
	var dfs func(root *mnode, m []bool, depth int, pure bool)
	dfs = func(root *mnode, m []bool, depth int, pure bool) {
		canMix := depth < mixDepth
		canRem := pure && depth < remDepth
		if !canMix && !canRem {
			return
		}
		for r := range m {
			if m[r] {
				t.kind = "remove"
				nr, _, _ := t.remove(root, r)
				m[r] = false
				dfs(nr, m, depth+1, pure)
				m[r] = true
			}
		}
		if canMix {
			for r := range m {
				if !m[r] {
					t.kind = "insert-after-prefill"
					nr, _ := t.set(root, r)
					m[r] = true
					dfs(nr, m, depth+1, false)
					m[r] = false
				}
			}
		}
	}
	for _, st := range starts {
		n := len(st.order)
		m := make([]bool, 2*n+1)
		var root *mnode
		t.kind = "prefill"
		for _, x := range st.order {
			root, _ = t.set(root, 2*x+1)
			m[2*x+1] = true
		}
		t.cov[fmt.Sprintf("start-height-%d", root.h)]++
		remDepth = st.remDepth
		dfs(root, m, 0, true)
	}
	return t.cov
}
