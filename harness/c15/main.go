// C15: only correctly signed, fresh transactions take effect.
//
// Real gno.land app (engine chainx): real ante handler, real signatures, real multistore.
//
// Part 1 (inputs): for each base tx (1 signer; 1 signer/2 msgs; 2 signers/2 msgs; 2 signers/3 msgs; 2-of-3 multisig;
// multisig+plain; a SESSION key signing for its master; session (paying the fee, vm call) + plain co-signer; plain fee
// payer + session co-signer) in two account states (S0: fresh genesis, no pubkey stored, seq 0; S1: pubkeys stored,
// seqs A=2,B=1,M=1, session seqs A/SA=3,B/SB=1) every mutation of a catalogue (each field of the signed doc, tx-side field
// edits after signing, signature bit flips / truncations / high-S, pubkey-field games incl. squatting on first use,
// session-credential games: session address dropped/foreign/of another master, master key under a session address, session
// key over the master's number/sequence, either credential swapped for the other VALID one; signature-list edits,
// multisignature edits) is delivered to the real app.
//
// Part 2 (histories): depth-first over all histories of <3 (quick) / <4 (thorough) state-changing steps over an alphabet of
// PRE-SIGNED txs (fixed byte strings signed for explicit sequences: same tx twice, two txs with the same sequence, future
// sequence, 2-signer txs with each signer stale, two different valid multisignatures of the same doc, a tx whose msg fails
// after the ante accepted it, session-signed sends / vm calls / failing msgs / mixed with a plain co-signer) and "next
// block"; at every visited state EVERY alphabet entry is executed — after the real bank/vm handlers of the earlier steps ran
// and wrote accounts and session records back. States are snapshotted by stacking a cache layer on the app's deliver/check
// state; block boundaries and restarts are real (own chain). Part 3: the same with CheckTx/DeliverTx mixes; restart histories.
//
// Oracle = independent model {addr -> exists, accnum, seq, pubkey stored?, ugnot; (master, session) -> accnum, seq, spend
// used} + the true key of every address: a tx is accepted by the ante  <=>  #sigs == #signers and for every signer: account
// exists, its CREDENTIAL (the master record, or — signature carries a session address — that session record of that master,
// which must exist) has a known key: the PubKey field is absent (and one is stored) or equals the true key, and the
// signature verifies under that key over (chain id, credential's accnum, credential's CURRENT seq, fee, msgs, memo) of the
// delivered tx; and the first signer can pay the fee (a fee-paying session: within its spend limit). On accept: every
// credential's seq +1 exactly, pubkey stored, fee moved to the collector (and counted as session spend), msgs applied
// all-or-nothing; ALL account and session records of the store must equal the model and no other key may change. On ante
// rejection: the state (dirty layer of both stores) is unchanged.
package main

import (
	"bytes"
	"fmt"
	"math/big"
	"os"
	"runtime/pprof"
	"runtime/debug"
	"sort"
	"strings"
	"sync"
	"sync/atomic"
	"time"

	"github.com/gnolang/gno/gno.land/pkg/gnoland"
	"github.com/gnolang/gno/gno.land/pkg/sdk/vm"
	"github.com/gnolang/gno/gnovm/pkg/gnolang"
	"github.com/gnolang/gno/tm2/pkg/amino"
	abci "github.com/gnolang/gno/tm2/pkg/bft/abci/types"
	"github.com/gnolang/gno/tm2/pkg/crypto"
	"github.com/gnolang/gno/tm2/pkg/crypto/ed25519"
	"github.com/gnolang/gno/tm2/pkg/crypto/multisig"
	"github.com/gnolang/gno/tm2/pkg/crypto/multisig/bitarray"
	"github.com/gnolang/gno/tm2/pkg/db/memdb"
	"github.com/gnolang/gno/tm2/pkg/sdk/auth"
	"github.com/gnolang/gno/tm2/pkg/sdk/bank"
	"github.com/gnolang/gno/tm2/pkg/std"
	"github.com/gnolang/gno/tm2/pkg/store"
	"github.com/gnolang/gno/tm2/pkg/store/types"
	"verif/engine/chainx"
	"verif/engine/vk"
)

var r *vk.Run

// ---- keys --------------------------------------------------------------------------------------------

var (
	A, B, C, Z = chainx.NewKey("A"), chainx.NewKey("B"), chainx.NewKey("C"), chainx.NewKey("Z")
	K          = []chainx.Key{chainx.NewKey("K1"), chainx.NewKey("K2"), chainx.NewKey("K3")}
	U          = chainx.NewKey("U") // never funded: no account
	// session keys (no account of their own): SA is a session of master A, SB of master B; both are created by
	// genesis txs (no expiry, allow-paths {*}, lifetime spend limit sessLimit), so every chain starts with them
	SA, SB = chainx.NewKey("SA"), chainx.NewKey("SB")
	MPub       = multisig.NewPubKeyMultisigThreshold(2, []crypto.PubKey{K[0].Pub, K[1].Pub, K[2].Pub})
	MAddr      = MPub.Address()
	funded     = []chainx.Key{A, B, C, Z}
	trueKey    = map[crypto.Address]crypto.PubKey{A.Addr: A.Pub, B.Addr: B.Pub, C.Addr: C.Pub, Z.Addr: Z.Pub, U.Addr: U.Pub, MAddr: MPub, SA.Addr: SA.Pub, SB.Addr: SB.Pub}
	names      = map[crypto.Address]string{A.Addr: "A", B.Addr: "B", C.Addr: "C", Z.Addr: "Z", U.Addr: "U", MAddr: "M", SA.Addr: "SA", SB.Addr: "SB", sinkAddr: "sink-realm"}
	sinkAddr   = gnolang.DerivePkgCryptoAddr(sinkPath)
	collector  = auth.DefaultParams().FeeCollector
	edPriv     = ed25519.GenPrivKeyFromSecret([]byte("verif-ed"))
)

const (
	fund      = int64(1_000_000_000_000)
	sessLimit = 2 * fund // lifetime spend limit of both sessions: above any balance, so that a session-signed send can fail in the MESSAGE
	sinkPath  = "gno.land/r/verif/sink"
	sinkSrc   = "package sink\n\nfunc Deposit(cur realm) {}\n"
)

// spec: besides the funded keys the genesis carries (unsigned, as genesis txs are) the creation of the two sessions and
// the deployment of a realm whose only function does nothing (target of MsgCall with attached coins: the vm keeper's
// coin-moving path). Genesis txs neither store a pubkey nor advance a sequence (the ante skips Phase 3 at height 0).
func spec() chainx.Spec {
	gtx := func(m std.Msg) std.Tx {
		return std.Tx{Msgs: []std.Msg{m}, Fee: std.NewFee(100_000_000, std.NewCoin("ugnot", 1_000_000)), Signatures: []std.Signature{{}}}
	}
	return chainx.Spec{Keys: funded, Fund: fund,
		GenesisTxs: []std.Tx{
			gtx(auth.MsgCreateSession{Creator: A.Addr, SessionKey: SA.Pub, AllowPaths: []string{"*"}, SpendLimit: coins(sessLimit)}),
			gtx(auth.MsgCreateSession{Creator: B.Addr, SessionKey: SB.Pub, AllowPaths: []string{"*"}, SpendLimit: coins(sessLimit)}),
			gtx(chainx.AddPkg(Z.Addr, sinkPath, map[string]string{"sink.gno": sinkSrc})),
		},
		Mutate: func(gs *gnoland.GnoGenesisState) {
			gs.Balances = append(gs.Balances, gnoland.Balance{Address: MAddr, Amount: coins(fund)})
		}}
}

func coins(n int64) std.Coins { return std.Coins{std.NewCoin("ugnot", n)} }

// ---- model ---------------------------------------------------------------------------------------------

type mAcc struct {
	Num, Seq uint64
	HasPub   bool
	Ugnot    int64
}

// mSess: a session account (stored under /a/<master>/s/<session>): it holds the CREDENTIAL (own account number, own
// sequence, the session pubkey — stored at creation) with which the session key signs for its master, and the spend
// bookkeeping (lifetime limit sessLimit; Used = fees + coins the session moved out of the master).
type mSess struct {
	Num, Seq uint64
	Used     int64
}

type sid struct{ master, sess crypto.Address }

type model struct {
	acc     map[crypto.Address]*mAcc
	sess    map[sid]*mSess
	nextNum uint64
}

func (m *model) clone() *model {
	n := &model{acc: map[crypto.Address]*mAcc{}, sess: map[sid]*mSess{}, nextNum: m.nextNum}
	for a, v := range m.acc {
		c := *v
		n.acc[a] = &c
	}
	for a, v := range m.sess {
		c := *v
		n.sess[a] = &c
	}
	return n
}

func (m *model) key() string {
	var as []string
	for a, v := range m.acc {
		as = append(as, fmt.Sprintf("%s:%d/%d/%v/%d", nm(a), v.Num, v.Seq, v.HasPub, v.Ugnot))
	}
	for a, v := range m.sess {
		as = append(as, fmt.Sprintf("%s/%s:%d/%d/%d", nm(a.master), nm(a.sess), v.Num, v.Seq, v.Used))
	}
	sort.Strings(as)
	return fmt.Sprintf("%d|%s", m.nextNum, strings.Join(as, ","))
}

func nm(a crypto.Address) string {
	if n, ok := names[a]; ok {
		return n
	}
	if a == collector {
		return "collector"
	}
	return a.String()
}

func (m *model) credit(a crypto.Address, n int64) {
	if m.acc[a] == nil {
		m.acc[a] = &mAcc{Num: m.nextNum}
		m.nextNum++
	}
	m.acc[a].Ugnot += n
}

// own implementation of "signers of a tx": first occurrence order over msgs.
func signersOf(msgs []std.Msg) []crypto.Address {
	var out []crypto.Address
	seen := map[crypto.Address]bool{}
	for _, m := range msgs {
		var ss []crypto.Address
		switch m := m.(type) {
		case bank.MsgSend:
			ss = []crypto.Address{m.FromAddress}
		case bank.MsgMultiSend:
			for _, in := range m.Inputs {
				ss = append(ss, in.Address)
			}
		case vm.MsgCall:
			ss = []crypto.Address{m.Caller}
		default:
			panic("unexpected msg type")
		}
		for _, s := range ss {
			if !seen[s] {
				seen[s] = true
				out = append(out, s)
			}
		}
	}
	return out
}

// verifySig: does sig verify under the TRUE key of the address over doc? (multisig: own decoding + rules)
func verifySig(pk crypto.PubKey, doc, sig []byte) bool {
	if mp, ok := pk.(multisig.PubKeyMultisigThreshold); ok {
		var ms multisig.Multisignature
		if vk.Catch(func() {
			if err := amino.Unmarshal(sig, &ms); err != nil {
				ms.BitArray = nil
			}
		}) != nil || ms.BitArray == nil {
			return false
		}
		ba := ms.BitArray
		if int(ba.ExtraBitsStored) >= 8 || (len(ba.Elems) == 0) || ba.Size() != len(mp.PubKeys) {
			return false
		}
		var marked []int
		for i := 0; i < len(mp.PubKeys); i++ {
			if ba.GetIndex(i) {
				marked = append(marked, i)
			}
		}
		if len(marked) < int(mp.K) || len(ms.Sigs) != len(marked) {
			return false
		}
		for j, i := range marked {
			if !mp.PubKeys[i].VerifyBytes(doc, ms.Sigs[j]) {
				return false
			}
		}
		return true
	}
	return pk.VerifyBytes(doc, sig)
}

type verdict struct {
	anteOK bool
	msgsOK bool
	why    string
}

// oracle decides from the model and the delivered tx alone; it mutates m when the ante accepts.
// check=true: CheckTx semantics (msgs are not executed).
func oracle(m *model, tx std.Tx, check bool) verdict {
	signers := signersOf(tx.Msgs)
	if len(tx.Signatures) == 0 || len(tx.Signatures) != len(signers) {
		return verdict{why: "signature count"}
	}
	// viaSess: the masters for which THIS tx is authorised by a session key (signature carries a session address)
	viaSess := map[crypto.Address]sid{}
	for i, s := range signers {
		acc := m.acc[s]
		if acc == nil {
			return verdict{why: "unknown account " + nm(s)}
		}
		sig := tx.Signatures[i]
		// the credential the signature is checked against: the master account, or a session account of that master
		tk, stored, num, seq, who := trueKey[s], acc.HasPub, acc.Num, acc.Seq, nm(s)
		if !sig.SessionAddr.IsZero() {
			id := sid{s, sig.SessionAddr}
			ss := m.sess[id]
			if ss == nil {
				return verdict{why: "no session " + nm(sig.SessionAddr) + " of " + nm(s)}
			}
			tk, stored, num, seq, who = trueKey[sig.SessionAddr], true, ss.Num, ss.Seq, nm(s)+"/"+nm(sig.SessionAddr)
			viaSess[s] = id
		}
		if sig.PubKey != nil && !bytes.Equal(sig.PubKey.Bytes(), tk.Bytes()) {
			return verdict{why: "pubkey field is not the key of " + who}
		}
		if sig.PubKey == nil && !stored {
			return verdict{why: "no pubkey known for " + who}
		}
		doc, err := std.GetSignaturePayload(std.SignDoc{ChainID: chainx.ChainID, AccountNumber: num, Sequence: seq, Fee: tx.Fee, Msgs: tx.Msgs, Memo: tx.Memo})
		if err != nil {
			panic(err)
		}
		if !verifySig(tk, doc, sig.Signature) {
			return verdict{why: "signature of " + who + " does not verify over (chain,accnum,seq,fee,msgs,memo)"}
		}
	}
	fee := tx.Fee.GasFee
	if fee.Denom != "ugnot" || m.acc[signers[0]].Ugnot < fee.Amount {
		return verdict{why: "cannot pay fee"}
	}
	if id, ok := viaSess[signers[0]]; ok {
		// a fee-paying session: fee + the coins its master's messages declare must fit the remaining spend limit
		total := fee.Amount
		for _, msg := range tx.Msgs {
			switch msg := msg.(type) {
			case bank.MsgSend:
				if msg.FromAddress == signers[0] {
					total += msg.Amount.AmountOf("ugnot")
				}
			case vm.MsgCall:
				if msg.Caller == signers[0] {
					total += msg.Send.AmountOf("ugnot")
				}
			}
		}
		if m.sess[id].Used+total > sessLimit {
			return verdict{why: "declared outflow exceeds the session spend limit"}
		}
	}
	// accepted by the ante
	m.acc[signers[0]].Ugnot -= fee.Amount
	if fee.Amount > 0 {
		m.credit(collector, fee.Amount)
		if id, ok := viaSess[signers[0]]; ok {
			m.sess[id].Used += fee.Amount
		}
	}
	for _, s := range signers {
		if id, ok := viaSess[s]; ok {
			m.sess[id].Seq++ // the session's own sequence; the master record is not touched
			continue
		}
		m.acc[s].Seq++
		m.acc[s].HasPub = true
	}
	if check {
		return verdict{anteOK: true, msgsOK: true}
	}
	trial := m.clone()
	ok := true
	move := func(from, to crypto.Address, amt int64) {
		if id, via := viaSess[from]; via && amt > 0 {
			if trial.sess[id].Used+amt > sessLimit {
				ok = false
				return
			}
			trial.sess[id].Used += amt
		}
		if trial.acc[from].Ugnot < amt {
			ok = false
			return
		}
		trial.acc[from].Ugnot -= amt
		if amt > 0 {
			trial.credit(to, amt)
		}
	}
	for _, msg := range tx.Msgs {
		switch msg := msg.(type) {
		case bank.MsgSend:
			move(msg.FromAddress, msg.ToAddress, msg.Amount.AmountOf("ugnot"))
		case vm.MsgCall: // only calls of sink.Deposit (does nothing): the attached coins go to the realm's address
			move(msg.Caller, gnolang.DerivePkgCryptoAddr(msg.PkgPath), msg.Send.AmountOf("ugnot"))
		case bank.MsgMultiSend:
			for _, in := range msg.Inputs {
				amt := in.Coins.AmountOf("ugnot")
				if trial.acc[in.Address].Ugnot < amt {
					ok = false
					break
				}
				trial.acc[in.Address].Ugnot -= amt
			}
			if ok {
				for _, out := range msg.Outputs {
					trial.credit(out.Address, out.Coins.AmountOf("ugnot"))
				}
			}
		}
		if !ok {
			break
		}
	}
	if ok {
		*m = *trial
	}
	return verdict{anteOK: true, msgsOK: ok}
}

// ---- reading the real state ----------------------------------------------------------------------------

const accPrefix = "/a/"

type kv struct{ k, v string }

// State observation. Reading both stores in full costs >100 ms (main: mem-packages, ~2 MB; base: stdlib objects,
// ~12k keys, tens of MB), so per step the state is observed through the DIRTY ENTRIES OF THE BLOCK'S CACHE LAYER
// of both stores — every write made through a sdk.Context lands there until Commit — compared by EFFECTIVE value
// against the parent (a re-write of an identical value is not a change), plus a scan of the account records.
// In addition both stores are read in full once at the end of every chain and compared with (genesis stores +
// all observed layers): a write that bypassed the layer is caught there (less localised).
type lval struct {
	v  string // effective value in the layer (!ok: deleted)
	ok bool
	pv string // the parent's value for that key
	po bool
}

type snap struct {
	accts []kv               // main store keys under /a/
	gan   string             // main store: account-number counter
	layer [2]map[string]lval // dirty keys of the cache layer: [0] base store, [1] main store
}

var storeName = [2]string{"base/", "main/"}

type dirtyLayer interface {
	VerifDirty(f func(key string, value []byte, deleted bool))
	VerifParent() types.Store
}

func readKVs(st types.Store, start, end []byte) []kv {
	it := st.Iterator(nil, start, end)
	defer it.Close()
	var out []kv
	for ; it.Valid(); it.Next() {
		out = append(out, kv{string(it.Key()), string(it.Value())})
	}
	return out
}

func readLayer(st types.Store) map[string]lval {
	dl, ok := st.(dirtyLayer)
	if !ok {
		r.HarnessError("store of the block state is not a cache layer: %T", st)
	}
	out := map[string]lval{}
	dl.VerifDirty(func(k string, v []byte, deleted bool) {
		out[k] = lval{v: string(v), ok: !deleted && v != nil}
	})
	par := dl.VerifParent()
	for k, lv := range out {
		if pv := par.Get(nil, []byte(k)); pv != nil {
			lv.pv, lv.po = string(pv), true
		}
		out[k] = lv
	}
	return out
}

// layerDiff lists keys whose effective value differs between two layers of the same block.
func layerDiff(a, b map[string]lval, prefix string) []string {
	var out []string
	for k, lb := range b {
		av, ao := lb.pv, lb.po
		if la, ok := a[k]; ok {
			av, ao = la.v, la.ok
		}
		if av != lb.v || ao != lb.ok {
			out = append(out, prefix+k)
		}
	}
	for k, la := range a {
		if _, ok := b[k]; !ok && (la.v != la.pv || la.ok != la.po) {
			out = append(out, prefix+k)
		}
	}
	sort.Strings(out)
	return out
}

// takeSnap observes ms; same reports equality with prev.
func takeSnap(ms store.MultiStore, baseKey, mainKey types.StoreKey, prev *snap) (*snap, bool) {
	n := &snap{}
	mst := ms.GetStore(mainKey)
	n.accts = readKVs(mst, []byte(accPrefix), []byte("/a0"))
	n.gan = string(mst.Get(nil, []byte(auth.GlobalAccountNumberKey)))
	n.layer[0] = readLayer(ms.GetStore(baseKey))
	n.layer[1] = readLayer(mst)
	same := prev != nil && len(changedKeys(prev, n)) == 0
	return n, same
}

func changedKeys(a, b *snap) []string {
	out := append(layerDiff(a.layer[0], b.layer[0], storeName[0]), layerDiff(a.layer[1], b.layer[1], storeName[1])...)
	// belt and braces: the account scan must agree with the layer
	i, j := 0, 0
	for i < len(a.accts) || j < len(b.accts) {
		var k string
		switch {
		case j >= len(b.accts) || (i < len(a.accts) && a.accts[i].k < b.accts[j].k):
			k = a.accts[i].k
			i++
		case i >= len(a.accts) || b.accts[j].k < a.accts[i].k:
			k = b.accts[j].k
			j++
		default:
			if a.accts[i].v != b.accts[j].v {
				k = a.accts[i].k
			}
			i++
			j++
		}
		if k != "" && !contains(out, "main/"+k) {
			out = append(out, "main/"+k)
		}
	}
	if a.gan != b.gan && !contains(out, "main/"+auth.GlobalAccountNumberKey) {
		out = append(out, "main/"+auth.GlobalAccountNumberKey)
	}
	return out
}

func contains(s []string, x string) bool {
	for _, y := range s {
		if x == y {
			return true
		}
	}
	return false
}

func (s *snap) acct(key string) (string, bool) {
	for _, e := range s.accts {
		if e.k == key {
			return e.v, true
		}
	}
	return "", false
}

const sessInfix = "/s/"

// splitAcctKey decodes a key under /a/: a master record (/a/<addr>) or a session record (/a/<master>/s/<session>).
func splitAcctKey(k string) (master, sess crypto.Address, isSess, ok bool) {
	rest := k[len(accPrefix):]
	switch len(rest) {
	case crypto.AddressSize:
		copy(master[:], rest)
		return master, sess, false, true
	case 2*crypto.AddressSize + len(sessInfix):
		if rest[crypto.AddressSize:crypto.AddressSize+len(sessInfix)] != sessInfix {
			return master, sess, false, false
		}
		copy(master[:], rest)
		copy(sess[:], rest[crypto.AddressSize+len(sessInfix):])
		return master, sess, true, true
	}
	return master, sess, false, false
}

// compareAccounts checks that the account and session records (and the account-number counter) of a dump equal the model.
func compareAccounts(m *model, d *snap) string {
	seen, seenSess := 0, 0
	for _, e := range d.accts {
		k, v := e.k, e.v
		if !strings.HasPrefix(k, accPrefix) {
			continue
		}
		addr, sessAddr, isSess, ok := splitAcctKey(k)
		if !ok {
			return "unexpected key under /a/: " + show(k)
		}
		var acc std.Account
		if err := amino.Unmarshal([]byte(v), &acc); err != nil {
			return "undecodable account " + show(k)
		}
		if isSess {
			who := nm(addr) + "/" + nm(sessAddr)
			ms := m.sess[sid{addr, sessAddr}]
			if ms == nil {
				return "session " + who + " exists in the store but not in the model"
			}
			seenSess++
			da, isDA := acc.(std.DelegatedAccount)
			if !isDA {
				return "record under a session key is not a session account: " + who
			}
			if acc.GetAddress() != sessAddr || da.GetMasterAddress() != addr {
				return "session stored under a foreign key: " + who
			}
			if acc.GetAccountNumber() != ms.Num || acc.GetSequence() != ms.Seq {
				return fmt.Sprintf("session %s: store (num %d, seq %d) != model (num %d, seq %d)", who, acc.GetAccountNumber(), acc.GetSequence(), ms.Num, ms.Seq)
			}
			if acc.GetPubKey() == nil || !bytes.Equal(acc.GetPubKey().Bytes(), trueKey[sessAddr].Bytes()) {
				return fmt.Sprintf("session %s: stored pubkey is not the session key", who)
			}
			if !da.GetSpendUsed().IsEqual(coinsOrEmpty(ms.Used)) {
				return fmt.Sprintf("session %s: spend used %v != model %d ugnot", who, da.GetSpendUsed(), ms.Used)
			}
			if !da.GetSpendLimit().IsEqual(coins(sessLimit)) || da.GetSpendPeriod() != 0 || da.GetExpiresAt() != 0 || !acc.GetCoins().IsZero() {
				return fmt.Sprintf("session %s: grant changed (limit %v, period %d, expiry %d, coins %v)", who, da.GetSpendLimit(), da.GetSpendPeriod(), da.GetExpiresAt(), acc.GetCoins())
			}
			continue
		}
		ma := m.acc[addr]
		if ma == nil {
			return "account " + nm(addr) + " exists in the store but not in the model"
		}
		seen++
		if _, isDA := acc.(std.DelegatedAccount); isDA {
			return "session account stored under a master key: " + nm(addr)
		}
		if acc.GetAddress() != addr {
			return "account stored under a foreign key: " + nm(addr)
		}
		if acc.GetAccountNumber() != ma.Num || acc.GetSequence() != ma.Seq {
			return fmt.Sprintf("account %s: store (num %d, seq %d) != model (num %d, seq %d)", nm(addr), acc.GetAccountNumber(), acc.GetSequence(), ma.Num, ma.Seq)
		}
		if (acc.GetPubKey() != nil) != ma.HasPub {
			return fmt.Sprintf("account %s: pubkey stored=%v, model=%v", nm(addr), acc.GetPubKey() != nil, ma.HasPub)
		}
		if acc.GetPubKey() != nil && !bytes.Equal(acc.GetPubKey().Bytes(), trueKey[addr].Bytes()) {
			return fmt.Sprintf("account %s: stored pubkey is not the key of that address (squatted)", nm(addr))
		}
		if !acc.GetCoins().IsEqual(coinsOrEmpty(ma.Ugnot)) {
			return fmt.Sprintf("account %s: coins %v != model %d ugnot", nm(addr), acc.GetCoins(), ma.Ugnot)
		}
	}
	if seen != len(m.acc) || seenSess != len(m.sess) {
		return fmt.Sprintf("store has %d accounts + %d sessions, model %d + %d", seen, seenSess, len(m.acc), len(m.sess))
	}
	var n uint64
	if bz := d.gan; bz != "" {
		if err := amino.Unmarshal([]byte(bz), &n); err != nil {
			return "undecodable account-number counter"
		}
	}
	if n != m.nextNum {
		return fmt.Sprintf("account-number counter %d != model %d", n, m.nextNum)
	}
	return ""
}

func coinsOrEmpty(n int64) std.Coins {
	if n == 0 {
		return std.Coins{}
	}
	return coins(n)
}

// modelFromDump builds the initial model from a genesis dump (the starting point is given, not derived).
func modelFromDump(d *snap) *model {
	m := &model{acc: map[crypto.Address]*mAcc{}, sess: map[sid]*mSess{}}
	for _, e := range d.accts {
		k, v := e.k, e.v
		if !strings.HasPrefix(k, accPrefix) {
			continue
		}
		addr, sessAddr, isSess, ok := splitAcctKey(k)
		if !ok {
			r.HarnessError("genesis: unexpected key under /a/: %s", show(k))
		}
		var acc std.Account
		if err := amino.Unmarshal([]byte(v), &acc); err != nil {
			r.HarnessError("genesis account undecodable")
		}
		if isSess {
			if acc.GetSequence() != 0 || !acc.(std.DelegatedAccount).GetSpendUsed().IsZero() {
				r.HarnessError("genesis session with sequence/spend")
			}
			m.sess[sid{addr, sessAddr}] = &mSess{Num: acc.GetAccountNumber()}
			continue
		}
		if acc.GetSequence() != 0 || acc.GetPubKey() != nil {
			r.HarnessError("genesis account with sequence/pubkey")
		}
		m.acc[acc.GetAddress()] = &mAcc{Num: acc.GetAccountNumber(), Ugnot: acc.GetCoins().AmountOf("ugnot")}
	}
	if bz := d.gan; bz != "" {
		amino.MustUnmarshal([]byte(bz), &m.nextNum)
	}
	for _, k := range []crypto.Address{A.Addr, B.Addr, C.Addr, Z.Addr, MAddr} {
		if m.acc[k] == nil || m.acc[k].Ugnot < fund/2 {
			r.HarnessError("genesis account %s missing", nm(k))
		}
	}
	if m.acc[U.Addr] != nil || m.acc[SA.Addr] != nil || m.acc[SB.Addr] != nil {
		r.HarnessError("U / the session keys must not have accounts")
	}
	if len(m.sess) != 2 || m.sess[sid{A.Addr, SA.Addr}] == nil || m.sess[sid{B.Addr, SB.Addr}] == nil {
		r.HarnessError("genesis sessions A/SA and B/SB missing (%d sessions)", len(m.sess))
	}
	return m
}

func show(k string) string {
	var b strings.Builder
	for _, c := range []byte(k) {
		if c >= 32 && c < 127 {
			b.WriteByte(c)
		} else {
			fmt.Fprintf(&b, "\\x%02x", c)
		}
	}
	return b.String()
}

// ---- a running chain + its model -------------------------------------------------------------------------

var (
	nTrans   atomic.Int64
	nChains  atomic.Int64
	stateSet sync.Map
	nStates  atomic.Int64
	nFull    atomic.Int64
)

type hist struct {
	c     *chainx.Chain
	m     *model // deliver-state model
	cm    *model // check-state model
	dump  *snap  // deliver state
	cdump *snap  // check state
	dirty bool   // a violation was seen: do not keep using this chain
	pushed int   // depth of push() snapshots currently open
	// writes committed by earlier blocks of this chain, per store (key -> value; in del: deleted)
	set [2]map[string]string
	del [2]map[string]bool
}

// genesisFull: both stores in full right after genesis + one empty block (identical for every chain).
var genesisFull [2][]kv

const lastHeaderKey = "last_header" // written into the base store by BaseApp.Commit itself

// finish reads both stores in full once and compares them with genesis + every layer observed on this chain.
func (h *hist) finish(label string) {
	if h.dirty {
		return
	}
	if h.pushed != 0 {
		r.HarnessError("finish inside a snapshot")
	}
	bk, mk := h.c.Base.VerifStoreKeys()
	for si, key := range []types.StoreKey{bk, mk} {
		exp := make(map[string]string, len(genesisFull[si]))
		for _, e := range genesisFull[si] {
			exp[e.k] = e.v
		}
		for k := range h.del[si] {
			delete(exp, k)
		}
		for k, v := range h.set[si] {
			exp[k] = v
		}
		for k, lv := range h.dump.layer[si] {
			if lv.ok {
				exp[k] = lv.v
			} else {
				delete(exp, k)
			}
		}
		it := h.c.Base.VerifDeliverMultiStore().GetStore(key).Iterator(nil, nil, nil)
		var bad []string
		for ; it.Valid(); it.Next() {
			k := string(it.Key())
			if si == 0 && (k == lastHeaderKey || physical(k)) {
				continue
			}
			if v, ok := exp[k]; !ok || v != string(it.Value()) {
				bad = append(bad, storeName[si]+show(k))
			}
			delete(exp, k)
		}
		it.Close()
		delete(exp, lastHeaderKey)
		for k := range exp {
			if si == 0 && physical(k) {
				continue
			}
			bad = append(bad, storeName[si]+show(k)+"(missing)")
		}
		if len(bad) > 0 {
			sort.Strings(bad)
			r.Violation("store-changed-behind-the-block-cache-layer:"+label, map[string]any{"keys": head(bad, 10)})
		}
	}
	nFull.Add(1)
}

// physical: the base store (dbadapter) is mounted on the same raw DB as the main store's B+tree, without a prefix, so
// iterating it also yields the tree's physical records (one-byte prefixes B V R M O F of tm2/pkg/bptree/const.go).
// The logical base-store keys (oid: tid: pkgidx: last_header) are lower-case.
func physical(k string) bool {
	return len(k) > 0 && strings.IndexByte("BVRMOF", k[0]) >= 0
}

// commitLayer records the layers (read after EndBlock) that Commit is about to flush.
func (h *hist) commitLayer() {
	for si := 0; si < 2; si++ {
		if h.set[si] == nil {
			h.set[si], h.del[si] = map[string]string{}, map[string]bool{}
		}
		for k, lv := range h.dump.layer[si] {
			if lv.ok {
				h.set[si][k] = lv.v
				delete(h.del[si], k)
			} else {
				delete(h.set[si], k)
				h.del[si][k] = true
			}
		}
	}
}

// endBlockCommit = chainx.EndBlockCommit, with the layers observed between EndBlock and Commit.
func (h *hist) endBlockCommit() {
	if h.pushed != 0 {
		r.HarnessError("block boundary inside a snapshot")
	}
	c := h.c
	c.App.EndBlock(abci.RequestEndBlock{Height: c.Height + 1})
	h.dump, _ = h.snapDeliver(nil)
	h.commitLayer()
	c.App.Commit()
	c.Height++
	c.InBlock = false
}

func (h *hist) snapDeliver(prev *snap) (*snap, bool) {
	ms := h.c.Base.VerifDeliverMultiStore()
	if ms == nil {
		r.HarnessError("snapshot outside a block")
	}
	bk, mk := h.c.Base.VerifStoreKeys()
	return takeSnap(ms, bk, mk, prev)
}

func (h *hist) snapCheck(prev *snap) (*snap, bool) {
	bk, mk := h.c.Base.VerifStoreKeys()
	return takeSnap(h.c.Base.VerifCheckMultiStore(), bk, mk, prev)
}

// push snapshots the chain (DeliverTx state AND CheckTx state: a fresh cache layer is stacked on each, see hooks) and
// both models; the returned function rolls everything back. Transactions delivered in between run through the
// unmodified DeliverTx/CheckTx paths (whose own per-tx cache layer now flushes into the stacked layer), and are
// observed through that layer's dirty entries exactly as in an un-pushed block. A violation seen inside the snapshot
// is contained by the rollback. Block boundaries (Commit) cannot be rolled back: never inside a snapshot.
func (h *hist) push() (pop func()) {
	popD := h.c.Base.VerifPushDeliver()
	popC := h.c.Base.VerifPushCheck()
	m, cm, dump, cdump, dirty := h.m.clone(), h.cm.clone(), h.dump, h.cdump, h.dirty
	h.dump, _ = h.snapDeliver(nil)
	h.cdump = nil
	h.pushed++
	return func() {
		popC()
		popD()
		h.m, h.cm, h.dump, h.cdump, h.dirty = m, cm, dump, cdump, dirty
		h.pushed--
	}
}

// newHist: genesis, one empty block (so that the mempool state no longer runs at genesis height, see NOTES),
// then an open block.
func newHist() *hist {
	c, err := chainx.New(memdb.NewMemDB(), spec())
	if err != nil {
		r.HarnessError("chain init: %v", err)
	}
	nChains.Add(1)
	h := &hist{c: c}
	c.Block()
	c.BeginBlock()
	h.dump, _ = h.snapDeliver(nil)
	h.m = modelFromDump(h.dump)
	h.cm = h.m.clone()
	if why := compareAccounts(h.m, h.dump); why != "" {
		r.HarnessError("initial model mismatch: %s", why)
	}
	return h
}

func (h *hist) noteState() {
	k := h.m.key() + "#" + h.cm.key()
	if _, loaded := stateSet.LoadOrStore(k, true); !loaded {
		nStates.Add(1)
	}
}

func errClass(e abci.Error) string {
	if e == nil {
		return "ok"
	}
	return strings.TrimPrefix(fmt.Sprintf("%T", e), "std.")
}

func firstLine(s string) string {
	if i := strings.IndexByte(s, '\n'); i >= 0 {
		s = s[:i]
	}
	if len(s) > 160 {
		s = s[:160]
	}
	return s
}

// deliver runs DeliverTx(tx) and checks it against the oracle. Returns whether the state changed (as far as
// the model says) — callers use that to decide whether the chain can be re-used for a sibling case.
func (h *hist) deliver(tx std.Tx, label string) (changed bool) {
	pre := h.dump
	mPre := h.m.clone()
	v := oracle(h.m, tx, false)
	res := h.c.DeliverTx(tx)
	post, same := h.snapDeliver(pre)
	nTrans.Add(1)
	r.Eval()
	h.dump = post
	detail := func(why string) map[string]any {
		return map[string]any{"case": label, "why": why, "oracle": fmt.Sprintf("%+v", v), "result": errClass(res.Error), "log": firstLine(res.Log),
			"changed_keys": head(mapS(changedKeys(pre, post), show), 8)}
	}
	switch {
	case !v.anteOK:
		r.Outcome("reject:" + errClass(res.Error))
		if res.Error == nil {
			h.dirty = true
			r.Violation("invalid-tx-accepted:"+label, detail("the oracle rejects ("+v.why+") but DeliverTx returned OK"))
			return true
		}
		if !same {
			h.dirty = true
			why := "an ante-rejected tx changed the store"
			if seqAdvanced(mPre, post) {
				why = "a tx the oracle rejects (" + v.why + ") advanced a sequence / took effect"
			}
			r.Violation("rejected-tx-changed-state:"+label, detail(why))
			return true
		}
		return false
	default:
		cls := "accept"
		if !v.msgsOK {
			cls = "accept-ante-msgs-fail"
		}
		r.Outcome(cls + ":" + errClass(res.Error))
		if same {
			h.dirty = true
			r.Violation("valid-tx-rejected:"+label, detail("the oracle accepts but nothing changed"))
			return true
		}
		if (res.Error == nil) != v.msgsOK {
			h.dirty = true
			r.Violation("valid-tx-wrong-result:"+label, detail("result does not match the model's message outcome"))
			return true
		}
		if why := compareAccounts(h.m, post); why != "" {
			h.dirty = true
			r.Violation("accepted-tx-wrong-effects:"+label, detail(why))
			return true
		}
		for _, k := range changedKeys(pre, post) {
			if !strings.HasPrefix(k, "main/"+accPrefix) && k != "main/"+auth.GlobalAccountNumberKey {
				h.dirty = true
				r.Violation("accepted-tx-touched-foreign-key:"+label, detail("changed key "+show(k)))
				return true
			}
		}
		h.noteState()
		return true
	}
}

// seqAdvanced: did any account's sequence in the dump move away from the pre-model?
func seqAdvanced(pre *model, d *snap) bool {
	for a, ma := range pre.acc {
		var acc std.Account
		if bz, ok := d.acct(accPrefix + string(a[:])); ok && amino.Unmarshal([]byte(bz), &acc) == nil && acc.GetSequence() != ma.Seq {
			return true
		}
	}
	for id, ms := range pre.sess {
		var acc std.Account
		if bz, ok := d.acct(accPrefix + string(id.master[:]) + sessInfix + string(id.sess[:])); ok && amino.Unmarshal([]byte(bz), &acc) == nil && acc.GetSequence() != ms.Seq {
			return true
		}
	}
	return false
}

// check runs CheckTx(tx) against the check-state model; the deliver state must not move.
func (h *hist) check(tx std.Tx, label string) (changed bool) {
	if h.cdump == nil {
		h.cdump, _ = h.snapCheck(nil)
	}
	cpre := h.cdump
	v := oracle(h.cm, tx, true)
	res := h.c.App.CheckTx(abci.RequestCheckTx{Tx: amino.MustMarshal(tx)})
	cpost, csame := h.snapCheck(cpre)
	h.cdump = cpost
	_, dsame := h.snapDeliver(h.dump)
	nTrans.Add(1)
	r.Eval()
	detail := func(why string) map[string]any {
		return map[string]any{"case": label, "why": why, "oracle": fmt.Sprintf("%+v", v), "result": errClass(res.Error), "log": firstLine(res.Log)}
	}
	if !dsame {
		h.dirty = true
		r.Violation("checktx-changed-deliver-state:"+label, detail("DeliverTx-state dump differs after a CheckTx"))
		return true
	}
	if !v.anteOK {
		r.Outcome("check-reject:" + errClass(res.Error))
		if res.Error == nil {
			h.dirty = true
			r.Violation("checktx-accepted-invalid:"+label, detail("oracle rejects ("+v.why+")"))
			return true
		}
		if !csame {
			h.dirty = true
			r.Violation("checktx-rejected-but-changed-check-state:"+label, detail("check state changed"))
			return true
		}
		return false
	}
	r.Outcome("check-accept:" + errClass(res.Error))
	if res.Error != nil {
		h.dirty = true
		r.Violation("checktx-rejected-valid:"+label, detail("oracle accepts"))
		return true
	}
	if why := compareAccounts(h.cm, cpost); why != "" {
		h.dirty = true
		r.Violation("checktx-wrong-effects:"+label, detail(why))
		return true
	}
	h.noteState()
	return true
}

func (h *hist) nextBlock() {
	h.endBlockCommit()
	h.c.BeginBlock()
	h.afterCommit("next-block")
}

func (h *hist) restart() {
	h.endBlockCommit()
	if err := h.c.Restart(); err != nil {
		r.HarnessError("restart: %v", err)
	}
	h.c.BeginBlock()
	h.afterCommit("restart")
}

func (h *hist) afterCommit(what string) {
	nTrans.Add(1)
	d, _ := h.snapDeliver(nil)
	// a block boundary may legitimately touch non-account keys (gas price, header); accounts must be untouched
	if why := compareAccounts(h.m, d); why != "" {
		h.dirty = true
		r.Violation("accounts-changed-across-"+what, map[string]any{"why": why})
	}
	h.dump = d
	h.cm = h.m.clone() // Commit resets the check state to the committed state
	h.cdump = nil
	h.noteState()
}

func mapS(in []string, f func(string) string) []string {
	out := make([]string, len(in))
	for i, s := range in {
		out[i] = f(s)
	}
	return out
}

func head(s []string, n int) []string {
	if len(s) > n {
		return append(s[:n:n], fmt.Sprintf("... %d more", len(s)-n))
	}
	return s
}

// ---- building (mis-)signed transactions -------------------------------------------------------------------

type slot struct {
	acct    crypto.Address // account whose (number, sequence) go into the signed doc ...
	cred    *sid           // ... unless set: then those of this session record (zero if there is no such session)
	key     *chainx.Key    // plain signing key (nil: the signer's true key; multisig: see multi)
	multi   []int          // multisig: positions marked in the bit array
	mkeys   []chainx.Key   // multisig: keys that sign for those positions (default K[pos])
	msize   int            // multisig: bit array size (default 3)
	mrev    bool           // multisig: reverse the order of the sub-signatures
	mflip   bool           // multisig: flip a bit in the first sub-signature
	pub     crypto.PubKey  // PubKey field
	chainID string
	numD    int64
	seqD    int64
	seqAbs  int64 // >=0: absolute sequence
	numAbs  int64 // >=0: absolute account number
	fee     *std.Fee
	memo    *string
	msgs    []std.Msg
	post    func([]byte) []byte
	session crypto.Address
}

type recipe struct {
	msgs  []std.Msg
	fee   std.Fee
	memo  string
	slots []slot
}

var (
	stdFee  = std.NewFee(10_000_000, std.NewCoin("ugnot", 1_000_000))
	callFee = std.NewFee(60_000_000, std.NewCoin("ugnot", 1_000_000)) // txs carrying a vm call need more gas
)

func newRecipe(msgs ...std.Msg) *recipe {
	rc := &recipe{msgs: msgs, fee: stdFee, memo: "memo"}
	for _, m := range msgs {
		if _, ok := m.(vm.MsgCall); ok {
			rc.fee = callFee
		}
	}
	for _, s := range signersOf(msgs) {
		rc.slots = append(rc.slots, defaultSlot(s))
	}
	return rc
}

// sessionOf: the session key created at genesis for a master (nil: none).
func sessionOf(master crypto.Address) *chainx.Key {
	switch master {
	case A.Addr:
		return &SA
	case B.Addr:
		return &SB
	}
	return nil
}

// sessionSlot: a correct session-key signature for master (its session signs over the session's own number/sequence).
func sessionSlot(master crypto.Address) slot {
	k := sessionOf(master)
	return slot{acct: master, cred: &sid{master, k.Addr}, key: k, pub: k.Pub, session: k.Addr, chainID: chainx.ChainID, seqAbs: -1, numAbs: -1}
}

// via makes the given signer positions sign with their session keys.
func via(rc *recipe, idx ...int) *recipe {
	for _, i := range idx {
		rc.slots[i] = sessionSlot(rc.slots[i].acct)
	}
	return rc
}

// credNumSeq: the (account number, sequence) of the credential a slot signs over, per model m.
func credNumSeq(m *model, sl slot) (num, seq uint64) {
	if sl.cred != nil {
		if ss := m.sess[*sl.cred]; ss != nil {
			return ss.Num, ss.Seq
		}
		return 0, 0
	}
	if a := m.acc[sl.acct]; a != nil {
		return a.Num, a.Seq
	}
	return 0, 0
}

func defaultSlot(s crypto.Address) slot {
	sl := slot{acct: s, pub: trueKey[s], chainID: chainx.ChainID, seqAbs: -1, numAbs: -1}
	if s == MAddr {
		sl.multi = []int{0, 1}
		sl.msize = 3
	} else {
		for _, k := range []chainx.Key{A, B, C, Z, U} {
			if k.Addr == s {
				kk := k
				sl.key = &kk
			}
		}
	}
	return sl
}

func (rc *recipe) clone() *recipe {
	n := *rc
	n.msgs = append([]std.Msg{}, rc.msgs...)
	n.slots = append([]slot{}, rc.slots...)
	return &n
}

func keyByAddr(a crypto.Address) *chainx.Key {
	for _, k := range []chainx.Key{A, B, C, Z, U} {
		if k.Addr == a {
			kk := k
			return &kk
		}
	}
	return nil
}

// build signs against the account numbers/sequences of model m.
func (rc *recipe) build(m *model) std.Tx {
	tx := std.Tx{Msgs: rc.msgs, Fee: rc.fee, Memo: rc.memo}
	for _, sl := range rc.slots {
		num, seq := credNumSeq(m, sl)
		num, seq = uint64(int64(num)+sl.numD), uint64(int64(seq)+sl.seqD)
		if sl.seqAbs >= 0 {
			seq = uint64(sl.seqAbs)
		}
		if sl.numAbs >= 0 {
			num = uint64(sl.numAbs)
		}
		doc := std.SignDoc{ChainID: sl.chainID, AccountNumber: num, Sequence: seq, Fee: rc.fee, Msgs: rc.msgs, Memo: rc.memo}
		if sl.fee != nil {
			doc.Fee = *sl.fee
		}
		if sl.memo != nil {
			doc.Memo = *sl.memo
		}
		if sl.msgs != nil {
			doc.Msgs = sl.msgs
		}
		sb, err := std.GetSignaturePayload(doc)
		if err != nil {
			panic(err)
		}
		var sig []byte
		if sl.multi != nil {
			ms := &multisig.Multisignature{BitArray: bitarray.NewCompactBitArray(sl.msize)}
			var subs [][]byte
			for j, pos := range sl.multi {
				k := K[pos%3]
				if sl.mkeys != nil {
					k = sl.mkeys[j]
				}
				s, _ := k.Priv.Sign(sb)
				if sl.mflip && j == 0 {
					s[10] ^= 4
				}
				subs = append(subs, s)
				ms.BitArray.SetIndex(pos, true)
			}
			if sl.mrev {
				for i, j := 0, len(subs)-1; i < j; i, j = i+1, j-1 {
					subs[i], subs[j] = subs[j], subs[i]
				}
			}
			ms.Sigs = subs
			sig = ms.Marshal()
		} else if sl.key != nil {
			sig, _ = sl.key.Priv.Sign(sb)
		}
		if sl.post != nil {
			sig = sl.post(append([]byte{}, sig...))
		}
		tx.Signatures = append(tx.Signatures, std.Signature{PubKey: sl.pub, Signature: sig, SessionAddr: sl.session})
	}
	return tx
}

func send(from, to crypto.Address, n int64) std.Msg {
	return bank.MsgSend{FromAddress: from, ToAddress: to, Amount: coins(n)}
}

// call: MsgCall of sink.Deposit (a function that does nothing) with n ugnot attached: the vm keeper's coin-moving path.
func call(from crypto.Address, n int64) std.Msg {
	return chainx.Call(from, coins(n), sinkPath, "Deposit")
}

func multisend(n int64, to crypto.Address, from ...crypto.Address) std.Msg {
	var in []bank.Input
	for _, f := range from {
		in = append(in, bank.Input{Address: f, Coins: coins(n)})
	}
	return bank.MsgMultiSend{Inputs: in, Outputs: []bank.Output{{Address: to, Coins: coins(n * int64(len(from)))}}}
}

// ---- part 1: mutation catalogue ----------------------------------------------------------------------------

type mutation struct {
	name    string
	perSlot bool
	apply   func(rc *recipe, i int, m *model) bool // false: not applicable
}

func sp(s string) *string { return &s }

var secpN, _ = new(big.Int).SetString("FFFFFFFFFFFFFFFFFFFFFFFFFFFFFFFEBAAEDCE6AF48A03BBFD25E8CD0364141", 16)

func flip(byteIdx int, bit uint) func([]byte) []byte {
	return func(s []byte) []byte {
		if len(s) == 0 {
			return s
		}
		s[byteIdx%len(s)] ^= 1 << bit
		return s
	}
}

func catalogue() []mutation {
	var ms []mutation
	add := func(name string, perSlot bool, f func(rc *recipe, i int, m *model) bool) {
		ms = append(ms, mutation{name, perSlot, f})
	}
	add("identity", false, func(rc *recipe, i int, m *model) bool { return true })
	// --- signed-doc fields (signature made over a doc that differs in ONE field from the delivered tx)
	for _, cid := range []string{"", "verif-chaim", "verif-chain2", "Verif-chain", "verif-chai"} {
		cid := cid
		add("doc-chainid="+cid, true, func(rc *recipe, i int, m *model) bool { rc.slots[i].chainID = cid; return true })
	}
	for _, d := range []int64{1, -1, 2} {
		d := d
		add(fmt.Sprintf("doc-accnum%+d", d), true, func(rc *recipe, i int, m *model) bool { rc.slots[i].numD = d; return true })
		add(fmt.Sprintf("doc-seq%+d", d), true, func(rc *recipe, i int, m *model) bool { rc.slots[i].seqD = d; return true })
	}
	add("doc-seq=0", true, func(rc *recipe, i int, m *model) bool {
		if _, seq := credNumSeq(m, rc.slots[i]); seq == 0 {
			return false
		}
		rc.slots[i].seqAbs = 0
		return true
	})
	add("doc-accnum-and-seq-of-other-account", true, func(rc *recipe, i int, m *model) bool {
		other := slot{acct: Z.Addr}
		if len(rc.slots) > 1 {
			other = rc.slots[1-i]
		}
		rc.slots[i].acct, rc.slots[i].cred = other.acct, other.cred // the credential the OTHER signer signs over
		return true
	})
	add("doc-seq-of-other-account", true, func(rc *recipe, i int, m *model) bool {
		if len(rc.slots) < 2 {
			return false
		}
		_, mine := credNumSeq(m, rc.slots[i])
		_, theirs := credNumSeq(m, rc.slots[1-i])
		if mine == theirs {
			return false
		}
		rc.slots[i].seqAbs = int64(theirs)
		return true
	})
	add("doc-accnum-of-other-account", true, func(rc *recipe, i int, m *model) bool {
		other := slot{acct: Z.Addr}
		if len(rc.slots) > 1 {
			other = rc.slots[1-i]
		}
		num, _ := credNumSeq(m, other)
		rc.slots[i].numAbs = int64(num)
		return true
	})
	for _, f := range []std.Fee{
		std.NewFee(stdFee.GasWanted, std.NewCoin("ugnot", stdFee.GasFee.Amount+1)),
		std.NewFee(stdFee.GasWanted, std.NewCoin("ugnot", stdFee.GasFee.Amount-1)),
		std.NewFee(stdFee.GasWanted+1, stdFee.GasFee),
		std.NewFee(stdFee.GasWanted, std.NewCoin("ugnox", stdFee.GasFee.Amount)),
	} {
		f := f
		add(fmt.Sprintf("doc-fee=%d,%s", f.GasWanted, f.GasFee), true, func(rc *recipe, i int, m *model) bool { rc.slots[i].fee = &f; return true })
	}
	for _, mm := range []string{"", "memo2", "Memo", "mem"} {
		mm := mm
		add("doc-memo="+mm, true, func(rc *recipe, i int, m *model) bool { rc.slots[i].memo = sp(mm); return true })
	}
	add("doc-msg-amount+1", true, func(rc *recipe, i int, m *model) bool {
		rc.slots[i].msgs = bumpMsgs(rc.msgs, 1, crypto.Address{})
		return true
	})
	add("doc-msg-recipient=Z", true, func(rc *recipe, i int, m *model) bool {
		rc.slots[i].msgs = bumpMsgs(rc.msgs, 0, Z.Addr)
		return true
	})
	add("doc-extra-msg", true, func(rc *recipe, i int, m *model) bool {
		rc.slots[i].msgs = append(append([]std.Msg{}, rc.msgs...), rc.msgs[0])
		return true
	})
	add("doc-msgs-reversed", true, func(rc *recipe, i int, m *model) bool {
		if len(rc.msgs) < 2 {
			return false
		}
		rc.slots[i].msgs = []std.Msg{rc.msgs[1], rc.msgs[0]}
		return true
	})
	add("doc-msg-dropped", true, func(rc *recipe, i int, m *model) bool {
		if len(rc.msgs) < 2 {
			return false
		}
		rc.slots[i].msgs = rc.msgs[:1]
		return true
	})
	// --- tx-side edits after signing (all signers signed the ORIGINAL; the delivered tx differs)
	txEdit := func(name string, f func(rc *recipe)) {
		add("tx-"+name, false, func(rc *recipe, i int, m *model) bool {
			of, om, omsgs := rc.fee, rc.memo, rc.msgs
			for j := range rc.slots {
				rc.slots[j].fee, rc.slots[j].memo, rc.slots[j].msgs = &of, sp(om), omsgs
			}
			f(rc)
			return true
		})
	}
	txEdit("fee-1", func(rc *recipe) { rc.fee.GasFee.Amount-- })
	txEdit("fee=1", func(rc *recipe) { rc.fee.GasFee.Amount = 1 })
	txEdit("fee+1", func(rc *recipe) { rc.fee.GasFee.Amount++ })
	txEdit("gaswanted+1", func(rc *recipe) { rc.fee.GasWanted++ })
	txEdit("memo-changed", func(rc *recipe) { rc.memo = "memo!" })
	txEdit("memo-emptied", func(rc *recipe) { rc.memo = "" })
	txEdit("msg-amount+1", func(rc *recipe) { rc.msgs = bumpMsgs(rc.msgs, 1, crypto.Address{}) })
	txEdit("msg-amount-x1000", func(rc *recipe) { rc.msgs = bumpMsgs(rc.msgs, 99_900, crypto.Address{}) })
	txEdit("msg-recipient=Z", func(rc *recipe) { rc.msgs = bumpMsgs(rc.msgs, 0, Z.Addr) })
	txEdit("msg-duplicated", func(rc *recipe) { rc.msgs = append(append([]std.Msg{}, rc.msgs...), rc.msgs[0]) })
	txEdit("extra-msg-by-same-signer-to-Z", func(rc *recipe) {
		rc.msgs = append(append([]std.Msg{}, rc.msgs...), send(signersOf(rc.msgs)[0], Z.Addr, 777))
	})
	// --- signature bytes
	bytesIdx := []int{0, 31, 32, 63}
	bits := []uint{0, 7}
	if r.Thorough() {
		bytesIdx, bits = nil, []uint{0, 1, 2, 3, 4, 5, 6, 7}
		for i := 0; i < 64; i++ {
			bytesIdx = append(bytesIdx, i)
		}
	}
	for _, bi := range bytesIdx {
		for _, b := range bits {
			bi, b := bi, b
			add(fmt.Sprintf("sig-flip-byte%d-bit%d", bi, b), true, func(rc *recipe, i int, m *model) bool { rc.slots[i].post = flip(bi, b); return true })
		}
	}
	add("sig-flip-middle-of-encoding", true, func(rc *recipe, i int, m *model) bool {
		rc.slots[i].post = func(s []byte) []byte { s[len(s)/2] ^= 0x10; return s }
		return true
	})
	add("sig-truncated-1", true, func(rc *recipe, i int, m *model) bool {
		rc.slots[i].post = func(s []byte) []byte { return s[:len(s)-1] }
		return true
	})
	add("sig-extended-1", true, func(rc *recipe, i int, m *model) bool {
		rc.slots[i].post = func(s []byte) []byte { return append(s, 0) }
		return true
	})
	add("sig-empty", true, func(rc *recipe, i int, m *model) bool {
		rc.slots[i].post = func(s []byte) []byte { return nil }
		return true
	})
	add("sig-all-zero", true, func(rc *recipe, i int, m *model) bool {
		rc.slots[i].post = func(s []byte) []byte { return make([]byte, len(s)) }
		return true
	})
	add("sig-high-s", true, func(rc *recipe, i int, m *model) bool {
		if rc.slots[i].multi != nil {
			return false
		}
		rc.slots[i].post = func(s []byte) []byte {
			hs := new(big.Int).Sub(secpN, new(big.Int).SetBytes(s[32:]))
			hs.FillBytes(s[32:])
			return s
		}
		return true
	})
	// --- pubkey field / signing key
	add("pubkey-field-nil", true, func(rc *recipe, i int, m *model) bool { rc.slots[i].pub = nil; return true }) // valid iff a key is stored
	add("signed-by-Z,pubkey-field=Z(squat)", true, func(rc *recipe, i int, m *model) bool {
		rc.slots[i].key, rc.slots[i].multi, rc.slots[i].pub = &Z, nil, Z.Pub
		return true
	})
	add("signed-by-Z-over-Z's-accnum/seq,pubkey-field=Z", true, func(rc *recipe, i int, m *model) bool {
		rc.slots[i].key, rc.slots[i].multi, rc.slots[i].pub, rc.slots[i].acct, rc.slots[i].cred = &Z, nil, Z.Pub, Z.Addr, nil
		return true
	})
	add("signed-by-Z,pubkey-field=true-key", true, func(rc *recipe, i int, m *model) bool {
		rc.slots[i].key, rc.slots[i].multi = &Z, nil
		return true
	})
	add("signed-by-Z,pubkey-field-nil", true, func(rc *recipe, i int, m *model) bool {
		rc.slots[i].key, rc.slots[i].multi, rc.slots[i].pub = &Z, nil, nil
		return true
	})
	add("signed-by-true-key,pubkey-field=Z", true, func(rc *recipe, i int, m *model) bool { rc.slots[i].pub = Z.Pub; return true })
	add("signed-by-U(no account),pubkey-field=U", true, func(rc *recipe, i int, m *model) bool {
		rc.slots[i].key, rc.slots[i].multi, rc.slots[i].pub = &U, nil, U.Pub
		return true
	})
	add("pubkey-field=1-of-1-multisig-of-Z,signed-by-Z", true, func(rc *recipe, i int, m *model) bool {
		rc.slots[i].pub = multisig.NewPubKeyMultisigThreshold(1, []crypto.PubKey{Z.Pub})
		rc.slots[i].key, rc.slots[i].multi, rc.slots[i].mkeys, rc.slots[i].msize = nil, []int{0}, []chainx.Key{Z}, 1
		return true
	})
	add("pubkey-field=ed25519,signed-by-it", true, func(rc *recipe, i int, m *model) bool {
		rc.slots[i].pub = edPriv.PubKey()
		rc.slots[i].multi, rc.slots[i].key = nil, nil
		base := rc.slots[i]
		rc.slots[i].post = func([]byte) []byte {
			num, seq := credNumSeq(m, base)
			sb, _ := std.GetSignaturePayload(std.SignDoc{ChainID: chainx.ChainID, AccountNumber: num, Sequence: seq, Fee: rc.fee, Msgs: rc.msgs, Memo: rc.memo})
			s, _ := edPriv.Sign(sb)
			return s
		}
		return true
	})
	add("session-addr=B(no such session)", true, func(rc *recipe, i int, m *model) bool { rc.slots[i].session = B.Addr; return true })
	add("session-addr=own-address", true, func(rc *recipe, i int, m *model) bool { rc.slots[i].session = rc.slots[i].acct; return true })
	// --- session credentials (masters A and B each have a session, SA resp. SB, created at genesis)
	onSession := func(name string, f func(rc *recipe, sl *slot, m *model) bool) {
		add(name, true, func(rc *recipe, i int, m *model) bool {
			if rc.slots[i].session.IsZero() || rc.slots[i].cred == nil {
				return false
			}
			return f(rc, &rc.slots[i], m)
		})
	}
	add("plain-signer-uses-own-session-instead(valid)", true, func(rc *recipe, i int, m *model) bool {
		if !rc.slots[i].session.IsZero() || sessionOf(rc.slots[i].acct) == nil {
			return false
		}
		rc.slots[i] = sessionSlot(rc.slots[i].acct)
		return true
	})
	onSession("session-signer-uses-master-key-instead(valid)", func(rc *recipe, sl *slot, m *model) bool {
		*sl = defaultSlot(sl.acct)
		return true
	})
	onSession("session-addr-dropped", func(rc *recipe, sl *slot, m *model) bool { sl.session = crypto.Address{}; return true })
	onSession("session-addr-dropped,pubkey-field-nil", func(rc *recipe, sl *slot, m *model) bool {
		sl.session, sl.pub = crypto.Address{}, nil
		return true
	})
	onSession("session-addr-dropped,pubkey-field=master-key", func(rc *recipe, sl *slot, m *model) bool {
		sl.session, sl.pub = crypto.Address{}, trueKey[sl.acct]
		return true
	})
	onSession("session-addr-kept,signed-by-master-key,pubkey-field=master-key", func(rc *recipe, sl *slot, m *model) bool {
		sl.key, sl.pub = keyByAddr(sl.acct), trueKey[sl.acct]
		return true
	})
	onSession("session-addr-kept,signed-by-master-key,pubkey-field-nil", func(rc *recipe, sl *slot, m *model) bool {
		sl.key, sl.pub = keyByAddr(sl.acct), nil
		return true
	})
	onSession("session-addr-kept,signed-by-master-key-over-master-accnum/seq", func(rc *recipe, sl *slot, m *model) bool {
		sl.key, sl.pub, sl.cred = keyByAddr(sl.acct), trueKey[sl.acct], nil
		return true
	})
	onSession("session-key-signs-over-master-accnum/seq", func(rc *recipe, sl *slot, m *model) bool { sl.cred = nil; return true })
	onSession("session-key-signs-over-master-seq", func(rc *recipe, sl *slot, m *model) bool {
		if m.acc[sl.acct].Seq == m.sess[*sl.cred].Seq {
			return false
		}
		sl.seqAbs = int64(m.acc[sl.acct].Seq)
		return true
	})
	onSession("session-key-signs-over-master-accnum", func(rc *recipe, sl *slot, m *model) bool {
		sl.numAbs = int64(m.acc[sl.acct].Num)
		return true
	})
	onSession("session-of-another-master(own accnum/seq)", func(rc *recipe, sl *slot, m *model) bool {
		other := B.Addr
		if sl.acct == B.Addr {
			other = A.Addr
		}
		k := sessionOf(other)
		sl.key, sl.pub, sl.session, sl.cred = k, k.Pub, k.Addr, &sid{other, k.Addr}
		return true
	})
	onSession("session-of-another-master-named,signed-by-own-session", func(rc *recipe, sl *slot, m *model) bool {
		other := B.Addr
		if sl.acct == B.Addr {
			other = A.Addr
		}
		sl.session = sessionOf(other).Addr
		return true
	})
	onSession("session-addr=master-address", func(rc *recipe, sl *slot, m *model) bool { sl.session = sl.acct; return true })
	// --- signature list
	add("sigs-swapped", false, func(rc *recipe, i int, m *model) bool {
		if len(rc.slots) < 2 {
			return false
		}
		rc.slots[0], rc.slots[1] = rc.slots[1], rc.slots[0]
		return true
	})
	add("sigs-last-dropped", false, func(rc *recipe, i int, m *model) bool { rc.slots = rc.slots[:len(rc.slots)-1]; return true })
	add("sigs-first-dropped", false, func(rc *recipe, i int, m *model) bool { rc.slots = rc.slots[1:]; return true })
	add("sigs-extra-valid-sig-of-Z-appended", false, func(rc *recipe, i int, m *model) bool {
		rc.slots = append(rc.slots, defaultSlot(Z.Addr))
		return true
	})
	add("sigs-extra-copy-of-first-appended", false, func(rc *recipe, i int, m *model) bool {
		rc.slots = append(rc.slots, rc.slots[0])
		return true
	})
	add("sigs-first-copied-into-second", false, func(rc *recipe, i int, m *model) bool {
		if len(rc.slots) < 2 {
			return false
		}
		rc.slots[1] = rc.slots[0]
		return true
	})
	// --- multisignature (only for the multisig signer)
	mu := func(name string, f func(sl *slot)) {
		add("multisig-"+name, true, func(rc *recipe, i int, m *model) bool {
			if rc.slots[i].multi == nil || rc.slots[i].acct != MAddr {
				return false
			}
			f(&rc.slots[i])
			return true
		})
	}
	mu("signers{K1,K3}", func(sl *slot) { sl.multi = []int{0, 2} })
	mu("signers{K2,K3}", func(sl *slot) { sl.multi = []int{1, 2} })
	mu("signers{K1,K2,K3}", func(sl *slot) { sl.multi = []int{0, 1, 2} })
	mu("only-K1(below threshold)", func(sl *slot) { sl.multi = []int{0} })
	mu("only-K3(below threshold)", func(sl *slot) { sl.multi = []int{2} })
	mu("no-subsignature", func(sl *slot) { sl.multi = []int{} })
	mu("K1+Z-in-K2's-position", func(sl *slot) { sl.mkeys = []chainx.Key{K[0], Z} })
	mu("K1-twice(K1-signs-K2's-position)", func(sl *slot) { sl.mkeys = []chainx.Key{K[0], K[0]} })
	mu("bits{K1,K2}-signed-by{K1,K3}", func(sl *slot) { sl.mkeys = []chainx.Key{K[0], K[2]} })
	mu("subsignatures-in-reverse-order", func(sl *slot) { sl.mrev = true })
	mu("subsignature-bit-flip", func(sl *slot) { sl.mflip = true })
	mu("bitarray-size-4", func(sl *slot) { sl.msize = 4 })
	mu("bitarray-size-2", func(sl *slot) { sl.msize = 2 })
	mu("pubkey-field=1-of-3-same-keys", func(sl *slot) {
		sl.pub = multisig.NewPubKeyMultisigThreshold(1, []crypto.PubKey{K[0].Pub, K[1].Pub, K[2].Pub})
		sl.multi = []int{0}
	})
	mu("pubkey-field=2-of-3-with-Z-swapped-in", func(sl *slot) {
		sl.pub = multisig.NewPubKeyMultisigThreshold(2, []crypto.PubKey{K[0].Pub, Z.Pub, K[2].Pub})
		sl.mkeys = []chainx.Key{K[0], Z}
	})
	mu("plain-signature-by-K1-instead-of-multisignature", func(sl *slot) { sl.multi = nil; sl.key = &K[0] })
	return ms
}

// bumpMsgs returns a copy of msgs with the first msg's amount increased by d and/or its recipient replaced.
func bumpMsgs(msgs []std.Msg, d int64, to crypto.Address) []std.Msg {
	out := append([]std.Msg{}, msgs...)
	switch m := out[0].(type) {
	case bank.MsgSend:
		m.Amount = coins(m.Amount.AmountOf("ugnot") + d)
		if !to.IsZero() {
			m.ToAddress = to
		}
		out[0] = m
	case vm.MsgCall:
		m.Send = coins(m.Send.AmountOf("ugnot") + d)
		if !to.IsZero() {
			m.Args = []string{to.String()} // (a call has no recipient: its arguments are changed instead)
		}
		out[0] = m
	case bank.MsgMultiSend:
		ins := append([]bank.Input{}, m.Inputs...)
		outs := append([]bank.Output{}, m.Outputs...)
		ins[0].Coins = coins(ins[0].Coins.AmountOf("ugnot") + d)
		outs[0].Coins = coins(outs[0].Coins.AmountOf("ugnot") + d)
		if !to.IsZero() {
			outs[0].Address = to
		}
		out[0] = bank.MsgMultiSend{Inputs: ins, Outputs: outs}
	}
	return out
}

type baseDef struct {
	name string
	mk   func() *recipe
}

var bases = []baseDef{
	{"1signer", func() *recipe { return newRecipe(send(A.Addr, C.Addr, 100)) }},
	{"1signer-2msgs", func() *recipe { return newRecipe(send(A.Addr, C.Addr, 100), send(A.Addr, B.Addr, 50)) }},
	{"2signers-3msgs(A,B,A)", func() *recipe {
		return newRecipe(send(A.Addr, C.Addr, 100), send(B.Addr, C.Addr, 50), send(A.Addr, B.Addr, 25))
	}},
	{"2signers-2msgs", func() *recipe { return newRecipe(send(A.Addr, C.Addr, 100), send(B.Addr, C.Addr, 50)) }},
	{"multisig-2of3", func() *recipe { return newRecipe(send(MAddr, C.Addr, 100)) }},
	{"multisig+plain", func() *recipe { return newRecipe(send(MAddr, C.Addr, 100), send(B.Addr, C.Addr, 50)) }},
	// session signers: the session key signs (own account number, own sequence) for its master; real handlers run after
	{"session-1signer", func() *recipe { return via(newRecipe(send(A.Addr, C.Addr, 100)), 0) }},
	{"session(vm-call)+plain", func() *recipe { return via(newRecipe(call(A.Addr, 100), send(B.Addr, C.Addr, 50)), 0) }},
	{"plain+session", func() *recipe { return via(newRecipe(send(B.Addr, C.Addr, 50), send(A.Addr, C.Addr, 100)), 1) }},
}

// warm brings a fresh chain into state S1 (pubkeys stored; seq A=2, B=1, M=1; session seqs A/SA=3, B/SB=1).
func warm(h *hist) bool {
	for i, rc := range []*recipe{newRecipe(send(A.Addr, C.Addr, 1)), newRecipe(send(A.Addr, C.Addr, 1), send(B.Addr, C.Addr, 1)), newRecipe(send(MAddr, C.Addr, 1)),
		via(newRecipe(send(A.Addr, C.Addr, 1)), 0), via(newRecipe(send(A.Addr, C.Addr, 1)), 0), via(newRecipe(send(A.Addr, C.Addr, 1)), 0), via(newRecipe(call(B.Addr, 1)), 0)} {
		changed := h.deliver(rc.build(h.m), fmt.Sprintf("warm-up-%d", i))
		if h.dirty {
			return false // a violation was reported by the warm-up tx itself
		}
		if !changed {
			r.HarnessError("warm-up tx %d not accepted", i)
		}
	}
	h.nextBlock()
	return !h.dirty
}

// part 1 is a flat list of (base, mutation, signer slot) cases per account state, cut into contiguous chunks; each
// chunk runs on ONE chain. S0 (fresh genesis: no pubkey stored, all sequences 0): every case runs inside a snapshot,
// so each one meets the pristine state. S1 (warmed): the chain simply carries on — every tx is signed against the
// model's current numbers/sequences, which thereby keep changing from case to case.
type p1case struct {
	base baseDef
	mu   mutation
	slot int
}

type p1task struct {
	state string
	cases []p1case
}

func p1cases(cat []mutation) []p1case {
	var out []p1case
	for _, b := range bases {
		for _, mu := range cat {
			nslots := 1
			if mu.perSlot {
				nslots = len(b.mk().slots)
			}
			for i := 0; i < nslots; i++ {
				out = append(out, p1case{b, mu, i})
			}
		}
	}
	return out
}

func (t p1task) run() {
	var h *hist
	fresh := func() bool {
		h = newHist()
		return t.state != "S1" || warm(h)
	}
	if !fresh() {
		return
	}
	one := func(tx std.Tx, label string) bool {
		if t.state == "S0" {
			pop := h.push()
			h.deliver(tx, label)
			pop()
			return true
		}
		h.deliver(tx, label)
		return !h.dirty || fresh() // after a violation the chain is not used any further
	}
	var seenBases []baseDef
	for _, cs := range t.cases {
		if len(seenBases) == 0 || seenBases[len(seenBases)-1].name != cs.base.name {
			seenBases = append(seenBases, cs.base)
		}
		rc := cs.base.mk()
		if !cs.mu.apply(rc, cs.slot, h.m) {
			continue
		}
		label := fmt.Sprintf("%s/%s/%s", cs.base.name, t.state, cs.mu.name)
		if cs.mu.perSlot {
			label += fmt.Sprintf("@signer%d", cs.slot)
		}
		r.Distinct(label)
		if !one(rc.build(h.m), label) {
			return
		}
	}
	// after all the rejected forgeries the honest txs must still go through, with exactly the model's effects
	for _, b := range seenBases {
		if !one(b.mk().build(h.m), fmt.Sprintf("%s/%s/honest-after-forgeries", b.name, t.state)) {
			return
		}
	}
	h.finish(fmt.Sprintf("part1/%s/chunk-starting-at:%s/%s", t.state, t.cases[0].base.name, t.cases[0].mu.name))
}

// ---- part 2/3: histories over pre-signed txs ------------------------------------------------------------------

type opDef struct {
	name  string
	kind  string // "tx" | "check" | "block" | "restart"
	mk    func() *recipe
	txIdx int // for "check": the tx op it checks
}

func seqs(rc *recipe, ss ...int64) *recipe {
	for i, s := range ss {
		rc.slots[i].seqAbs = s
	}
	return rc
}

func alphabet() []opDef {
	ops := []opDef{
		{name: "A:x@seq0", kind: "tx", mk: func() *recipe { return seqs(newRecipe(send(A.Addr, C.Addr, 100)), 0) }},
		{name: "A:y@seq0", kind: "tx", mk: func() *recipe { return seqs(newRecipe(send(A.Addr, Z.Addr, 200)), 0) }},
		{name: "A:x@seq1", kind: "tx", mk: func() *recipe { return seqs(newRecipe(send(A.Addr, C.Addr, 100)), 1) }},
		{name: "A:x@seq2", kind: "tx", mk: func() *recipe { return seqs(newRecipe(send(A.Addr, C.Addr, 100)), 2) }},
		{name: "B:x@seq0", kind: "tx", mk: func() *recipe { return seqs(newRecipe(send(B.Addr, C.Addr, 100)), 0) }},
		{name: "AB@seq0,0", kind: "tx", mk: func() *recipe { return seqs(newRecipe(send(A.Addr, C.Addr, 50), send(B.Addr, C.Addr, 50)), 0, 0) }},
		{name: "AB@seq1,0", kind: "tx", mk: func() *recipe { return seqs(newRecipe(send(A.Addr, C.Addr, 50), send(B.Addr, C.Addr, 50)), 1, 0) }},
		{name: "AB@seq0,1", kind: "tx", mk: func() *recipe { return seqs(newRecipe(send(A.Addr, C.Addr, 50), send(B.Addr, C.Addr, 50)), 0, 1) }},
		{name: "M{K1,K2}@seq0", kind: "tx", mk: func() *recipe { return seqs(newRecipe(send(MAddr, C.Addr, 100)), 0) }},
		{name: "M{K2,K3}@seq0", kind: "tx", mk: func() *recipe {
			rc := seqs(newRecipe(send(MAddr, C.Addr, 100)), 0)
			rc.slots[0].multi = []int{1, 2}
			return rc
		}},
		{name: "A:msg-fails@seq0", kind: "tx", mk: func() *recipe { return seqs(newRecipe(send(A.Addr, C.Addr, 900_000_000_000_000)), 0) }},
		// session-signed (the sequence is the SESSION's): the messages move coins of the master through the real bank / vm
		// handlers after the ante, which write accounts (and the session record) back
		{name: "A/SA:x@s0", kind: "tx", mk: func() *recipe { return seqs(via(newRecipe(send(A.Addr, C.Addr, 100)), 0), 0) }},
		{name: "A/SA:x@s1", kind: "tx", mk: func() *recipe { return seqs(via(newRecipe(send(A.Addr, C.Addr, 100)), 0), 1) }},
		{name: "A/SA:vm-call@s0", kind: "tx", mk: func() *recipe { return seqs(via(newRecipe(call(A.Addr, 300)), 0), 0) }},
		{name: "B+A/SA@seq0,s0", kind: "tx", mk: func() *recipe { return seqs(via(newRecipe(send(B.Addr, C.Addr, 50), send(A.Addr, C.Addr, 50)), 1), 0, 0) }},
		{name: "A/SA:msg-fails@s0", kind: "tx", mk: func() *recipe { return seqs(via(newRecipe(send(A.Addr, C.Addr, fund+fund/2)), 0), 0) }},
		{name: "next-block", kind: "block"},
	}
	if r.Thorough() {
		ops = append(ops,
			opDef{name: "A:vm-call@seq1", kind: "tx", mk: func() *recipe { return seqs(newRecipe(call(A.Addr, 300)), 1) }},
			opDef{name: "A/SA+B/SB@s0,s0", kind: "tx", mk: func() *recipe { return seqs(via(newRecipe(send(A.Addr, C.Addr, 50), send(B.Addr, C.Addr, 50)), 0, 1), 0, 0) }},
			opDef{name: "A/SA+B@s1,seq0", kind: "tx", mk: func() *recipe { return seqs(via(newRecipe(call(A.Addr, 50), send(B.Addr, C.Addr, 50)), 0), 1, 0) }},
			opDef{name: "A:y@seq1", kind: "tx", mk: func() *recipe { return seqs(newRecipe(send(A.Addr, Z.Addr, 200)), 1) }},
			opDef{name: "B:x@seq1", kind: "tx", mk: func() *recipe { return seqs(newRecipe(send(B.Addr, C.Addr, 100)), 1) }},
			opDef{name: "AB@seq1,1", kind: "tx", mk: func() *recipe { return seqs(newRecipe(send(A.Addr, C.Addr, 50), send(B.Addr, C.Addr, 50)), 1, 1) }},
			opDef{name: "M{K1,K3}@seq1", kind: "tx", mk: func() *recipe {
				rc := seqs(newRecipe(send(MAddr, C.Addr, 100)), 1)
				rc.slots[0].multi = []int{0, 2}
				return rc
			}},
		)
	}
	return ops
}

// checkAlphabet: CheckTx / DeliverTx mixes over a smaller tx set.
func checkAlphabet() []opDef {
	txs := alphabet()
	names := []string{"A:x@seq0", "A:x@seq1", "AB@seq0,0", "A/SA:x@s0"}
	if r.Thorough() {
		names = []string{"A:x@seq0", "A:y@seq0", "A:x@seq1", "AB@seq0,0", "AB@seq1,0", "A/SA:x@s0", "A/SA:x@s1", "B+A/SA@seq0,s0"}
	}
	var ops []opDef
	var pick []int
	for _, n := range names {
		for i, t := range txs {
			if t.name == n {
				pick = append(pick, i)
				ops = append(ops, txs[i])
			}
		}
	}
	if len(pick) != len(names) {
		panic("checkAlphabet: unknown tx name")
	}
	for j := range pick {
		ops = append(ops, opDef{name: "check(" + ops[j].name + ")", kind: "check", txIdx: j})
	}
	ops = append(ops, opDef{name: "next-block", kind: "block"})
	return ops
}

// pre-signed txs must be byte-identical wherever they appear: account numbers are those of genesis.
type signedAlphabet struct {
	ops []opDef
	txs []std.Tx
}

func presign(ops []opDef, genesis *model) signedAlphabet {
	sa := signedAlphabet{ops: ops, txs: make([]std.Tx, len(ops))}
	for i, op := range ops {
		if op.kind == "tx" {
			sa.txs[i] = op.mk().build(genesis)
		}
	}
	for i, op := range ops {
		if op.kind == "check" {
			sa.txs[i] = sa.txs[op.txIdx]
		}
	}
	return sa
}

// modelStep applies op to the models (no chain); returns whether the state changes.
func modelStep(sa signedAlphabet, m, cm *model, i int) (nm_, ncm *model, changed bool) {
	nm_, ncm = m.clone(), cm.clone()
	switch sa.ops[i].kind {
	case "tx":
		v := oracle(nm_, sa.txs[i], false)
		return nm_, ncm, v.anteOK
	case "check":
		v := oracle(ncm, sa.txs[i], true)
		return nm_, ncm, v.anteOK
	default:
		return nm_, nm_.clone(), true
	}
}

func (h *hist) apply(sa signedAlphabet, i int, label string) bool {
	switch sa.ops[i].kind {
	case "tx":
		return h.deliver(sa.txs[i], label)
	case "check":
		return h.check(sa.txs[i], label)
	case "block":
		h.nextBlock()
		return true
	case "restart":
		h.restart()
		return true
	}
	panic("bad op")
}

// A history task owns one chain: it replays path for real (the path is empty or ends with a block boundary / restart,
// the steps that cannot be rolled back), then explores depth-first from there with snapshots: at every visited state
// EVERY alphabet entry is executed (inside a snapshot), the state-changing txs are descended into; a state-changing
// block boundary becomes a new task (its own chain).
type histTask struct {
	sa    signedAlphabet
	path  []int
	part  string
	depth int  // visit states reached by < depth state-changing steps
	tryOnly bool // restart histories: no descent, only try every tx at the reached state
}

func pathName(sa signedAlphabet, part string, path []int, extra int) string {
	var s []string
	for _, i := range path {
		s = append(s, sa.ops[i].name)
	}
	if extra >= 0 {
		s = append(s, sa.ops[extra].name)
	}
	return part + ":[" + strings.Join(s, " ; ") + "]"
}

func (t histTask) pathName(extra int) string { return pathName(t.sa, t.part, t.path, extra) }

func (t histTask) replay() *hist {
	h := newHist()
	for k, i := range t.path {
		if !h.apply(t.sa, i, pathName(t.sa, t.part, t.path[:k], i)) || h.dirty {
			return nil // a violation was reported on the way
		}
	}
	return h
}

// leafExec: at the deepest visited states also execute the state-changing txs.
var leafExec bool

func (t histTask) run(spawn func(histTask)) {
	h := t.replay()
	if h == nil {
		return
	}
	if t.tryOnly {
		r.Distinct(t.pathName(-1))
		for i, op := range t.sa.ops {
			if op.kind == "tx" {
				pop := h.push()
				h.apply(t.sa, i, t.pathName(i))
				pop()
			}
		}
	} else {
		t.visit(h, t.path, spawn)
	}
	h.finish(t.pathName(-1))
}

func (t histTask) visit(h *hist, path []int, spawn func(histTask)) {
	r.Distinct(pathName(t.sa, t.part, path, -1))
	leaf := len(path) >= t.depth-1
	var changing []int
	for i := range t.sa.ops {
		if _, _, ch := modelStep(t.sa, h.m, h.cm, i); ch {
			changing = append(changing, i)
			continue
		}
		// the model says: rejected, nothing changes
		r.Distinct(pathName(t.sa, t.part, path, i))
		pop := h.push()
		h.apply(t.sa, i, pathName(t.sa, t.part, path, i))
		pop()
	}
	for _, i := range changing {
		block := t.sa.ops[i].kind == "block"
		if block && len(path) > 0 && t.sa.ops[path[len(path)-1]].kind == "block" {
			continue // two block boundaries in a row add nothing
		}
		if leaf && !leafExec {
			continue
		}
		next := append(append([]int{}, path...), i)
		if block {
			if !leaf { // (at a leaf the boundary would only be replayed: every non-leaf boundary already is)
				spawn(histTask{sa: t.sa, path: next, part: t.part, depth: t.depth})
			}
			continue
		}
		if len(path) == 0 {
			// fan out: each first step gets its own chain (parallelism); its replay executes and checks the step
			spawn(histTask{sa: t.sa, path: next, part: t.part, depth: t.depth})
			continue
		}
		if leaf {
			r.Distinct(pathName(t.sa, t.part, path, i))
		}
		pop := h.push()
		if h.apply(t.sa, i, pathName(t.sa, t.part, path, i)) && !h.dirty && !leaf {
			t.visit(h, next, spawn)
		}
		pop()
	}
}

// restart histories: replay protection must survive a cold re-open of the app on the same DB.
func restartHistories(sa signedAlphabet) [][]int {
	idx := func(name string) int {
		for i, op := range sa.ops {
			if op.name == name {
				return i
			}
		}
		panic(name)
	}
	R := len(sa.ops) - 1 // restart op appended by caller
	hs := [][]int{
		{idx("AB@seq0,0"), R},
		{idx("M{K1,K2}@seq0"), idx("next-block"), R},
		{idx("A/SA:x@s0"), R}, // a session-signed spend, then a cold re-open: every pre-signed tx (incl. the same bytes) is tried
	}
	if r.Thorough() {
		hs = append(hs, []int{idx("A:x@seq0"), R}, []int{idx("A:msg-fails@seq0"), idx("next-block"), R}, []int{idx("A:x@seq0"), idx("A:x@seq1"), R}, []int{R, idx("A:x@seq0")}, []int{idx("B:x@seq0"), R, idx("AB@seq0,1")},
			[]int{idx("A:x@seq0"), R, idx("A:x@seq1"), R})
	}
	return hs
}

func main() {
	debug.SetGCPercent(400)
	r = vk.New("model_checking")
	r.SetBudget(150*time.Second, 25*time.Minute)

	if p := os.Getenv("VERIF_C15_FULLPROFILE"); p != "" {
		f, _ := os.Create(p)
		pprof.StartCPUProfile(f)
		defer pprof.StopCPUProfile()
	}
	tStart := time.Now()
	g := newHist() // first chain: loads the stdlibs once (cached for all later chains)
	genesis := g.m.clone()
	{
		bk, mk := g.c.Base.VerifStoreKeys()
		genesisFull[0] = readKVs(g.c.Base.VerifDeliverMultiStore().GetStore(bk), nil, nil)
		genesisFull[1] = readKVs(g.c.Base.VerifDeliverMultiStore().GetStore(mk), nil, nil)
	}

	var (
		mu      sync.Mutex
		pending []func(spawn func(histTask))
		nHist   int
	)
	addHist := func(t histTask) {
		mu.Lock()
		nHist++
		pending = append(pending, t.run)
		mu.Unlock()
	}
	// part 1
	cat := catalogue()
	cases := p1cases(cat)
	const p1chunks = 14
	chunk := (len(cases) + p1chunks - 1) / p1chunks
	nP1 := 0
	for _, st := range []string{"S0", "S1"} {
		for lo := 0; lo < len(cases); lo += chunk {
			t := p1task{state: st, cases: cases[lo:min(lo+chunk, len(cases))]}
			nP1++
			pending = append(pending, func(func(histTask)) { t.run() })
		}
	}
	// part 2: every state reachable by < depth state-changing steps is visited and ALL alphabet entries are executed there
	// (quick: depth 3, i.e. histories of <= 3 executed steps; thorough: depth 4)
	depth := 3
	leafExec = true
	if r.Thorough() {
		depth = 4
	}
	sa := presign(alphabet(), genesis)
	addHist(histTask{sa: sa, part: "deliver", depth: depth})
	// part 3
	csa := presign(checkAlphabet(), genesis)
	addHist(histTask{sa: csa, part: "check+deliver", depth: depth})
	// restart histories (each: path, then every tx of the alphabet is tried at the resulting state)
	rsa := signedAlphabet{ops: append(append([]opDef{}, sa.ops...), opDef{name: "restart", kind: "restart"}), txs: append(append([]std.Tx{}, sa.txs...), std.Tx{})}
	nRestart := 0
	for _, p := range restartHistories(rsa) {
		nRestart++
		addHist(histTask{sa: rsa, path: p, part: "restart", tryOnly: true})
	}
	tFirst := time.Since(tStart)
	// rounds: tasks spawned by a round (histories continuing after a block boundary, each on its own chain) form the next
	rounds, nTasks := 0, 0
	for len(pending) > 0 && !r.Capped() {
		cur := pending
		pending = nil
		var spawned []histTask
		r.ParFor(len(cur), func(i int) {
			cur[i](func(t histTask) { mu.Lock(); spawned = append(spawned, t); mu.Unlock() })
		})
		nTasks += len(cur)
		rounds++
		sort.Slice(spawned, func(i, j int) bool { return spawned[i].part+fmt.Sprint(spawned[i].path) < spawned[j].part+fmt.Sprint(spawned[j].path) })
		for _, t := range spawned {
			addHist(t)
		}
	}
	pprof.StopCPUProfile()
	fmt.Printf("first chain %.1fs, %d tasks in %d rounds %.1fs\n", tFirst.Seconds(), nTasks, rounds, time.Since(tStart).Seconds()-tFirst.Seconds())

	r.Sample(map[string]any{"part": 1, "case": "2signers-2msgs/S1/doc-seq+1@signer1", "meaning": "B signs over its sequence+1 while A's signature is valid: fee deduction and A's sequence increment made before B's check must be discarded"})
	r.Sample(map[string]any{"part": 1, "case": "1signer/S0/signed-by-Z,pubkey-field=Z(squat)", "meaning": "first use of account A: an attacker supplies its own pubkey + valid signature; must be rejected and A's pubkey slot stay empty"})
	r.Sample(map[string]any{"part": 1, "case": "session-1signer/S1/session-key-signs-over-master-accnum/seq@signer0", "meaning": "the session key must sign the SESSION record's number/sequence, the master's do not count"})
	r.Sample(map[string]any{"part": 2, "case": "deliver:[A:x@seq0 ; next-block ; A:x@seq0]", "meaning": "byte-identical replay in the next block"})
	r.Sample(map[string]any{"part": 2, "case": "deliver:[A/SA:x@s0 ; next-block ; A/SA:x@s0]", "meaning": "byte-identical replay of a session-signed spend after its messages ran through the real bank handler (which writes the session record back)"})
	r.Sample(map[string]any{"part": 3, "case": "check+deliver:[check(A:x@seq0) ; A:x@seq0 ; check(A:x@seq0)]", "meaning": "CheckTx state is separate from DeliverTx state; after the block the mempool re-check must reject"})
	r.Assumptions = []string{
		"signature primitive: the repo's PubKey.VerifyBytes for single keys (ECDSA itself is not re-implemented); multisignature rules (bit array size, >=K marked, one valid sub-signature per marked key) are re-implemented by the oracle",
		"multisignatures carrying MORE sub-signatures than marked bits are not enumerated (whether such an encoding is 'a valid signature' is not decided by the property)",
		"messages are bank sends in ugnot (MsgMultiSend is not amino-registered, so it cannot travel in a tx) between existing accounts and vm calls of a function that does nothing with ugnot attached, so that the model predicts the post-state exactly",
		"sessions: two sessions created at genesis (no expiry, allow-paths {*}, lifetime spend limit above every balance); expiry, revocation, allow-lists and spend periods are C16's subject",
		"states are snapshotted/rolled back by stacking a cache layer on the app's deliver and check states (hooks: VerifPushDeliver/VerifPushCheck); block boundaries and restarts are real and run on their own chains",
		"in-memory caches are observed through later txs on the same chain (each chain carries many cases) — not inspected directly",
	}
	r.Finish(fmt.Sprintf("part1: %d bases x {S0,S1} x %d-entry mutation catalogue (per signer slot); part2: every model-reachable history of <%d state-changing steps over %d pre-signed txs + next-block, with every alphabet entry executed at every visited state; part3: same over %d CheckTx/DeliverTx ops; %d restart histories; distinct = distinct (case|history) labels",
		len(bases), len(cat), depth, len(sa.ops)-1, len(csa.ops), nRestart),
		true, map[string]any{"states": nStates.Load(), "transitions": nTrans.Load(), "traces_validated_against_impl": nTrans.Load(), "chains_built": nChains.Load(), "full_store_reads": nFull.Load(), "store_keys_base_main": []int{len(genesisFull[0]), len(genesisFull[1])},
			"depth": depth, "deepest_accepted_steps_executed": leafExec, "history_tasks": nHist, "part1_tasks": nP1, "part1_cases": 2 * len(cases), "mutation_catalogue": len(cat)})
}
