// C43: MConnection delivers every channel's messages exactly once, intact and in order, for every chunking of
// the underlying byte stream; malformed packets close the connection instead of delivering partial messages.
//
// INPUTS are enumerated exhaustively (bounded); SCHEDULES are not (MConnection talks to its goroutines over raw
// channels and timers). Where a run is free-running it ends on a LOGICAL condition (onError observed after the
// peer's FlushStop / after the pre-loaded stream's EOF); an internal deadline never produces a verdict: it
// marks the run inconclusive and the check reports exhaustive:false with exit 0.
//
// Parts:
//
//	A  sender core, synchronous and deterministic (overlay hook hooks/c43): every sequence over
//	   {Send(ch,size)} u {one sendPacketMsg step} up to a depth, then drain+flush; the recorded wire bytes are
//	   decoded by a reference decoder; oracle: per channel the packets reassemble to exactly the accepted
//	   messages (once, in order, intact), every packet within the size limit. The streams of the shorter
//	   sequences are then fed to a REAL receiving MConnection.
//	B  receiver: every sequence (bounded) over a packet alphabet (3 channels x EOF{0,1} x payload sizes, ping,
//	   pong, malformed items) encoded by the harness, pre-loaded into the deterministic pipe, delivered under
//	   each transport chunk pattern to a REAL started MConnection; oracle: the onReceive sequence equals a
//	   boring reference receiver (per-channel buffer, capacity rule, stop at first malformed item) and the
//	   connection is closed (onError once, conn.Close called).
//	D  the same with the stream cut at EVERY byte offset (truncation / "every split offset"): nothing partial.
//	C  live end-to-end: two REAL started MConnections over the pipe, every sequence of sends (bounded), chunk
//	   patterns, GOMAXPROCS 16 and 1; completion = sender FlushStop -> receiver onError(EOF).
package main

import (
	"bytes"
	"errors"
	"fmt"
	"io"
	"runtime"
	"strings"
	"sync"
	"sync/atomic"
	"time"

	"github.com/gnolang/gno/tm2/pkg/amino"
	"github.com/gnolang/gno/tm2/pkg/p2p/conn"
	"verif/engine/vk"
	"verif/harness/c42/dpipe"
)

var r *vk.Run

const (
	maxPayload  = 1024
	runDeadline = 30 * time.Second // inconclusive marker only, never a verdict
)

var cfg = func() conn.MConnConfig {
	c := conn.DefaultMConnConfig()
	c.SendRate, c.RecvRate = 0, 0 // unlimited: flow.Monitor would otherwise sleep on the wall clock
	return c
}()

func descs(recvCap, queueCap int) []*conn.ChannelDescriptor {
	return []*conn.ChannelDescriptor{
		{ID: 0x01, Priority: 1, SendQueueCapacity: queueCap, RecvMessageCapacity: recvCap},
		{ID: 0x02, Priority: 5, SendQueueCapacity: queueCap, RecvMessageCapacity: recvCap},
		{ID: 0x03, Priority: 1, SendQueueCapacity: queueCap, RecvMessageCapacity: recvCap},
	}
}

func content(tag, n int) []byte {
	b := make([]byte, n)
	for i := range b {
		b[i] = byte(tag*37 + i*7 + (i >> 8) + 1)
	}
	return b
}

// maxPacketMsgSize per the documented rule: size of a full-payload packet plus 10 bytes of slack.
var maxPkt = len(amino.MustMarshalAnySized(conn.PacketMsg{ChannelID: 0x01, EOF: 1, Bytes: make([]byte, maxPayload)})) + 10

var inconclusive atomic.Int64

// ---------------------------------------------------------------------------------------------------------
// reference model

type dmsg struct {
	ch   byte
	data []byte
}

type pkt struct {
	kind string // msg | ping | pong | bad
	ch   byte
	eof  byte
	data []byte
	bad  string
	raw  []byte
}

func (p pkt) String() string {
	switch p.kind {
	case "msg":
		return fmt.Sprintf("m%d.%d.%d", p.ch, p.eof, len(p.data))
	case "bad":
		return "bad:" + p.bad
	}
	return p.kind
}

func msgPkt(ch, eof byte, data []byte) pkt {
	return pkt{kind: "msg", ch: ch, eof: eof, data: data, raw: amino.MustMarshalAnySized(conn.PacketMsg{ChannelID: ch, EOF: eof, Bytes: data})}
}

// refReceive is the boring receiver: per-channel buffer, capacity rule, stop at the first malformed item.
func refReceive(ps []pkt, recvCap int) (out []dmsg, malformedAt int) {
	buf := map[byte][]byte{}
	for i, p := range ps {
		switch p.kind {
		case "ping", "pong":
		case "bad":
			return out, i
		case "msg":
			if p.ch < 1 || p.ch > 3 {
				return out, i
			}
			if len(p.raw) > maxPkt {
				return out, i
			}
			if len(buf[p.ch])+len(p.data) > recvCap {
				return out, i
			}
			buf[p.ch] = append(buf[p.ch], p.data...)
			if p.eof == 1 {
				out = append(out, dmsg{p.ch, append([]byte{}, buf[p.ch]...)})
				buf[p.ch] = nil
			}
		}
	}
	return out, -1
}

// decode turns recorded wire bytes into packets with the (trusted) amino codec.
func decode(s []byte) (ps []pkt, err error) {
	rd := bytes.NewReader(s)
	for rd.Len() > 0 {
		start := len(s) - rd.Len()
		var p conn.Packet
		if _, err := amino.UnmarshalSizedReader(rd, &p, 0); err != nil {
			return ps, fmt.Errorf("undecodable packet at offset %d: %v", start, err)
		}
		raw := s[start : len(s)-rd.Len()]
		switch v := p.(type) {
		case conn.PacketPing:
			ps = append(ps, pkt{kind: "ping", raw: raw})
		case conn.PacketPong:
			ps = append(ps, pkt{kind: "pong", raw: raw})
		case conn.PacketMsg:
			ps = append(ps, pkt{kind: "msg", ch: v.ChannelID, eof: v.EOF, data: v.Bytes, raw: raw})
		default:
			return ps, fmt.Errorf("non-packet at offset %d", start)
		}
	}
	return ps, nil
}

func sameMsgs(a, b []dmsg) bool {
	if len(a) != len(b) {
		return false
	}
	for i := range a {
		if a[i].ch != b[i].ch || !bytes.Equal(a[i].data, b[i].data) {
			return false
		}
	}
	return true
}

func descMsgs(m []dmsg) string {
	var sb strings.Builder
	for _, x := range m {
		fmt.Fprintf(&sb, "ch%d:%d ", x.ch, len(x.data))
	}
	return strings.TrimSpace(sb.String())
}

// ---------------------------------------------------------------------------------------------------------
// real receiver on a pre-loaded stream

type rxResult struct {
	got      []dmsg
	errs     []error
	closed   bool
	deadline bool
	late     int // onReceive calls after onError
}

func runReceiver(stream []byte, pat []int, cuts []int, recvCap int) rxResult {
	a, b, ab, _ := dpipe.New()
	_ = a
	if pat != nil {
		ab.SetReadPattern(pat)
	}
	if cuts != nil {
		ab.SetCuts(cuts)
	}
	ab.Inject(stream)
	ab.CloseWrite()
	var mu sync.Mutex
	var res rxResult
	errCh := make(chan struct{}, 8)
	mc := conn.NewMConnectionWithConfig(b, descs(recvCap, 1),
		func(ch byte, m []byte) {
			mu.Lock()
			if len(res.errs) > 0 {
				res.late++
			}
			res.got = append(res.got, dmsg{ch, append([]byte{}, m...)})
			mu.Unlock()
		},
		func(err error) {
			mu.Lock()
			res.errs = append(res.errs, err)
			mu.Unlock()
			errCh <- struct{}{}
		}, cfg)
	if err := mc.Start(); err != nil {
		r.HarnessError("MConnection.Start: %v", err)
	}
	t := time.NewTimer(runDeadline)
	select {
	case <-errCh:
	case <-t.C:
		res.deadline = true
	}
	t.Stop()
	mc.Stop()
	mu.Lock()
	defer mu.Unlock()
	res.closed = b.Closed()
	return rxResult{got: res.got, errs: res.errs, closed: res.closed, deadline: res.deadline, late: res.late}
}

func errKind(errs []error) string {
	if len(errs) == 0 {
		return "none"
	}
	e := errs[0]
	switch {
	case errors.Is(e, io.EOF):
		return "EOF"
	case errors.Is(e, io.ErrUnexpectedEOF):
		return "UnexpectedEOF"
	case strings.Contains(e.Error(), "unknown channel"):
		return "unknown-channel"
	case strings.Contains(e.Error(), "exceeds available capacity"):
		return "over-capacity"
	case strings.Contains(e.Error(), "read overflow"):
		return "oversize-packet"
	case strings.Contains(e.Error(), "recovered from panic"):
		return "PANIC-recovered"
	default:
		return "codec-error"
	}
}

// checkReceiver compares one real receiver run with the reference receiver.
func checkReceiver(part, key string, ps []pkt, stream []byte, pat, cuts []int, recvCap int, want []dmsg, malformedAt int) {
	res := runReceiver(stream, pat, cuts, recvCap)
	r.Eval()
	if res.deadline {
		inconclusive.Add(1)
		r.MarkCapped()
		r.Outcome(part + ":inconclusive(deadline)")
		return
	}
	k := part + "/" + key
	switch {
	case !sameMsgs(res.got, want):
		cls := "delivery-differs-from-reference"
		if len(res.got) > len(want) && sameMsgs(res.got[:len(want)], want) {
			cls = "delivered-after-malformed-or-partial"
		}
		r.Violation(k+" :"+cls, map[string]any{"stream": fmt.Sprint(ps), "pattern": pat, "cuts": cuts, "got": descMsgs(res.got), "want": descMsgs(want), "err": fmt.Sprint(res.errs)})
	case len(res.errs) != 1:
		r.Violation(k+" :onError-count", map[string]any{"stream": fmt.Sprint(ps), "errs": fmt.Sprint(res.errs)})
	case !res.closed:
		r.Violation(k+" :connection-not-closed", map[string]any{"stream": fmt.Sprint(ps), "errs": fmt.Sprint(res.errs)})
	case res.late > 0:
		r.Violation(k+" :delivery-after-close", map[string]any{"stream": fmt.Sprint(ps)})
	default:
		cl := part + ":ok end-of-stream->" + errKind(res.errs)
		if malformedAt >= 0 {
			cl = part + ":ok malformed(" + ps[malformedAt].String() + ")->closed:" + errKind(res.errs)
			if ps[malformedAt].kind == "msg" && ps[malformedAt].ch >= 1 && ps[malformedAt].ch <= 3 && len(ps[malformedAt].raw) <= maxPkt {
				cl = part + ":ok over-capacity->closed:" + errKind(res.errs)
			}
		}
		r.Outcome(cl)
	}
}

// ---------------------------------------------------------------------------------------------------------
// Part A: sender core

type op struct {
	step bool
	ch   byte
	size int
}

func (o op) String() string {
	if o.step {
		return "step"
	}
	return fmt.Sprintf("S%d:%d", o.ch, o.size)
}

// Stable key of a genuine defect class found on the unchanged tree: Send/TrySend accept a zero-length message
// (return true) but Channel.isSendPending treats the dequeued empty slice as "nothing pending": if another
// channel is picked in the same sendPacketMsg round the empty message is never put on the wire, and the
// channel's sendQueueSize counter is never decremented (CanSend stays false).
const emptyLostKey = "sender-core:accepted-empty-message-never-transmitted"

// runSenderCore drives the real sender code synchronously; returns the wire bytes and what was accepted.
func runSenderCore(ops []op, queueCap int) (wire []byte, accepted map[byte][][]byte, stuck bool, canSendAfter map[byte]bool) {
	a, _, ab, _ := dpipe.New()
	mc := conn.NewMConnectionWithConfig(a, descs(1<<20, queueCap), nil, nil, cfg)
	mc.VerifSyncInit()
	defer mc.VerifCleanup()
	accepted = map[byte][][]byte{}
	for i, o := range ops {
		if o.step {
			mc.VerifSendPacketMsg()
			continue
		}
		m := content(i+1, o.size)
		if mc.VerifEnqueue(o.ch, m) {
			accepted[o.ch] = append(accepted[o.ch], m)
		}
	}
	n := 0
	for !mc.VerifSendPacketMsg() {
		if n++; n > 10000 {
			stuck = true
			break
		}
	}
	mc.VerifFlush()
	canSendAfter = map[byte]bool{}
	for _, ch := range []byte{1, 2, 3} {
		canSendAfter[ch] = mc.VerifCanSend(ch)
	}
	return ab.Recorded(), accepted, stuck, canSendAfter
}

// senderOracle: the packets of each channel reassemble to exactly the accepted messages.
// returns "" | "empty-lost" | description
func senderOracle(wire []byte, accepted map[byte][][]byte) (verdict string, ps []pkt) {
	ps, err := decode(wire)
	if err != nil {
		return err.Error(), ps
	}
	got := map[byte][][]byte{}
	cur := map[byte][]byte{}
	open := map[byte]bool{}
	for _, p := range ps {
		if p.kind != "msg" {
			return "unexpected " + p.kind + " packet", ps
		}
		if len(p.data) > maxPayload || len(p.raw) > maxPkt {
			return fmt.Sprintf("packet payload %d exceeds the limit", len(p.data)), ps
		}
		if p.eof != 0 && p.eof != 1 {
			return fmt.Sprintf("EOF byte %d", p.eof), ps
		}
		cur[p.ch] = append(cur[p.ch], p.data...)
		open[p.ch] = true
		if p.eof == 1 {
			got[p.ch] = append(got[p.ch], append([]byte{}, cur[p.ch]...))
			cur[p.ch] = nil
			open[p.ch] = false
		}
	}
	for ch, o := range open {
		if o {
			return fmt.Sprintf("channel %d: last message never terminated (no EOF packet)", ch), ps
		}
	}
	onlyEmptyMissing := true
	exact := true
	for _, ch := range []byte{1, 2, 3} {
		g, w := got[ch], accepted[ch]
		if len(g) != len(w) {
			exact = false
		} else {
			for i := range g {
				if !bytes.Equal(g[i], w[i]) {
					exact = false
				}
			}
		}
		// drop empties from the expectation only; if then equal, only empty messages are missing
		gi := 0
		for _, m := range w {
			if gi < len(g) && bytes.Equal(g[gi], m) {
				gi++
			} else if len(m) != 0 {
				onlyEmptyMissing = false
			}
		}
		if gi != len(g) {
			onlyEmptyMissing = false
		}
	}
	for ch := range got {
		if ch < 1 || ch > 3 {
			return fmt.Sprintf("packet on channel %d", ch), ps
		}
	}
	switch {
	case exact:
		return "", ps
	case onlyEmptyMissing:
		return "empty-lost", ps
	default:
		return "per-channel reassembly differs from the accepted messages", ps
	}
}

func descAccepted(acc map[byte][][]byte) string {
	var sb strings.Builder
	for _, ch := range []byte{1, 2, 3} {
		fmt.Fprintf(&sb, "ch%d:[", ch)
		for _, m := range acc[ch] {
			fmt.Fprintf(&sb, "%d ", len(m))
		}
		sb.WriteString("] ")
	}
	return sb.String()
}

func partA() {
	sizes := []int{0, 1, 1024, 1025, 2049}
	var alpha []op
	alpha = append(alpha, op{step: true})
	for _, ch := range []byte{1, 2, 3} {
		for _, s := range sizes {
			alpha = append(alpha, op{ch: ch, size: s})
		}
	}
	depth := 4
	qcaps := []int{1}
	if r.Thorough() {
		depth = 5
		qcaps = []int{1, 2}
	}
	type lost struct {
		d, idx, qc int
		detail     map[string]any
	}
	var lostMu sync.Mutex
	var best *lost // smallest (depth, index, queue cap): the same example on every run
	nLost := int64(0)
	total := 0
	for d := 1; d <= depth; d++ {
		n := 1
		for i := 0; i < d; i++ {
			n *= len(alpha)
		}
		total += n
		d := d
		r.ParFor(n, func(idx int) {
			ops := make([]op, d)
			x := idx
			for i := d - 1; i >= 0; i-- {
				ops[i] = alpha[x%len(alpha)]
				x /= len(alpha)
			}
			for _, qc := range qcaps {
				if qc > 1 && d == 5 {
					continue // send-queue capacity 2 up to depth 4; depth 5 with the default capacity 1
				}
				wire, acc, stuck, canSend := runSenderCore(ops, qc)
				r.Eval()
				key := fmt.Sprintf("A/q%d %v", qc, ops)
				if stuck {
					r.Violation(key+" :sender-never-drains", nil)
					continue
				}
				verdict, ps := senderOracle(wire, acc)
				nacc := len(acc[1]) + len(acc[2]) + len(acc[3])
				switch verdict {
				case "":
					stale := false
					for _, ch := range []byte{1, 2, 3} {
						if !canSend[ch] {
							stale = true
						}
					}
					if stale {
						r.Violation(key+" :CanSend-false-on-idle-drained-connection", map[string]any{"ops": fmt.Sprint(ops)})
					} else if nacc > 0 {
						r.Outcome(fmt.Sprintf("A:all %d accepted messages on the wire, intact, in order", nacc))
					} else {
						r.Outcome("A:nothing accepted")
					}
				case "empty-lost":
					lostMu.Lock()
					nLost++
					if best == nil || d < best.d || (d == best.d && (idx < best.idx || (idx == best.idx && qc < best.qc))) {
						best = &lost{d, idx, qc, map[string]any{"minimal_ops": fmt.Sprint(ops), "queue_cap": qc, "accepted": descAccepted(acc), "wire_packets": fmt.Sprint(ps), "CanSend_after_drain": fmt.Sprint(canSend)}}
					}
					lostMu.Unlock()
					r.Outcome("A:empty message lost")
				default:
					r.Violation(key+" :"+verdict, map[string]any{"ops": fmt.Sprint(ops), "accepted": descAccepted(acc), "wire_packets": fmt.Sprint(ps)})
				}
				if nacc >= 2 {
					r.Distinct(key)
				}
				// feed the real sender's bytes to a real receiver (short sequences; whole and per-byte chunking)
				if d <= 3 && qc == 1 && verdict == "" && nacc > 0 {
					want, mal := refReceive(ps, 1<<20)
					checkReceiver("A>rx", fmt.Sprintf("%v|whole", ops), ps, wire, nil, nil, 1<<20, want, mal)
					checkReceiver("A>rx", fmt.Sprintf("%v|bytewise", ops), ps, wire, []int{1}, nil, 1<<20, want, mal)
				}
			}
		})
	}
	ex := ""
	if best != nil {
		best.detail["sequences_affected"] = nLost
		best.detail["where"] = "tm2/pkg/p2p/conn/connection.go Channel.isSendPending: `if len(ch.sending) == 0` cannot tell 'nothing dequeued' from 'dequeued an empty message'"
		lost, tries := liveEmptyRepro()
		best.detail["public_api_repro_GOMAXPROCS1"] = fmt.Sprintf("Send(0x01, empty)=true; Send(0x02, empty)=true; FlushStop: receiver got 1 of 2 messages in %d of %d runs (observation, free-running)", lost, tries)
		r.Violation(emptyLostKey, best.detail)
		ex = fmt.Sprint(best.detail["minimal_ops"])
	}
	r.Sample(map[string]any{"part": "A", "op_sequences": total, "alphabet": fmt.Sprint(alpha), "depth": depth, "queue_caps": qcaps, "minimal_empty_lost_sequence": ex})
}

// liveEmptyRepro shows the known defect through the public API (observation only, free-running): on one P the
// two Sends are queued before sendRoutine runs, so both empty messages are pending in the same round.
func liveEmptyRepro() (lost, tries int) {
	old := runtime.GOMAXPROCS(1)
	defer runtime.GOMAXPROCS(old)
	for tries = 0; tries < 20; tries++ {
		a, b, _, _ := dpipe.New()
		var n atomic.Int64
		errCh := make(chan struct{}, 8)
		rx := conn.NewMConnectionWithConfig(b, descs(1024, 1), func(byte, []byte) { n.Add(1) }, func(error) { errCh <- struct{}{} }, cfg)
		tx := conn.NewMConnectionWithConfig(a, descs(1024, 1), func(byte, []byte) {}, func(error) {}, cfg)
		rx.Start()
		tx.Start()
		ok1 := tx.Send(0x01, []byte{})
		ok2 := tx.Send(0x02, []byte{})
		tx.FlushStop()
		t := time.NewTimer(runDeadline)
		select {
		case <-errCh:
		case <-t.C:
		}
		t.Stop()
		rx.Stop()
		if ok1 && ok2 && n.Load() < 2 {
			lost++
		}
	}
	return
}

// ---------------------------------------------------------------------------------------------------------
// Part B / D: receiver on generated streams

func badItems() []pkt {
	any := func(typeURL string, val []byte) []byte {
		body := append([]byte{0x0a, byte(len(typeURL))}, typeURL...)
		if val != nil {
			body = append(append(body, 0x12, byte(len(val))), val...)
		}
		return append([]byte{byte(len(body))}, body...)
	}
	over := msgPkt(1, 1, content(99, maxPayload+64))
	return []pkt{
		{kind: "msg", ch: 4, eof: 1, data: []byte{7}, raw: amino.MustMarshalAnySized(conn.PacketMsg{ChannelID: 4, EOF: 1, Bytes: []byte{7}})},
		{kind: "bad", bad: "oversize-packet", raw: over.raw},
		{kind: "bad", bad: "non-packet-type", raw: any("/p2p.Nope", []byte{1, 2, 3})},
		{kind: "bad", bad: "garbage", raw: []byte{5, 0xff, 0xff, 0xff, 0xff, 0xff}},
		{kind: "bad", bad: "zero-length", raw: []byte{0}},
	}
}

func genAlphabet(lens []int) []func(tag int) pkt {
	var al []func(tag int) pkt
	for _, ch := range []byte{1, 2, 3} {
		for _, eof := range []byte{0, 1} {
			for _, n := range lens {
				ch, eof, n := ch, eof, n
				al = append(al, func(tag int) pkt { return msgPkt(ch, eof, content(tag, n)) })
			}
		}
	}
	al = append(al, func(int) pkt { return pkt{kind: "ping", raw: amino.MustMarshalAnySized(conn.PacketPing{})} })
	al = append(al, func(int) pkt { return pkt{kind: "pong", raw: amino.MustMarshalAnySized(conn.PacketPong{})} })
	for _, b := range badItems() {
		b := b
		al = append(al, func(int) pkt { return b })
	}
	return al
}

func streamOf(ps []pkt) []byte {
	var s []byte
	for _, p := range ps {
		s = append(s, p.raw...)
	}
	return s
}

var rxPatterns = [][]int{nil, {1}, {2, 3, 5}, {1023}, {1024}, {1025}}

func patName(p []int) string {
	if p == nil {
		return "whole"
	}
	return fmt.Sprint(p)
}

func partB() {
	const recvCap = 2048
	al := genAlphabet([]int{0, 1, 1024})
	depth := 3
	if r.Thorough() {
		depth = 4
	}
	total := 0
	for d := 1; d <= depth; d++ {
		n := 1
		for i := 0; i < d; i++ {
			n *= len(al)
		}
		total += n
		d := d
		r.ParFor(n, func(idx int) {
			ps := make([]pkt, d)
			x := idx
			for i := d - 1; i >= 0; i-- {
				ps[i] = al[x%len(al)](i + 1)
				x /= len(al)
			}
			want, mal := refReceive(ps, recvCap)
			st := streamOf(ps)
			pats := rxPatterns
			if d == 4 {
				pats = [][]int{nil, {1}, {1024}}
			}
			for _, pat := range pats {
				checkReceiver("B", fmt.Sprintf("%v|%s", ps, patName(pat)), ps, st, pat, nil, recvCap, want, mal)
			}
			if len(want) > 0 || mal >= 0 {
				r.Distinct("B|" + fmt.Sprint(ps))
			}
		})
	}
	// the exact size boundary of a packet: the largest encodable payload that still fits, and one more byte
	fit := maxPayload
	for len(msgPkt(1, 1, make([]byte, fit+1)).raw) <= maxPkt {
		fit++
	}
	for _, n := range []int{maxPayload, fit, fit + 1} {
		ps := []pkt{msgPkt(2, 1, content(1, 1)), msgPkt(1, 1, content(2, n)), msgPkt(3, 1, content(3, 1))}
		if n == fit+1 {
			ps[1] = pkt{kind: "bad", bad: fmt.Sprintf("payload-%d-over-packet-limit", n), raw: ps[1].raw}
		}
		want, mal := refReceive(ps, 1<<20)
		for _, pat := range rxPatterns {
			checkReceiver("B", fmt.Sprintf("size-boundary %v|%s", ps, patName(pat)), ps, streamOf(ps), pat, nil, 1<<20, want, mal)
		}
	}
	r.Sample(map[string]any{"part": "B", "packet_alphabet": len(al), "depth": depth, "streams": total, "chunk_patterns": len(rxPatterns), "max_packet_size": maxPkt, "largest_payload_that_fits": fit,
		"example_stream": fmt.Sprint([]pkt{al[2](1), al[5](2), al[20](3)})})
}

func partD() {
	const recvCap = 2048
	bases := [][]pkt{
		{msgPkt(1, 0, content(1, 1024)), msgPkt(2, 1, content(2, 1)), msgPkt(1, 1, content(3, 1024))},
		{msgPkt(3, 1, content(1, 1)), {kind: "ping", raw: amino.MustMarshalAnySized(conn.PacketPing{})}, msgPkt(2, 0, content(3, 1024)), msgPkt(2, 1, nil)},
	}
	if r.Thorough() {
		bases = append(bases,
			[]pkt{msgPkt(1, 1, content(1, 1024)), msgPkt(1, 1, content(2, 1024)), msgPkt(1, 1, content(3, 1024))},
			[]pkt{msgPkt(2, 0, content(1, 1023)), msgPkt(3, 0, content(2, 1)), msgPkt(2, 1, content(3, 1025-1023)), msgPkt(3, 1, content(4, 1024))})
	}
	for bi, base := range bases {
		st := streamOf(base)
		ends := []int{}
		off := 0
		for _, p := range base {
			off += len(p.raw)
			ends = append(ends, off)
		}
		base := base
		// (1) truncation at every offset: only the packets complete before the cut count
		r.ParFor(len(st)+1, func(cut int) {
			n := 0
			for n < len(ends) && ends[n] <= cut {
				n++
			}
			want, mal := refReceive(base[:n], recvCap)
			checkReceiver("D", fmt.Sprintf("base%d truncated@%d", bi, cut), base[:n], st[:cut], nil, nil, recvCap, want, mal)
			r.Distinct(fmt.Sprintf("D|%d|trunc|%d", bi, cut))
		})
		// (2) the whole stream, handed over in two segments split at every offset
		want, mal := refReceive(base, recvCap)
		r.ParFor(len(st)-1, func(i int) {
			cut := i + 1
			checkReceiver("D", fmt.Sprintf("base%d split@%d", bi, cut), base, st, nil, []int{cut}, recvCap, want, mal)
			r.Distinct(fmt.Sprintf("D|%d|split|%d", bi, cut))
		})
	}
	r.Sample(map[string]any{"part": "D", "base_streams": len(bases), "example": fmt.Sprint(bases[0]), "bytes": len(streamOf(bases[0]))})
}

// ---------------------------------------------------------------------------------------------------------
// Part C: live end-to-end, free-running

type sendOp struct {
	ch   byte
	size int
}

func runLive(key string, sends []sendOp, pat []int, recvCap int) {
	a, b, ab, _ := dpipe.New()
	if pat != nil {
		ab.SetReadPattern(pat)
	}
	var mu sync.Mutex
	var got []dmsg
	var errs []error
	errCh := make(chan struct{}, 8)
	rx := conn.NewMConnectionWithConfig(b, descs(recvCap, 1),
		func(ch byte, m []byte) { mu.Lock(); got = append(got, dmsg{ch, append([]byte{}, m...)}); mu.Unlock() },
		func(err error) { mu.Lock(); errs = append(errs, err); mu.Unlock(); errCh <- struct{}{} }, cfg)
	tx := conn.NewMConnectionWithConfig(a, descs(recvCap, 1), func(byte, []byte) {}, func(error) {}, cfg)
	rx.Start()
	tx.Start()
	sent := map[byte][][]byte{}
	sendFailed := false
	for i, s := range sends {
		m := content(i+1, s.size)
		if tx.Send(s.ch, m) {
			sent[s.ch] = append(sent[s.ch], m)
		} else {
			sendFailed = true // 10 s queue timeout inside Send: a wall-clock event, never a verdict
		}
	}
	tx.FlushStop()
	t := time.NewTimer(runDeadline)
	deadline := false
	select {
	case <-errCh:
	case <-t.C:
		deadline = true
	}
	t.Stop()
	rx.Stop()
	r.Eval()
	if deadline || sendFailed {
		inconclusive.Add(1)
		r.MarkCapped()
		r.Outcome("C:inconclusive(deadline or Send timeout)")
		return
	}
	mu.Lock()
	defer mu.Unlock()
	wire := ab.Recorded()
	verdict, ps := senderOracle(wire, sent)
	if verdict == "empty-lost" {
		r.Violation(emptyLostKey, map[string]any{"live": true, "sends": fmt.Sprint(sends)})
		return
	}
	if verdict != "" {
		r.Violation("C/"+key+" :sender "+verdict, map[string]any{"sends": fmt.Sprint(sends), "wire_packets": fmt.Sprint(ps)})
		return
	}
	want, mal := refReceive(ps, recvCap)
	over := false
	for _, s := range sends {
		if s.size > recvCap {
			over = true
		}
	}
	if !over {
		// nothing exceeds the receive capacity: every sent message must come out, per channel in send order
		perCh := map[byte][][]byte{}
		for _, m := range got {
			perCh[m.ch] = append(perCh[m.ch], m.data)
		}
		for _, ch := range []byte{1, 2, 3} {
			ok := len(perCh[ch]) == len(sent[ch])
			for i := 0; ok && i < len(sent[ch]); i++ {
				ok = bytes.Equal(perCh[ch][i], sent[ch][i])
			}
			if !ok {
				r.Violation("C/"+key+" :channel-delivery-differs", map[string]any{"sends": fmt.Sprint(sends), "channel": ch, "got": descMsgs(got), "pattern": pat})
				return
			}
		}
	}
	switch {
	case !sameMsgs(got, want):
		r.Violation("C/"+key+" :delivery-differs-from-reference", map[string]any{"sends": fmt.Sprint(sends), "got": descMsgs(got), "want": descMsgs(want), "wire_packets": fmt.Sprint(ps)})
	case len(errs) != 1 || !b.Closed():
		r.Violation("C/"+key+" :not-closed-once", map[string]any{"errs": fmt.Sprint(errs)})
	case mal >= 0:
		r.Outcome("C:ok over-capacity message->closed:" + errKind(errs))
	default:
		r.Outcome("C:ok all delivered, then peer closed->" + errKind(errs))
	}
}

func partC() {
	const recvCap = 3073
	sizes := []int{1, 1023, 1024, 1025, 2048, 3073, 3074}
	var alpha []sendOp
	for _, ch := range []byte{1, 2, 3} {
		for _, s := range sizes {
			alpha = append(alpha, sendOp{ch, s})
		}
	}
	pats := [][]int{nil, {1}, {1024}, {7, 1, 300}}
	depth := 2
	if r.Thorough() {
		depth = 3
	}
	total := 0
	for d := 1; d <= depth; d++ {
		n := 1
		for i := 0; i < d; i++ {
			n *= len(alpha)
		}
		total += n
		d := d
		r.ParFor(n, func(idx int) {
			sends := make([]sendOp, d)
			x := idx
			for i := d - 1; i >= 0; i-- {
				sends[i] = alpha[x%len(alpha)]
				x /= len(alpha)
			}
			ps := pats
			if d == 3 {
				ps = [][]int{pats[idx%len(pats)]}
			}
			for _, pat := range ps {
				runLive(fmt.Sprintf("%v|%s", sends, patName(pat)), sends, pat, recvCap)
			}
			r.Distinct("C|" + fmt.Sprint(sends))
		})
	}
	// the same depth-<=2 space once more on a single P (different goroutine interleavings), sequentially
	old := runtime.GOMAXPROCS(1)
	n1 := 0
	for d := 1; d <= 2 && !r.Expired(); d++ {
		n := 1
		for i := 0; i < d; i++ {
			n *= len(alpha)
		}
		for idx := 0; idx < n && !r.Expired(); idx++ {
			sends := make([]sendOp, d)
			x := idx
			for i := d - 1; i >= 0; i-- {
				sends[i] = alpha[x%len(alpha)]
				x /= len(alpha)
			}
			runLive(fmt.Sprintf("P1 %v|whole", sends), sends, nil, recvCap)
			n1++
		}
	}
	runtime.GOMAXPROCS(old)
	r.Sample(map[string]any{"part": "C", "send_sequences": total, "alphabet": fmt.Sprint(alpha), "depth": depth, "chunk_patterns": len(pats), "runs_on_GOMAXPROCS_1": n1, "recv_capacity": recvCap})
}

func main() {
	r = vk.New("exploration")
	r.SetBudget(100*time.Second, 15*time.Minute)
	t0 := time.Now()
	// smallest parts first: if the budget cap hits, it cuts the tail of the largest enumeration only
	partD()
	fmt.Printf("part D done %.1fs evals=%d\n", time.Since(t0).Seconds(), r.Evals())
	partC()
	fmt.Printf("part C done %.1fs evals=%d\n", time.Since(t0).Seconds(), r.Evals())
	partB()
	fmt.Printf("part B done %.1fs evals=%d\n", time.Since(t0).Seconds(), r.Evals())
	partA()
	fmt.Printf("part A done %.1fs evals=%d\n", time.Since(t0).Seconds(), r.Evals())
	r.Assumptions = []string{
		"schedules are NOT enumerated: MConnection's goroutines use raw channels and timers. Decided exhaustively: the input quantifier (message sizes around packet boundaries, channel mix, packet interleavings, transport chunking, malformed items). Part A abstracts the sender's schedule into explicit 'one sendPacketMsg step' operations on the real sender code, driven synchronously through an overlay hook",
		"free-running runs (receiver goroutines everywhere, both sides in part C) end on a logical condition (onError after EOF / FlushStop); the 30 s internal deadline only marks a run inconclusive (count in coverage.inconclusive_runs) and sets exhaustive:false",
		"SendRate/RecvRate = 0 (unlimited) so that flow.Monitor never sleeps; ping/pong timers keep their 60 s/45 s defaults and never fire within a run; amino is trusted (it encodes the generated packets and decodes the recorded wire)",
		"no -race pass (vcheck builds without -race)",
	}
	r.Finish("A: all op sequences over {Send(ch in 1..3, size in {0,1,1024,1025,2049}), sendPacketMsg step} to depth 4 (5 thorough) on the real sender core; B: all packet sequences to depth 3 (4 thorough) over 25 items x 6 chunk patterns on a real receiver; D: truncation and 2-segment split at every byte offset; C: all send sequences to depth 2 (3 thorough) x 4 chunk patterns live, plus GOMAXPROCS=1; distinct = distinct op/packet/send sequences with >=1 delivery or a malformed item",
		true, map[string]any{"inconclusive_runs": inconclusive.Load(), "max_packet_size": maxPkt})
}
