// C48: bit arrays behave like boolean vectors.
//
// Explicit-state model checking (BFS with deduplication) of the REAL BitArray / CompactBitArray against a []bool
// reference model.  A state is a pair of registers (A,B), each nil or an array; operations are applied to the
// results of previous operations (so Not().Or(..), Sub after Not, Update across sizes ... arise).  The state key
// contains the raw Elems words INCLUDING padding bits, so garbage beyond Bits is never merged away.
// After every transition all observers (Size, GetIndex for every index, IsEmpty, IsFull, true-index enumeration,
// PickRandom membership, Bytes, MarshalJSON, ValidateBasic) are compared with the model.
package main

import (
	"bytes"
	"encoding/binary"
	"fmt"
	"sort"
	"strings"
	"sync"
	"sync/atomic"
	"time"

	"github.com/gnolang/gno/tm2/pkg/amino"
	"github.com/gnolang/gno/tm2/pkg/bitarray"
	cba "github.com/gnolang/gno/tm2/pkg/crypto/multisig/bitarray"
	"verif/engine/vk"
)

var r *vk.Run

var (
	bytesNil    atomic.Int64
	bytesNilMsg atomic.Value
)

// ---- register: model + raw implementation state ---------------------------------------------------------------

type reg struct {
	mnil    bool   // model: nil array
	m       string // model vector, one byte per bit ('0'/'1'); "" for nil or size 0
	inil    bool   // impl: nil pointer
	bits    int
	elems   string // raw little-endian words of Elems (8 bytes per word)
	dirtyBy string // first operation that left padding bits set on this register ("" = clean)
}

func (g reg) impl() *bitarray.BitArray {
	if g.inil {
		return nil
	}
	var el []uint64
	if len(g.elems) > 0 {
		el = make([]uint64, len(g.elems)/8)
		for i := range el {
			el[i] = binary.LittleEndian.Uint64([]byte(g.elems[i*8:]))
		}
	}
	return &bitarray.BitArray{Bits: g.bits, Elems: el}
}

func rawOf(b *bitarray.BitArray) (inil bool, bits int, elems string) {
	if b == nil {
		return true, 0, ""
	}
	buf := make([]byte, 8*len(b.Elems))
	for i, w := range b.Elems {
		binary.LittleEndian.PutUint64(buf[i*8:], w)
	}
	return false, b.Bits, string(buf)
}

func (g reg) withImpl(b *bitarray.BitArray, op string) reg {
	g.inil, g.bits, g.elems = rawOf(b)
	if g.dirtyBy == "" && g.paddingDirty() {
		g.dirtyBy = op
	}
	if !g.paddingDirty() {
		g.dirtyBy = ""
	}
	return g
}

// paddingDirty: some raw bit at position >= Bits is set, or the word count is off.
func (g reg) paddingDirty() bool {
	if g.inil {
		return false
	}
	if len(g.elems)/8 != (g.bits+63)/64 {
		return true
	}
	for i := g.bits; i < len(g.elems)*8; i++ {
		if g.elems[i/8]&(1<<uint(i%8)) != 0 {
			return true
		}
	}
	return false
}

func (g reg) key() string {
	if g.mnil && g.inil {
		return "N"
	}
	return fmt.Sprintf("%v/%s/%v/%d/%x/%s", g.mnil, g.m, g.inil, g.bits, g.elems, g.dirtyBy)
}

func (g reg) size() int { return len(g.m) }

func zeroReg(size int) reg { // size -1 = nil, 0 = non-nil empty
	if size < 0 {
		return reg{mnil: true, inil: true}
	}
	if size == 0 {
		return reg{}.withImpl(&bitarray.BitArray{}, "init")
	}
	g := reg{m: strings.Repeat("0", size)}
	return g.withImpl(bitarray.NewBitArray(size), "init")
}

func (g reg) show() string {
	if g.mnil {
		return "nil"
	}
	s := g.m
	if len(s) > 20 {
		s = fmt.Sprintf("%s..%s(ones=%d)", s[:6], s[len(s)-6:], strings.Count(s, "1"))
	}
	return fmt.Sprintf("[%d]%s", len(g.m), s)
}

// ---- model operations on []bool-like strings ------------------------------------------------------------------

func mNot(a string) string {
	b := []byte(a)
	for i := range b {
		b[i] ^= 1 // '0' <-> '1'
	}
	return string(b)
}

func bit(a string, i int) bool { return i < len(a) && a[i] == '1' }

func mk(n int, f func(i int) bool) string {
	b := make([]byte, n)
	for i := range b {
		if f(i) {
			b[i] = '1'
		} else {
			b[i] = '0'
		}
	}
	return string(b)
}

// ---- observers ----------------------------------------------------------------------------------------------

// observe compares every observer of the real array with the model; returns "" or a mismatch description.
func observe(g reg) (what, detail string) {
	b := g.impl()
	n := len(g.m)
	if got := b.Size(); got != n {
		return "Size", fmt.Sprintf("Size()=%d want %d", got, n)
	}
	ones := []int{}
	for i := 0; i <= n; i++ {
		if got := b.GetIndex(i); got != bit(g.m, i) {
			return "GetIndex", fmt.Sprintf("GetIndex(%d)=%v want %v", i, got, bit(g.m, i))
		}
		if bit(g.m, i) {
			ones = append(ones, i)
		}
	}
	if got := b.IsEmpty(); got != (len(ones) == 0) {
		return "IsEmpty", fmt.Sprintf("IsEmpty()=%v but the vector has %d true bits", got, len(ones))
	}
	if got := b.IsFull(); got != (len(ones) == n) {
		return "IsFull", fmt.Sprintf("IsFull()=%v but the vector has %d of %d bits true", got, len(ones), n)
	}
	ti := b.VerifTrueIndices()
	if len(ti) != len(ones) {
		return "TrueIndices", fmt.Sprintf("true indices %v want %v", ti, ones)
	}
	for i := range ti {
		if ti[i] != ones[i] {
			return "TrueIndices", fmt.Sprintf("true indices %v want %v", ti, ones)
		}
	}
	idx, ok := b.PickRandom()
	if ok != (len(ones) > 0) || (ok && !bit(g.m, idx)) {
		return "PickRandom", fmt.Sprintf("PickRandom()=(%d,%v) with %d true bits", idx, ok, len(ones))
	}
	// Bytes: little-endian bit order, (n+7)/8 bytes
	want := make([]byte, (n+7)/8)
	for _, i := range ones {
		want[i/8] |= 1 << uint(i%8)
	}
	var gotB []byte
	if rec := vk.Catch(func() { gotB = b.Bytes() }); rec != nil {
		if !g.inil {
			return "Bytes-panic", fmt.Sprint(rec)
		}
		// observer-only failure on the nil array: reported once per class, exploration continues (state is intact)
		bytesNil.Add(1)
		bytesNilMsg.Store(fmt.Sprintf("(*BitArray)(nil).Bytes() panics: %v", rec))
		gotB = want
	}
	if !bytes.Equal(gotB, want) {
		return "Bytes", fmt.Sprintf("Bytes()=%x want %x", gotB, want)
	}
	js, err := b.MarshalJSON()
	wantJS := "null"
	if !g.mnil {
		wantJS = `"` + strings.NewReplacer("0", "_", "1", "x").Replace(g.m) + `"`
	}
	if err != nil || string(js) != wantJS {
		return "MarshalJSON", fmt.Sprintf("MarshalJSON()=%s,%v want %s", js, err, wantJS)
	}
	if err := b.ValidateBasic(); err != nil {
		return "ValidateBasic", err.Error()
	}
	return "", ""
}

// ---- operations -----------------------------------------------------------------------------------------------

type st struct {
	a, b   reg
	parent *st
	op     string
	depth  int
}

func (s *st) key() string { return s.a.key() + "|" + s.b.key() }

func (s *st) trace() []string {
	var t []string
	for x := s; x != nil; x = x.parent {
		t = append(t, x.op)
	}
	for i, j := 0, len(t)-1; i < j; i, j = i+1, j-1 {
		t[i], t[j] = t[j], t[i]
	}
	return t
}

var binOps = []string{"Copy", "Not", "Or", "And", "Sub", "Update", "Swap", "JSON", "Amino"}

type viol struct {
	class  string
	detail string
}

// apply runs one operation on the real arrays and on the model. ok=false: operation not applicable (skipped).
func apply(s *st, op string, arg int, val bool) (ns *st, v *viol, ok bool) {
	A, B := s.a.impl(), s.b.impl()
	na, nb := s.a, s.b
	label := op
	var res *bitarray.BitArray
	var rec any
	switch op {
	case "Set":
		label = fmt.Sprintf("A.SetIndex(%d,%v)", arg, val)
		var got bool
		rec = vk.Catch(func() { got = A.SetIndex(arg, val) })
		res = A
		want := !s.a.mnil && arg < s.a.size()
		if rec == nil && got != want {
			return nil, &viol{"SetIndex-return", fmt.Sprintf("%s on %s returned %v want %v", label, s.a.show(), got, want)}, true
		}
		if want {
			na.m = mk(s.a.size(), func(i int) bool {
				if i == arg {
					return val
				}
				return bit(s.a.m, i)
			})
		}
	case "Copy":
		label = "A=A.Copy()"
		rec = vk.Catch(func() { res = A.Copy() })
		if rec == nil && res != nil && A != nil && len(res.Elems) > 0 && &res.Elems[0] == &A.Elems[0] {
			return nil, &viol{"Copy-aliases", "Copy shares Elems with the original"}, true
		}
	case "Not":
		label = "A=A.Not()"
		rec = vk.Catch(func() { res = A.Not() })
		na.m = mNot(s.a.m)
	case "Or":
		label = "A=A.Or(B)"
		rec = vk.Catch(func() { res = A.Or(B) })
		switch {
		case s.a.mnil && s.b.mnil:
		case s.a.mnil:
			na.mnil, na.m = false, s.b.m
		case s.b.mnil:
		default:
			na.m = mk(max(s.a.size(), s.b.size()), func(i int) bool { return bit(s.a.m, i) || bit(s.b.m, i) })
		}
	case "And":
		label = "A=A.And(B)"
		rec = vk.Catch(func() { res = A.And(B) })
		if s.a.mnil || s.b.mnil {
			na.mnil, na.m = true, ""
		} else {
			na.m = mk(min(s.a.size(), s.b.size()), func(i int) bool { return bit(s.a.m, i) && bit(s.b.m, i) })
		}
	case "Sub":
		label = "A=A.Sub(B)"
		rec = vk.Catch(func() { res = A.Sub(B) })
		if s.a.mnil || s.b.mnil {
			na.mnil, na.m = true, ""
		} else {
			na.m = mk(s.a.size(), func(i int) bool { return bit(s.a.m, i) && !bit(s.b.m, i) })
		}
	case "Update":
		label = "A.Update(B)"
		rec = vk.Catch(func() { A.Update(B) })
		res = A
		if !s.a.mnil && !s.b.mnil {
			// documented: "sets the bA's bits to be that of the other bit array, copying from the beginning".
			// Bits of A beyond B's size are not specified: the model adopts them from the implementation.
			_, _, raw := rawOf(A)
			na.m = mk(s.a.size(), func(i int) bool {
				if i < s.b.size() {
					return bit(s.b.m, i)
				}
				return i/8 < len(raw) && raw[i/8]&(1<<uint(i%8)) != 0
			})
		}
	case "Swap":
		label = "A,B=B,A"
		return &st{a: s.b, b: s.a, parent: s, op: label, depth: s.depth + 1}, nil, true
	case "JSON":
		label = "A=UnmarshalJSON(A.MarshalJSON())"
		rec = vk.Catch(func() {
			bz, err := A.MarshalJSON()
			if err != nil {
				panic(err)
			}
			res = &bitarray.BitArray{}
			if err := res.UnmarshalJSON(bz); err != nil {
				panic(fmt.Sprintf("UnmarshalJSON(%s): %v", bz, err))
			}
		})
		na.mnil = false // decoding always yields a non-nil (possibly empty) array
	case "Amino":
		if s.a.inil {
			return nil, nil, false // amino itself refuses nil pointers; not a bit-array operation
		}
		label = "A=amino.Unmarshal(amino.Marshal(A))"
		rec = vk.Catch(func() {
			bz, err := amino.Marshal(A)
			if err != nil {
				panic(err)
			}
			res = &bitarray.BitArray{}
			if err := amino.Unmarshal(bz, res); err != nil {
				panic(fmt.Sprintf("amino.Unmarshal(%x): %v", bz, err))
			}
		})
	}
	if rec != nil {
		return nil, &viol{op + "-panic", fmt.Sprintf("%s on A=%s B=%s panics: %v", label, s.a.show(), s.b.show(), rec)}, true
	}
	opName := op
	if op == "Set" {
		opName = "SetIndex"
	}
	na = na.withImpl(res, opName)
	if na.dirtyBy != "" {
		// garbage inherited from an already dirty operand is blamed on the operation that first produced it
		if s.a.dirtyBy != "" {
			na.dirtyBy = s.a.dirtyBy
		} else if s.b.dirtyBy != "" && (op == "Or" || op == "And" || op == "Sub" || op == "Update") {
			na.dirtyBy = s.b.dirtyBy
		}
	}
	// the argument register must not be modified by any operation
	if bn, bb, be := rawOf(B); bn != s.b.inil || bb != s.b.bits || be != s.b.elems {
		return nil, &viol{opName + "-argument-mutated", fmt.Sprintf("%s changed B=%s", label, s.b.show())}, true
	}
	ns = &st{a: na, b: nb, parent: s, op: label, depth: s.depth + 1}
	if what, detail := observe(na); what != "" {
		class := opName + "-" + what
		// root-cause attribution: garbage beyond Bits in the result or in one of the operands
		for _, g := range []reg{s.b, s.a, na} {
			if g.dirtyBy != "" {
				class = g.dirtyBy + "-padding"
				detail += fmt.Sprintf(" (raw Elems=%x carry bits beyond Bits=%d, first left there by %s)", g.elems, g.bits, g.dirtyBy)
				break
			}
		}
		return ns, &viol{class, detail}, true
	}
	return ns, nil, true
}

type opInst struct {
	op  string
	pos int // for Set: 0:index 0, 1:index 1, 2:size-1, 3:size
	val bool
}

// index alphabets: pos 0:0 1:1 2:size-1 3:size 4:size-2 5..: absolute word/byte boundary indices
func setIndex(size, pos int) int {
	switch pos {
	case 0:
		return 0
	case 1:
		return 1
	case 2:
		return size - 1
	case 3:
		return size
	case 4:
		return size - 2
	}
	return pos // absolute
}

var baPositions = []int{0, 1, 2, 3, 64}
var cbaPositions = []int{0, 1, 2, 3, 4, 7, 8}

// ---- violations (one per class, minimal trace) ----------------------------------------------------------------

type vrec struct {
	depth  int
	trace  string
	detail string
	n      int64
}

var (
	vmu   sync.Mutex
	vrecs = map[string]*vrec{}
)

func report(class string, depth int, trace []string, detail string) {
	t := strings.Join(trace, " ; ")
	vmu.Lock()
	x := vrecs[class]
	if x == nil {
		vrecs[class] = &vrec{depth, t, detail, 1}
	} else {
		x.n++
		if depth < x.depth || (depth == x.depth && t < x.trace) {
			x.depth, x.trace, x.detail = depth, t, detail
		}
	}
	vmu.Unlock()
}

// ---- BFS -------------------------------------------------------------------------------------------------------

func bfsBitArray(maxDepth int) (states, transitions int64, reached int, complete bool) {
	sizes := []int{-1, 0, 1, 2, 63, 64, 65, 127, 128, 129}
	visited := map[string]struct{}{}
	var frontier []*st
	for _, x := range sizes {
		for _, y := range sizes {
			s := &st{a: zeroReg(x), b: zeroReg(y), op: fmt.Sprintf("init A=%s B=%s", zeroReg(x).show(), zeroReg(y).show())}
			// the initial registers are observed too (nil / empty arrays)
			if what, detail := observe(s.a); what != "" {
				report("init-"+what, 0, s.trace(), detail)
			}
			visited[s.key()] = struct{}{}
			frontier = append(frontier, s)
		}
	}
	var ops []opInst
	for _, pos := range baPositions {
		ops = append(ops, opInst{"Set", pos, true}, opInst{"Set", pos, false})
	}
	for _, o := range binOps {
		ops = append(ops, opInst{op: o})
	}
	complete = true
	for d := 0; d < maxDepth && len(frontier) > 0; d++ {
		succ := make([][]*st, len(frontier))
		var tr int64
		var tmu sync.Mutex
		r.ParFor(len(frontier), func(i int) {
			s := frontier[i]
			var local int64
			seenIdx := map[int]bool{}
			for _, o := range ops {
				arg := 0
				if o.op == "Set" {
					arg = setIndex(s.a.size(), o.pos)
					if arg < 0 {
						continue // negative indices are outside the documented domain
					}
					k := arg*2 + map[bool]int{false: 0, true: 1}[o.val]
					if seenIdx[k] {
						continue
					}
					seenIdx[k] = true
				}
				ns, v, ok := apply(s, o.op, arg, o.val)
				if !ok {
					continue
				}
				local++
				if v != nil {
					tt := s.trace()
					if ns != nil {
						tt = ns.trace()
					} else {
						tt = append(tt, o.op)
					}
					report(v.class, s.depth+1, tt, v.detail)
					continue // do not explore beyond a state that already disagrees with the model
				}
				succ[i] = append(succ[i], ns)
			}
			tmu.Lock()
			tr += local
			tmu.Unlock()
		})
		if r.Capped() {
			complete = false
		}
		transitions += tr
		r.EvalN(tr)
		// deterministic merge in frontier order
		var next []*st
		for _, l := range succ {
			for _, ns := range l {
				k := ns.key()
				if _, ok := visited[k]; ok {
					continue
				}
				visited[k] = struct{}{}
				r.Distinct("ba:" + k)
				next = append(next, ns)
			}
		}
		sort.SliceStable(next, func(i, j int) bool { return next[i].key() < next[j].key() })
		frontier = next
		reached = d + 1
		if !complete {
			break
		}
	}
	if len(frontier) > 0 && complete {
		// the last frontier was discovered (and observed) but not expanded: depth-bounded
	}
	return int64(len(visited)), transitions, reached, complete
}

// ---- CompactBitArray ------------------------------------------------------------------------------------------

type creg struct {
	mnil  bool
	m     string
	inil  bool
	extra byte
	elems string
	enil  bool
}

func (g creg) impl() *cba.CompactBitArray {
	if g.inil {
		return nil
	}
	var el []byte
	if !g.enil {
		el = []byte(g.elems)
	}
	return &cba.CompactBitArray{ExtraBitsStored: g.extra, Elems: el}
}

func (g creg) with(b *cba.CompactBitArray) creg {
	if b == nil {
		g.inil, g.extra, g.elems, g.enil = true, 0, "", true
		return g
	}
	g.inil, g.extra, g.elems, g.enil = false, b.ExtraBitsStored, string(b.Elems), b.Elems == nil
	return g
}

func (g creg) key() string {
	return fmt.Sprintf("%v/%s/%v/%d/%x", g.mnil, g.m, g.inil, g.extra, g.elems)
}

func (g creg) show() string {
	if g.mnil {
		return "nil"
	}
	return fmt.Sprintf("[%d]%s", len(g.m), g.m)
}

type cst struct {
	a      creg
	parent *cst
	op     string
	depth  int
}

func (s *cst) trace() []string {
	var t []string
	for x := s; x != nil; x = x.parent {
		t = append(t, x.op)
	}
	for i, j := 0, len(t)-1; i < j; i, j = i+1, j-1 {
		t[i], t[j] = t[j], t[i]
	}
	return t
}

func cobserve(g creg) (string, string) {
	b := g.impl()
	n := len(g.m)
	if got := b.Size(); got != n {
		return "Size", fmt.Sprintf("Size()=%d want %d", got, n)
	}
	cnt := 0
	for i := 0; i <= n; i++ {
		if got := b.NumTrueBitsBefore(i); got != cnt {
			return "NumTrueBitsBefore", fmt.Sprintf("NumTrueBitsBefore(%d)=%d want %d", i, got, cnt)
		}
		if got := b.GetIndex(i); got != bit(g.m, i) {
			return "GetIndex", fmt.Sprintf("GetIndex(%d)=%v want %v", i, got, bit(g.m, i))
		}
		if bit(g.m, i) {
			cnt++
		}
	}
	js, err := b.MarshalJSON()
	wantJS := "null"
	if !g.mnil {
		wantJS = `"` + strings.NewReplacer("0", "_", "1", "x").Replace(g.m) + `"`
	}
	if err != nil || string(js) != wantJS {
		return "MarshalJSON", fmt.Sprintf("MarshalJSON()=%s,%v want %s", js, err, wantJS)
	}
	return "", ""
}

func capply(s *cst, o opInst) (*cst, *viol, bool) {
	A := s.a.impl()
	na := s.a
	var res *cba.CompactBitArray
	var rec any
	label := o.op
	switch o.op {
	case "Set":
		arg := setIndex(len(s.a.m), o.pos)
		if arg < 0 {
			return nil, nil, false
		}
		label = fmt.Sprintf("A.SetIndex(%d,%v)", arg, o.val)
		var got bool
		rec = vk.Catch(func() { got = A.SetIndex(arg, o.val) })
		res = A
		want := !s.a.mnil && arg < len(s.a.m)
		if rec == nil && got != want {
			return nil, &viol{"Compact.SetIndex-return", fmt.Sprintf("%s on %s returned %v", label, s.a.show(), got)}, true
		}
		if want {
			na.m = mk(len(s.a.m), func(i int) bool {
				if i == arg {
					return o.val
				}
				return bit(s.a.m, i)
			})
		}
	case "Copy":
		label = "A=A.Copy()"
		rec = vk.Catch(func() { res = A.Copy() })
	case "JSON":
		label = "A=UnmarshalJSON(A.MarshalJSON())"
		rec = vk.Catch(func() {
			bz, err := A.MarshalJSON()
			if err != nil {
				panic(err)
			}
			res = &cba.CompactBitArray{}
			if err := res.UnmarshalJSON(bz); err != nil {
				panic(fmt.Sprintf("UnmarshalJSON(%s): %v", bz, err))
			}
		})
		na.mnil = false
	case "Compact":
		label = "A=CompactUnmarshal(A.CompactMarshal())"
		rec = vk.Catch(func() {
			bz := A.CompactMarshal()
			var err error
			res, err = cba.CompactUnmarshal(bz)
			if err != nil {
				panic(fmt.Sprintf("CompactUnmarshal(%x): %v", bz, err))
			}
		})
		if len(s.a.m) == 0 {
			na.mnil = res == nil // size 0 decodes to nil (documented: NewCompactBitArray(0) is nil); same vector either way
		}
	case "Amino":
		if s.a.inil {
			return nil, nil, false
		}
		label = "A=amino.Unmarshal(amino.Marshal(A))"
		rec = vk.Catch(func() {
			bz, err := amino.Marshal(A)
			if err != nil {
				panic(err)
			}
			res = &cba.CompactBitArray{}
			if err := amino.Unmarshal(bz, res); err != nil {
				panic(fmt.Sprintf("amino.Unmarshal(%x): %v", bz, err))
			}
		})
	default:
		return nil, nil, false
	}
	if rec != nil {
		return nil, &viol{"Compact." + o.op + "-panic", fmt.Sprintf("%s on A=%s panics: %v", label, s.a.show(), rec)}, true
	}
	na = na.with(res)
	ns := &cst{a: na, parent: s, op: label, depth: s.depth + 1}
	if what, detail := cobserve(na); what != "" {
		return ns, &viol{"Compact." + o.op + "-" + what, detail}, true
	}
	return ns, nil, true
}

func bfsCompact(maxDepth int) (states, transitions int64) {
	sizes := []int{-1, 1, 2, 7, 8, 9, 15, 16, 17, 63, 64, 65}
	visited := map[string]struct{}{}
	var frontier []*cst
	for _, x := range sizes {
		g := creg{mnil: true, inil: true, enil: true}
		if x > 0 {
			g = creg{m: strings.Repeat("0", x)}.with(cba.NewCompactBitArray(x))
		}
		s := &cst{a: g, op: "init A=" + g.show()}
		visited[g.key()] = struct{}{}
		frontier = append(frontier, s)
	}
	var ops []opInst
	for _, pos := range cbaPositions {
		ops = append(ops, opInst{"Set", pos, true}, opInst{"Set", pos, false})
	}
	for _, o := range []string{"Copy", "JSON", "Compact", "Amino"} {
		ops = append(ops, opInst{op: o})
	}
	for d := 0; d < maxDepth && len(frontier) > 0 && !r.Expired(); d++ {
		var next []*cst
		for _, s := range frontier {
			for _, o := range ops {
				ns, v, ok := capply(s, o)
				if !ok {
					continue
				}
				transitions++
				if v != nil {
					tt := append(s.trace(), o.op)
					if ns != nil {
						tt = ns.trace()
					}
					report(v.class, s.depth+1, tt, v.detail)
					continue
				}
				k := ns.a.key()
				if _, ok := visited[k]; !ok {
					visited[k] = struct{}{}
					r.Distinct("cba:" + k)
					next = append(next, ns)
				}
			}
		}
		frontier = next
	}
	r.EvalN(transitions)
	return int64(len(visited)), transitions
}

// compactDecodeAll: CompactUnmarshal of every byte string up to maxLen: never panics; whatever it accepts
// re-encodes to something that decodes to the same vector.
func compactDecodeAll(maxLen int) (n int64) {
	var acc, rej int64
	var mu sync.Mutex
	for l := 0; l <= maxLen; l++ {
		total := 1 << (8 * l)
		chunks := 256
		if total < chunks {
			chunks = total
		}
		per := total / chunks
		r.ParFor(chunks, func(c int) {
			var a, rj int64
			buf := make([]byte, l)
			for x := c * per; x < (c+1)*per; x++ {
				for k := 0; k < l; k++ {
					buf[k] = byte(x >> (8 * k))
				}
				in := append([]byte(nil), buf...)
				var got *cba.CompactBitArray
				var err error
				rec := vk.Catch(func() { got, err = cba.CompactUnmarshal(in) })
				if rec != nil {
					report("CompactUnmarshal-panic", l, []string{fmt.Sprintf("CompactUnmarshal(%x)", buf)}, fmt.Sprint(rec))
					continue
				}
				if err != nil {
					rj++
					continue
				}
				a++
				// compare as vectors (size + every bit): nil and a non-nil empty array are the same vector
				var again *cba.CompactBitArray
				var v1, v2 string
				vec := func(b *cba.CompactBitArray) string {
					return fmt.Sprint(b.Size()) + ":" + mk(max(b.Size(), 0), func(i int) bool { return b.GetIndex(i) })
				}
				rec = vk.Catch(func() {
					v1 = vec(got)
					again, err = cba.CompactUnmarshal(got.CompactMarshal())
					v2 = vec(again)
				})
				if rec != nil || err != nil || v1 != v2 {
					report("CompactUnmarshal-accepted-but-not-stable", l, []string{fmt.Sprintf("CompactUnmarshal(%x)", buf)}, fmt.Sprintf("panic=%v err=%v %s vs %s", rec, err, v1, v2))
				}
			}
			mu.Lock()
			acc += a
			rej += rj
			mu.Unlock()
		})
		n += int64(total)
	}
	r.OutcomeN("compact_decode_accepted", acc)
	r.OutcomeN("compact_decode_rejected", rej)
	r.EvalN(n)
	return
}

// compactSizes: every size 0..300 plus sizes around the uvarint width boundaries of the length prefix (2^7, 2^14) and
// byte boundaries, each with the patterns {zeros, ones, alternating, single bit first/last/middle}: binary
// (CompactMarshal/CompactUnmarshal) and JSON round trips must return the same boolean vector, NumTrueBitsBefore
// must equal the model's prefix count.
func compactSizes(thorough bool) (n int64) {
	var sizes []int
	for i := 0; i <= 300; i++ {
		sizes = append(sizes, i)
	}
	for _, b := range []int{1023, 1024, 1025, 16383, 16384, 16385, 16391, 16392} {
		sizes = append(sizes, b)
	}
	if thorough {
		for i := 301; i <= 2100; i++ {
			sizes = append(sizes, i)
		}
	}
	for _, sz := range sizes {
		pats := map[string]func(i int) bool{
			"zeros": func(i int) bool { return false }, "ones": func(i int) bool { return true },
			"alt":   func(i int) bool { return i%2 == 0 }, "first": func(i int) bool { return i == 0 },
			"last":  func(i int) bool { return i == sz-1 }, "mid": func(i int) bool { return i == sz/2 },
		}
		for pn, pf := range pats {
			n++
			a := cba.NewCompactBitArray(sz)
			model := make([]bool, sz)
			for i := 0; i < sz; i++ {
				model[i] = pf(i)
				if model[i] {
					a.SetIndex(i, true)
				}
			}
			tr := []string{fmt.Sprintf("NewCompactBitArray(%d) pattern %s", sz, pn)}
			same := func(b *cba.CompactBitArray) bool {
				if b.Size() != sz {
					return false
				}
				for i := 0; i < sz; i++ {
					if b.GetIndex(i) != model[i] {
						return false
					}
				}
				return true
			}
			var back *cba.CompactBitArray
			var err error
			if rec := vk.Catch(func() { back, err = cba.CompactUnmarshal(a.CompactMarshal()) }); rec != nil || err != nil || !same(back) {
				report("Compact.binary-roundtrip", sz, append(tr, "CompactUnmarshal(CompactMarshal())"), fmt.Sprintf("panic=%v err=%v", rec, err))
			}
			var jb *cba.CompactBitArray = &cba.CompactBitArray{}
			if rec := vk.Catch(func() {
				var bz []byte
				bz, err = a.MarshalJSON()
				if err == nil {
					err = jb.UnmarshalJSON(bz)
				}
			}); rec != nil || err != nil || !same(jb) {
				report("Compact.JSON-roundtrip", sz, append(tr, "UnmarshalJSON(MarshalJSON())"), fmt.Sprintf("panic=%v err=%v", rec, err))
			}
			cnt := 0
			for i := 0; i <= sz; i++ {
				if i == 0 || i == sz || i == sz/2 {
					if got := a.NumTrueBitsBefore(i); got != cnt {
						report("Compact.NumTrueBitsBefore", sz, append(tr, fmt.Sprintf("NumTrueBitsBefore(%d)", i)), fmt.Sprintf("got %d want %d", got, cnt))
					}
				}
				if i < sz && model[i] {
					cnt++
				}
			}
		}
	}
	return
}

func main() {
	r = vk.New("model_checking")
	r.SetBudget(75*time.Second, 12*time.Minute)
	depth, cdepth, dlen := 6, 7, 2
	if r.Thorough() {
		depth, cdepth, dlen = 10, 10, 3
	}
	cs, ct := bfsCompact(cdepth)
	dn := compactDecodeAll(dlen)
	szn := compactSizes(r.Thorough())
	r.EvalN(szn)
	r.OutcomeN("compact_size_boundary_roundtrips", szn)
	states, trans, reached, complete := bfsBitArray(depth)

	if n := bytesNil.Load(); n > 0 {
		report("Bytes-nil-panic", 0, []string{"init A=nil", "A.Bytes()"}, bytesNilMsg.Load().(string))
		vrecs["Bytes-nil-panic"].n = 1
		r.OutcomeN("observations_of_nil_Bytes_panic", 1)
	}
	var names []string
	for c := range vrecs {
		names = append(names, c)
	}
	sort.Strings(names)
	for _, c := range names {
		x := vrecs[c]
		r.Violation(c, map[string]any{"class": c, "minimal_trace": x.trace, "depth": x.depth, "detail": x.detail, "transitions_in_class": x.n})
		r.OutcomeN("violating_transitions:"+c, x.n)
	}
	r.OutcomeN("bitarray_states", states)
	r.OutcomeN("compact_states", cs)
	r.Sample(map[string]any{"trace": []string{"init A=[65]0..0 B=[129]0..0", "A.SetIndex(64,true)", "A=A.Not()", "A=A.Or(B)", "A=A.Sub(B)"}, "note": "operations are applied to results of previous operations"})
	r.Sample(map[string]any{"registers": "A,B in {nil, empty, 1,2,63,64,65,127,128,129 bits}", "ops": "SetIndex(i in {0,1,size-1,size},b), Copy, Not, Or, And, Sub, Update, Swap, JSON round trip, amino round trip"})
	r.Assumptions = []string{
		"reference model: []bool vectors with the documented size rules (Or->max, And->min, Sub->receiver size, nil rules as documented); after Update(o) bits of the receiver at positions >= o.Size() are unspecified and adopted from the implementation",
		"negative indices are outside the documented domain of GetIndex/SetIndex and are not explored",
		"PickRandom is judged on membership only (its choice uses global randomness)",
		"a state that already disagrees with the model is reported and not expanded further",
		"exhaustive = every state reachable within the depth bound from the initial register pairs was visited; the state space is depth-bounded, not closed",
	}
	r.Finish(fmt.Sprintf("BFS over operation sequences on two registers of the real BitArray (10x10 initial pairs, 19 operations, depth %d reached %d) + BFS on CompactBitArray (12 initial arrays, 18 operations, depth %d) + CompactUnmarshal of every byte string of length <= %d; dedup on (model vectors, raw words incl. padding)", depth, reached, cdepth, dlen),
		complete, map[string]any{"states": states + cs, "transitions": trans + ct, "traces_validated_against_impl": trans + ct, "depth": reached,
			"bitarray_states": states, "bitarray_transitions": trans, "compact_states": cs, "compact_transitions": ct, "compact_decode_inputs": dn})
}
