// C22: cache / prefix / cachemulti store layers behave like an ordered-map overlay model.
//
// Explicit-state BFS over operation sequences applied to REAL store stacks (memdb-backed dbadapter, cache.Store,
// prefix.Store, cachemulti.Store) and, in lock step, to a boring reference model (ordered maps with tombstones and
// memoized reads).  A successor is "fresh instance + replay of the shortest path + one op".  States are merged only
// when the model state AND the implementation digest (cache map, unsortedCache/sortedCache partition, checkpoint;
// obtained through the overlay-added cache.VerifDigest) AND the open-iterator descriptor agree.
//
// Iterators are first-class: an iterator can be opened and stepped j times, then any non-contract-violating op
// (writes to any cache layer, Write of upper layers, scans that re-sort the dirty partition, checkpoints) happens,
// then the iterator is continued; it must keep yielding the state as of its creation.
package main

import (
	"bytes"
	"crypto/sha256"
	"encoding/json"
	"fmt"
	"os"
	"runtime/pprof"
	"sort"
	"strconv"
	"strings"
	"sync"
	"sync/atomic"
	"time"

	"github.com/gnolang/gno/tm2/pkg/db/memdb"
	"github.com/gnolang/gno/tm2/pkg/store/cache"
	"github.com/gnolang/gno/tm2/pkg/store/cachemulti"
	"github.com/gnolang/gno/tm2/pkg/store/dbadapter"
	"github.com/gnolang/gno/tm2/pkg/store/prefix"
	"github.com/gnolang/gno/tm2/pkg/store/types"

	"verif/engine/vk"
)

var r *vk.Run

var stopProfile = func() {}

// ---------------------------------------------------------------------------------------------
// configuration: a world is a forest of layers

type layerKind uint8

const (
	kBase layerKind = iota
	kCache
	kPrefix
)

type layerSpec struct {
	kind   layerKind
	parent int // -1 for base
	prefix []byte
	group  int // cachemulti group (0 = none)
	name   string
	wkeys  [][]byte // keys written / memo-read at this layer (enqueued alphabet)
	xkeys  [][]byte // extra read-only keys (observation only)
	bounds [][]byte // iterator bound menu (nil is always added)
	edoms  [][2]int // enqueued scan / stepped-iterator domains, indices into the bound menu (incl. nil at index 0)
	writes bool     // Set/Delete are part of the enqueued alphabet at this layer
	iter   bool     // stepped iterators are opened at this layer
}

type config struct {
	name     string
	layers   []layerSpec
	cms      bool
	prefills []map[int]map[string]string // first move: base index -> content
	extra    map[int][]pstep             // prefill index -> further steps through the store API (dirty cache entries)
	ops      []op
	depthQ   int
	depthT   int
	drainOp  int
	maxJ     int // stepped iterators are opened and immediately stepped 0..maxJ times
}

// pstep is one step of a prefill shape applied above the base: Set(key,val) or Delete(key) at a layer.
type pstep struct {
	layer int
	key   string
	val   string
	del   bool
}

type opKind uint8

const (
	oPrefill opKind = iota
	oGet
	oHas
	oSet      // fresh non-empty value
	oSetEmpty // empty (non-nil) value
	oSetNil   // nil value: must panic above the base
	oDel
	oWrite
	oCkpt
	oWCkpt
	oHasCkpt
	oScan
	oIterOpen
	oIterStep
	oIterDrain
	oIterClose
	oWrapDiscard
	oGWrite
	oGCkpt
	oGWCkpt
	oGHasCkpt
)

var kindName = map[opKind]string{oPrefill: "Prefill", oGet: "Get", oHas: "Has", oSet: "Set", oSetEmpty: "SetEmpty", oSetNil: "SetNilValue",
	oDel: "Delete", oWrite: "Write", oCkpt: "Checkpoint", oWCkpt: "WriteCheckpoint", oHasCkpt: "HasCheckpoint", oScan: "Scan",
	oIterOpen: "IterOpen", oIterStep: "IterStep", oIterDrain: "IterDrain", oIterClose: "IterClose", oWrapDiscard: "CacheWrapDiscard",
	oGWrite: "MultiWrite", oGCkpt: "MultiCheckpoint", oGWCkpt: "MultiWriteCheckpoint", oGHasCkpt: "MultiHasCheckpoint"}

type op struct {
	k     opKind
	layer int    // layer index, or group id for oG*, or prefill index
	key   []byte // nil = nil key
	s, e  []byte // iterator domain
	asc   bool
	j     int
	enq   bool // successor states are enqueued (otherwise observation only)
	read  bool // allowed in the final observation layer
}

func q(b []byte) string {
	if b == nil {
		return "nil"
	}
	return strconv.Quote(string(b))
}

func (c *config) opString(o op) string {
	ln := ""
	if o.k != oPrefill && o.k < oGWrite {
		ln = c.layers[o.layer].name
	}
	switch o.k {
	case oPrefill:
		x := ""
		for _, ps := range c.extra[o.layer] {
			if ps.del {
				x += fmt.Sprintf(" %s.Delete(%q)", c.layers[ps.layer].name, ps.key)
			} else {
				x += fmt.Sprintf(" %s.Set(%q,%q)", c.layers[ps.layer].name, ps.key, ps.val)
			}
		}
		return fmt.Sprintf("Prefill#%d%v%s", o.layer, renderPrefill(c.prefills[o.layer]), x)
	case oGet, oHas, oSet, oSetEmpty, oSetNil, oDel, oWrapDiscard:
		return fmt.Sprintf("%s.%s(%s)", ln, kindName[o.k], q(o.key))
	case oScan:
		return fmt.Sprintf("%s.Scan(%s,%s,asc=%v)", ln, q(o.s), q(o.e), o.asc)
	case oIterOpen:
		return fmt.Sprintf("%s.IterOpen(%s,%s,asc=%v,steps=%d)", ln, q(o.s), q(o.e), o.asc, o.j)
	case oIterStep, oIterDrain, oIterClose:
		return kindName[o.k]
	case oGWrite, oGCkpt, oGWCkpt, oGHasCkpt:
		return fmt.Sprintf("cms%d.%s", o.layer, kindName[o.k])
	}
	return fmt.Sprintf("%s.%s", ln, kindName[o.k])
}

func renderPrefill(p map[int]map[string]string) string {
	var bs []int
	for b := range p {
		bs = append(bs, b)
	}
	sort.Ints(bs)
	var sb strings.Builder
	sb.WriteString("{")
	for _, b := range bs {
		var ks []string
		for k := range p[b] {
			ks = append(ks, k)
		}
		sort.Strings(ks)
		fmt.Fprintf(&sb, "base%d:", b)
		for _, k := range ks {
			fmt.Fprintf(&sb, "%q=%q ", k, p[b][k])
		}
	}
	sb.WriteString("}")
	return sb.String()
}

// ---------------------------------------------------------------------------------------------
// model

type kv struct{ k, v []byte }

type ment struct {
	val     []byte
	deleted bool
	dirty   bool
}

type mLayer struct {
	m       map[string][]byte // base
	ents    map[string]ment   // cache
	ckpt    map[string]ment
	hasCkpt bool
}

type mIter struct {
	layer      int
	asc        bool
	s, e       []byte
	exp        []kv
	pos        int
	base       int
	botS, botE []byte
}

type mWorld struct {
	c    *config
	L    []mLayer
	it   *mIter
	allc [][]kv // memo of all(i); dropped on every mutation
}

func newModel(c *config) *mWorld {
	w := &mWorld{c: c, L: make([]mLayer, len(c.layers))}
	for i, ls := range c.layers {
		switch ls.kind {
		case kBase:
			w.L[i].m = map[string][]byte{}
		case kCache:
			w.L[i].ents = map[string]ment{}
		}
	}
	return w
}

func cat(a, b []byte) []byte {
	out := make([]byte, 0, len(a)+len(b))
	out = append(out, a...)
	return append(out, b...)
}

func nn(b []byte) []byte {
	if b == nil {
		return []byte{}
	}
	return b
}

// get with read memoization (what Store.Get is documented to do at a cache layer).
func (w *mWorld) get(i int, k []byte) []byte {
	ls := &w.c.layers[i]
	switch ls.kind {
	case kBase:
		return w.L[i].m[string(k)]
	case kPrefix:
		return w.get(ls.parent, cat(ls.prefix, k))
	default:
		if e, ok := w.L[i].ents[string(k)]; ok {
			return e.val
		}
		v := w.get(ls.parent, k)
		w.L[i].ents[string(k)] = ment{val: v}
		return v
	}
}

// peek: same as get, without memoizing (harness-internal, to pick fresh values).
func (w *mWorld) peek(i int, k []byte) []byte {
	ls := &w.c.layers[i]
	switch ls.kind {
	case kBase:
		return w.L[i].m[string(k)]
	case kPrefix:
		return w.peek(ls.parent, cat(ls.prefix, k))
	default:
		if e, ok := w.L[i].ents[string(k)]; ok {
			return e.val
		}
		return w.peek(ls.parent, k)
	}
}

func (w *mWorld) set(i int, k, v []byte) {
	w.allc = nil
	ls := &w.c.layers[i]
	switch ls.kind {
	case kBase:
		w.L[i].m[string(k)] = nn(v)
	case kPrefix:
		w.set(ls.parent, cat(ls.prefix, k), v)
	default:
		w.L[i].ents[string(k)] = ment{val: v, dirty: true}
	}
}

func (w *mWorld) del(i int, k []byte) {
	w.allc = nil
	ls := &w.c.layers[i]
	switch ls.kind {
	case kBase:
		delete(w.L[i].m, string(k))
	case kPrefix:
		w.del(ls.parent, cat(ls.prefix, k))
	default:
		w.L[i].ents[string(k)] = ment{deleted: true, dirty: true}
	}
}

// all: what iteration over the whole layer yields (ascending): parent view overlaid with this layer's net writes.
func (w *mWorld) all(i int) []kv {
	if w.allc == nil {
		w.allc = make([][]kv, len(w.L))
	}
	if w.allc[i] == nil {
		w.allc[i] = w.all0(i)
		if w.allc[i] == nil {
			w.allc[i] = []kv{}
		}
	}
	return w.allc[i]
}

func (w *mWorld) all0(i int) []kv {
	ls := &w.c.layers[i]
	switch ls.kind {
	case kBase:
		out := make([]kv, 0, len(w.L[i].m))
		for k, v := range w.L[i].m {
			out = append(out, kv{[]byte(k), v})
		}
		sort.Slice(out, func(a, b int) bool { return bytes.Compare(out[a].k, out[b].k) < 0 })
		return out
	case kPrefix:
		var out []kv
		for _, e := range w.all(ls.parent) {
			if bytes.HasPrefix(e.k, ls.prefix) {
				out = append(out, kv{e.k[len(ls.prefix):], e.v})
			}
		}
		return out
	default:
		mm := map[string][]byte{}
		for _, e := range w.all(ls.parent) {
			mm[string(e.k)] = e.v
		}
		for k, e := range w.L[i].ents {
			if !e.dirty {
				continue
			}
			if e.deleted {
				delete(mm, k)
			} else {
				mm[k] = e.val
			}
		}
		out := make([]kv, 0, len(mm))
		for k, v := range mm {
			out = append(out, kv{[]byte(k), v})
		}
		sort.Slice(out, func(a, b int) bool { return bytes.Compare(out[a].k, out[b].k) < 0 })
		return out
	}
}

func inDom(k, s, e []byte) bool {
	return bytes.Compare(k, s) >= 0 && (e == nil || bytes.Compare(k, e) < 0)
}

func (w *mWorld) iter(i int, s, e []byte, asc bool) []kv {
	var out []kv
	for _, x := range w.all(i) {
		if inDom(x.k, s, e) {
			out = append(out, x)
		}
	}
	if !asc {
		for a, b := 0, len(out)-1; a < b; a, b = a+1, b-1 {
			out[a], out[b] = out[b], out[a]
		}
	}
	return out
}

func (w *mWorld) write(i int) {
	w.allc = nil
	ls := &w.c.layers[i]
	var ks []string
	for k, e := range w.L[i].ents {
		if e.dirty {
			ks = append(ks, k)
		}
	}
	sort.Strings(ks)
	for _, k := range ks {
		e := w.L[i].ents[k]
		if e.deleted {
			w.del(ls.parent, []byte(k))
		} else {
			w.set(ls.parent, []byte(k), e.val)
		}
	}
	w.L[i].ents = map[string]ment{}
	w.L[i].ckpt = nil
	w.L[i].hasCkpt = false
}

func (w *mWorld) checkpoint(i int) {
	cp := make(map[string]ment, len(w.L[i].ents))
	for k, e := range w.L[i].ents {
		cp[k] = e
	}
	w.L[i].ckpt = cp
	w.L[i].hasCkpt = true
}

func (w *mWorld) writeCheckpoint(i int) {
	w.allc = nil
	w.L[i].ents = w.L[i].ckpt
	w.write(i)
}

func prefixEnd(p []byte) []byte {
	e := append([]byte{}, p...)
	for len(e) > 0 {
		if e[len(e)-1] != 0xff {
			e[len(e)-1]++
			return e
		}
		e = e[:len(e)-1]
	}
	return nil
}

// bottom: translate a key / domain of layer i into base key space.
func (w *mWorld) bottomKey(i int, k []byte) (int, []byte) {
	for w.c.layers[i].kind != kBase {
		if w.c.layers[i].kind == kPrefix {
			k = cat(w.c.layers[i].prefix, k)
		}
		i = w.c.layers[i].parent
	}
	return i, k
}

func (w *mWorld) bottomDom(i int, s, e []byte) (int, []byte, []byte) {
	for w.c.layers[i].kind != kBase {
		if w.c.layers[i].kind == kPrefix {
			p := w.c.layers[i].prefix
			s = cat(p, s)
			if e == nil {
				e = prefixEnd(p)
			} else {
				e = cat(p, e)
			}
		}
		i = w.c.layers[i].parent
	}
	return i, s, e
}

// reachesBase: true when a Write of cache layer i lands directly in the base DB.
func (w *mWorld) reachesBase(i int) bool {
	for p := w.c.layers[i].parent; p >= 0; p = w.c.layers[p].parent {
		if w.c.layers[p].kind == kCache {
			return false
		}
	}
	return true
}

// violatesIterContract: would a write of ents (layer i's dirty keys) / a base write hit the open iterator's base domain?
func (w *mWorld) baseWriteHitsIter(base int, k []byte) bool {
	it := w.it
	return it != nil && it.base == base && inDom(k, it.botS, it.botE)
}

func (w *mWorld) flushHitsIter(i int, ents map[string]ment) bool {
	if w.it == nil || !w.reachesBase(i) {
		return false
	}
	for k, e := range ents {
		if !e.dirty {
			continue
		}
		b, bk := w.bottomKey(w.c.layers[i].parent, []byte(k))
		if w.baseWriteHitsIter(b, bk) {
			return true
		}
	}
	return false
}

func rq(b []byte) string {
	if b == nil {
		return "~"
	}
	return strconv.Quote(string(b))
}

func (w *mWorld) key(sb *strings.Builder) {
	dump := func(m map[string]ment) {
		ks := make([]string, 0, len(m))
		for k := range m {
			ks = append(ks, k)
		}
		sort.Strings(ks)
		for _, k := range ks {
			e := m[k]
			sb.WriteString(strconv.Quote(k))
			sb.WriteByte('=')
			sb.WriteString(rq(e.val))
			if e.deleted {
				sb.WriteByte('D')
			}
			if e.dirty {
				sb.WriteByte('!')
			}
			sb.WriteByte(',')
		}
	}
	for i := range w.L {
		switch w.c.layers[i].kind {
		case kBase:
			sb.WriteString("B{")
			ks := make([]string, 0, len(w.L[i].m))
			for k := range w.L[i].m {
				ks = append(ks, k)
			}
			sort.Strings(ks)
			for _, k := range ks {
				sb.WriteString(strconv.Quote(k))
				sb.WriteByte('=')
				sb.WriteString(rq(w.L[i].m[k]))
				sb.WriteByte(',')
			}
			sb.WriteString("}")
		case kCache:
			sb.WriteString("C{")
			dump(w.L[i].ents)
			sb.WriteString("}")
			if w.L[i].hasCkpt {
				sb.WriteString("K{")
				dump(w.L[i].ckpt)
				sb.WriteString("}")
			}
		}
	}
	if it := w.it; it != nil {
		fmt.Fprintf(sb, "I{%d,%v,%s,%s,%d:", it.layer, it.asc, rq(it.s), rq(it.e), it.pos)
		for _, e := range it.exp[it.pos:] {
			sb.WriteString(rq(e.k))
			sb.WriteByte('=')
			sb.WriteString(rq(e.v))
			sb.WriteByte(',')
		}
		sb.WriteString("}")
	}
}

// ---------------------------------------------------------------------------------------------
// real world

type rWorld struct {
	c   *config
	S   []types.Store
	cms map[int]cachemulti.Store
	it  types.Iterator
}

func newReal(c *config) *rWorld {
	w := &rWorld{c: c, S: make([]types.Store, len(c.layers))}
	if c.cms {
		// layers: 0,1 bases; 2,3 = cms1 stores; 4,5 = cms2 (= cms1.MultiCacheWrap()) stores
		k0, k1 := types.NewStoreKey("s0"), types.NewStoreKey("s1")
		w.S[0] = dbadapter.Store{DB: memdb.NewMemDB()}
		w.S[1] = dbadapter.Store{DB: memdb.NewMemDB()}
		cms1 := cachemulti.New(map[types.StoreKey]types.Store{k0: w.S[0], k1: w.S[1]}, map[string]types.StoreKey{"s0": k0, "s1": k1})
		cms2 := cms1.MultiCacheWrap().(cachemulti.Store)
		w.S[2], w.S[3] = cms1.GetStore(k0), cms1.GetStore(k1)
		w.S[4], w.S[5] = cms2.GetStore(k0), cms2.GetStore(k1)
		w.cms = map[int]cachemulti.Store{1: cms1, 2: cms2}
		return w
	}
	for i, ls := range c.layers {
		switch ls.kind {
		case kBase:
			w.S[i] = dbadapter.Store{DB: memdb.NewMemDB()}
		case kCache:
			w.S[i] = w.S[ls.parent].CacheWrap()
		case kPrefix:
			w.S[i] = prefix.New(w.S[ls.parent], ls.prefix)
		}
	}
	return w
}

func (w *rWorld) digest(sb *strings.Builder) {
	for i, ls := range w.c.layers {
		if ls.kind == kCache {
			d, ok := cache.VerifDigest(w.S[i])
			if !ok {
				r.HarnessError("layer %d of %s is not a cache store", i, w.c.name)
			}
			sb.WriteString(d)
			sb.WriteByte('|')
		}
	}
}

// ---------------------------------------------------------------------------------------------
// lock-step application of one op; returns "" or a mismatch description

func eqv(a, b []byte) bool { return (a == nil) == (b == nil) && bytes.Equal(a, b) }

func kvsString(x []kv) string {
	var sb strings.Builder
	sb.WriteString("[")
	for _, e := range x {
		sb.WriteString(rq(e.k) + "=" + rq(e.v) + " ")
	}
	sb.WriteString("]")
	return sb.String()
}

func eqKVs(a, b []kv) bool {
	if len(a) != len(b) {
		return false
	}
	for i := range a {
		if !eqv(a[i].k, b[i].k) || !eqv(a[i].v, b[i].v) {
			return false
		}
	}
	return true
}

// drainReal consumes a real iterator completely (bounded), then checks the exhausted-iterator contract.
func drainReal(it types.Iterator, bound int) (got []kv, bad string) {
	rec := vk.Catch(func() {
		for n := 0; it.Valid(); n++ {
			if n > bound {
				bad = "iterator yields more items than the store can hold"
				return
			}
			got = append(got, kv{it.Key(), it.Value()})
			it.Next()
		}
	})
	if rec != nil {
		return got, fmt.Sprintf("panic while iterating: %v", rec)
	}
	if bad != "" {
		return got, bad
	}
	if it.Valid() {
		return got, "Valid() true after it returned false"
	}
	if vk.Catch(func() { it.Key() }) == nil {
		return got, "Key() on exhausted iterator did not panic"
	}
	if vk.Catch(func() { it.Next() }) == nil {
		return got, "Next() on exhausted iterator did not panic"
	}
	return got, ""
}

func freshVal(mw *mWorld, layer int, k []byte) []byte {
	a := []byte(fmt.Sprintf("%da", layer))
	if bytes.Equal(mw.peek(layer, nn(k)), a) {
		return []byte(fmt.Sprintf("%db", layer))
	}
	return a
}

func apply(rw *rWorld, mw *mWorld, o op) string {
	c := rw.c
	switch o.k {
	case oPrefill:
		for b, content := range c.prefills[o.layer] {
			for k, v := range content {
				rw.S[b].Set(nil, []byte(k), []byte(v))
				mw.set(b, []byte(k), []byte(v))
			}
		}
		for _, ps := range c.extra[o.layer] {
			if ps.del {
				rw.S[ps.layer].Delete(nil, []byte(ps.key))
				mw.del(ps.layer, []byte(ps.key))
			} else {
				rw.S[ps.layer].Set(nil, []byte(ps.key), []byte(ps.val))
				mw.set(ps.layer, []byte(ps.key), []byte(ps.val))
			}
		}
		return ""
	case oGWrite, oGCkpt, oGWCkpt, oGHasCkpt:
		return applyGroup(rw, mw, o)
	case oIterStep, oIterDrain, oIterClose:
		return applyIter(rw, mw, o)
	}
	ls := &c.layers[o.layer]
	st := rw.S[o.layer]
	above := ls.kind != kBase
	switch o.k {
	case oGet:
		var got []byte
		rec := vk.Catch(func() { got = st.Get(nil, o.key) })
		if o.key == nil && above {
			if rec == nil {
				return "Get(nil key) did not panic"
			}
			return ""
		}
		if rec != nil {
			return fmt.Sprintf("unexpected panic: %v", rec)
		}
		want := mw.get(o.layer, nn(o.key))
		if !eqv(got, want) {
			return fmt.Sprintf("Get=%s want %s", rq(got), rq(want))
		}
	case oHas:
		var got bool
		rec := vk.Catch(func() { got = st.Has(nil, o.key) })
		if o.key == nil && above {
			if rec == nil {
				return "Has(nil key) did not panic"
			}
			return ""
		}
		if rec != nil {
			return fmt.Sprintf("unexpected panic: %v", rec)
		}
		want := mw.get(o.layer, nn(o.key)) != nil
		if got != want {
			return fmt.Sprintf("Has=%v want %v", got, want)
		}
	case oSet, oSetEmpty, oSetNil:
		var val []byte
		switch o.k {
		case oSet:
			val = freshVal(mw, o.layer, o.key)
		case oSetEmpty:
			val = []byte{}
		}
		rec := vk.Catch(func() { st.Set(nil, o.key, val) })
		if above && (o.key == nil || val == nil) {
			if rec == nil {
				return "Set with nil key/value did not panic"
			}
			return ""
		}
		if rec != nil {
			return fmt.Sprintf("unexpected panic: %v", rec)
		}
		mw.set(o.layer, nn(o.key), val)
	case oDel:
		rec := vk.Catch(func() { st.Delete(nil, o.key) })
		if above && o.key == nil {
			if rec == nil {
				return "Delete(nil key) did not panic"
			}
			return ""
		}
		if rec != nil {
			return fmt.Sprintf("unexpected panic: %v", rec)
		}
		mw.del(o.layer, nn(o.key))
	case oWrite:
		rec := vk.Catch(func() { st.Write() })
		if ls.kind != kCache {
			if rec == nil {
				return "Write on a non-cache store did not panic"
			}
			return ""
		}
		if rec != nil {
			return fmt.Sprintf("unexpected panic: %v", rec)
		}
		mw.write(o.layer)
	case oCkpt:
		rec := vk.Catch(func() { st.(types.Checkpointable).Checkpoint() })
		if rec != nil {
			return fmt.Sprintf("unexpected panic: %v", rec)
		}
		mw.checkpoint(o.layer)
	case oWCkpt:
		rec := vk.Catch(func() { st.(types.Checkpointable).WriteCheckpoint() })
		if !mw.L[o.layer].hasCkpt {
			if rec == nil {
				return "WriteCheckpoint without Checkpoint did not panic"
			}
			return ""
		}
		if rec != nil {
			return fmt.Sprintf("unexpected panic: %v", rec)
		}
		mw.writeCheckpoint(o.layer)
	case oHasCkpt:
		got := st.(types.Checkpointable).HasCheckpoint()
		if got != mw.L[o.layer].hasCkpt {
			return fmt.Sprintf("HasCheckpoint=%v want %v", got, mw.L[o.layer].hasCkpt)
		}
	case oScan:
		want := mw.iter(o.layer, o.s, o.e, o.asc)
		var it types.Iterator
		rec := vk.Catch(func() {
			if o.asc {
				it = st.Iterator(nil, o.s, o.e)
			} else {
				it = st.ReverseIterator(nil, o.s, o.e)
			}
		})
		if rec != nil {
			return fmt.Sprintf("unexpected panic opening iterator: %v", rec)
		}
		got, bad := drainReal(it, len(want)+2)
		it.Close()
		if bad != "" {
			return bad + " got " + kvsString(got) + " want " + kvsString(want)
		}
		if !eqKVs(got, want) {
			return "iteration got " + kvsString(got) + " want " + kvsString(want)
		}
	case oIterOpen:
		want := mw.iter(o.layer, o.s, o.e, o.asc)
		b, bs, be := mw.bottomDom(o.layer, o.s, o.e)
		mw.it = &mIter{layer: o.layer, asc: o.asc, s: o.s, e: o.e, exp: want, base: b, botS: bs, botE: be}
		rec := vk.Catch(func() {
			if o.asc {
				rw.it = st.Iterator(nil, o.s, o.e)
			} else {
				rw.it = st.ReverseIterator(nil, o.s, o.e)
			}
		})
		if rec != nil {
			return fmt.Sprintf("unexpected panic opening iterator: %v", rec)
		}
		if bad := checkIterPos(rw, mw); bad != "" {
			return bad
		}
		for n := 0; n < o.j && mw.it.pos < len(mw.it.exp); n++ {
			if bad := stepIter(rw, mw); bad != "" {
				return bad
			}
		}
	case oWrapDiscard:
		// CacheWrap, write into the wrapper, read through it, then drop it without Write.
		var wst types.Store
		if rec := vk.Catch(func() { wst = st.CacheWrap() }); rec != nil {
			return fmt.Sprintf("unexpected panic in CacheWrap: %v", rec)
		}
		before := mw.iter(o.layer, nil, nil, true)
		wv := []byte("w")
		wst.Set(nil, o.key, wv)
		want := map[string][]byte{}
		for _, e := range before {
			want[string(e.k)] = e.v
		}
		want[string(o.key)] = wv
		// delete the smallest other key through the wrapper
		for _, e := range before {
			if !bytes.Equal(e.k, o.key) {
				wst.Delete(nil, e.k)
				delete(want, string(e.k))
				break
			}
		}
		var wantL []kv
		for k, v := range want {
			wantL = append(wantL, kv{[]byte(k), v})
		}
		sort.Slice(wantL, func(a, b int) bool { return bytes.Compare(wantL[a].k, wantL[b].k) < 0 })
		it := wst.Iterator(nil, nil, nil)
		got, bad := drainReal(it, len(wantL)+2)
		it.Close()
		if bad != "" || !eqKVs(got, wantL) {
			return "wrapper iteration " + bad + " got " + kvsString(got) + " want " + kvsString(wantL)
		}
		// discarded: the wrapped layer must be unchanged
		it = st.Iterator(nil, nil, nil)
		got, bad = drainReal(it, len(before)+2)
		it.Close()
		if bad != "" || !eqKVs(got, before) {
			return "layer changed by a discarded wrapper: " + bad + " got " + kvsString(got) + " want " + kvsString(before)
		}
	}
	return ""
}

func checkIterPos(rw *rWorld, mw *mWorld) string {
	it := mw.it
	var valid bool
	var k, v []byte
	rec := vk.Catch(func() {
		valid = rw.it.Valid()
		if valid {
			k, v = rw.it.Key(), rw.it.Value()
		}
	})
	if rec != nil {
		return fmt.Sprintf("open iterator panicked: %v", rec)
	}
	if valid != (it.pos < len(it.exp)) {
		return fmt.Sprintf("open iterator Valid()=%v at position %d, snapshot has %d items %s", valid, it.pos, len(it.exp), kvsString(it.exp))
	}
	if valid && (!eqv(k, it.exp[it.pos].k) || !eqv(v, it.exp[it.pos].v)) {
		return fmt.Sprintf("open iterator at position %d yields %s=%s, want %s (snapshot %s)", it.pos, rq(k), rq(v),
			rq(it.exp[it.pos].k)+"="+rq(it.exp[it.pos].v), kvsString(it.exp))
	}
	return ""
}

func stepIter(rw *rWorld, mw *mWorld) string {
	if rec := vk.Catch(func() { rw.it.Next() }); rec != nil {
		return fmt.Sprintf("open iterator Next panicked: %v", rec)
	}
	mw.it.pos++
	return checkIterPos(rw, mw)
}

func applyIter(rw *rWorld, mw *mWorld, o op) string {
	switch o.k {
	case oIterStep:
		return stepIter(rw, mw)
	case oIterDrain:
		if bad := checkIterPos(rw, mw); bad != "" {
			return bad
		}
		for mw.it.pos < len(mw.it.exp) {
			if bad := stepIter(rw, mw); bad != "" {
				return bad
			}
		}
		if vk.Catch(func() { rw.it.Key() }) == nil {
			return "Key() on exhausted iterator did not panic"
		}
		fallthrough
	case oIterClose:
		var err error
		if rec := vk.Catch(func() { err = rw.it.Close() }); rec != nil || err != nil {
			return fmt.Sprintf("iterator Close: panic=%v err=%v", rec, err)
		}
		rw.it, mw.it = nil, nil
	}
	return ""
}

func applyGroup(rw *rWorld, mw *mWorld, o op) string {
	cms := rw.cms[o.layer]
	var members []int
	for i, ls := range rw.c.layers {
		if ls.group == o.layer {
			members = append(members, i)
		}
	}
	switch o.k {
	case oGWrite:
		if rec := vk.Catch(func() { cms.MultiWrite() }); rec != nil {
			return fmt.Sprintf("unexpected panic: %v", rec)
		}
		for _, i := range members {
			mw.write(i)
		}
	case oGCkpt:
		if rec := vk.Catch(func() { cms.Checkpoint() }); rec != nil {
			return fmt.Sprintf("unexpected panic: %v", rec)
		}
		for _, i := range members {
			mw.checkpoint(i)
		}
	case oGWCkpt:
		has := mw.L[members[0]].hasCkpt
		rec := vk.Catch(func() { cms.WriteCheckpoint() })
		if !has {
			if rec == nil {
				return "WriteCheckpoint without Checkpoint did not panic"
			}
			return ""
		}
		if rec != nil {
			return fmt.Sprintf("unexpected panic: %v", rec)
		}
		for _, i := range members {
			mw.writeCheckpoint(i)
		}
	case oGHasCkpt:
		got := cms.HasCheckpoint()
		want := false
		for _, i := range members {
			want = want || mw.L[i].hasCkpt
		}
		if got != want {
			return fmt.Sprintf("HasCheckpoint=%v want %v", got, want)
		}
	}
	return ""
}

// enabled: is op o part of the explored alphabet in model state mw?
func enabled(mw *mWorld, o op, obsLayer bool) bool {
	if obsLayer && !o.read {
		return false
	}
	switch o.k {
	case oPrefill:
		return false // only the first move
	case oIterOpen:
		return mw.it == nil
	case oIterStep:
		return mw.it != nil && mw.it.pos < len(mw.it.exp)
	case oIterDrain, oIterClose:
		return mw.it != nil
	}
	if mw.it == nil {
		return true
	}
	// an iterator is open: ops that would write the base DB inside the iterator's domain break the documented
	// contract ("No writes may happen within a domain while an iterator exists over it") and are not explored.
	switch o.k {
	case oSet, oSetEmpty, oSetNil, oDel:
		if mw.c.layers[o.layer].kind == kCache {
			return true
		}
		b, bk := mw.bottomKey(o.layer, nn(o.key))
		// a write at a prefix layer lands in the nearest cache below, if any
		for i := o.layer; mw.c.layers[i].kind != kBase; i = mw.c.layers[i].parent {
			if mw.c.layers[i].kind == kCache {
				return true
			}
		}
		return !mw.baseWriteHitsIter(b, bk)
	case oWrite:
		if mw.c.layers[o.layer].kind != kCache {
			return true
		}
		return !mw.flushHitsIter(o.layer, mw.L[o.layer].ents)
	case oWCkpt:
		if !mw.L[o.layer].hasCkpt {
			return true
		}
		return !mw.flushHitsIter(o.layer, mw.L[o.layer].ckpt)
	case oGWrite, oGWCkpt:
		for i, ls := range mw.c.layers {
			if ls.group != o.layer {
				continue
			}
			ents := mw.L[i].ents
			if o.k == oGWCkpt {
				if !mw.L[i].hasCkpt {
					continue
				}
				ents = mw.L[i].ckpt
			}
			if mw.flushHitsIter(i, ents) {
				return false
			}
		}
	}
	return true
}

// ---------------------------------------------------------------------------------------------
// BFS

type hkey [16]byte

type shard struct {
	mu   sync.Mutex
	m    map[hkey]uint64 // level<<56 | parent<<16 | op
	news []hkey
}

const nShards = 256

type node struct{ path []uint16 }

type violation struct {
	parent, opi int
	path        []uint16
	msg         string
}

type stats struct {
	states, transitions, enqTransitions, obsReads int64
	maxDepth                                      int
	iterContinuedAfterWrite                       int64
	maxUnsorted, maxSorted                        int
	withCkpt                                      int64
	exhaustive                                    bool
}

func replay(c *config, path []uint16) (*rWorld, *mWorld) {
	rw, mw := newReal(c), newModel(c)
	for _, oi := range path {
		apply(rw, mw, c.ops[oi])
	}
	return rw, mw
}

func pathStrings(c *config, path []uint16) []string {
	out := make([]string, len(path))
	for i, oi := range path {
		out[i] = c.opString(c.ops[oi])
	}
	return out
}

func explore(c *config, depth int, maxStates int64, deadline time.Time) stats {
	var st stats
	st.exhaustive = true
	shards := make([]*shard, nShards)
	for i := range shards {
		shards[i] = &shard{m: map[hkey]uint64{}}
	}
	var frontier []node
	for oi, o := range c.ops {
		if o.k == oPrefill {
			frontier = append(frontier, node{path: []uint16{uint16(oi)}})
		}
	}
	// register initial states
	for _, n := range frontier {
		rw, mw := replay(c, n.path)
		var sb strings.Builder
		mw.key(&sb)
		sb.WriteByte('#')
		rw.digest(&sb)
		h := sha256.Sum256([]byte(sb.String()))
		var hk hkey
		copy(hk[:], h[:16])
		shards[hk[0]].m[hk] = 0
		r.Distinct(c.name + sb.String())
		st.states++
	}
	var vmu sync.Mutex
	var viols []violation
	var transitions, enqT, obsReads, contAfterWrite, withCkpt atomic.Int64
	var maxU, maxS atomic.Int64
	for level := 1; level <= depth+1 && len(frontier) > 0; level++ {
		obsLayer := level == depth+1
		var stopped atomic.Bool
		r.ParFor(len(frontier), func(pi int) {
			if time.Now().After(deadline) {
				stopped.Store(true)
				return
			}
			path := frontier[pi].path
			var rw *rWorld
			var mw *mWorld
			for oi, o := range c.ops {
				if !o.enq || obsLayer {
					continue // observation-only reads (and everything at the final level) are done in one sweep below
				}
				if rw == nil {
					rw, mw = replay(c, path) // a clean instance in the frontier state; consumed by the next applied op
				}
				if !enabled(mw, o, false) {
					continue
				}
				msg := apply(rw, mw, o)
				crw, cmw := rw, mw
				rw, mw = nil, nil
				transitions.Add(1)
				enqT.Add(1)
				if msg != "" {
					vmu.Lock()
					viols = append(viols, violation{pi, oi, append(append([]uint16{}, path...), uint16(oi)), msg})
					vmu.Unlock()
					continue
				}
				if (o.k == oIterDrain || o.k == oIterStep) && iterSawWrite(c, path) {
					contAfterWrite.Add(1)
				}
				var sb strings.Builder
				cmw.key(&sb)
				sb.WriteByte('#')
				crw.digest(&sb)
				h := sha256.Sum256([]byte(sb.String()))
				var hk hkey
				copy(hk[:], h[:16])
				sh := shards[hk[0]]
				packed := uint64(level)<<56 | uint64(pi)<<16 | uint64(oi)
				sh.mu.Lock()
				if old, ok := sh.m[hk]; !ok {
					sh.m[hk] = packed
					sh.news = append(sh.news, hk)
				} else if old>>56 == uint64(level) && packed < old {
					sh.m[hk] = packed
				}
				sh.mu.Unlock()
			}
			// observation sweep: every read op of the alphabet, applied one after the other to ONE replayed
			// instance (reads memoize / re-sort the partition, the model follows the memoization).
			if rw == nil {
				rw, mw = replay(c, path)
			}
			for i, ls := range c.layers {
				if ls.kind == kCache {
					u, s, ck := cache.VerifPartition(rw.S[i])
					for {
						o := maxU.Load()
						if int64(u) <= o || maxU.CompareAndSwap(o, int64(u)) {
							break
						}
					}
					for {
						o := maxS.Load()
						if int64(s) <= o || maxS.CompareAndSwap(o, int64(s)) {
							break
						}
					}
					if ck {
						withCkpt.Add(1)
					}
				}
			}
			if obsLayer && mw.it != nil {
				// final level: an iterator left open is drained first, from the exact frontier state
				sawWrite := iterSawWrite(c, path)
				msg := apply(rw, mw, c.ops[c.drainOp])
				transitions.Add(1)
				enqT.Add(1)
				if msg != "" {
					vmu.Lock()
					viols = append(viols, violation{pi, c.drainOp, append(append([]uint16{}, path...), uint16(c.drainOp)), msg})
					vmu.Unlock()
					return
				}
				if sawWrite {
					contAfterWrite.Add(1)
				}
			}
			for oi, o := range c.ops {
				if !o.read || (o.enq && !obsLayer) || !enabled(mw, o, true) {
					continue // interior levels: enqueued reads were already run from the exact state above
				}
				if o.k == oIterDrain || o.k == oIterClose || o.k == oIterStep {
					continue
				}
				if obsLayer && o.k == oScan && o.s != nil && o.e != nil {
					continue // final level (the bulk of the states): one-sided domains only; interior states get every (start,end) pair
				}
				msg := apply(rw, mw, o)
				transitions.Add(1)
				obsReads.Add(1)
				if msg != "" {
					vmu.Lock()
					viols = append(viols, violation{pi, oi, append(append([]uint16{}, path...), uint16(oi)), "[observation sweep] " + msg})
					vmu.Unlock()
					break
				}
			}
		})
		if len(viols) > 0 {
			break
		}
		if stopped.Load() || r.Capped() {
			st.exhaustive = false
			break
		}
		// deterministic next frontier: representative = smallest (parent, op) reaching the state
		var cands []uint64
		for _, sh := range shards {
			for _, hk := range sh.news {
				cands = append(cands, sh.m[hk])
			}
			sh.news = sh.news[:0]
		}
		sort.Slice(cands, func(a, b int) bool { return cands[a] < cands[b] })
		next := make([]node, 0, len(cands))
		for _, p := range cands {
			pi := int(p >> 16 & 0xffffffffff)
			oi := uint16(p & 0xffff)
			np := make([]uint16, 0, len(frontier[pi].path)+1)
			np = append(append(np, frontier[pi].path...), oi)
			next = append(next, node{np})
		}
		if !obsLayer {
			st.states += int64(len(next))
			for i := range next {
				r.Distinct(c.name + fmt.Sprint(next[i].path))
			}
			if len(next) > 0 {
				st.maxDepth = level
			}
		}
		frontier = next
		if st.states > maxStates && level < depth {
			// too big to go deeper within the budget: finish with an observation layer on what we have
			st.exhaustive = false
			depth = level
		}
	}
	sort.Slice(viols, func(a, b int) bool {
		if viols[a].parent != viols[b].parent {
			return viols[a].parent < viols[b].parent
		}
		return viols[a].opi < viols[b].opi
	})
	for i, v := range viols {
		if i >= 3 {
			break
		}
		ps := pathStrings(c, v.path)
		r.Violation(c.name+": "+strings.Join(ps, " ; "), map[string]any{"config": c.name, "path": ps, "path_ops": v.path, "mismatch": v.msg})
		fmt.Printf("  %s: %s\n    => %s\n", c.name, strings.Join(ps, " ; "), v.msg)
	}
	st.transitions = transitions.Load()
	st.enqTransitions = enqT.Load()
	st.obsReads = obsReads.Load()
	st.iterContinuedAfterWrite = contAfterWrite.Load()
	st.maxUnsorted, st.maxSorted = int(maxU.Load()), int(maxS.Load())
	st.withCkpt = withCkpt.Load()
	return st
}

// iterSawWrite: since the currently open iterator was opened, did the path contain a mutating op?
func iterSawWrite(c *config, path []uint16) bool {
	open := -1
	for i, oi := range path {
		switch c.ops[oi].k {
		case oIterOpen:
			open = i
		case oIterClose, oIterDrain:
			open = -1
		}
	}
	if open < 0 {
		return false
	}
	for _, oi := range path[open+1:] {
		switch c.ops[oi].k {
		case oSet, oSetEmpty, oDel, oWrite, oWCkpt, oGWrite, oGWCkpt:
			return true
		}
	}
	return false
}

// ---------------------------------------------------------------------------------------------
// alphabets

func bs(ss ...string) [][]byte {
	out := make([][]byte, len(ss))
	for i, s := range ss {
		out[i] = []byte(s)
	}
	return out
}

func buildOps(c *config) {
	for i := range c.prefills {
		c.ops = append(c.ops, op{k: oPrefill, layer: i})
	}
	anyIter := false
	for li, ls := range c.layers {
		bounds := append([][]byte{nil}, ls.bounds...)
		for _, k := range ls.wkeys {
			c.ops = append(c.ops, op{k: oGet, layer: li, key: k, enq: ls.kind == kCache || ls.kind == kPrefix, read: true})
			c.ops = append(c.ops, op{k: oHas, layer: li, key: k, read: true})
			if ls.writes {
				c.ops = append(c.ops, op{k: oSet, layer: li, key: k, enq: true})
				c.ops = append(c.ops, op{k: oSetEmpty, layer: li, key: k, enq: true})
				c.ops = append(c.ops, op{k: oDel, layer: li, key: k, enq: true})
			}
		}
		for _, k := range append([][]byte{nil}, ls.xkeys...) {
			c.ops = append(c.ops, op{k: oGet, layer: li, key: k, read: true})
			c.ops = append(c.ops, op{k: oHas, layer: li, key: k, read: true})
		}
		// invalid arguments: must panic and change nothing (state-preserving, so observation only)
		c.ops = append(c.ops, op{k: oSet, layer: li, key: nil, read: true})
		c.ops = append(c.ops, op{k: oDel, layer: li, key: nil, read: true})
		if len(ls.wkeys) > 0 {
			c.ops = append(c.ops, op{k: oSetNil, layer: li, key: ls.wkeys[0], read: true})
		}
		if ls.kind == kCache && ls.group == 0 {
			c.ops = append(c.ops, op{k: oWrite, layer: li, enq: true})
			c.ops = append(c.ops, op{k: oCkpt, layer: li, enq: true})
			c.ops = append(c.ops, op{k: oWCkpt, layer: li, enq: true})
		}
		if ls.kind == kCache {
			c.ops = append(c.ops, op{k: oHasCkpt, layer: li, read: true})
		} else {
			c.ops = append(c.ops, op{k: oWrite, layer: li, read: true}) // must panic
		}
		for _, d := range ls.edoms {
			c.ops = append(c.ops, op{k: oScan, layer: li, s: bounds[d[0]], e: bounds[d[1]], asc: true, enq: ls.kind != kBase, read: true})
			c.ops = append(c.ops, op{k: oScan, layer: li, s: bounds[d[0]], e: bounds[d[1]], asc: false, enq: false, read: true})
			if ls.iter {
				anyIter = true
				for _, asc := range []bool{true, false} {
					for j := 0; j <= c.maxJ; j++ {
						c.ops = append(c.ops, op{k: oIterOpen, layer: li, s: bounds[d[0]], e: bounds[d[1]], asc: asc, j: j, enq: true})
					}
				}
			}
		}
		isE := func(a, b int) bool {
			for _, d := range ls.edoms {
				if d[0] == a && d[1] == b {
					return true
				}
			}
			return false
		}
		for a := range bounds {
			for b := range bounds {
				if isE(a, b) {
					continue
				}
				c.ops = append(c.ops, op{k: oScan, layer: li, s: bounds[a], e: bounds[b], asc: true, read: true})
				c.ops = append(c.ops, op{k: oScan, layer: li, s: bounds[a], e: bounds[b], asc: false, read: true})
			}
		}
		if len(ls.wkeys) > 0 {
			c.ops = append(c.ops, op{k: oWrapDiscard, layer: li, key: ls.wkeys[len(ls.wkeys)-1], read: true})
		}
	}
	if anyIter {
		c.ops = append(c.ops, op{k: oIterStep, enq: true})
		c.drainOp = len(c.ops)
		c.ops = append(c.ops, op{k: oIterDrain, enq: true, read: true})
		c.ops = append(c.ops, op{k: oIterClose, enq: true})
	}
	if c.cms {
		for g := 1; g <= 2; g++ {
			c.ops = append(c.ops, op{k: oGWrite, layer: g, enq: true})
			c.ops = append(c.ops, op{k: oGCkpt, layer: g, enq: true})
			c.ops = append(c.ops, op{k: oGWCkpt, layer: g, enq: true})
			c.ops = append(c.ops, op{k: oGHasCkpt, layer: g, read: true})
		}
	}
	if len(c.ops) > 65000 {
		r.HarnessError("alphabet too large")
	}
}

func configs(thorough bool) []*config {
	P := func(m ...map[int]map[string]string) []map[int]map[string]string { return m }
	b0 := func(kvs ...string) map[int]map[string]string {
		m := map[string]string{}
		for i := 0; i+1 < len(kvs); i += 2 {
			m[kvs[i]] = kvs[i+1]
		}
		return map[int]map[string]string{0: m}
	}
	pick := func(q, t [][]byte) [][]byte {
		if thorough {
			return t
		}
		return q
	}
	pickD := func(q, t [][2]int) [][2]int {
		if thorough {
			return t
		}
		return q
	}
	var out []*config

	// A: memdb <- cache <- cache
	keysA := pick(bs("a", "a\xff", "b"), bs("", "a", "a\xff", "\xff"))
	boundsA := pick(bs("a", "a\x00", "a\xff", "b"), bs("", "a", "a\x00", "a\xff", "b", "\xff"))
	domsA := pickD([][2]int{{0, 0}, {2, 0}}, [][2]int{{0, 0}, {3, 0}, {0, 4}}) // quick: (nil,nil) (a\x00,nil); thorough: + (nil,a\xff)
	out = append(out, &config{name: "mem<-cache<-cache", depthQ: 3, depthT: 4,
		layers: []layerSpec{
			{kind: kBase, parent: -1, name: "base", wkeys: keysA, bounds: nil, edoms: [][2]int{{0, 0}}, writes: true},
			{kind: kCache, parent: 0, name: "c1", wkeys: keysA, xkeys: bs("a\x00"), bounds: boundsA, edoms: domsA, writes: true, iter: true},
			{kind: kCache, parent: 1, name: "c2", wkeys: keysA, xkeys: bs("a\x00"), bounds: boundsA, edoms: domsA, writes: true, iter: true},
		},
		prefills: P(b0(), b0("a", "p"), b0("a", "p", "a\xff", "p", "b", ""), b0("a", "p", "b", "p")),
		extra:    map[int][]pstep{3: {{layer: 1, key: "a\xff", val: "x"}, {layer: 1, key: "b", del: true}}},
	})

	// B: memdb <- prefix(0xff) <- cache      (prefix whose end bound is unbounded)
	out = append(out, &config{name: "mem<-prefix(ff)<-cache", depthQ: 3, depthT: 4,
		layers: []layerSpec{
			{kind: kBase, parent: -1, name: "base", wkeys: bs("\xfe\xff", "\xff", "\xff\xff"), bounds: bs("\xff"), edoms: [][2]int{{0, 0}}, writes: true},
			{kind: kPrefix, parent: 0, prefix: []byte("\xff"), name: "p", wkeys: bs("", "\xff"), bounds: bs("", "\x00", "\xff"), edoms: [][2]int{{0, 0}, {0, 3}}, writes: true, iter: true},
			{kind: kCache, parent: 1, name: "c", wkeys: bs("", "a", "\xff"), xkeys: bs("\x00"), bounds: bs("", "\x00", "a", "\xff", "\xff\xff"), edoms: [][2]int{{0, 0}, {2, 0}, {0, 4}}, writes: true, iter: true},
		},
		prefills: P(b0(), b0("\xfe\xff", "p", "\xff", "p"), b0("\xff", "p", "\xffa", "", "\xff\xff", "p"), b0("\xfe\xff", "p", "\xffa", "p")),
		extra:    map[int][]pstep{3: {{layer: 2, key: "", val: "x"}, {layer: 2, key: "a", del: true}}},
	})

	// C: memdb <- cache <- prefix(a) <- cache <- prefix(0xff)
	out = append(out, &config{name: "mem<-cache<-prefix(a)<-cache<-prefix(ff)", depthQ: 3, depthT: 4,
		layers: []layerSpec{
			{kind: kBase, parent: -1, name: "base", wkeys: bs("a\xff", "b"), bounds: nil, edoms: [][2]int{{0, 0}}, writes: thorough},
			{kind: kCache, parent: 0, name: "c1", wkeys: pick(bs("a\xff", "b"), bs("a", "a\xff", "b")), bounds: bs("a", "a\xff", "b"), edoms: [][2]int{{0, 0}, {1, 3}}, writes: true, iter: false},
			{kind: kPrefix, parent: 1, prefix: []byte("a"), name: "pa", wkeys: bs("", "\xff"), bounds: bs("", "\xff"), edoms: [][2]int{{0, 0}}, writes: false, iter: thorough},
			{kind: kCache, parent: 2, name: "c2", wkeys: pick(bs("a", "\xff"), bs("a", "\xff", "\xffa")), bounds: bs("", "a", "\xff", "\xffa"), edoms: [][2]int{{0, 0}, {3, 0}}, writes: true, iter: true},
			{kind: kPrefix, parent: 3, prefix: []byte("\xff"), name: "pff", wkeys: bs("", "a"), bounds: bs("", "a", "b"), edoms: [][2]int{{0, 0}, {0, 2}}, writes: true, iter: true},
		},
		prefills: P(b0(), b0("a", "p", "a\xff", "p", "a\xffa", "p", "b", "p"), b0("a\xff", "p", "b", "p")),
		extra:    map[int][]pstep{2: {{layer: 1, key: "a\xffa", val: "x"}, {layer: 3, key: "\xff", del: true}, {layer: 3, key: "\xffb", val: "y"}}},
	})

	// D: cachemulti over two dbadapter stores, and a nested MultiCacheWrap
	kD := bs("a", "b")
	out = append(out, &config{name: "cachemulti(2 stores)<-MultiCacheWrap", cms: true, depthQ: 3, depthT: 4,
		layers: []layerSpec{
			{kind: kBase, parent: -1, name: "base0", wkeys: kD, bounds: nil, edoms: [][2]int{{0, 0}}, writes: false},
			{kind: kBase, parent: -1, name: "base1", wkeys: kD, bounds: nil, edoms: [][2]int{{0, 0}}, writes: false},
			{kind: kCache, parent: 0, group: 1, name: "cms1.s0", wkeys: kD, bounds: kD, edoms: [][2]int{{0, 0}}, writes: true},
			{kind: kCache, parent: 1, group: 1, name: "cms1.s1", wkeys: bs("a"), bounds: bs("a"), edoms: [][2]int{{0, 0}}, writes: true},
			{kind: kCache, parent: 2, group: 2, name: "cms2.s0", wkeys: kD, bounds: kD, edoms: [][2]int{{0, 0}}, writes: true, iter: true},
			{kind: kCache, parent: 3, group: 2, name: "cms2.s1", wkeys: bs("a"), bounds: bs("a"), edoms: [][2]int{{0, 0}}, writes: true},
		},
		prefills: P(map[int]map[string]string{0: {}, 1: {}}, map[int]map[string]string{0: {"a": "p"}, 1: {"a": "p"}}),
	})
	for _, c := range out {
		c.maxJ = 1
		if thorough {
			c.maxJ = 2
		}
		buildOps(c)
	}
	return out
}

// ---------------------------------------------------------------------------------------------

func doReplay(file string) {
	b, err := os.ReadFile(file)
	if err != nil {
		r.HarnessError("replay: %v", err)
	}
	var rep struct {
		Detail struct {
			Config  string   `json:"config"`
			PathOps []uint16 `json:"path_ops"`
		} `json:"detail"`
	}
	if err := json.Unmarshal(b, &rep); err != nil {
		r.HarnessError("replay: %v", err)
	}
	for _, th := range []bool{false, true} {
		for _, c := range configs(th) {
			if c.name != rep.Detail.Config {
				continue
			}
			rw, mw := newReal(c), newModel(c)
			ok := true
			for _, oi := range rep.Detail.PathOps {
				if int(oi) >= len(c.ops) {
					ok = false
					break
				}
				msg := apply(rw, mw, c.ops[oi])
				fmt.Printf("%-60s %s\n", c.opString(c.ops[oi]), msg)
				if msg != "" {
					fmt.Println("REPRODUCED")
					os.Exit(1)
				}
			}
			if ok {
				fmt.Println("not reproduced with this alphabet (tier mismatch?)")
			}
		}
	}
	os.Exit(0)
}

func main() {
	r = vk.New("model_checking")
	r.SetBudget(85*time.Second, 14*time.Minute)
	if pf := os.Getenv("VERIF_CPUPROFILE"); pf != "" {
		f, _ := os.Create(pf)
		pprof.StartCPUProfile(f)
		defer pprof.StopCPUProfile()
		stopProfile = pprof.StopCPUProfile
	}
	if r.ReplayIn != "" {
		doReplay(r.ReplayIn)
	}
	cfgs := configs(r.Thorough())
	start := time.Now()
	var tot stats
	exhaustive := true
	per := map[string]any{}
	for i, c := range cfgs {
		depth := c.depthQ
		maxStates := int64(400_000)
		if r.Thorough() {
			depth = c.depthT
			maxStates = 2_500_000
		}
		// each configuration gets an equal share of what is left of the budget
		left := r.Budget - time.Since(start)
		share := left / time.Duration(len(cfgs)-i)
		if r.Quick() {
			share = left // quick is sized by depth, not by time; the budget is only a safety net
		}
		st := explore(c, depth, maxStates, time.Now().Add(share))
		tot.states += st.states
		tot.transitions += st.transitions
		tot.enqTransitions += st.enqTransitions
		tot.obsReads += st.obsReads
		tot.iterContinuedAfterWrite += st.iterContinuedAfterWrite
		tot.withCkpt += st.withCkpt
		if st.maxDepth > tot.maxDepth {
			tot.maxDepth = st.maxDepth
		}
		if !st.exhaustive {
			exhaustive = false
		}
		per[c.name] = map[string]any{"alphabet": len(c.ops), "depth_target": depth, "depth_reached": st.maxDepth, "states": st.states,
			"transitions": st.transitions, "exhaustive_to_depth_target": st.exhaustive,
			"max_unsorted": st.maxUnsorted, "max_sorted": st.maxSorted, "expanded_states_with_checkpoint": st.withCkpt,
			"iterator_continued_after_write": st.iterContinuedAfterWrite}
		fmt.Printf("  %-45s alphabet=%d depth=%d/%d states=%d transitions=%d iterContAfterWrite=%d exhaustive=%v (%.1fs)\n",
			c.name, len(c.ops), st.maxDepth, depth, st.states, st.transitions, st.iterContinuedAfterWrite, st.exhaustive, time.Since(start).Seconds())
		r.OutcomeN("enqueued_transition", st.enqTransitions)
		r.OutcomeN("observation_read", st.obsReads)
		r.OutcomeN("iterator_continued_after_write", st.iterContinuedAfterWrite)
		r.OutcomeN("expanded_state_with_checkpoint", st.withCkpt)
		if r.Violations() > 0 {
			break
		}
	}
	r.EvalN(tot.transitions)
	c0 := cfgs[0]
	r.Sample(map[string]any{"config": c0.name, "example_path": []string{c0.opString(c0.ops[1]), "c1.Set(\"a\")", "c1.IterOpen(nil,nil,asc=true,steps=1)", "c1.Delete(\"a\\xff\")", "IterDrain"}})
	r.Assumptions = []string{
		"model: per cache layer an ordered-map overlay (net writes with tombstones over the parent view) plus memoized point reads (a cache layer answers Get from its own entry once it has one); iterators read the overlay merged with the parent view",
		"while an iterator is open, ops that would write the base DB inside the iterator's base-level domain are not explored (documented contract: no writes within a domain while an iterator exists over it; writes to cache layers are explored)",
		"gas accounting (GasContext) is not exercised: all calls pass a nil gas context",
		"base DB is memdb behind dbadapter.Store; nil key / nil value at the base are interpreted as empty per the dbm.DB interface",
	}
	stopProfile()
	r.Finish("BFS over op sequences on real store stacks vs overlay model; dedup on (model state, cache.VerifDigest partition digest, open-iterator descriptor); every state additionally gets a full read sweep (all keys, all (start,end) bound pairs, both directions, every layer); distinct = distinct explored states",
		exhaustive, map[string]any{"states": tot.states, "transitions": tot.transitions, "traces_validated_against_impl": tot.transitions,
			"depth": tot.maxDepth, "configs": per})
}
