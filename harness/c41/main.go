// C41: the block store (tm2/pkg/bft/store) and the state store (tm2/pkg/bft/state) return exactly what was saved.
//
// Model checking = exhaustive enumeration of ALL chains up to a length over a finite per-block alphabet, executed on the
// REAL stores (depth-first over the chain tree with cloned MemDBs, so every prefix is a checked state):
//
//	family S (state store): per block one of {nothing, toggle validator C, change power of A, change consensus params,
//	  validators+params}; the real state transition function (updateState, re-exported) produces the next State, SaveState
//	  persists it; after EVERY block LoadValidators(h)/LoadConsensusParams(h) are compared for every height h (incl. heights
//	  before the initial height and after the last known one) with (1) the exact validator set / params the state machine had
//	  in effect at h (incl. proposer priorities) and (2) an independent address->power model with the +2 / +1 block delays.
//	  The validator checkpoint interval is explored BOTH overlay-scaled (2,3,4,...: chains cross several checkpoints) and at
//	  the real constant (100000) with chains whose initial height sits just before the real checkpoint.
//	family B (block store): per block {1,2,3 parts} x {no txs + full last commit, 2 txs + last commit with an absent
//	  precommit}, first block at height 1 or 7; after EVERY SaveBlock every loader (meta, block, each part index incl. one
//	  past the end, block commit, seen commit) is compared for every height incl. absent ones; Height() is monotone and
//	  survives reopen; non-contiguous / incomplete / nil saves must panic and leave the store unchanged.
package main

import (
	"bytes"
	"crypto/sha256"
	"fmt"
	"sort"
	"strings"
	"sync"
	"sync/atomic"
	"time"

	"github.com/gnolang/gno/tm2/pkg/amino"
	abci "github.com/gnolang/gno/tm2/pkg/bft/abci/types"
	sm "github.com/gnolang/gno/tm2/pkg/bft/state"
	"github.com/gnolang/gno/tm2/pkg/bft/store"
	"github.com/gnolang/gno/tm2/pkg/bft/types"
	"github.com/gnolang/gno/tm2/pkg/crypto"
	"github.com/gnolang/gno/tm2/pkg/crypto/ed25519"
	"github.com/gnolang/gno/tm2/pkg/db/memdb"
	"verif/engine/vk"
)

var r *vk.Run
var t0 = time.Now()

var (
	nStates, nTrans atomic.Int64
	nLoads          atomic.Int64
	anyViol         atomic.Bool
	violMu          sync.Mutex
	viols           []violation
)

type violation struct {
	key    string
	detail map[string]any
}

// ctx is one unit of parallel work (one configuration + chain prefix); it stops at its own first violation so that
// the set of reported violations does not depend on goroutine scheduling.
type ctx struct {
	where   string
	stopped bool
}

func (c *ctx) stop() bool { return c.stopped }

func viol(c *ctx, kind, trace, format string, a ...any) {
	c.stopped = true
	anyViol.Store(true)
	violMu.Lock()
	viols = append(viols, violation{kind + "|" + c.where + "|" + trace, map[string]any{"kind": kind, "config": c.where, "chain": trace, "detail": fmt.Sprintf(format, a...)}})
	violMu.Unlock()
}

func cloneDB(db *memdb.MemDB) *memdb.MemDB {
	n := memdb.NewMemDB()
	it, _ := db.Iterator(nil, nil)
	for ; it.Valid(); it.Next() {
		n.Set(append([]byte{}, it.Key()...), append([]byte{}, it.Value()...)) //nolint
	}
	it.Close()
	return n
}

func dbDigest(db *memdb.MemDB) string {
	h := sha256.New()
	it, _ := db.Iterator(nil, nil)
	for ; it.Valid(); it.Next() {
		fmt.Fprintf(h, "%d:%d:", len(it.Key()), len(it.Value()))
		h.Write(it.Key())
		h.Write(it.Value())
	}
	it.Close()
	return string(h.Sum(nil))
}

// ============================================================== family S: state store

var (
	pkA = ed25519.GenPrivKeyFromSecret([]byte("verif-c41-A")).PubKey()
	pkB = ed25519.GenPrivKeyFromSecret([]byte("verif-c41-B")).PubKey()
	pkC = ed25519.GenPrivKeyFromSecret([]byte("verif-c41-C")).PubKey()
)

var evNames = []string{"-", "toggleC", "powerA", "params", "toggleC+params"}

func valsString(vs *types.ValidatorSet) string {
	if vs == nil {
		return "<nil>"
	}
	var b strings.Builder
	for _, v := range vs.Validators {
		fmt.Fprintf(&b, "%s:%d:%d ", v.Address.String()[:10], v.VotingPower, v.ProposerPriority)
	}
	if p := vs.GetProposer(); p != nil {
		fmt.Fprintf(&b, "|P=%s", p.Address.String()[:10])
	}
	return b.String()
}

func powersString(vs *types.ValidatorSet) string {
	var s []string
	for _, v := range vs.Validators {
		s = append(s, fmt.Sprintf("%s:%d", v.Address.String()[:10], v.VotingPower))
	}
	sort.Strings(s)
	return strings.Join(s, " ")
}

func powersOf(m map[string]int64) string {
	var s []string
	for a, p := range m {
		s = append(s, fmt.Sprintf("%s:%d", a[:10], p))
	}
	sort.Strings(s)
	return strings.Join(s, " ")
}

func paramsString(p abci.ConsensusParams) string { return string(amino.MustMarshal(p)) }

// sNode is one state of the chain tree of family S.
type sNode struct {
	db    *memdb.MemDB
	st    sm.State
	trace []byte // events so far
	// oracle 1: what the state machine had in effect (recorded when the state was current)
	valsAt   map[int64]string
	paramsAt map[int64]string
	// oracle 2: independent model, address -> power, with the delays of the protocol
	powAt    map[int64]map[string]int64
	gasAt    map[int64]int64
	saved    int64 // number of SaveState calls
	initialH int64
}

func (n *sNode) clone() *sNode {
	c := *n
	c.db = cloneDB(n.db)
	c.trace = append([]byte{}, n.trace...)
	c.valsAt = map[int64]string{}
	for k, v := range n.valsAt {
		c.valsAt[k] = v
	}
	c.paramsAt = map[int64]string{}
	for k, v := range n.paramsAt {
		c.paramsAt[k] = v
	}
	c.powAt = map[int64]map[string]int64{}
	for k, v := range n.powAt {
		c.powAt[k] = v // inner maps are never mutated after creation
	}
	c.gasAt = map[int64]int64{}
	for k, v := range n.gasAt {
		c.gasAt[k] = v
	}
	return &c
}

func traceStr(initialH int64, t []byte) string {
	s := make([]string, len(t))
	for i, e := range t {
		s[i] = fmt.Sprintf("h%d:%s", initialH+int64(i), evNames[e])
	}
	return strings.Join(s, ",")
}

func (n *sNode) record() {
	H := n.st.LastBlockHeight
	n.valsAt[H+1] = valsString(n.st.Validators)
	n.valsAt[H+2] = valsString(n.st.NextValidators)
	n.paramsAt[H+1] = paramsString(n.st.ConsensusParams)
}

func sGenesis(initialH int64) *sNode {
	gen := &types.GenesisDoc{
		GenesisTime:   time.Unix(1700000000, 0).UTC(),
		ChainID:       "verif-c41",
		InitialHeight: initialH,
		Validators: []types.GenesisValidator{
			{PubKey: pkA, Power: 10, Name: "A"},
			{PubKey: pkB, Power: 4, Name: "B"},
		},
	}
	st, err := sm.MakeGenesisState(gen)
	if err != nil {
		r.HarnessError("genesis: %v", err)
	}
	n := &sNode{db: memdb.NewMemDB(), st: st, valsAt: map[int64]string{}, paramsAt: map[int64]string{}, powAt: map[int64]map[string]int64{}, gasAt: map[int64]int64{}, initialH: st.InitialHeight}
	sm.SaveState(n.db, st)
	n.saved = 1
	n.record()
	base := map[string]int64{pkA.Address().String(): 10, pkB.Address().String(): 4}
	n.powAt[st.InitialHeight] = base
	n.powAt[st.InitialHeight+1] = base
	n.gasAt[st.InitialHeight] = st.ConsensusParams.Block.MaxGas
	return n
}

// step applies block LastBlockHeight+1 with event ev through the real updateState and SaveState.
func (n *sNode) step(ev byte, c *ctx) bool {
	h := n.st.LastBlockHeight + 1
	n.trace = append(n.trace, ev)
	resp := sm.NewABCIResponsesFromNum(0)
	cur := n.powAt[h+1] // set in effect at h+1 = NextValidators before this block's updates
	next := cur
	if ev == 1 || ev == 4 {
		next = map[string]int64{}
		for a, p := range cur {
			next[a] = p
		}
		ca := pkC.Address().String()
		if _, ok := cur[ca]; ok {
			resp.EndBlock.ValidatorUpdates = []abci.ValidatorUpdate{{Address: pkC.Address(), PubKey: pkC, Power: 0}}
			delete(next, ca)
		} else {
			resp.EndBlock.ValidatorUpdates = []abci.ValidatorUpdate{{Address: pkC.Address(), PubKey: pkC, Power: 7}}
			next[ca] = 7
		}
	}
	if ev == 2 {
		next = map[string]int64{}
		for a, p := range cur {
			next[a] = p
		}
		aa := pkA.Address().String()
		np := int64(15)
		if cur[aa] == 15 {
			np = 10
		}
		resp.EndBlock.ValidatorUpdates = []abci.ValidatorUpdate{{Address: pkA.Address(), PubKey: pkA, Power: np}}
		next[aa] = np
	}
	gas := n.gasAt[h]
	if ev == 3 || ev == 4 {
		bp := *n.st.ConsensusParams.Block
		if bp.MaxGas == 7000 {
			bp.MaxGas = 9000
		} else {
			bp.MaxGas = 7000
		}
		gas = bp.MaxGas
		resp.EndBlock.ConsensusParams = &abci.ConsensusParams{Block: &bp}
	}
	n.powAt[h+2] = next
	n.gasAt[h+1] = gas
	header := &types.Header{ChainID: n.st.ChainID, Height: h, Time: time.Unix(1700000000+h, 0).UTC()}
	blockID := types.BlockID{Hash: []byte(fmt.Sprintf("block-%d-%x", h, n.trace))}
	sm.SaveABCIResponses(n.db, h, resp)
	st2, err := sm.VerifUpdateState(n.st, blockID, header, resp)
	if err != nil {
		viol(c, "update-state-error", traceStr(n.initialH, n.trace), "%v", err)
		return false
	}
	n.st = st2
	sm.SaveState(n.db, st2)
	n.saved++
	n.record()
	nTrans.Add(1)
	r.Eval()
	// ABCI responses round trip
	got, err := sm.LoadABCIResponses(n.db, h)
	if err != nil || !bytes.Equal(got.Bytes(), resp.Bytes()) {
		viol(c, "abci-responses-differ", traceStr(n.initialH, n.trace), "height %d: %v", h, err)
		return false
	}
	return true
}

// check compares every loader at every height with both oracles.
func (n *sNode) check(c *ctx) bool {
	tr := traceStr(n.initialH, n.trace)
	ok := true
	bad := func(kind, format string, a ...any) {
		ok = false
		viol(c, kind, tr, format, a...)
	}
	if rec := vk.Catch(func() {
		ls := sm.LoadState(n.db)
		if !bytes.Equal(ls.Bytes(), n.st.Bytes()) {
			bad("loaded-state-differs", "LoadState != last saved state")
		}
		H := n.st.LastBlockHeight
		for h := n.initialH - 2; h <= H+4; h++ {
			nLoads.Add(2)
			vs, err := sm.LoadValidators(n.db, h)
			want, known := n.valsAt[h]
			switch {
			case !known:
				if err == nil {
					bad("validators-for-unknown-height", "LoadValidators(%d) returned %s (known heights %d..%d)", h, valsString(vs), n.initialH, H+2)
				}
				r.Outcome("S:validators:no-such-height")
			case err != nil:
				bad("validators-missing", "LoadValidators(%d): %v", h, err)
			default:
				if got := valsString(vs); got != want {
					bad("validators-differ-from-set-in-effect", "LoadValidators(%d)=%s want %s", h, got, want)
				} else if gp, wp := powersString(vs), powersOf(n.powAt[h]); gp != wp {
					bad("validators-differ-from-independent-model", "LoadValidators(%d) powers %s want %s", h, gp, wp)
				}
				r.Outcome("S:validators:ok")
			}
			cp, err := sm.LoadConsensusParams(n.db, h)
			wantP, known := n.paramsAt[h]
			switch {
			case !known:
				if err == nil {
					bad("params-for-unknown-height", "LoadConsensusParams(%d) succeeded (known heights %d..%d)", h, n.initialH, H+1)
				}
				r.Outcome("S:params:no-such-height")
			case err != nil:
				bad("params-missing", "LoadConsensusParams(%d): %v", h, err)
			default:
				if paramsString(cp) != wantP {
					bad("params-differ-from-params-in-effect", "LoadConsensusParams(%d) differs", h)
				} else if cp.Block.MaxGas != n.gasAt[h] {
					bad("params-differ-from-independent-model", "LoadConsensusParams(%d).Block.MaxGas=%d want %d", h, cp.Block.MaxGas, n.gasAt[h])
				}
				r.Outcome("S:params:ok")
			}
		}
	}); rec != nil {
		bad("panic-in-loader", "%v", rec)
	}
	return ok
}

// samples are chosen by a hash of the chain (not by arrival order) and sorted, so the evidence is identical across runs
var (
	sampMu sync.Mutex
	samps  []map[string]any
)

func maybeSample(family, where, chain string) {
	h := sha256.Sum256([]byte(where + chain))
	if h[0] != 0 || h[1] > 40 {
		return
	}
	sampMu.Lock()
	samps = append(samps, map[string]any{"family": family, "config": where, "chain": chain})
	sampMu.Unlock()
}

func sDFS(n *sNode, depth int, c *ctx) {
	if c.stop() || r.Expired() {
		return
	}
	nStates.Add(1)
	r.Distinct("S|" + c.where + "|" + dbDigest(n.db))
	if !n.check(c) {
		return
	}
	if depth == 0 {
		maybeSample("state-store", c.where, traceStr(n.initialH, n.trace))
		return
	}
	for ev := byte(0); ev < byte(len(evNames)); ev++ {
		ch := n
		if ev < byte(len(evNames))-1 {
			ch = n.clone()
		}
		if ch.step(ev, c) {
			sDFS(ch, depth-1, c)
		}
	}
}

func familyS(interval int64, initials []int64, depth int) {
	sm.VerifSetCheckpointInterval(interval)
	type job struct {
		initial int64
		prefix  []byte
	}
	var jobs []job
	for _, ih := range initials {
		for a := byte(0); a < 5; a++ {
			for b := byte(0); b < 5; b++ {
				jobs = append(jobs, job{ih, []byte{a, b}})
			}
		}
	}
	var done atomic.Int64
	r.ParFor(len(jobs), func(i int) {
		j := jobs[i]
		c := &ctx{where: fmt.Sprintf("S:checkpoint-interval=%d,initial-height=%d", interval, j.initial)}
		n := sGenesis(j.initial)
		if i%25 == 0 { // the genesis state and the depth-1 states are checked once per initial height
			nStates.Add(1)
			n.check(c)
		}
		okp := true
		for k, ev := range j.prefix {
			if !n.step(ev, c) {
				okp = false
				break
			}
			if k == 0 && i%5 == 0 {
				nStates.Add(1)
				n.check(c)
			}
		}
		if okp && !c.stop() {
			sDFS(n, depth-2, c)
		}
		done.Add(1)
	})
	if int(done.Load()) < len(jobs) {
		r.MarkCapped()
	}
}

// longChain: the REAL constant, from a standard genesis at height 1 through the first real checkpoint (100000 blocks),
// with validator changes early and right around the checkpoint; LoadValidators then has to replay up to ~10^5 proposer
// priority increments from the last stored set.
func longChain() {
	def := sm.VerifCheckpointIntervalDefault()
	sm.VerifSetCheckpointInterval(def)
	n := sGenesis(1)
	c := &ctx{where: fmt.Sprintf("S:long-chain,checkpoint-interval=%d", def)}
	events := map[int64]byte{3: 1, 9: 2, 40: 3, def - 3: 1, def - 1: 2, def: 4, def + 1: 1}
	check := map[int64]bool{}
	for _, h := range []int64{1, 2, 3, 4, 5, 6, 11, 12, 50, 1000, def / 2, def - 4, def - 3, def - 2, def - 1, def, def + 1, def + 2, def + 3, def + 4} {
		check[h] = true
	}
	want := map[int64]string{}
	wantPow := map[int64]map[string]int64{}
	for h := int64(1); h <= def+3; h++ {
		if !n.step(events[h], c) {
			return
		}
		// keep the oracle maps small: only remember the probe heights
		for k := range n.valsAt {
			if check[k] {
				want[k] = n.valsAt[k]
				wantPow[k] = n.powAt[k]
			}
			if k < h-2 {
				delete(n.valsAt, k)
				delete(n.paramsAt, k)
				delete(n.powAt, k)
				delete(n.gasAt, k)
			}
		}
		n.trace = n.trace[:0]
		if r.Expired() {
			r.MarkCapped()
			return
		}
	}
	nStates.Add(int64(len(check)))
	for h := range check {
		vs, err := sm.LoadValidators(n.db, h)
		nLoads.Add(1)
		if err != nil {
			viol(c, "validators-missing", fmt.Sprintf("events %v", events), "LoadValidators(%d): %v", h, err)
			continue
		}
		if got := valsString(vs); got != want[h] {
			viol(c, "validators-differ-from-set-in-effect", fmt.Sprintf("events %v", events), "LoadValidators(%d)=%s want %s", h, got, want[h])
		} else if powersString(vs) != powersOf(wantPow[h]) {
			viol(c, "validators-differ-from-independent-model", fmt.Sprintf("events %v", events), "LoadValidators(%d)", h)
		} else {
			r.Outcome("S:long-chain:validators:ok")
		}
	}
}

// ============================================================== family B: block store

type bBlock struct {
	block *types.Block
	parts *types.PartSet
	seen  *types.Commit
}

type bNode struct {
	db     *memdb.MemDB
	bs     *store.BlockStore
	first  int64
	blocks []bBlock // blocks[i] has height first+i
	trace  []byte
}

var bNames = []string{"1part/notx/fullcommit", "2parts/notx/fullcommit", "3parts/notx/fullcommit", "1part/2tx/absent-precommit", "2parts/2tx/absent-precommit", "3parts/2tx/absent-precommit"}

func bTrace(first int64, t []byte) string {
	s := make([]string, len(t))
	for i, e := range t {
		s[i] = fmt.Sprintf("h%d:%s", first+int64(i), bNames[e])
	}
	return strings.Join(s, ",")
}

func enc(v any) []byte {
	switch x := v.(type) {
	case *types.Commit:
		if x == nil {
			return nil
		}
	case *types.Block:
		if x == nil {
			return nil
		}
	case *types.BlockMeta:
		if x == nil {
			return nil
		}
	case *types.Part:
		if x == nil {
			return nil
		}
	}
	return amino.MustMarshal(v)
}

func mkCommit(height int64, blockID types.BlockID, absent bool, salt string) *types.Commit {
	var pcs []*types.CommitSig
	for i, pk := range []crypto.PubKey{pkA, pkB, pkC} {
		if absent && i == 1 {
			pcs = append(pcs, nil)
			continue
		}
		v := &types.Vote{Type: types.PrecommitType, Height: height, Round: 1, BlockID: blockID,
			Timestamp: time.Unix(1700000000+height, int64(i)).UTC(), ValidatorAddress: pk.Address(), ValidatorIndex: i,
			Signature: []byte(fmt.Sprintf("sig-%s-%d-%d", salt, height, i))}
		pcs = append(pcs, v.CommitSig())
	}
	return types.NewCommit(blockID, pcs)
}

// next builds block (first+len) according to choice c.
func (n *bNode) next(c byte) bBlock {
	var h int64
	var lastCommit *types.Commit
	var lastID types.BlockID
	if len(n.blocks) == 0 {
		h = n.first
		lastCommit = types.NewCommit(types.BlockID{}, nil)
	} else {
		prev := n.blocks[len(n.blocks)-1]
		h = prev.block.Height + 1
		lastID = types.BlockID{Hash: prev.block.Hash(), PartsHeader: prev.parts.Header()}
		lastCommit = mkCommit(h-1, lastID, c >= 3, "last")
	}
	var txs []types.Tx
	if c >= 3 {
		txs = []types.Tx{types.Tx(fmt.Sprintf("tx-a-%d", h)), types.Tx(fmt.Sprintf("tx-b-%d-%s", h, strings.Repeat("x", 40)))}
	}
	b := types.MakeBlock(h, txs, lastCommit)
	b.Header.ChainID = "verif-c41"
	b.Header.Time = time.Unix(1700000000+h, 0).UTC()
	b.Header.LastBlockID = lastID
	b.Header.ProposerAddress = pkA.Address()
	bz, _ := amino.MarshalSized(b)
	k := int(c%3) + 1
	partSize := (len(bz) + k - 1) / k
	ps := b.MakePartSet(partSize)
	if ps.Total() != k {
		r.HarnessError("wanted %d parts, got %d", k, ps.Total())
	}
	id := types.BlockID{Hash: b.Hash(), PartsHeader: ps.Header()}
	return bBlock{b, ps, mkCommit(h, id, false, "seen")}
}

func (n *bNode) clone() *bNode {
	c := *n
	c.db = cloneDB(n.db)
	c.bs = store.NewBlockStore(c.db)
	c.blocks = append([]bBlock{}, n.blocks...)
	c.trace = append([]byte{}, n.trace...)
	return &c
}

func (n *bNode) height() int64 {
	if len(n.blocks) == 0 {
		return 0
	}
	return n.blocks[len(n.blocks)-1].block.Height
}

func (n *bNode) check(c *ctx) bool {
	tr := bTrace(n.first, n.trace)
	ok := true
	bad := func(kind, format string, a ...any) {
		ok = false
		viol(c, kind, tr, format, a...)
	}
	H := n.height()
	if rec := vk.Catch(func() {
		for _, bs := range []*store.BlockStore{n.bs, store.NewBlockStore(n.db)} { // live handle and a reopened one
			if bs.Height() != H {
				bad("store-height", "Height()=%d want %d", bs.Height(), H)
			}
			lo := n.first - 2
			if lo < 0 {
				lo = 0
			}
			for h := lo; h <= H+2 || h <= n.first+1; h++ {
				nLoads.Add(5)
				var want *bBlock
				if i := h - n.first; len(n.blocks) > 0 && i >= 0 && i < int64(len(n.blocks)) {
					want = &n.blocks[i]
				}
				meta, blk, seen := bs.LoadBlockMeta(h), bs.LoadBlock(h), bs.LoadSeenCommit(h)
				if want == nil {
					if meta != nil || blk != nil || seen != nil || bs.LoadBlockPart(h, 0) != nil {
						bad("absent-height-returns-data", "height %d: meta=%v block=%v seen=%v", h, meta != nil, blk != nil, seen != nil)
					}
					r.Outcome("B:absent-height")
				} else {
					wm := types.NewBlockMeta(want.block, want.parts)
					if !bytes.Equal(enc(meta), enc(wm)) {
						bad("block-meta-differs", "height %d", h)
					}
					if blk == nil || !bytes.Equal(enc(blk), enc(want.block)) || !bytes.Equal(blk.Hash(), want.block.Hash()) {
						bad("block-differs", "height %d (loaded nil=%v)", h, blk == nil)
					}
					if !bytes.Equal(enc(seen), enc(want.seen)) {
						bad("seen-commit-differs", "height %d", h)
					}
					for i := 0; i <= want.parts.Total(); i++ {
						p := bs.LoadBlockPart(h, i)
						var wp *types.Part
						if i < want.parts.Total() {
							wp = want.parts.GetPart(i)
						}
						if !bytes.Equal(enc(p), enc(wp)) {
							bad("block-part-differs", "height %d part %d/%d", h, i, want.parts.Total())
						}
					}
					r.Outcome("B:present-height")
				}
				// LoadBlockCommit(h) is the LastCommit of block h+1
				var wantC *types.Commit
				if i := h + 1 - n.first; len(n.blocks) > 0 && i >= 0 && i < int64(len(n.blocks)) {
					wantC = n.blocks[i].block.LastCommit
				}
				if got := bs.LoadBlockCommit(h); !bytes.Equal(enc(got), enc(wantC)) {
					bad("block-commit-differs", "LoadBlockCommit(%d): got nil=%v want nil=%v", h, got == nil, wantC == nil)
				}
			}
		}
	}); rec != nil {
		bad("panic-in-loader", "%v", rec)
	}
	return ok
}

// negative: saves that must be refused (panic) and must not change the store.
func (n *bNode) negative(c *ctx) bool {
	tr := bTrace(n.first, n.trace)
	H := n.height()
	before := dbDigest(n.db)
	ok := true
	try := func(name string, f func()) {
		rec := vk.Catch(f)
		r.Eval()
		if rec == nil {
			ok = false
			viol(c, "invalid-save-accepted", tr+",["+name+"]", "SaveBlock did not panic")
		} else if dbDigest(n.db) != before || n.bs.Height() != H {
			ok = false
			viol(c, "refused-save-changed-store", tr+",["+name+"]", "store changed by a refused save (height %d -> %d)", H, n.bs.Height())
		} else {
			r.Outcome("B:refused:" + strings.SplitN(name, "@", 2)[0])
		}
	}
	nb := n.next(1)
	try("nil-block", func() { n.bs.SaveBlock(nil, nb.parts, nb.seen) })
	try("incomplete-part-set", func() { n.bs.SaveBlock(nb.block, types.NewPartSetFromHeader(nb.parts.Header()), nb.seen) })
	if H > 0 {
		for _, d := range []int64{-1, 0, 2, 3} {
			b2 := types.MakeBlock(H+d, nil, nb.block.LastCommit)
			ps := b2.MakePartSet(1 << 16)
			try(fmt.Sprintf("non-contiguous@%+d", d), func() { n.bs.SaveBlock(b2, ps, nb.seen) })
		}
	}
	return ok
}


func bDFS(n *bNode, depth int, c *ctx) {
	if c.stop() || r.Expired() {
		return
	}
	nStates.Add(1)
	r.Distinct("B|" + dbDigest(n.db))
	if !n.check(c) || !n.negative(c) {
		return
	}
	if depth == 0 {
		maybeSample("block-store", c.where, bTrace(n.first, n.trace))
		return
	}
	for bc := byte(0); bc < byte(len(bNames)); bc++ {
		ch := n.clone()
		nb := ch.next(bc)
		ch.trace = append(ch.trace, bc)
		hb := ch.bs.Height()
		if rec := vk.Catch(func() { ch.bs.SaveBlock(nb.block, nb.parts, nb.seen) }); rec != nil {
			viol(c, "valid-save-panicked", bTrace(ch.first, ch.trace), "%v", rec)
			return
		}
		ch.blocks = append(ch.blocks, nb)
		nTrans.Add(1)
		r.Eval()
		if ch.bs.Height() < hb || ch.bs.Height() != nb.block.Height {
			viol(c, "store-height", bTrace(ch.first, ch.trace), "Height() %d -> %d after saving block %d", hb, ch.bs.Height(), nb.block.Height)
			return
		}
		bDFS(ch, depth-1, c)
	}
}

func familyB(firsts []int64, depth int) {
	// one job per (first height, 2-block prefix); a prefix state is checked/counted only by the job whose remaining
	// prefix is all zeros, so every state of the chain tree is checked exactly once
	type job struct {
		first  int64
		prefix []byte
	}
	var jobs []job
	nb := byte(len(bNames))
	for _, f := range firsts {
		for c1 := byte(0); c1 < nb; c1++ {
			for c2 := byte(0); c2 < nb; c2++ {
				jobs = append(jobs, job{f, []byte{c1, c2}})
			}
		}
	}
	var done atomic.Int64
	r.ParFor(len(jobs), func(i int) {
		j := jobs[i]
		c := &ctx{where: fmt.Sprintf("B:first-height=%d", j.first)}
		n := &bNode{db: memdb.NewMemDB(), first: j.first}
		n.bs = store.NewBlockStore(n.db)
		restZero := func(k int) bool {
			for _, x := range j.prefix[k:] {
				if x != 0 {
					return false
				}
			}
			return true
		}
		for k := 0; k < len(j.prefix) && !c.stop(); k++ {
			if restZero(k) {
				nStates.Add(1)
				r.Distinct("B|" + dbDigest(n.db))
				if !n.check(c) || !n.negative(c) {
					break
				}
			}
			blk := n.next(j.prefix[k])
			n.trace = append(n.trace, j.prefix[k])
			if rec := vk.Catch(func() { n.bs.SaveBlock(blk.block, blk.parts, blk.seen) }); rec != nil {
				viol(c, "valid-save-panicked", bTrace(n.first, n.trace), "%v", rec)
				break
			}
			n.blocks = append(n.blocks, blk)
			if restZero(k + 1) {
				nTrans.Add(1)
				r.Eval()
			}
		}
		if !c.stop() {
			bDFS(n, depth-len(j.prefix), c)
		}
		done.Add(1)
	})
	if int(done.Load()) < len(jobs) && !anyViol.Load() {
		r.MarkCapped()
	}
}

func main() {
	r = vk.New("model_checking")
	r.SetBudget(80*time.Second, 15*time.Minute)
	def := sm.VerifCheckpointIntervalDefault()
	depths := map[string]any{}

	// family B
	bDepth := 4
	if r.Thorough() {
		bDepth = 6
	}
	familyB([]int64{1, 7}, bDepth)
	fmt.Printf("  block store done: states %d, %.1fs\n", nStates.Load(), time.Since(t0).Seconds())
	depths["block_store_chain_length"] = bDepth

	// family S, scaled checkpoint interval
	sDepth, intervals, initials := 5, []int64{2, 3, 4}, []int64{1, 2, 3}
	if r.Thorough() {
		sDepth, intervals, initials = 6, []int64{2, 3, 4, 5, 7}, []int64{1, 2, 3, 4, 6}
	}
	for _, iv := range intervals {
		if !anyViol.Load() {
			familyS(iv, initials, sDepth)
			fmt.Printf("  state store interval %d done: states %d, %.1fs\n", iv, nStates.Load(), time.Since(t0).Seconds())
		}
	}
	// family S, real constant: initial heights just before / at / after the real checkpoint
	realInit := []int64{def - 3, def - 2, def - 1, def, def + 1}
	if !anyViol.Load() {
		familyS(def, realInit, sDepth)
	}
	depths["state_store_chain_length"] = sDepth
	if r.Thorough() && !anyViol.Load() {
		longChain()
		depths["long_chain_blocks"] = def + 3
	}

	sort.Slice(viols, func(i, j int) bool {
		if len(viols[i].key) != len(viols[j].key) {
			return len(viols[i].key) < len(viols[j].key)
		}
		return viols[i].key < viols[j].key
	})
	for i, v := range viols {
		if i >= 5 {
			break
		}
		r.Violation(v.key, v.detail)
	}

	sort.Slice(samps, func(i, j int) bool {
		a, b := samps[i], samps[j]
		if a["family"] != b["family"] {
			return a["family"].(string) < b["family"].(string)
		}
		return a["config"].(string)+a["chain"].(string) < b["config"].(string)+b["chain"].(string)
	})
	for i, sp := range samps {
		if i%(len(samps)/5+1) == 0 {
			r.Sample(sp)
		}
	}

	r.Assumptions = []string{
		"MemDB is the backing store (DB back-ends are covered by C29)",
		"validator updates use three fixed ed25519 keys; consensus-param changes toggle Block.MaxGas",
		"with the checkpoint interval scaled by the build overlay the code is unchanged except for the value of the constant; the real value is explored separately with initial heights next to the real checkpoint (and by a 100003-block chain in thorough)",
	}
	r.Finish("all chains up to the given length over the per-block alphabets (state store: 5 events per block; block store: 6 block shapes), depth-first over the chain tree on cloned MemDBs; after every block every loader is compared for every height; a state is distinct when the DB contents are new",
		!r.Capped() && !anyViol.Load(), map[string]any{
			"states": nStates.Load(), "transitions": nTrans.Load(), "traces_validated_against_impl": nTrans.Load(),
			"depth": depths, "loader_calls": nLoads.Load(), "checkpoint_intervals": append(append([]int64{}, intervals...), def),
			"state_store_initial_heights_scaled": initials, "state_store_initial_heights_real": realInit, "block_store_first_heights": []int64{1, 7},
		})
}
