// C30: tm2/pkg/iavl is a correct versioned, provable map.
//
// Model checking = breadth-first enumeration of ALL operation sequences (up to a depth, from a few seed
// histories) over the alphabet {Set k, Remove k, SaveVersion, Rollback, Load, LoadVersion v, DeleteVersionsTo v,
// Reopen, LoadVersionForOverwriting v, DeleteVersionsFrom v} executed on the REAL MutableTree over a MemDB, with de-duplication on a canonical digest of
// (database contents, in-memory tree state, model state).  Every trace is replayed from scratch, so observations
// never perturb the explored transition system.  Oracle: a per-version sorted-map model (reads, iterators, index
// API, version bookkeeping, immutability of saved versions), structural invariants (AVL balance, height/size
// fields, BST order, independently recomputed node hashes), differential equality of all results/hashes across
// configurations (node cache 0 / 2 / large, fast storage on/off, reopen after every save, reads after every op),
// and ics23 existence / non-existence proofs that must verify iff true and fail under single-bit mutations.
package main

import (
	"bytes"
	"crypto/sha256"
	"encoding/binary"
	"encoding/hex"
	"fmt"
	"sort"
	"strings"
	"sync"
	"sync/atomic"
	"time"

	ics23 "github.com/cosmos/ics23/go"
	"github.com/gnolang/gno/tm2/pkg/db/memdb"
	"github.com/gnolang/gno/tm2/pkg/iavl"
	"verif/engine/vk"
)

var r *vk.Run

// ---------------------------------------------------------------- alphabet

var (
	keys     []string // settable keys
	universe []string // settable keys + probe keys that are never inserted (below / between / above)
	maxV     int64    // versions are bounded: SaveVersion is disabled once it would create a version > maxV
)

const (
	kSet = iota
	kRemove
	kSave
	kRollback
	kLoad
	kLoadV
	kDelTo
	kReopen
	kLoadOW  // LoadVersionForOverwriting(v): versions above v disappear, the working tree becomes v
	kDelFrom // DeleteVersionsFrom(v): versions >= v disappear (only while the working tree is based on an older version)
)

type Op struct {
	Kind int
	Arg  int64
}

func (o Op) String() string {
	switch o.Kind {
	case kSet:
		return "Set(" + keys[o.Arg] + ")"
	case kRemove:
		return "Remove(" + keys[o.Arg] + ")"
	case kSave:
		return "Save"
	case kRollback:
		return "Rollback"
	case kLoad:
		return "Load"
	case kLoadV:
		return fmt.Sprintf("LoadVersion(%d)", o.Arg)
	case kDelTo:
		return fmt.Sprintf("DelTo(%d)", o.Arg)
	case kReopen:
		return "Reopen"
	case kLoadOW:
		return fmt.Sprintf("LoadOW(%d)", o.Arg)
	case kDelFrom:
		return fmt.Sprintf("DelFrom(%d)", o.Arg)
	}
	return "?"
}

var alphabet []Op

const battery = 255 // pseudo op: every operation the model says is a no-op / must fail in this state, in sequence

func traceString(t []uint8) string {
	s := make([]string, len(t))
	for i, c := range t {
		if c == battery {
			s[i] = "NoopBattery"
		} else {
			s[i] = alphabet[c].String()
		}
	}
	return strings.Join(s, ",")
}

// ---------------------------------------------------------------- model

type Model struct {
	saved               map[int64]map[string]string
	hashes              map[int64]string
	first, latest, base int64
	working             map[string]string
	dirty               bool
	epoch               int // number of roll-backs that deleted versions (makes values of re-written versions distinct)
	dead                map[int64]map[string]string // contents of deleted versions (only to recognise the zombie-version defect class)
}

func newModel() *Model {
	return &Model{saved: map[int64]map[string]string{}, hashes: map[int64]string{}, working: map[string]string{}, dead: map[int64]map[string]string{}}
}

func cp(m map[string]string) map[string]string {
	o := make(map[string]string, len(m))
	for k, v := range m {
		o[k] = v
	}
	return o
}

func mapEq(a, b map[string]string) bool {
	if len(a) != len(b) {
		return false
	}
	for k, v := range a {
		if w, ok := b[k]; !ok || w != v {
			return false
		}
	}
	return true
}

func mapStr(m map[string]string) string {
	ks := sortedKeys(m)
	var b strings.Builder
	for _, k := range ks {
		b.WriteString(k + "=" + m[k] + " ")
	}
	return b.String()
}

func sortedKeys(m map[string]string) []string {
	ks := make([]string, 0, len(m))
	for k := range m {
		ks = append(ks, k)
	}
	sort.Strings(ks)
	return ks
}

func (m *Model) extant(v int64) bool { return m.first > 0 && v >= m.first && v <= m.latest }

func (m *Model) digest() string {
	var b strings.Builder
	fmt.Fprintf(&b, "f=%d l=%d b=%d d=%v e=%d w={%s}", m.first, m.latest, m.base, m.dirty, m.epoch, mapStr(m.working))
	for v := m.first; v > 0 && v <= m.latest; v++ {
		fmt.Fprintf(&b, " %d:{%s}#%s", v, mapStr(m.saved[v]), m.hashes[v])
	}
	return b.String()
}

// enabled returns the indices of the alphabet operations that are real transitions in this model state; everything
// else (removing an absent key, loading a non-existent version, ...) is exercised by the no-op battery.
func (m *Model) enabled() []uint8 {
	var out []uint8
	for i, o := range alphabet {
		ok := false
		switch o.Kind {
		case kSet, kReopen:
			ok = true
		case kRemove:
			_, ok = m.working[keys[o.Arg]]
		case kSave:
			ok = m.base+1 <= maxV
		case kRollback:
			ok = m.dirty
		case kLoad:
			ok = m.latest > 0
		case kLoadV:
			ok = m.extant(o.Arg)
		case kDelTo:
			// deleting the version the working tree is based on is outside the documented contract
			ok = m.extant(o.Arg) && o.Arg < m.base
		case kLoadOW:
			// on the latest version it deletes nothing and is LoadVersion(latest)
			ok = m.extant(o.Arg) && o.Arg < m.latest
		case kDelFrom:
			// deleting the version the working tree is based on (or an older one) leaves the in-memory tree pointing at
			// deleted nodes: outside the contract (LoadVersionForOverwriting is the API for that). Only on a clean tree,
			// so that the reload the fast-storage configurations need afterwards (see fastDelFromCheck) changes nothing.
			ok = m.extant(o.Arg) && o.Arg > m.base && !m.dirty
		}
		if ok {
			out = append(out, uint8(i))
		}
	}
	return append(out, battery)
}

type noop struct {
	name string
	run  func(e *Exec) string // returns "" or a complaint
}

func (m *Model) batteryOps() []noop {
	var out []noop
	for _, k := range keys {
		if _, ok := m.working[k]; !ok {
			k := k
			out = append(out, noop{"Remove(" + k + ")", func(e *Exec) string {
				v, rem, err := e.tree.Remove([]byte(k))
				if err != nil || rem || v != nil {
					return fmt.Sprintf("Remove of absent key returned (%q,%v,%v)", v, rem, err)
				}
				return ""
			}})
		}
	}
	if !m.dirty {
		out = append(out, noop{"Rollback", func(e *Exec) string { e.tree.Rollback(); return "" }})
	}
	if m.latest == 0 {
		out = append(out, noop{"Load", func(e *Exec) string {
			v, err := e.tree.Load()
			if err != nil || v != 0 {
				return fmt.Sprintf("Load on a store without versions returned (%d,%v)", v, err)
			}
			return ""
		}})
	}
	for v := int64(1); v <= maxV+1; v++ {
		if !m.extant(v) {
			v := v
			out = append(out, noop{fmt.Sprintf("LoadVersion(%d)", v), func(e *Exec) string {
				_, err := e.tree.LoadVersion(v)
				if err == nil {
					return "LoadVersion of a non-existent version succeeded"
				}
				return ""
			}})
		}
	}
	for v := int64(1); v <= maxV+1; v++ {
		v := v
		if !m.extant(v) {
			out = append(out, noop{fmt.Sprintf("LoadOW(%d)", v), func(e *Exec) string {
				if err := e.tree.LoadVersionForOverwriting(v); err == nil {
					return "LoadVersionForOverwriting of a non-existent version succeeded"
				}
				return ""
			}})
		}
		if v > m.latest {
			out = append(out, noop{fmt.Sprintf("DelFrom(%d)", v), func(e *Exec) string {
				if err := e.tree.DeleteVersionsFrom(v); err != nil {
					return "DeleteVersionsFrom(> latest) failed: " + err.Error()
				}
				return ""
			}})
		}
	}
	for v := int64(0); v <= m.latest+1; v++ {
		v := v
		switch {
		case v >= m.latest:
			out = append(out, noop{fmt.Sprintf("DelTo(%d)", v), func(e *Exec) string {
				if err := e.tree.DeleteVersionsTo(v); err == nil {
					return "DeleteVersionsTo(>= latest) succeeded"
				}
				return ""
			}})
		case v < m.first:
			out = append(out, noop{fmt.Sprintf("DelTo(%d)", v), func(e *Exec) string {
				if err := e.tree.DeleteVersionsTo(v); err != nil {
					return "DeleteVersionsTo(< first) failed: " + err.Error()
				}
				return ""
			}})
		}
	}
	return out
}

// ---------------------------------------------------------------- execution on the real tree

type Cfg struct {
	Name            string
	Cache           int
	SkipFast        bool
	ReopenAfterSave bool
	ObserveEach     bool
}

var cfgs = []Cfg{
	{Name: "A:cache=1000,nofast", Cache: 1000, SkipFast: true},
	{Name: "B:cache=0,nofast", Cache: 0, SkipFast: true},
	{Name: "C:cache=1000,fast", Cache: 1000, SkipFast: false},
	{Name: "D:cache=2,fast,reopen-after-save,read-after-every-op", Cache: 2, SkipFast: false, ReopenAfterSave: true, ObserveEach: true},
}

type Viol struct {
	Kind, Cfg, Trace, Detail string
}

func (v Viol) key() string { return v.Kind + "|" + v.Cfg + "|" + v.Trace }

type Exec struct {
	c     Cfg
	db    *memdb.MemDB
	tree  *iavl.MutableTree
	m     *Model
	nops  int64
	trace []uint8 // executed so far
	viols []Viol  // problems found while executing the LAST op (earlier ones were reported at shallower depth)
	res   string  // canonical result of the last op (compared across configurations)
	// reference AVL+ shape model (rotation census, configuration A only)
	shCur   *sn
	shSaved map[int64]*sn
	census  map[string]int // rebalancing cases triggered by the last op
	workShape string
}

func newExec(c Cfg) *Exec {
	e := &Exec{c: c, db: memdb.NewMemDB(), m: newModel(), shSaved: map[int64]*sn{}}
	e.tree = iavl.NewMutableTree(e.db, c.Cache, c.SkipFast, iavl.NewNopLogger())
	return e
}

func (e *Exec) bad(kind, format string, a ...any) {
	e.viols = append(e.viols, Viol{Kind: kind, Cfg: e.c.Name, Trace: traceString(e.trace), Detail: fmt.Sprintf(format, a...)})
}

// valueFor: values are unique per (key, version, incarnation of that version): a version number that is written
// again after a roll-back (DeleteVersionsFrom / LoadVersionForOverwriting) gets different values.
func valueFor(k string, ver int64, epoch int) string {
	if epoch == 0 {
		return fmt.Sprintf("%s@%d", k, ver)
	}
	return fmt.Sprintf("%s@%d~%d", k, ver, epoch)
}

func (e *Exec) reopen() (int64, error) {
	e.tree = iavl.NewMutableTree(e.db, e.c.Cache, e.c.SkipFast, iavl.NewNopLogger())
	return e.tree.Load()
}

// step executes one alphabet operation on the real tree, checks its result against the model and advances the model.
func (e *Exec) step(idx uint8) {
	e.trace = append(e.trace, idx)
	e.viols = e.viols[:0]
	e.res = ""
	e.census = map[string]int{}
	if rec := vk.Catch(func() { e.step1(idx) }); rec != nil {
		e.bad("panic", "%v", rec)
		e.res = "panic"
	}
	if e.c.ObserveEach && len(e.viols) == 0 {
		if rec := vk.Catch(func() { e.lightReads() }); rec != nil {
			e.bad("panic-in-read", "%v", rec)
		}
	}
}

func (e *Exec) step1(idx uint8) {
	m := e.m
	if idx == battery {
		var names []string
		for _, n := range m.batteryOps() {
			if n.name == "Load" && !e.c.SkipFast && m.dirty {
				names = append(names, n.name)
				continue // see dirtyLoadFastCheck (Load on a never-saved tree with uncommitted changes, fast storage)
			}
			e.nops++
			if c := n.run(e); c != "" {
				e.viols = append(e.viols, Viol{Kind: "noop-op-wrong-result", Cfg: e.c.Name,
					Trace: traceString(e.trace[:len(e.trace)-1]) + ",[noop]" + n.name, Detail: c})
			}
			names = append(names, n.name)
		}
		e.res = "battery:" + strings.Join(names, ";")
		return
	}
	e.nops++
	op := alphabet[idx]
	switch op.Kind {
	case kSet:
		k := keys[op.Arg]
		val := valueFor(k, m.base+1, m.epoch)
		_, existed := m.working[k]
		upd, err := e.tree.Set([]byte(k), []byte(val))
		if err != nil {
			e.bad("set-error", "%v", err)
		} else if upd != existed {
			e.bad("set-updated-flag", "updated=%v but key present in model=%v", upd, existed)
		}
		m.working[k] = val
		m.dirty = true
		e.shCur, _ = sset(e.shCur, k, e.census)
		e.res = fmt.Sprintf("set:%v:%v", upd, err != nil)
	case kRemove:
		k := keys[op.Arg]
		old, existed := m.working[k]
		v, rem, err := e.tree.Remove([]byte(k))
		if err != nil {
			e.bad("remove-error", "%v", err)
		} else if rem != existed || string(v) != old {
			e.bad("remove-result", "got (%q,%v) want (%q,%v)", v, rem, old, existed)
		}
		delete(m.working, k)
		m.dirty = true
		if e.shCur != nil {
			if res, _, rem := sremove(e.shCur, k, e.census); rem {
				e.shCur = res
			}
		}
		e.res = fmt.Sprintf("remove:%q:%v:%v", v, rem, err != nil)
	case kSave:
		want := m.base + 1
		var wh []byte
		if e.c.ObserveEach {
			wh = e.tree.WorkingHash()
		}
		h, ver, err := e.tree.SaveVersion()
		hx := hex.EncodeToString(h)
		if m.extant(want) {
			// saving on top of an already existing version: allowed only as an idempotent no-op
			if err == nil {
				if !mapEq(m.working, m.saved[want]) {
					e.bad("save-overwrote-existing-version", "version %d saved again with different contents {%s} vs {%s}", want, mapStr(m.working), mapStr(m.saved[want]))
				} else if hx != m.hashes[want] || ver != want {
					e.bad("save-idempotent-hash", "version %d: got (%s,%d) want hash %s", want, hx, ver, m.hashes[want])
				}
				m.base = want
				m.working = cp(m.saved[want])
				m.dirty = false
				e.shCur = e.shSaved[want]
				e.res = "save:idem:" + hx
			} else {
				e.res = "save:refused"
			}
		} else {
			if err != nil {
				e.bad("save-error", "%v", err)
				e.res = "save:err"
				break
			}
			if ver != want {
				e.bad("save-version", "got version %d want %d", ver, want)
			}
			if wh != nil && !bytes.Equal(wh, h) {
				e.bad("working-hash-differs-from-saved-hash", "WorkingHash %x, SaveVersion %x", wh, h)
			}
			m.saved[want] = cp(m.working)
			m.hashes[want] = hx
			m.latest = want
			if m.first == 0 {
				m.first = want
			}
			m.base = want
			m.dirty = false
			e.shSaved[want] = e.shCur
			e.res = "save:new:" + hx
		}
		if err == nil && e.c.ReopenAfterSave {
			e.tree = iavl.NewMutableTree(e.db, e.c.Cache, e.c.SkipFast, iavl.NewNopLogger())
			if _, err := e.tree.LoadVersion(m.base); err != nil {
				e.bad("reopen-after-save-failed", "LoadVersion(%d): %v", m.base, err)
			}
		}
	case kRollback:
		e.tree.Rollback()
		if m.base > 0 {
			m.working = cp(m.saved[m.base])
		} else {
			m.working = map[string]string{}
		}
		m.dirty = false
		e.shCur = e.shSaved[m.base]
		e.res = "rollback"
	case kLoad, kLoadV:
		target := op.Arg
		if op.Kind == kLoad {
			target = 0
		}
		t := target
		if t == 0 {
			t = m.latest
		}
		if !e.c.SkipFast && m.dirty && m.extant(t) {
			// Fast-storage mode only: LoadVersion replaces the tree but keeps the unsaved fast-node additions/removals of the
			// discarded working tree (reported once, with a stable key, by dirtyLoadFastCheck). To keep exploring behind that
			// defect the fast configurations discard the working changes explicitly first.
			e.tree.Rollback()
		}
		got, err := e.tree.LoadVersion(target)
		switch {
		case m.latest == 0 && target == 0:
			if err != nil || got != 0 {
				e.bad("load-empty", "got (%d,%v)", got, err)
			}
		case !m.extant(t):
			if err == nil {
				e.bad("load-nonexistent-succeeded", "LoadVersion(%d) returned %d", target, got)
			}
		default:
			if err != nil {
				e.bad("load-error", "LoadVersion(%d): %v", target, err)
			} else if got != m.latest {
				e.bad("load-return", "LoadVersion(%d) returned %d want latest %d", target, got, m.latest)
			}
			m.base = t
			m.working = cp(m.saved[t])
			m.dirty = false
			e.shCur = e.shSaved[t]
		}
		e.res = fmt.Sprintf("load:%d:%v", got, err != nil)
	case kDelTo:
		err := e.tree.DeleteVersionsTo(op.Arg)
		if err != nil {
			e.bad("delete-versions-error", "%v", err)
		}
		for v := m.first; v <= op.Arg; v++ {
			m.dead[v] = m.saved[v]
			delete(m.saved, v)
			delete(m.hashes, v)
		}
		m.first = op.Arg + 1
		e.res = fmt.Sprintf("del:%v", err != nil)
	case kLoadOW, kDelFrom:
		// Roll-back by deletion of the newest versions. Every key of the working tree and of every version is read
		// through the tree before (so that nodes of the versions about to disappear sit in the node cache, if any)
		// and after the operation, in every configuration.
		e.readEverything("before")
		if !e.c.SkipFast && m.dirty && op.Kind == kLoadOW {
			e.tree.Rollback() // same side-step as for LoadVersion (see dirtyLoadFastCheck)
		}
		var err error
		from := op.Arg
		if op.Kind == kLoadOW {
			err = e.tree.LoadVersionForOverwriting(op.Arg)
			from = op.Arg + 1
		} else {
			err = e.tree.DeleteVersionsFrom(op.Arg)
			if err == nil && !e.c.SkipFast {
				// Fast-storage mode only: DeleteVersionsFrom leaves the fast-node index of the deleted latest version in place
				// ("it'll be rebuilt later because of version mismatch", nodedb.go) while reads of the new latest version trust
				// it (reported by fastDelFromCheck). The fast configurations reload the new latest version, which rebuilds the
				// index from it (a reload of an OLDER version would rebuild the "latest" index from that older version).
				if _, err = e.tree.Load(); err == nil && m.base != op.Arg-1 {
					_, err = e.tree.LoadVersion(m.base)
				}
			}
		}
		if err != nil {
			e.bad("rollback-versions-error", "%s: %v", op, err)
			e.res = "rollback-versions:err"
			break
		}
		if from <= m.latest {
			for v := from; v <= m.latest; v++ {
				delete(m.saved, v)
				delete(m.hashes, v)
				delete(e.shSaved, v)
			}
			m.latest = from - 1
			m.epoch++
		}
		if op.Kind == kLoadOW {
			m.base = op.Arg
			m.working = cp(m.saved[op.Arg])
			m.dirty = false
			e.shCur = e.shSaved[op.Arg]
		}
		e.readEverything("after")
		e.res = fmt.Sprintf("rollback-versions:%d", m.latest)
	case kReopen:
		got, err := e.reopen()
		if err != nil || got != m.latest {
			e.bad("reopen-load", "Load returned (%d,%v) want %d", got, err, m.latest)
		}
		m.base = m.latest
		if m.latest > 0 {
			m.working = cp(m.saved[m.latest])
		} else {
			m.working = map[string]string{}
		}
		m.dirty = false
		e.shCur = e.shSaved[m.base]
		e.res = fmt.Sprintf("reopen:%d:%v", got, err != nil)
	}
}

// readEverything reads every key of the universe in the working tree and, by tree traversal (GetWithIndex never
// takes the fast-node short cut), in every extant version, and compares with the model.
func (e *Exec) readEverything(when string) {
	m := e.m
	nReadsAround.Add(1)
	for _, k := range universe {
		v, err := e.tree.Get([]byte(k))
		if err != nil || string(v) != m.working[k] {
			e.bad("contents-differ-from-model", "%s roll-back: working Get(%s)=(%q,%v) want %q", when, k, v, err, m.working[k])
		}
	}
	for v := int64(1); v <= maxV+1; v++ {
		it, err := e.tree.GetImmutable(v)
		if !m.extant(v) {
			if err == nil {
				e.bad("deleted-or-future-version-readable", "%s roll-back: GetImmutable(%d) succeeded", when, v)
			}
			continue
		}
		if err != nil {
			e.bad("version-unreadable", "%s roll-back: GetImmutable(%d): %v", when, v, err)
			continue
		}
		for _, k := range universe {
			_, val, err := it.GetWithIndex([]byte(k))
			if err != nil || string(val) != m.saved[v][k] {
				e.bad("contents-differ-from-model", "%s roll-back: version %d GetWithIndex(%s)=(%q,%v) want %q", when, v, k, val, err, m.saved[v][k])
			}
			val, err = it.Get([]byte(k))
			if err != nil || string(val) != m.saved[v][k] {
				e.bad("contents-differ-from-model", "%s roll-back: version %d Get(%s)=(%q,%v) want %q", when, v, k, val, err, m.saved[v][k])
			}
		}
	}
}

// lightReads: configuration D reads the working tree and every extant version after every operation, so that
// caches are populated/evicted differently from configuration A (reads must be transparent).
func (e *Exec) lightReads() {
	m := e.m
	for _, k := range universe {
		v, err := e.tree.Get([]byte(k))
		if err != nil || string(v) != m.working[k] {
			e.bad("read-working-get", "Get(%s)=(%q,%v) want %q", k, v, err, m.working[k])
		}
	}
	e.checkIter("working", func() (iter, error) { return e.tree.Iterator(nil, nil, true) }, m.working, "", "", true, false)
	for v := m.first; v > 0 && v <= m.latest; v++ {
		it, err := e.tree.GetImmutable(v)
		if err != nil {
			e.bad("version-unreadable", "GetImmutable(%d): %v", v, err)
			continue
		}
		e.checkIter(fmt.Sprintf("v%d", v), func() (iter, error) { return it.Iterator(nil, nil, false) }, m.saved[v], "", "", false, false)
	}
}

type iter interface {
	Valid() bool
	Next()
	Key() []byte
	Value() []byte
	Close() error
	Error() error
}

func expectRange(m map[string]string, start, end string, asc, inclusive bool) []string {
	var out []string
	for _, k := range sortedKeys(m) {
		if start != "" && k < start {
			continue
		}
		if end != "" && (k > end || (k == end && !inclusive)) {
			continue
		}
		out = append(out, k+"="+m[k])
	}
	if !asc {
		for i, j := 0, len(out)-1; i < j; i, j = i+1, j-1 {
			out[i], out[j] = out[j], out[i]
		}
	}
	return out
}

func bz(s string) []byte {
	if s == "" {
		return nil
	}
	return []byte(s)
}

func (e *Exec) checkIter(what string, mk func() (iter, error), m map[string]string, start, end string, asc, inclusive bool) {
	it, err := mk()
	if err != nil {
		e.bad("iterator-error", "%s [%q,%q) asc=%v: %v", what, start, end, asc, err)
		return
	}
	var got []string
	for n := 0; it.Valid() && n < 64; n++ {
		got = append(got, string(it.Key())+"="+string(it.Value()))
		it.Next()
	}
	ierr := it.Error()
	it.Close()
	want := expectRange(m, start, end, asc, inclusive)
	if ierr != nil || strings.Join(got, " ") != strings.Join(want, " ") {
		e.bad("iteration-differs-from-model", "%s [%q,%q) asc=%v: got %v (err %v) want %v", what, start, end, asc, got, ierr, want)
	}
}

func (e *Exec) checkCallbackRange(what string, run func(cb func(k, v []byte) bool), m map[string]string, start, end string, asc, inclusive bool) {
	var got []string
	run(func(k, v []byte) bool {
		got = append(got, string(k)+"="+string(v))
		return len(got) > 64
	})
	want := expectRange(m, start, end, asc, inclusive)
	if strings.Join(got, " ") != strings.Join(want, " ") {
		e.bad("iteration-differs-from-model", "%s [%q,%q incl=%v asc=%v: got %v want %v", what, start, end, inclusive, asc, got, want)
	}
}

// ---------------------------------------------------------------- structural invariants

func putVarint(h *bytes.Buffer, v int64) {
	var b [binary.MaxVarintLen64]byte
	h.Write(b[:binary.PutVarint(b[:], v)])
}

func putBytes(h *bytes.Buffer, bs []byte) {
	var b [binary.MaxVarintLen64]byte
	h.Write(b[:binary.PutUvarint(b[:], uint64(len(bs)))])
	h.Write(bs)
}

// checkStruct verifies the AVL+ invariants below n and recomputes the Merkle hash independently.
func checkStruct(n *iavl.VNode, workingVersion int64, shape *strings.Builder) (hash []byte, min, max string, height int, size int64, problem string) {
	ver := workingVersion
	if n.Saved {
		ver = n.Version
	}
	var buf bytes.Buffer
	if n.Left == nil && n.Right == nil {
		if n.Height != 0 || n.Size != 1 || n.Value == nil {
			return nil, "", "", 0, 0, fmt.Sprintf("leaf %q has height=%d size=%d value-nil=%v", n.Key, n.Height, n.Size, n.Value == nil)
		}
		putVarint(&buf, 0)
		putVarint(&buf, 1)
		putVarint(&buf, ver)
		putBytes(&buf, n.Key)
		vh := sha256.Sum256(n.Value)
		putBytes(&buf, vh[:])
		s := sha256.Sum256(buf.Bytes())
		if n.Hash != nil && !bytes.Equal(n.Hash, s[:]) {
			return nil, "", "", 0, 0, fmt.Sprintf("leaf %q: stored hash differs from recomputed hash", n.Key)
		}
		shape.WriteString(".")
		return s[:], string(n.Key), string(n.Key), 0, 1, ""
	}
	if n.Left == nil || n.Right == nil {
		return nil, "", "", 0, 0, fmt.Sprintf("inner node %q with one child", n.Key)
	}
	shape.WriteString("(")
	lh, lmin, lmax, lht, lsz, p := checkStruct(n.Left, workingVersion, shape)
	if p != "" {
		return nil, "", "", 0, 0, p
	}
	rh, rmin, rmax, rht, rsz, p := checkStruct(n.Right, workingVersion, shape)
	if p != "" {
		return nil, "", "", 0, 0, p
	}
	shape.WriteString(")")
	ht := lht
	if rht > ht {
		ht = rht
	}
	ht++
	if int(n.Height) != ht {
		return nil, "", "", 0, 0, fmt.Sprintf("inner %q: height field %d, real %d", n.Key, n.Height, ht)
	}
	if n.Size != lsz+rsz {
		return nil, "", "", 0, 0, fmt.Sprintf("inner %q: size field %d, real %d", n.Key, n.Size, lsz+rsz)
	}
	if d := lht - rht; d > 1 || d < -1 {
		return nil, "", "", 0, 0, fmt.Sprintf("inner %q: AVL balance factor %d", n.Key, d)
	}
	if !(lmax < string(n.Key) && string(n.Key) <= rmin) {
		return nil, "", "", 0, 0, fmt.Sprintf("inner %q: search-tree order broken (left max %q, right min %q)", n.Key, lmax, rmin)
	}
	putVarint(&buf, int64(ht))
	putVarint(&buf, n.Size)
	putVarint(&buf, ver)
	putBytes(&buf, lh)
	putBytes(&buf, rh)
	s := sha256.Sum256(buf.Bytes())
	if n.Hash != nil && !bytes.Equal(n.Hash, s[:]) {
		return nil, "", "", 0, 0, fmt.Sprintf("inner %q: stored hash differs from recomputed hash", n.Key)
	}
	return s[:], lmin, rmax, ht, lsz + rsz, ""
}

var emptyHash = func() []byte { s := sha256.Sum256(nil); return s[:] }()

// ---------------------------------------------------------------- full observation of one state

var (
	seenRangeMatrix sync.Map // cfg|kind|roothash|contents -> done (range matrices are a function of the immutable tree)
	seenProof       sync.Map // roothash|key -> done
	nProofs         atomic.Int64
	nBitflips       atomic.Int64
	nRangeIters     atomic.Int64
	nReads          atomic.Int64
	nReadsAround    atomic.Int64 // full read passes before/after a roll-back operation
	shapes          sync.Map
	nShapes         atomic.Int64
	maxHeight       atomic.Int64
)

// readTree checks every read API of one (immutable view of a) tree against the expected contents.
func (e *Exec) readTree(what string, t *iavl.ImmutableTree, want map[string]string, wantHash []byte, workingVersion int64, fullMatrix bool) (shapeStr string) {
	// structure
	root, err := iavl.VerifWalk(t)
	if err != nil {
		e.bad("tree-unreadable", "%s: %v", what, err)
		return
	}
	var shape strings.Builder
	defer func() { shapeStr = shape.String() }()
	if root == nil {
		if len(want) != 0 {
			e.bad("contents-differ-from-model", "%s: empty tree, want {%s}", what, mapStr(want))
		}
		if wantHash != nil && !bytes.Equal(wantHash, emptyHash) {
			e.bad("root-hash", "%s: empty tree hash %x", what, wantHash)
		}
	} else {
		h, _, _, ht, _, p := checkStruct(root, workingVersion, &shape)
		if p != "" {
			e.bad("structure-invariant", "%s: %s", what, p)
			return
		}
		if wantHash != nil && !bytes.Equal(h, wantHash) {
			e.bad("root-hash-not-merkle-hash-of-tree", "%s: reported %x recomputed %x", what, wantHash, h)
		}
		if int64(ht) > maxHeight.Load() {
			maxHeight.Store(int64(ht))
		}
		if _, l := shapes.LoadOrStore(shape.String(), true); !l {
			nShapes.Add(1)
		}
	}
	if t.Size() != int64(len(want)) {
		e.bad("contents-differ-from-model", "%s: Size()=%d want %d", what, t.Size(), len(want))
	}
	sk := sortedKeys(want)
	for _, k := range universe {
		nReads.Add(1)
		wv, present := want[k]
		has, err := t.Has([]byte(k))
		if err != nil || has != present {
			e.bad("contents-differ-from-model", "%s: Has(%s)=(%v,%v) want %v", what, k, has, err, present)
		}
		rank := int64(sort.SearchStrings(sk, k))
		idx, v, err := t.GetWithIndex([]byte(k))
		if err != nil || idx != rank || string(v) != wv || (v == nil) == present {
			e.bad("contents-differ-from-model", "%s: GetWithIndex(%s)=(%d,%q,%v) want (%d,%q)", what, k, idx, v, err, rank, wv)
		}
	}
	for i := int64(0); i <= int64(len(sk)); i++ {
		k, v, err := t.GetByIndex(i)
		wk, wv := "", ""
		if i < int64(len(sk)) {
			wk, wv = sk[i], want[sk[i]]
		}
		if err != nil || string(k) != wk || string(v) != wv {
			e.bad("contents-differ-from-model", "%s: GetByIndex(%d)=(%q,%q,%v) want (%q,%q)", what, i, k, v, err, wk, wv)
		}
	}
	e.checkCallbackRange(what+" IterateRange", func(cb func(k, v []byte) bool) { t.IterateRange(nil, nil, true, cb) }, want, "", "", true, false)
	if fullMatrix {
		bounds := append([]string{""}, universe...)
		for _, s := range bounds {
			for _, en := range bounds {
				for _, asc := range []bool{true, false} {
					nRangeIters.Add(2)
					s, en, asc := s, en, asc
					e.checkCallbackRange(what+" IterateRange", func(cb func(k, v []byte) bool) { t.IterateRange(bz(s), bz(en), asc, cb) }, want, s, en, asc, false)
					if what == "working" {
						// version-reporting variant dereferences nodeKey, which unsaved nodes do not have; the inner
						// ImmutableTree of a MutableTree "should not be used directly by callers" (doc), so only saved versions
						continue
					}
					e.checkCallbackRange(what+" IterateRangeInclusive", func(cb func(k, v []byte) bool) {
						t.IterateRangeInclusive(bz(s), bz(en), asc, func(k, v []byte, _ int64) bool { return cb(k, v) })
					}, want, s, en, asc, true)
				}
			}
		}
	}
	return
}

// iterMatrix checks Iterator(start,end,asc) for every pair of bounds.
func (e *Exec) iterMatrix(what string, mk func(s, en []byte, asc bool) (iter, error), want map[string]string, full bool) {
	bounds := []string{""}
	if full {
		bounds = append(bounds, universe...)
	}
	for _, s := range bounds {
		for _, en := range bounds {
			for _, asc := range []bool{true, false} {
				nRangeIters.Add(1)
				s, en, asc := s, en, asc
				e.checkIter(what+" Iterator", func() (iter, error) { return mk(bz(s), bz(en), asc) }, want, s, en, asc, false)
			}
		}
	}
}

// observe checks the whole visible state against the model; returns a summary compared across configurations.
func (e *Exec) observe() string {
	e.viols = e.viols[:0]
	var sum strings.Builder
	if rec := vk.Catch(func() { e.observe1(&sum) }); rec != nil {
		e.bad("panic-in-read", "%v", rec)
	}
	return sum.String()
}

func (e *Exec) observe1(sum *strings.Builder) {
	m := e.m
	t := e.tree
	// version bookkeeping
	if t.Version() != m.base {
		e.bad("version-bookkeeping", "Version()=%d want %d", t.Version(), m.base)
	}
	if lv, err := t.GetLatestVersion(); err != nil || lv != m.latest {
		e.bad("version-bookkeeping", "GetLatestVersion()=(%d,%v) want %d", lv, err, m.latest)
	}
	for v := int64(0); v <= maxV+1; v++ {
		if t.VersionExists(v) != m.extant(v) {
			e.bad("version-bookkeeping", "VersionExists(%d)=%v want %v", v, !m.extant(v), m.extant(v))
		}
	}
	if m.latest > 0 {
		var want []int
		for v := m.first; v <= m.latest; v++ {
			want = append(want, int(v))
		}
		if got := t.AvailableVersions(); fmt.Sprint(got) != fmt.Sprint(want) {
			e.bad("version-bookkeeping", "AvailableVersions()=%v want %v", got, want)
		}
	}
	if t.IsEmpty() != (len(m.working) == 0) {
		e.bad("contents-differ-from-model", "working IsEmpty()=%v want %v", t.IsEmpty(), len(m.working) == 0)
	}
	// hash of last saved version
	wantLast := emptyHash
	if m.base > 0 {
		wantLast, _ = hex.DecodeString(m.hashes[m.base])
	}
	if h := t.Hash(); !bytes.Equal(h, wantLast) {
		e.bad("saved-version-hash-changed", "MutableTree.Hash()=%x want hash of version %d = %x", h, m.base, wantLast)
	}
	// working tree through the MutableTree API
	for _, k := range universe {
		v, err := t.Get([]byte(k))
		wv, present := m.working[k]
		if err != nil || string(v) != wv || (v == nil) == present {
			e.bad("contents-differ-from-model", "working Get(%s)=(%q,%v) want %q", k, v, err, wv)
		}
	}
	e.checkCallbackRange("working Iterate", func(cb func(k, v []byte) bool) { t.Iterate(cb) }, m.working, "", "", true, false) //nolint
	wh := t.WorkingHash()
	fmt.Fprintf(sum, "w=%x", wh)
	wkey := e.c.Name + "|w|" + hex.EncodeToString(wh) + "|" + mapStr(m.working)
	_, seenW := seenRangeMatrix.LoadOrStore(wkey, true)
	e.iterMatrix("working", func(s, en []byte, asc bool) (iter, error) { return t.Iterator(s, en, asc) }, m.working, !seenW)
	e.workShape = e.readTree("working", t.ImmutableTree, m.working, wh, m.base+1, !seenW)
	// every version
	for v := int64(0); v <= maxV+1; v++ {
		it, err := t.GetImmutable(v)
		if !m.extant(v) {
			if err == nil {
				e.bad("deleted-or-future-version-readable", "GetImmutable(%d) succeeded", v)
			}
			for _, k := range universe {
				if val, _ := t.GetVersioned([]byte(k), v); val != nil {
					e.bad("deleted-or-future-version-readable", "GetVersioned(%s,%d)=%q", k, v, val)
				}
			}
			continue
		}
		if err != nil {
			e.bad("version-unreadable", "GetImmutable(%d): %v", v, err)
			continue
		}
		want := m.saved[v]
		wantHash, _ := hex.DecodeString(m.hashes[v])
		h := it.Hash()
		fmt.Fprintf(sum, " %d=%x", v, h)
		if !bytes.Equal(h, wantHash) {
			e.bad("saved-version-hash-changed", "version %d hash %x, was %x when saved", v, h, wantHash)
		}
		if it.Version() != v {
			e.bad("version-bookkeeping", "GetImmutable(%d).Version()=%d", v, it.Version())
		}
		vkey := e.c.Name + "|v|" + m.hashes[v] + "|" + mapStr(want)
		_, seenV := seenRangeMatrix.LoadOrStore(vkey, true)
		what := fmt.Sprintf("version %d", v)
		e.readTree(what, it, want, h, v, !seenV)
		for _, k := range universe {
			val, err := it.Get([]byte(k))
			if err != nil || string(val) != want[k] {
				e.bad("contents-differ-from-model", "%s Get(%s)=(%q,%v) want %q", what, k, val, err, want[k])
			}
			val, err = t.GetVersioned([]byte(k), v)
			if err != nil || string(val) != want[k] {
				e.bad("contents-differ-from-model", "GetVersioned(%s,%d)=(%q,%v) want %q", k, v, val, err, want[k])
			}
		}
		e.iterMatrix(what, func(s, en []byte, asc bool) (iter, error) { return it.Iterator(s, en, asc) }, want, !seenV)
		if len(want) > 0 && len(e.viols) == 0 {
			e.checkProofs(what, it, want, h)
		}
	}
}

// ---------------------------------------------------------------- proofs

func proofSlices(p *ics23.CommitmentProof) []*[]byte {
	var out []*[]byte
	addE := func(ep *ics23.ExistenceProof) {
		if ep == nil {
			return
		}
		out = append(out, &ep.Key, &ep.Value, &ep.Leaf.Prefix)
		for _, in := range ep.Path {
			out = append(out, &in.Prefix, &in.Suffix)
		}
	}
	if ex := p.GetExist(); ex != nil {
		addE(ex)
	}
	if ne := p.GetNonexist(); ne != nil {
		// ne.Key is an unauthenticated annotation (ics23 verifies the queried key against the two neighbour
		// existence proofs, not against this field), so it is not part of the mutation set
		addE(ne.Left)
		addE(ne.Right)
	}
	return out
}

// bitflips mutates single bits of every byte field of the proof (all bits in thorough, one rotating bit per byte
// in quick) and requires verification to fail.
func (e *Exec) bitflips(what string, p *ics23.CommitmentProof, verify func() bool) {
	for fi, sl := range proofSlices(p) {
		for bi := range *sl {
			for bit := 0; bit < 8; bit++ {
				if r.Quick() && bit != (bi+fi)%8 {
					continue
				}
				(*sl)[bi] ^= 1 << bit
				ok := verify()
				(*sl)[bi] ^= 1 << bit
				nBitflips.Add(1)
				if ok {
					e.bad("mutated-proof-verifies", "%s: flipping bit %d of byte %d of proof field %d still verifies", what, bit, bi, fi)
					return
				}
			}
		}
	}
}

func (e *Exec) checkProofs(what string, it *iavl.ImmutableTree, want map[string]string, root []byte) {
	sk := sortedKeys(want)
	for _, k := range universe {
		pk := hex.EncodeToString(root) + "|" + k
		if _, l := seenProof.LoadOrStore(pk, true); l {
			continue
		}
		nProofs.Add(1)
		val, present := want[k]
		key := []byte(k)
		if present {
			p, err := it.GetMembershipProof(key)
			if err != nil {
				e.bad("membership-proof-unavailable", "%s key %s: %v", what, k, err)
				continue
			}
			if !ics23.VerifyMembership(ics23.IavlSpec, root, p, key, []byte(val)) {
				e.bad("true-membership-proof-rejected", "%s key %s", what, k)
				continue
			}
			if ok, err := it.VerifyMembership(p, key); !ok || err != nil {
				e.bad("true-membership-proof-rejected", "%s key %s by ImmutableTree.VerifyMembership (%v)", what, k, err)
			}
			if ics23.VerifyMembership(ics23.IavlSpec, root, p, key, []byte(val+"x")) {
				e.bad("false-proof-accepted", "%s key %s: wrong value verifies", what, k)
			}
			for _, o := range universe {
				if o != k && ics23.VerifyMembership(ics23.IavlSpec, root, p, []byte(o), []byte(val)) {
					e.bad("false-proof-accepted", "%s: membership proof of %s verifies for %s", what, k, o)
				}
			}
			if ics23.VerifyNonMembership(ics23.IavlSpec, root, p, key) {
				e.bad("false-proof-accepted", "%s: membership proof of %s verifies as non-membership", what, k)
			}
			other := sha256.Sum256(root)
			if ics23.VerifyMembership(ics23.IavlSpec, other[:], p, key, []byte(val)) {
				e.bad("false-proof-accepted", "%s key %s: verifies against another root", what, k)
			}
			if np, err := it.GetNonMembershipProof(key); err == nil {
				e.bad("false-proof-produced", "%s: non-membership proof produced for present key %s: %v", what, k, np)
			}
			if gp, err := it.GetProof(key); err != nil || gp.GetExist() == nil {
				e.bad("membership-proof-unavailable", "%s GetProof(%s): %v", what, k, err)
			}
			e.bitflips(what+" membership("+k+")", p, func() bool { return ics23.VerifyMembership(ics23.IavlSpec, root, p, key, []byte(val)) })
		} else {
			p, err := it.GetNonMembershipProof(key)
			if err != nil {
				e.bad("non-membership-proof-unavailable", "%s key %s: %v", what, k, err)
				continue
			}
			if !ics23.VerifyNonMembership(ics23.IavlSpec, root, p, key) {
				e.bad("true-non-membership-proof-rejected", "%s key %s", what, k)
				continue
			}
			if ok, err := it.VerifyNonMembership(p, key); !ok || err != nil {
				e.bad("true-non-membership-proof-rejected", "%s key %s by ImmutableTree.VerifyNonMembership (%v)", what, k, err)
			}
			// the proof shows the gap between the two neighbours of k: it may verify for o iff o is in the same gap
			i := sort.SearchStrings(sk, k)
			lo, hi := "", "\xff\xff"
			if i > 0 {
				lo = sk[i-1]
			}
			if i < len(sk) {
				hi = sk[i]
			}
			// neighbours named by the proof must be the adjacent ones
			ne := p.GetNonexist()
			if (ne.Left == nil) != (i == 0) || (ne.Right == nil) != (i == len(sk)) ||
				(ne.Left != nil && string(ne.Left.Key) != lo) || (ne.Right != nil && string(ne.Right.Key) != hi) {
				e.bad("non-membership-proof-wrong-neighbours", "%s key %s", what, k)
			}
			for _, o := range universe {
				inGap := o > lo && o < hi
				if got := ics23.VerifyNonMembership(ics23.IavlSpec, root, p, []byte(o)); got != inGap {
					e.bad("false-proof-accepted", "%s: non-membership proof of %s verifies=%v for %s (same gap=%v)", what, k, got, o, inGap)
				}
			}
			if ics23.VerifyMembership(ics23.IavlSpec, root, p, key, []byte("x")) {
				e.bad("false-proof-accepted", "%s: non-membership proof of %s verifies as membership", what, k)
			}
			other := sha256.Sum256(root)
			if ics23.VerifyNonMembership(ics23.IavlSpec, other[:], p, key) {
				e.bad("false-proof-accepted", "%s key %s: verifies against another root", what, k)
			}
			if mp, err := it.GetMembershipProof(key); err == nil {
				e.bad("false-proof-produced", "%s: membership proof produced for absent key %s: %v", what, k, mp)
			}
			if gp, err := it.GetProof(key); err != nil || gp.GetNonexist() == nil {
				e.bad("non-membership-proof-unavailable", "%s GetProof(%s): %v", what, k, err)
			}
			e.bitflips(what+" non-membership("+k+")", p, func() bool { return ics23.VerifyNonMembership(ics23.IavlSpec, root, p, key) })
		}
	}
}

// ---------------------------------------------------------------- reference AVL+ shape model (rotation census only)

type sn struct {
	key  string
	h    int
	l, r *sn
}

func (n *sn) leaf() bool { return n.l == nil }
func (n *sn) fix()       { n.h = max(n.l.h, n.r.h) + 1 }
func (n *sn) clone() *sn { c := *n; return &c }
func (n *sn) shape(b *strings.Builder) {
	if n.leaf() {
		b.WriteString(".")
		return
	}
	b.WriteString("(")
	n.l.shape(b)
	n.r.shape(b)
	b.WriteString(")")
}

func rotR(n *sn) *sn { n = n.clone(); x := n.l.clone(); n.l = x.r; x.r = n; n.fix(); x.fix(); return x }
func rotL(n *sn) *sn { n = n.clone(); x := n.r.clone(); n.r = x.l; x.l = n; n.fix(); x.fix(); return x }

func balance(n *sn, census map[string]int, why string) *sn {
	b := n.l.h - n.r.h
	if b > 1 {
		if n.l.l.h-n.l.r.h >= 0 {
			census["LL-on-"+why]++
			return rotR(n)
		}
		census["LR-on-"+why]++
		n.l = rotL(n.l)
		return rotR(n)
	}
	if b < -1 {
		if n.r.l.h-n.r.r.h <= 0 {
			census["RR-on-"+why]++
			return rotL(n)
		}
		census["RL-on-"+why]++
		n.r = rotR(n.r)
		return rotL(n)
	}
	return n
}

func sset(n *sn, k string, census map[string]int) (*sn, bool) {
	if n == nil {
		return &sn{key: k}, false
	}
	if n.leaf() {
		switch {
		case k < n.key:
			return &sn{key: n.key, h: 1, l: &sn{key: k}, r: n}, false
		case k > n.key:
			return &sn{key: k, h: 1, l: n, r: &sn{key: k}}, false
		}
		return n, true
	}
	n = n.clone()
	var upd bool
	if k < n.key {
		n.l, upd = sset(n.l, k, census)
	} else {
		n.r, upd = sset(n.r, k, census)
	}
	if upd {
		return n, true
	}
	n.fix()
	return balance(n, census, "insert"), false
}

func sremove(n *sn, k string, census map[string]int) (res *sn, newKey string, removed bool) {
	if n.leaf() {
		if n.key == k {
			return nil, "", true
		}
		return n, "", false
	}
	n = n.clone()
	if k < n.key {
		nl, nk, rem := sremove(n.l, k, census)
		if !rem {
			return n, "", false
		}
		if nl == nil {
			return n.r, n.key, true
		}
		n.l = nl
		n.fix()
		return balance(n, census, "remove"), nk, true
	}
	nr, nk, rem := sremove(n.r, k, census)
	if !rem {
		return n, "", false
	}
	if nr == nil {
		return n.l, "", true
	}
	n.r = nr
	if nk != "" {
		n.key = nk
	}
	n.fix()
	return balance(n, census, "remove"), "", true
}

// ---------------------------------------------------------------- exploration

func dbDump(db *memdb.MemDB) []byte {
	h := sha256.New()
	it, _ := db.Iterator(nil, nil)
	for ; it.Valid(); it.Next() {
		var l [8]byte
		binary.BigEndian.PutUint32(l[:4], uint32(len(it.Key())))
		binary.BigEndian.PutUint32(l[4:], uint32(len(it.Value())))
		h.Write(l[:])
		h.Write(it.Key())
		h.Write(it.Value())
	}
	it.Close()
	return h.Sum(nil)
}

func (e *Exec) digest() [32]byte {
	h := sha256.New()
	h.Write(dbDump(e.db))
	h.Write([]byte(iavl.VerifStateDigest(e.tree)))
	h.Write([]byte{0})
	h.Write([]byte(e.m.digest()))
	var out [32]byte
	copy(out[:], h.Sum(nil))
	return out
}

func runTrace(c Cfg, trace []uint8) *Exec {
	e := newExec(c)
	for _, idx := range trace {
		e.step(idx)
	}
	r.EvalN(e.nops)
	return e
}

type entry struct {
	trace   []uint8
	enabled []uint8
}

var (
	violMu sync.Mutex
	viols  []Viol
)

func report(vs []Viol) {
	if len(vs) == 0 {
		return
	}
	violMu.Lock()
	viols = append(viols, vs...)
	violMu.Unlock()
}

func nviol() int { violMu.Lock(); defer violMu.Unlock(); return len(viols) }

type explorer struct {
	seen        map[[32]byte]bool
	transitions int64
	states      int64
	depthDone   map[string]int
	frontiers   map[string][]entry
	census      map[string]int
	censusMu    sync.Mutex
}

// phase1 executes trace+op under every configuration, checks the last step, and returns the digest of the reached state.
func phase1(trace []uint8) (dig [32]byte, ntrans int64, bad bool) {
	var res0 string
	for ci, c := range cfgs {
		e := runTrace(c, trace)
		if len(e.viols) > 0 {
			report(e.viols)
			bad = true
		}
		if ci == 0 {
			if last := trace[len(trace)-1]; last != battery && alphabet[last].Kind == kDelTo && len(e.viols) == 0 {
				// Known defect class (reported once by zombieVersionCheck with a stable key): a deleted version whose root is a
				// single leaf that the next version still references stays present. Such states are not expanded.
				for u := int64(1); u < e.m.first; u++ {
					if _, err := e.tree.GetImmutable(u); err == nil {
						// exactly the known class? one-key version whose leaf (values are unique per key and version) is still
						// part of the oldest surviving version
						known := false
						if d := e.m.dead[u]; len(d) == 1 {
							for k, v := range d {
								known = e.m.saved[e.m.first][k] == v
							}
						}
						if !known {
							report([]Viol{{Kind: "deleted-version-still-readable", Cfg: c.Name, Trace: traceString(trace), Detail: fmt.Sprintf("GetImmutable(%d) succeeds after DeleteVersionsTo", u)}})
						} else {
							r.Outcome("pruned:state-with-undeleted-deleted-version(see zombie-version finding)")
						}
						return dig, 1, true
					}
				}
			}
			res0 = e.res
			dig = e.digest()
			ntrans = 1
			if trace[len(trace)-1] == battery {
				ntrans = int64(strings.Count(e.res, ";") + 1)
			}
		} else if e.res != res0 {
			report([]Viol{{Kind: "result-differs-across-configurations", Cfg: c.Name, Trace: traceString(trace), Detail: fmt.Sprintf("%q vs %q under %s", e.res, res0, cfgs[0].Name)}})
			bad = true
		}
	}
	return
}

// phase2 replays the canonical trace of a new state under every configuration and observes everything.
func (x *explorer) phase2(trace []uint8) (enabled []uint8, bad bool) {
	var sum0 string
	for ci, c := range cfgs {
		e := runTrace(c, trace)
		dg := e.digestBytes()
		sum := e.observe()
		if len(e.viols) > 0 {
			report(e.viols)
			bad = true
		}
		if ci == 0 {
			sum0 = sum
			enabled = e.m.enabled()
			r.Outcome(fmt.Sprintf("state:versions=%d", func() int64 {
				if e.m.first == 0 {
					return 0
				}
				return e.m.latest - e.m.first + 1
			}()))
			if e.m.first > 1 {
				r.Outcome("state:with-pruned-versions")
			}
			if e.m.base < e.m.latest {
				r.Outcome("state:working-on-older-version")
			}
			if e.m.epoch > 0 {
				r.Outcome("state:after-rollback-by-version-deletion")
			}
			r.Distinct(string(dg))
			var ref strings.Builder
			if e.shCur != nil {
				e.shCur.shape(&ref)
			}
			if ref.String() == e.workShape {
				r.Outcome("shape:equals-reference-avl-model")
			} else {
				r.Outcome("shape:differs-from-reference-avl-model(informational)")
			}
			if len(e.census) > 0 {
				x.censusMu.Lock()
				for k, v := range e.census {
					x.census[k] += v
				}
				x.censusMu.Unlock()
			}
		} else if sum != sum0 {
			report([]Viol{{Kind: "hash-differs-across-configurations", Cfg: c.Name, Trace: traceString(trace), Detail: fmt.Sprintf("%s vs %s under %s", sum, sum0, cfgs[0].Name)}})
			bad = true
		}
	}
	return
}

func (e *Exec) digestBytes() []byte { d := e.digest(); return d[:] }

// bfs explores all traces seed+suffix with |suffix| <= depth.
func (x *explorer) bfs(name string, seed []uint8, depth int) {
	frontier := []entry{}
	// the seed state itself
	{
		e := runTrace(cfgs[0], seed)
		d := e.digest()
		if !x.seen[d] {
			x.seen[d] = true
			x.states++
			en, _ := x.phase2(seed)
			frontier = append(frontier, entry{append([]uint8{}, seed...), en})
		} else {
			frontier = append(frontier, entry{append([]uint8{}, seed...), e.m.enabled()})
		}
	}
	x.run(name, frontier, 1, depth)
}

// run continues the BFS of seed `name` from the given frontier for levels from..to (inclusive).
func (x *explorer) run(name string, frontier []entry, from, to int) {
	for lvl := from; lvl <= to && len(frontier) > 0 && nviol() == 0; lvl++ {
		// flatten (entry, op) pairs
		type task struct {
			ei int
			op uint8
		}
		var tasks []task
		for i, en := range frontier {
			for _, op := range en.enabled {
				tasks = append(tasks, task{i, op})
			}
		}
		type cand struct {
			trace []uint8
		}
		const shards = 64
		var mus [shards]sync.Mutex
		var cands [shards]map[[32]byte][]uint8
		for i := range cands {
			cands[i] = map[[32]byte][]uint8{}
		}
		var ntr, done atomic.Int64
		r.ParFor(len(tasks), func(i int) {
			t := tasks[i]
			tr := append(append(make([]uint8, 0, len(frontier[t.ei].trace)+1), frontier[t.ei].trace...), t.op)
			d, n, bad := phase1(tr)
			ntr.Add(n)
			done.Add(1)
			if bad || x.seen[d] {
				return
			}
			s := int(d[0]) % shards
			mus[s].Lock()
			if old, ok := cands[s][d]; !ok || bytes.Compare(tr, old) < 0 {
				cands[s][d] = tr
			}
			mus[s].Unlock()
		})
		x.transitions += ntr.Load()
		if int(done.Load()) < len(tasks) {
			r.MarkCapped()
			x.depthDone[name] = lvl - 1
			return
		}
		var news [][]uint8
		for s := range cands {
			for d, tr := range cands[s] {
				x.seen[d] = true
				news = append(news, tr)
			}
		}
		sort.Slice(news, func(i, j int) bool { return bytes.Compare(news[i], news[j]) < 0 })
		x.states += int64(len(news))
		next := make([]entry, len(news))
		var done2 atomic.Int64
		r.ParFor(len(news), func(i int) {
			en, bad := x.phase2(news[i])
			if bad {
				en = nil
			}
			next[i] = entry{news[i], en}
			done2.Add(1)
		})
		if int(done2.Load()) < len(news) {
			r.MarkCapped()
			x.depthDone[name] = lvl - 1
			return
		}
		x.depthDone[name] = lvl
		fmt.Printf("  [%s] depth %d: frontier %d, transitions so far %d, states so far %d, %.1fs\n", name, lvl, len(news), x.transitions, x.states, time.Since(t0).Seconds())
		frontier = next
		x.frontiers[name] = frontier
	}
}

var t0 = time.Now()

// dirtyLoadFastCheck: targeted checks of the history classes the fast-storage configurations side-step in the BFS
// (Load/LoadVersion on a tree with uncommitted changes). Contract used: as with fast storage off, a successful
// LoadVersion discards uncommitted changes, and nothing uncommitted ever becomes visible after a reopen.
func dirtyLoadFastCheck() {
	type tc struct {
		key   string
		pre   []uint8
		final func(e *Exec) error
		want  map[string]string
		where string
	}
	for _, c := range []tc{
		{"fast-storage|LoadVersion-on-uncommitted-tree-keeps-unsaved-fast-nodes|Save,Set(b),LoadVersion(1)",
			seedOf(Op{kSave, 0}, Op{kSet, 0}), func(e *Exec) error { _, err := e.tree.LoadVersion(1); return err }, map[string]string{},
			"tm2/pkg/iavl/mutable_tree.go LoadVersion: replaces tree.ImmutableTree/lastSaved but does not reset unsavedFastNodeAdditions/unsavedFastNodeRemovals (Rollback does)"},
		{"fast-storage|Load-on-never-saved-tree-persists-uncommitted-keys-in-fast-index|Set(b),Load,Reopen",
			seedOf(Op{kSet, 0}), func(e *Exec) error {
				if _, err := e.tree.Load(); err != nil {
					return err
				}
				_, err := e.reopen()
				return err
			}, map[string]string{},
			"tm2/pkg/iavl/mutable_tree.go LoadVersion (no versions found) -> enableFastStorageAndCommitIfNotEnabled -> enableFastStorageAndCommit iterates the WORKING tree (incl. uncommitted nodes), writes fast nodes for it and commits the batch"},
	} {
		e := runTrace(cfgs[2], c.pre)
		err := c.final(e)
		r.Eval()
		var got []string
		var gets []string
		if err == nil {
			it, ierr := e.tree.Iterator(nil, nil, true)
			if ierr == nil {
				for ; it.Valid(); it.Next() {
					got = append(got, string(it.Key())+"="+string(it.Value()))
				}
				it.Close()
			}
			for _, k := range keys {
				if v, _ := e.tree.Get([]byte(k)); v != nil {
					gets = append(gets, k+"="+string(v))
				}
			}
		}
		want := strings.Join(expectRange(c.want, "", "", true, false), " ")
		if err != nil || strings.Join(got, " ") != want || strings.Join(gets, " ") != want {
			r.Outcome("dirty-load-fast:wrong")
			r.Violation(c.key, map[string]any{"config": cfgs[2].Name, "get": gets, "iterator": got, "want_contents": want, "err": fmt.Sprint(err), "where": c.where,
				"note": "fast-storage mode only (skipFastStorageUpgrade=false); tm2/pkg/store/iavl always passes skipFastStorageUpgrade=true"})
		} else {
			r.Outcome("dirty-load-fast:ok")
		}
	}
}

// fastDelFromStrict: flip to true once the lead has classified the finding below (known_findings.jsonl); until then the
// targeted check records it as an outcome class + sample only, so that the unchanged tree exits 0.
const fastDelFromStrict = true

const fastDelFromKey = "fast-storage|DeleteVersionsFrom-keeps-fast-index-of-deleted-latest-version|Save,Set(b),Save,LoadVersion(1),DelFrom(2)"

// fastDelFromCheck: targeted check of the history class the fast-storage configurations side-step in the BFS:
// MutableTree.DeleteVersionsFrom (public API) deletes the newest versions but leaves the fast-node index, which
// describes the deleted latest version, in place; reads of the new latest version trust that index.
func fastDelFromCheck() {
	e := runTrace(cfgs[2], seedOf(Op{kSave, 0}, Op{kSet, 0}, Op{kSave, 0}, Op{kLoadV, 1}))
	err := e.tree.DeleteVersionsFrom(2)
	r.Eval()
	var got, gets []string
	if err == nil {
		if it, ierr := e.tree.Iterator(nil, nil, true); ierr == nil {
			for ; it.Valid(); it.Next() {
				got = append(got, string(it.Key())+"="+string(it.Value()))
			}
			it.Close()
		}
		for _, k := range keys {
			if v, _ := e.tree.Get([]byte(k)); v != nil {
				gets = append(gets, k+"="+string(v))
			}
		}
	}
	if err != nil || len(got) != 0 || len(gets) != 0 {
		detail := map[string]any{"config": cfgs[2].Name, "get": gets, "iterator": got, "want_contents": "", "err": fmt.Sprint(err),
			"where": "tm2/pkg/iavl/nodedb.go DeleteVersionsFrom: 'we don't touch fast node indexes here, because it'll be rebuilt later because of version mismatch' - but MutableTree.DeleteVersionsFrom does not rebuild, and until the next LoadVersion of the NEW LATEST version Get/Iterator of the latest version answer from the index of the deleted version (a LoadVersion of an older version rebuilds the index from that older version instead)",
			"note": "fast-storage mode only (skipFastStorageUpgrade=false); gno always passes true and never calls DeleteVersionsFrom"}
		r.Outcome("fast-delfrom:stale-fast-index(fast-storage mode only; side-stepped in the BFS by a reload)")
		if fastDelFromStrict {
			r.Violation(fastDelFromKey, detail)
		} else {
			detail["key"] = fastDelFromKey
			r.Sample(detail)
		}
	} else {
		r.Outcome("fast-delfrom:ok")
	}
}

// zombieVersionCheck: targeted check (stable key) of the defect class the BFS prunes: DeleteVersionsTo must make the
// deleted versions non-existent for good (also after a restart) and must not break later pruning.
func zombieVersionCheck() {
	S := func(i int) Op { return Op{kSet, int64(i)} }
	save := Op{kSave, 0}
	e := runTrace(cfgs[0], seedOf(S(0), save, S(1), save, S(2), save, Op{kDelTo, 2}))
	var wrong []string
	if _, err := e.tree.GetImmutable(1); err == nil {
		wrong = append(wrong, "GetImmutable(1) succeeds after DeleteVersionsTo(2)")
	}
	if _, err := e.reopen(); err != nil {
		wrong = append(wrong, "reopen: "+err.Error())
	}
	for v := int64(1); v <= 2; v++ {
		if e.tree.VersionExists(v) {
			wrong = append(wrong, fmt.Sprintf("after restart VersionExists(%d)=true for a deleted version", v))
		}
	}
	if av := e.tree.AvailableVersions(); fmt.Sprint(av) != "[3]" {
		wrong = append(wrong, fmt.Sprintf("after restart AvailableVersions()=%v want [3]", av))
	}
	e.tree.Set([]byte(keys[3]), []byte("x")) //nolint
	if _, _, err := e.tree.SaveVersion(); err != nil {
		wrong = append(wrong, "SaveVersion: "+err.Error())
	}
	if err := e.tree.DeleteVersionsTo(3); err != nil {
		wrong = append(wrong, "after restart DeleteVersionsTo(3) fails (pruning stuck): "+err.Error())
	}
	r.EvalN(4)
	if len(wrong) > 0 {
		r.Outcome("zombie-version:wrong")
		r.Violation("zombie-version|DeleteVersionsTo-keeps-root-that-is-a-leaf-shared-with-next-version|Set(b),Save,Set(d),Save,Set(f),Save,DelTo(2),Reopen,Set(h),Save,DelTo(3)",
			map[string]any{"config": cfgs[0].Name, "wrong": wrong,
				"where": "tm2/pkg/iavl/nodedb.go deleteVersion: the root (v,1) of a one-key version is a leaf that version v+1 re-uses as a child, so it is not an orphan and is never removed or re-keyed; hasVersion(v) stays true, and getFirstVersion's binary search (run after a restart) resurrects version v and everything up to the real first version; deleteVersionsTo then starts at the zombie and fails with ErrVersionDoesNotExist forever (tm2/pkg/store/iavl swallows exactly that error)"})
	} else {
		r.Outcome("zombie-version:ok")
	}
}

func opIndex(o Op) uint8 {
	for i, a := range alphabet {
		if a == o {
			return uint8(i)
		}
	}
	panic("op not in alphabet: " + o.String())
}

func seedOf(ops ...Op) []uint8 {
	var t []uint8
	for _, o := range ops {
		t = append(t, opIndex(o))
	}
	return t
}

func main() {
	r = vk.New("model_checking")
	r.SetBudget(75*time.Second, 20*time.Minute)
	if r.Quick() {
		keys = []string{"b", "d", "f", "h", "j", "l"}
		maxV = 3
	} else {
		keys = []string{"b", "d", "f", "h", "j", "l", "n", "p"}
		maxV = 4
	}
	universe = append(append([]string{}, keys...), "a", "i", "z")
	sort.Strings(universe)
	for i := range keys {
		alphabet = append(alphabet, Op{kSet, int64(i)})
	}
	for i := range keys {
		alphabet = append(alphabet, Op{kRemove, int64(i)})
	}
	alphabet = append(alphabet, Op{kSave, 0}, Op{kRollback, 0}, Op{kLoad, 0}, Op{kReopen, 0})
	for v := int64(1); v <= maxV; v++ {
		alphabet = append(alphabet, Op{kLoadV, v})
	}
	for v := int64(1); v <= maxV; v++ {
		alphabet = append(alphabet, Op{kDelTo, v})
	}
	for v := int64(1); v <= maxV; v++ {
		alphabet = append(alphabet, Op{kLoadOW, v})
	}
	for v := int64(2); v <= maxV; v++ {
		alphabet = append(alphabet, Op{kDelFrom, v})
	}

	x := &explorer{seen: map[[32]byte]bool{}, depthDone: map[string]int{}, frontiers: map[string][]entry{}, census: map[string]int{}}
	S := func(i int) Op { return Op{kSet, int64(i)} }
	R := func(i int) Op { return Op{kRemove, int64(i)} }
	save := Op{kSave, 0}
	type seedDef struct {
		name  string
		trace []uint8
		depth int
	}
	var seeds []seedDef
	if r.Quick() {
		seeds = []seedDef{
			{"empty", nil, 5},
			{"six-keys-one-version", seedOf(S(0), S(1), S(2), S(3), S(4), S(5), save), 4},
			{"three-versions", seedOf(S(0), S(1), S(2), S(3), S(4), S(5), save, R(0), R(1), save, S(0), R(5), save), 3},
			{"three-versions-with-reference-root", seedOf(S(3), S(1), S(5), save, save, S(0), S(2), R(3), save), 3},
		}
	} else {
		seeds = []seedDef{
			{"empty", nil, 6},
			{"six-keys-one-version", seedOf(S(0), S(1), S(2), S(3), S(4), S(5), save), 4},
			{"eight-keys-one-version", seedOf(S(7), S(6), S(5), S(4), S(3), S(2), S(1), S(0), save), 4},
			{"three-versions", seedOf(S(0), S(1), S(2), S(3), S(4), S(5), save, R(0), R(1), save, S(0), R(5), save), 4},
			{"four-versions-with-reference-root", seedOf(S(3), S(1), S(5), save, save, S(0), S(2), save, R(3), S(7), save), 4},
		}
	}
	for _, s := range seeds {
		if nviol() > 0 || r.Expired() {
			if nviol() == 0 {
				x.depthDone[s.name] = -1
			}
			break
		}
		x.bfs(s.name, s.trace, s.depth)
	}

	// thorough: spend the remaining budget on one more level of the deepest seeds (budget-capped, reported as such)
	var extra []seedDef
	if r.Thorough() && nviol() == 0 {
		for _, nm := range []string{"three-versions", "six-keys-one-version", "empty"} {
			if r.Expired() {
				break
			}
			d := x.depthDone[nm]
			extra = append(extra, seedDef{nm + "(+1 level, budget permitting)", nil, d + 1})
			x.depthDone[nm+"(+1 level, budget permitting)"] = d
			before := x.depthDone[nm]
			x.run(nm, x.frontiers[nm], d+1, d+1)
			if x.depthDone[nm] > before {
				x.depthDone[nm+"(+1 level, budget permitting)"] = d + 1
			}
		}
	}
	seeds = append(seeds, extra...)
	dirtyLoadFastCheck()
	fastDelFromCheck()
	zombieVersionCheck()

	// report violations deterministically: shortest trace first
	sort.Slice(viols, func(i, j int) bool {
		a, b := viols[i], viols[j]
		if len(a.Trace) != len(b.Trace) {
			return len(a.Trace) < len(b.Trace)
		}
		return a.key() < b.key()
	})
	for i, v := range viols {
		if i >= 5 {
			break
		}
		r.Violation(v.key(), v)
	}

	for k, v := range x.census {
		r.OutcomeN("rotation:"+k, int64(v))
	}
	r.Sample(map[string]any{"trace": traceString(seeds[len(seeds)-1].trace) + ",DelTo(1),Set(d),Save", "meaning": "one explored history: seed prefix + BFS suffix; replayed from an empty MemDB under all 4 configurations"})
	r.Sample(map[string]any{"alphabet": func() []string {
		var s []string
		for _, o := range alphabet {
			s = append(s, o.String())
		}
		return append(s, "NoopBattery(all ops the model says are no-ops or must fail)")
	}(), "probe_keys_never_inserted": []string{"a", "i", "z"}, "configurations": func() []string {
		var s []string
		for _, c := range cfgs {
			s = append(s, c.Name)
		}
		return s
	}()})
	depths := map[string]any{}
	exhaustive := true
	for _, s := range seeds {
		d, ok := x.depthDone[s.name]
		depths[s.name] = map[string]int{"target_depth": s.depth, "completed_depth": d}
		if !ok || d < s.depth {
			exhaustive = false
		}
	}
	r.Assumptions = []string{
		"state de-duplication ignores node-cache contents (caches are checked for transparency differentially: cache sizes 0/2/1000 and a configuration that reads after every operation)",
		"DeleteVersionsTo of the version the working tree is based on is outside the documented contract and not explored",
		"sha256 collision resistance (single-bit proof mutations must fail; distinct contents must give distinct hashes)",
		"ics23 verification (github.com/cosmos/ics23/go, IavlSpec) is the trusted proof verifier",
		"options not explored: InitialVersion, AsyncPruning, small FlushThreshold, legacy (pre-v1) node format, Import/Export",
		"roll-back operations: LoadVersionForOverwriting(v) for v < latest, DeleteVersionsFrom(v) only for v above the version a clean working tree is based on; both read every key of every version before and after (all configurations); values written after a roll-back differ from the values of the deleted incarnation of the same version number",
		"fast-storage configurations reload after DeleteVersionsFrom (stale fast index, recorded by the targeted check fast-delfrom:* as an outcome class and a sample)",
	}
	r.Finish("BFS over all operation sequences up to the per-seed depth over {Set,Remove}x keys, SaveVersion, Rollback, Load, LoadVersion v, DeleteVersionsTo v, Reopen, LoadVersionForOverwriting v, DeleteVersionsFrom v (+ no-op battery) on the real MutableTree/MemDB; a state is distinct when the sha256 of (full DB dump, in-memory tree digest, model state) is new; every transition is replayed from scratch under 4 configurations and every new state is fully observed against the per-version sorted-map model",
		exhaustive, map[string]any{
			"states": x.states, "transitions": x.transitions, "traces_validated_against_impl": x.transitions,
			"depth": depths, "keys": keys, "max_version": maxV, "configurations": len(cfgs),
			"proofs_checked": nProofs.Load(), "proof_bit_mutations": nBitflips.Load(), "range_iterations": nRangeIters.Load(),
			"point_reads": nReads.Load(), "full_read_passes_around_rollbacks": nReadsAround.Load(), "distinct_tree_shapes": nShapes.Load(), "max_tree_height": maxHeight.Load(),
		})
}
