// Large batches with a repeated key (phase 5 of C29).
//
// The BFS alphabet only holds batches of 0..2 operations. What a batch implementation does with its staged list
// (re-ordering, de-duplication, chunking, size thresholds of a sort) only shows with MORE operations, so this phase
// enumerates, per subject, batches of bigMin..bigMax operations in which ONE key is staged 2 or 3 times among distinct
// filler keys:
//
//	size n            every value of bigMin..bigMax (quick 13..20)
//	filler key order  ascending, descending, low/high interleaved (in staging order)
//	repeated key      rank among the fillers: the empty key (spelled nil, then ""), below all, in the middle, above all
//	repeated ops      2 ops: Set(old) Set(new) | Set Delete | Delete Set | Set(old) Set(empty) | Set(empty) Set(new)
//	                  3 ops: every sequence over {Set(old), Set(new), Delete} except the three constant ones
//	positions         2 ops: EVERY pair of positions i<j of the n slots (middle rank; a 5-position menu
//	                  {0,1,n/2,n-2,n-1} for the other ranks);  3 ops: every triple of the 5-position menu
//
// Fillers are Set(k, value unique to the batch) and, every 4th, Delete(k) — over the same filler keys in every batch of
// a job, so that they overwrite and delete keys left by earlier batches. The batches of one (n, order, rank) job are
// written one after the other into the same instance (disk subjects: wiped through the API between jobs) and after
// EVERY batch the sorted-map model is compared: Get/Has of every key of the batch, full forward and reverse iteration
// (+ guard keys of a PrefixDB, CollectingDB: before and after Drain). Raw observations are compared across the
// subjects of a class.  The last staged operation on a key must win.
package main

import (
	"crypto/sha256"
	"fmt"
	"os"
	"path/filepath"
	"sort"
	"strings"
	"sync"
	"sync/atomic"
	"time"
)

const (
	orderAsc = iota
	orderDesc
	orderMix
)

var orderNames = []string{"ascending", "descending", "interleaved"}
var rankNames = []string{"empty-key", "lowest", "middle", "highest"}

type bigJob struct {
	n, order, rank int
}

func (j bigJob) String() string {
	return fmt.Sprintf("n=%d fillers %s, repeated key %s", j.n, orderNames[j.order], rankNames[j.rank])
}

// fillerOrder lists the filler indexes 0..nf-1 in staging order.
func fillerOrder(nf, order int) []int {
	out := make([]int, 0, nf)
	switch order {
	case orderAsc:
		for i := 0; i < nf; i++ {
			out = append(out, i)
		}
	case orderDesc:
		for i := nf - 1; i >= 0; i-- {
			out = append(out, i)
		}
	default: // 0, nf-1, 1, nf-2, ...
		for i, j := 0, nf-1; i <= j; i, j = i+1, j-1 {
			out = append(out, i)
			if i != j {
				out = append(out, j)
			}
		}
	}
	return out
}

func fillerKey(i int) []byte { return []byte(fmt.Sprintf("f%02d", i)) }

// dupSpellings returns the key of the repeated operations (first spelling, later spelling).
func dupSpellings(rank, nf int) (first, later []byte) {
	switch rank {
	case 0:
		return nil, []byte{} // the same key, both spellings
	case 1:
		return []byte("a"), []byte("a")
	case 2:
		k := []byte(fmt.Sprintf("f%02d!", nf/2-1)) // between filler nf/2-1 and filler nf/2
		return k, k
	}
	return []byte("\xff"), []byte("\xff")
}

// dup-op letters: o = Set(old value), n = Set(new value), e = Set(empty value), d = Delete
var dupKinds2 = []string{"on", "od", "do", "oe", "en"}

func dupKinds3() []string {
	var out []string
	for _, a := range "ond" {
		for _, b := range "ond" {
			for _, c := range "ond" {
				if a == b && b == c {
					continue
				}
				out = append(out, string([]rune{a, b, c}))
			}
		}
	}
	return out
}

func posMenu(n int) []int {
	set := map[int]bool{0: true, 1: true, n / 2: true, n - 2: true, n - 1: true}
	var out []int
	for p := range set {
		out = append(out, p)
	}
	sort.Ints(out)
	return out
}

func subsetsOf(menu []int, d int) [][]int {
	var out [][]int
	var rec func(from int, cur []int)
	rec = func(from int, cur []int) {
		if len(cur) == d {
			out = append(out, append([]int{}, cur...))
			return
		}
		for i := from; i < len(menu); i++ {
			rec(i+1, append(cur, menu[i]))
		}
	}
	rec(0, nil)
	return out
}

// bigBatchesOf enumerates the batches of one job; reduced = only the position menu (wrappers over a disk backend).
func bigBatchesOf(j bigJob, reduced bool, emit func(b []bop)) {
	ctr := 0
	build := func(kind string, pos []int) {
		d := len(kind)
		nf := j.n - d
		first, later := dupSpellings(j.rank, nf)
		fo := fillerOrder(nf, j.order)
		out := make([]bop, 0, j.n)
		fi, di := 0, 0
		for slot := 0; slot < j.n; slot++ {
			if di < d && pos[di] == slot {
				k := later
				if di == 0 {
					k = first
				}
				switch kind[di] {
				case 'o':
					out = append(out, bop{k: k, v: []byte(fmt.Sprintf("old%d", ctr))})
				case 'n':
					out = append(out, bop{k: k, v: []byte(fmt.Sprintf("new%d", ctr))})
				case 'e':
					out = append(out, bop{k: k, v: nil})
				default:
					out = append(out, bop{del: true, k: k})
				}
				di++
				continue
			}
			f := fo[fi]
			fi++
			if (f+ctr)%4 == 3 {
				out = append(out, bop{del: true, k: fillerKey(f)})
			} else {
				out = append(out, bop{k: fillerKey(f), v: []byte(fmt.Sprintf("v%d.%d", ctr, f))})
			}
		}
		ctr++
		emit(out)
	}
	var all []int
	for i := 0; i < j.n; i++ {
		all = append(all, i)
	}
	menu := posMenu(j.n)
	pairs := subsetsOf(menu, 2)
	if j.rank == 2 && !reduced {
		pairs = subsetsOf(all, 2)
	}
	for _, p := range pairs {
		for _, kind := range dupKinds2 {
			build(kind, p)
		}
	}
	if j.rank == 0 || j.rank == 2 {
		for _, p := range subsetsOf(menu, 3) {
			for _, kind := range dupKinds3() {
				build(kind, p)
			}
		}
	}
}

type bigStats struct {
	batches, jobs, dupPairs int64
	findings                []finding
}

// bigBatches runs the phase for one subject.
func bigBatches(s *subject, nMin, nMax int, reduced bool) bigStats {
	var jobs []bigJob
	for n := nMin; n <= nMax; n++ {
		for order := 0; order < 3; order++ {
			for rank := 0; rank < 4; rank++ {
				jobs = append(jobs, bigJob{n, order, rank})
			}
		}
	}
	tag := " [large batches]"
	shards := make([]*shardCtx, nShards)
	for i := range shards {
		shards[i] = &shardCtx{dir: filepath.Join(workRoot, sanitize(s.name+tag), fmt.Sprint(i))}
	}
	defer func() {
		for _, sc := range shards {
			if sc.in != nil {
				sc.in.closeFn()
			}
		}
		os.RemoveAll(filepath.Join(workRoot, sanitize(s.name+tag)))
	}()
	e := &env{s: s}
	var batches atomic.Int64
	var fmu sync.Mutex
	minFinding := map[string]finding{}
	var harnessErr atomic.Value
	r.ParFor(nShards, func(sh int) {
		sc := shards[sh]
		for ji := sh; ji < len(jobs); ji += nShards {
			if r.Expired() {
				return
			}
			job := jobs[ji]
			if err := e.fresh(sc); err != nil {
				harnessErr.Store(err.Error())
				return
			}
			m := newModel()
			bi := 0
			bad := 0
			bigBatchesOf(job, reduced, func(b []bop) {
				bi++
				if bad > 3 || harnessErr.Load() != nil {
					return
				}
				o := op{kind: kBatch, b: b, end: bi % 2, sized: bi%3 != 2}
				// the point-read menu of this batch: every key it names (both spellings of the empty key)
				seen := map[string]bool{}
				ev := &env{s: s}
				for _, x := range b {
					sk := string(x.k)
					if x.k == nil {
						sk = "\x00<nil>"
					}
					if !seen[sk] {
						seen[sk] = true
						ev.keys = append(ev.keys, x.k)
					}
				}
				ev.keys = append(ev.keys, []byte("nil"))
				batches.Add(1)
				var obs strings.Builder
				mmx := applyReal(s, sc.in, o)
				if mmx == nil {
					m.apply(s, o)
					mmx = ev.observe(sc.in, m, &obs)
				}
				if mmx == nil && s.collecting {
					if mmx = applyReal(s, sc.in, op{kind: kDrain}); mmx == nil {
						m.apply(s, op{kind: kDrain})
						mmx = ev.observe(sc.in, m, &obs)
					}
				}
				if mmx == nil && job.rank != 0 {
					ck := fmt.Sprintf("%v|%d|%v", job, bi, reduced)
					d := sha256.Sum256([]byte(obs.String()))
					cl := s.class + tag
					crossMu.Lock()
					if cross[cl] == nil {
						cross[cl] = map[string][32]byte{}
						crossBy[cl] = map[string]string{}
					}
					if old, ok := cross[cl][ck]; ok {
						crossN.Add(1)
						if old != d {
							mmx = mm("observations differ from "+crossBy[cl][ck], "raw observations differ from subject %s: %s", crossBy[cl][ck], obs.String())
						}
					} else {
						cross[cl][ck] = d
						crossBy[cl][ck] = s.name
					}
					crossMu.Unlock()
				}
				if mmx == nil {
					return
				}
				bad++
				f := finding{class: mmx.class, detail: mmx.detail, subject: s.name, order: uint64(ji)<<32 | uint64(bi),
					path: []string{fmt.Sprintf("(batch #%d of the job %v; the instance holds what the earlier batches of the job left)", bi, job), o.String()}}
				fmu.Lock()
				if old, ok := minFinding[mmx.class]; !ok || f.order < old.order {
					minFinding[mmx.class] = f
				}
				fmu.Unlock()
				// resynchronise: empty instance, empty model
				if err := e.fresh(sc); err != nil {
					harnessErr.Store(err.Error())
					return
				}
				m = newModel()
			})
		}
	})
	if he := harnessErr.Load(); he != nil {
		r.HarnessError("%s%s: %v", s.name, tag, he)
	}
	st := bigStats{batches: batches.Load(), jobs: int64(len(jobs))}
	for _, f := range minFinding {
		st.findings = append(st.findings, f)
	}
	sort.Slice(st.findings, func(a, b int) bool { return st.findings[a].order < st.findings[b].order })
	for _, f := range st.findings {
		key := s.keyName() + ": batch of " + fmt.Sprintf("%d-%d", nMin, nMax) + " operations staging one key several times: " + f.class
		if r.Violation(key, map[string]any{"subject": s.name, "class": f.class, "history": f.path, "mismatch": f.detail}) && !printed[key] {
			printed[key] = true
			fmt.Printf("  %s\n    history: %s\n    => %s\n", key, strings.Join(f.path, " ; "), f.detail)
		}
	}
	return st
}

// runBigBatches: every subject; wrappers over a DISK backend get the reduced position menu (the wrapper's own batch
// code is backend-independent and runs the full menu over memdb; every backend runs the full menu directly).
func runBigBatches(subjects []*subject, th bool) (per map[string]any, total int64) {
	per = map[string]any{}
	nMin, nMax := 13, 20
	if th {
		nMax = 40
	}
	for _, s := range subjects {
		if r.Expired() {
			break
		}
		t0 := time.Now()
		reduced := s.disk && (s.prefix != nil || s.readonly || s.collecting) && !th
		st := bigBatches(s, nMin, nMax, reduced)
		total += st.batches
		per[s.name] = map[string]any{"batches": st.batches, "jobs": st.jobs, "sizes": fmt.Sprintf("%d..%d", nMin, nMax), "reduced_position_menu": reduced}
		fmt.Printf("  %-40s large batches: jobs=%d batches=%d reduced=%v (%.1fs)\n", s.name, st.jobs, st.batches, reduced, time.Since(t0).Seconds())
	}
	return
}
