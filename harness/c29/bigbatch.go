// Large batches with a repeated key (last phase of C29, with its own share of the budget).
//
// The BFS alphabet only holds batches of 0..2 operations. What a batch implementation does with its staged list
// (re-ordering, de-duplication, chunking, size thresholds of a sort) only shows with MORE operations, so this phase
// enumerates, per subject, batches of 13..20 operations (thorough: up to 40 on memory subjects, 24 on disk) in which ONE
// key is staged 2 or 3 times among distinct filler keys:
//
//	size n            every value of the range
//	filler key order  ascending, descending, low/high interleaved (in staging order)
//	repeated key      rank among the fillers: the empty key (spelled nil, then ""), below all, in the middle, above all
//	repeated ops      o/n = Set(old/new value), e = Set(empty value), d = Delete:
//	                  on | od | do ; oe | en ; the 3 different operations o,n,d in all 6 orders + 6 sequences with one
//	                  operation twice (ood ddo dod odo ono nno)
//	positions         slots of the repeated operations among the n slots of the batch
//
// Three menus (level):
//
//	full  (memory subjects = memdb and EVERY wrapper over memdb, CollectingDB+Drain; thorough: the disk backends too)
//	      on|od|do at EVERY pair of positions i<j (middle rank; the 5-position menu {0,1,n/2,n-2,n-1} for the other
//	      ranks), oe|en at every pair of the position menu (all ranks), the twelve 3-operation sequences at every triple
//	      of the position menu (empty-key and middle rank)                                 — 19 236 batches for 13..20
//	menu  (thorough: wrappers over a disk backend) the same with the position menu instead of all pairs
//	small (quick: disk backends and wrappers over them) per (n, order): the five 2-operation sequences at 3 position
//	      pairs, six 3-operation sequences at one triple, ranks lowest/middle/highest in rotation, then on|od|do on the
//	      empty key                                                                        — 576 batches, 24 instances
//
// The disk subjects run on the harness's no-fsync options (see main.go), so Write/WriteSync never reach the disk; what
// they still pay is the creation of the database files, hence one instance per (n, order) in the small menu.
//
// Fillers are Set(k, value unique to the batch) and, every 4th, Delete(k) — over the same filler keys in every batch of
// a job, so that they overwrite and delete keys left by earlier batches. Consecutive batches of one job are written one
// after the other into the same instance (a brand-new one every 128 batches) and after EVERY batch the sorted-map model
// is compared: Get/Has of every key of the batch, full forward iteration (reverse iteration after every 8th batch and
// the last batch of an instance), guard keys of a PrefixDB; CollectingDB: before and after Drain. Raw observations are
// compared across the subjects of a class and level. The last staged operation on a key must win.
package main

import (
	"crypto/sha256"
	"fmt"
	"os"
	"path/filepath"
	"sort"
	"strings"
	"sync"
	"sync/atomic"
	"syscall"
	"time"
)

const (
	orderAsc = iota
	orderDesc
	orderMix
)

var orderNames = []string{"ascending", "descending", "interleaved"}
var rankNames = []string{"empty-key", "lowest", "middle", "highest"}

type bigJob struct {
	n, order, rank int
}

func (j bigJob) String() string {
	if j.rank < 0 {
		return fmt.Sprintf("n=%d fillers %s", j.n, orderNames[j.order])
	}
	return fmt.Sprintf("n=%d fillers %s, repeated key %s", j.n, orderNames[j.order], rankNames[j.rank])
}

// fillerOrder lists the filler indexes 0..nf-1 in staging order.
func fillerOrder(nf, order int) []int {
	out := make([]int, 0, nf)
	switch order {
	case orderAsc:
		for i := 0; i < nf; i++ {
			out = append(out, i)
		}
	case orderDesc:
		for i := nf - 1; i >= 0; i-- {
			out = append(out, i)
		}
	default: // 0, nf-1, 1, nf-2, ...
		for i, j := 0, nf-1; i <= j; i, j = i+1, j-1 {
			out = append(out, i)
			if i != j {
				out = append(out, j)
			}
		}
	}
	return out
}

func fillerKey(i int) []byte { return []byte(fmt.Sprintf("f%02d", i)) }

// dupSpellings returns the key of the repeated operations (first spelling, later spelling).
func dupSpellings(rank, nf int) (first, later []byte) {
	switch rank {
	case 0:
		return nil, []byte{} // the same key, both spellings
	case 1:
		return []byte("a"), []byte("a")
	case 2:
		k := []byte(fmt.Sprintf("f%02d!", nf/2-1)) // between filler nf/2-1 and filler nf/2
		return k, k
	}
	return []byte("\xff"), []byte("\xff")
}

// dup-op letters: o = Set(old value), n = Set(new value), e = Set(empty value), d = Delete
var (
	dupKinds2     = []string{"on", "od", "do"}                         // every position pair
	dupKinds2More = []string{"oe", "en"}                               // position menu only
	dupKinds3     = []string{"ond", "odn", "nod", "ndo", "don", "dno", // the three different operations in every order
		"ood", "ddo", "dod", "odo", "ono", "nno"} // one operation twice, the last one differing from an earlier one
)

func posMenu(n int) []int {
	set := map[int]bool{0: true, 1: true, n / 2: true, n - 2: true, n - 1: true}
	var out []int
	for p := range set {
		out = append(out, p)
	}
	sort.Ints(out)
	return out
}

func subsetsOf(menu []int, d int) [][]int {
	var out [][]int
	var rec func(from int, cur []int)
	rec = func(from int, cur []int) {
		if len(cur) == d {
			out = append(out, append([]int{}, cur...))
			return
		}
		for i := from; i < len(menu); i++ {
			rec(i+1, append(cur, menu[i]))
		}
	}
	rec(0, nil)
	return out
}

// bigSpec is one batch of a job: which repeated operations, on which key, in which slots.
type bigSpec struct {
	kind string
	pos  []int
	rank int
}

const (
	lvlSmall = iota
	lvlMenu
	lvlFull
)

var lvlNames = []string{"small", "menu", "full"}

// bigSpecsOf enumerates the batches of one job (levels full and menu: one job per rank).
func bigSpecsOf(j bigJob, level int) []bigSpec {
	var out []bigSpec
	var all []int
	for i := 0; i < j.n; i++ {
		all = append(all, i)
	}
	menu := posMenu(j.n)
	pairs := subsetsOf(menu, 2)
	if j.rank == 2 && level == lvlFull {
		pairs = subsetsOf(all, 2)
	}
	for _, p := range pairs {
		for _, kind := range dupKinds2 {
			out = append(out, bigSpec{kind, p, j.rank})
		}
	}
	for _, p := range subsetsOf(menu, 2) {
		for _, kind := range dupKinds2More {
			out = append(out, bigSpec{kind, p, j.rank})
		}
	}
	if j.rank == 0 || j.rank == 2 {
		for _, p := range subsetsOf(menu, 3) {
			for _, kind := range dupKinds3 {
				out = append(out, bigSpec{kind, p, j.rank})
			}
		}
	}
	return out
}

// smallSpecsOf is the small menu of one (n, order) job (job.rank = -1): 24 batches; ci = index of the job.
func smallSpecsOf(j bigJob, ci int) []bigSpec {
	n := j.n
	var out []bigSpec
	k := ci
	rot := func() int { k++; return 1 + k%3 } // lowest, middle, highest in rotation
	for _, p := range [][]int{{0, n - 1}, {n/2 - 1, n / 2}, {1, n - 2}} {
		for _, kind := range append(append([]string{}, dupKinds2...), dupKinds2More...) {
			out = append(out, bigSpec{kind, p, rot()})
		}
	}
	for i := 0; i < 6; i++ {
		out = append(out, bigSpec{dupKinds3[(ci%2)*6+i], []int{0, n / 2, n - 1}, rot()})
	}
	// the empty key last: from here on boltdb shows it as "nil" and the raw observations are not cross-compared
	for _, kind := range dupKinds2 {
		out = append(out, bigSpec{kind, []int{0, n - 1}, 0})
	}
	return out
}

// build renders batch number ctr of job j.
func (sp bigSpec) build(j bigJob, ctr int) []bop {
	d := len(sp.kind)
	nf := j.n - d
	first, later := dupSpellings(sp.rank, nf)
	fo := fillerOrder(nf, j.order)
	out := make([]bop, 0, j.n)
	fi, di := 0, 0
	for slot := 0; slot < j.n; slot++ {
		if di < d && sp.pos[di] == slot {
			k := later
			if di == 0 {
				k = first
			}
			switch sp.kind[di] {
			case 'o':
				out = append(out, bop{k: k, v: []byte(fmt.Sprintf("old%d", ctr))})
			case 'n':
				out = append(out, bop{k: k, v: []byte(fmt.Sprintf("new%d", ctr))})
			case 'e':
				out = append(out, bop{k: k, v: nil})
			default:
				out = append(out, bop{del: true, k: k})
			}
			di++
			continue
		}
		f := fo[fi]
		fi++
		if (f+ctr)%4 == 3 {
			out = append(out, bop{del: true, k: fillerKey(f)})
		} else {
			out = append(out, bop{k: fillerKey(f), v: []byte(fmt.Sprintf("v%d.%d", ctr, f))})
		}
	}
	return out
}

const bigChunk = 128

// freshHard gives the shard a brand-new instance (disk subjects: on new files).
func freshHard(e *env, sc *shardCtx) error {
	if sc.in != nil {
		sc.in.closeFn()
		sc.in = nil
	}
	if e.s.disk {
		os.RemoveAll(sc.dir)
	}
	in, err := e.s.open(sc.dir, e.sync)
	if err != nil {
		return err
	}
	sc.in = in
	return nil
}

// cpuSeconds: user+system CPU time of the process so far (the machine is shared: wall time says little).
func cpuSeconds() float64 {
	var ru syscall.Rusage
	syscall.Getrusage(syscall.RUSAGE_SELF, &ru)
	return float64(ru.Utime.Sec+ru.Stime.Sec) + float64(ru.Utime.Usec+ru.Stime.Usec)/1e6
}

type bigStats struct {
	batches, jobs, units, mismatches int64
	capped                           bool
	findings                         []finding
}

// bigBatches runs the phase for one subject. The unit of work is a chunk of bigChunk consecutive batches of one job,
// written one after the other into a brand-new instance (overwritten and deleted versions pile up in the LSM backends
// and would make every later full iteration slower); units are dealt round-robin to the shards.
func bigBatches(s *subject, nMin, nMax int, level int, deadline time.Time) bigStats {
	type unit struct {
		ji, from, to int
	}
	var jobs []bigJob
	var specs [][]bigSpec
	var units []unit
	add := func(j bigJob, sp []bigSpec) {
		for from := 0; from < len(sp); from += bigChunk {
			units = append(units, unit{len(jobs), from, min(from+bigChunk, len(sp))})
		}
		jobs = append(jobs, j)
		specs = append(specs, sp)
	}
	for n := nMin; n <= nMax; n++ {
		for order := 0; order < 3; order++ {
			if level == lvlSmall {
				j := bigJob{n, order, -1}
				add(j, smallSpecsOf(j, len(jobs)))
				continue
			}
			for rank := 0; rank < 4; rank++ {
				j := bigJob{n, order, rank}
				add(j, bigSpecsOf(j, level))
			}
		}
	}
	tag := " [large batches]"
	shards := make([]*shardCtx, nShards)
	for i := range shards {
		shards[i] = &shardCtx{dir: filepath.Join(workRoot, sanitize(s.name+tag), fmt.Sprint(i))}
	}
	defer func() {
		for _, sc := range shards {
			if sc.in != nil {
				sc.in.closeFn()
			}
		}
		os.RemoveAll(filepath.Join(workRoot, sanitize(s.name+tag)))
	}()
	e := &env{s: s}
	var batches atomic.Int64
	var fmu sync.Mutex
	minFinding := map[string]finding{}
	nFindings := 0
	var harnessErr atomic.Value
	var capped atomic.Bool
	r.ParFor(nShards, func(sh int) {
		sc := shards[sh]
		for ui := sh; ui < len(units); ui += nShards {
			if r.Expired() || time.Now().After(deadline) {
				capped.Store(true)
				return
			}
			if harnessErr.Load() != nil {
				return
			}
			u := units[ui]
			job := jobs[u.ji]
			if err := freshHard(e, sc); err != nil {
				harnessErr.Store(err.Error())
				return
			}
			m := newModel()
			bad := 0
			for bi := u.from; bi < u.to && bad < 2; bi++ {
				b := specs[u.ji][bi].build(job, bi)
				// (WriteSync for every 8th batch; disk subjects are opened with the no-fsync options anyway)
				o := op{kind: kBatch, b: b, end: btoi(bi%8 == 3), sized: bi%3 != 2}
				// the point-read menu of this batch: every key it names (both spellings of the empty key)
				seen := map[string]bool{}
				// the full reverse iteration walks every dead version in the LSM memtables: every 8th batch and the last of a unit
				ev := &env{s: s, noReverse: bi%8 != 7 && bi != u.to-1}
				for _, x := range b {
					sk := string(x.k)
					if x.k == nil {
						sk = "\x00<nil>"
					}
					if !seen[sk] {
						seen[sk] = true
						ev.keys = append(ev.keys, x.k)
					}
				}
				ev.keys = append(ev.keys, []byte("nil"))
				batches.Add(1)
				var obs strings.Builder
				mmx := applyReal(s, sc.in, o)
				if mmx == nil {
					m.apply(s, o)
					mmx = ev.observe(sc.in, m, &obs)
				}
				if mmx == nil && s.collecting {
					if mmx = applyReal(s, sc.in, op{kind: kDrain}); mmx == nil {
						m.apply(s, op{kind: kDrain})
						mmx = ev.observe(sc.in, m, &obs)
					}
				}
				if sp := specs[u.ji][bi]; mmx == nil && sp.rank != 0 {
					ck := fmt.Sprintf("%v|%d|%v", job, bi, level)
					d := sha256.Sum256([]byte(obs.String()))
					cl := s.class + tag
					crossMu.Lock()
					if cross[cl] == nil {
						cross[cl] = map[string][32]byte{}
						crossBy[cl] = map[string]string{}
					}
					if old, ok := cross[cl][ck]; ok {
						crossN.Add(1)
						if old != d {
							mmx = mm("observations differ from "+crossBy[cl][ck], "raw observations differ from subject %s: %s", crossBy[cl][ck], obs.String())
						}
					} else {
						cross[cl][ck] = d
						crossBy[cl][ck] = s.name
					}
					crossMu.Unlock()
				}
				if mmx == nil {
					continue
				}
				bad++
				f := finding{class: mmx.class, detail: mmx.detail, subject: s.name, order: uint64(u.ji)<<32 | uint64(bi),
					path: []string{fmt.Sprintf("(batch #%d of the job %v; the instance holds what batches #%d.. of the job left)", bi, job, u.from), o.String()}}
				fmu.Lock()
				nFindings++
				if old, ok := minFinding[mmx.class]; !ok || f.order < old.order {
					minFinding[mmx.class] = f
				}
				fmu.Unlock()
				// resynchronise: empty instance, empty model
				if err := freshHard(e, sc); err != nil {
					harnessErr.Store(err.Error())
					return
				}
				m = newModel()
			}
		}
	})
	if he := harnessErr.Load(); he != nil {
		r.HarnessError("%s%s: %v", s.name, tag, he)
	}
	st := bigStats{batches: batches.Load(), jobs: int64(len(jobs)), units: int64(len(units)), mismatches: int64(nFindings), capped: capped.Load()}
	for _, f := range minFinding {
		st.findings = append(st.findings, f)
	}
	sort.Slice(st.findings, func(a, b int) bool { return st.findings[a].order < st.findings[b].order })
	for _, f := range st.findings {
		key := s.keyName() + ": batch of 13+ operations staging one key several times: " + f.class
		if r.Violation(key, map[string]any{"subject": s.name, "class": f.class, "history": f.path, "mismatch": f.detail, "mismatching_batches": nFindings}) && !printed[key] {
			printed[key] = true
			fmt.Printf("  %s\n    history: %s\n    => %s\n", key, strings.Join(f.path, " ; "), f.detail)
		}
	}
	return st
}

func btoi(b bool) int {
	if b {
		return 1
	}
	return 0
}

// runBigBatches runs the phase for every subject within its own share of the budget (it is the LAST phase: it can be
// cut short by a slow machine, it can never starve the BFS phases). Memory subjects first: they carry the full menu.
func runBigBatches(subjects []*subject, th bool, share time.Duration) (per map[string]any, total int64, complete bool) {
	per = map[string]any{}
	complete = true
	deadline := time.Now().Add(share)
	ordered := append([]*subject{}, subjects...)
	sort.SliceStable(ordered, func(a, b int) bool { return !ordered[a].disk && ordered[b].disk })
	for _, s := range ordered {
		t0, c0 := time.Now(), cpuSeconds()
		nMin, nMax, level := 13, 20, lvlFull
		switch {
		case s.disk && !th:
			level = lvlSmall
		case s.disk && (s.prefix != nil || s.readonly || s.collecting):
			nMax, level = 24, lvlMenu
		case s.disk:
			nMax = 24
		case th:
			nMax = 40
		}
		if r.Expired() || time.Now().After(deadline) {
			complete = false
			per[s.name] = map[string]any{"batches": 0, "skipped": "budget share of the phase used up"}
			continue
		}
		st := bigBatches(s, nMin, nMax, level, deadline)
		if st.capped {
			complete = false
		}
		total += st.batches
		per[s.name] = map[string]any{"batches": st.batches, "jobs": st.jobs, "fresh_instances": st.units, "sizes": fmt.Sprintf("%d..%d", nMin, nMax), "menu": lvlNames[level], "complete": !st.capped}
		fmt.Printf("  %-40s large batches: menu=%s sizes=%d..%d jobs=%d instances=%d batches=%d complete=%v (%.1fs wall, %.1fs cpu)\n", s.name, lvlNames[level], nMin, nMax, st.jobs, st.units, st.batches, !st.capped, time.Since(t0).Seconds(), cpuSeconds()-c0)
	}
	return
}
