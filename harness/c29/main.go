// C29: every dbm.DB backend (memdb, goleveldb, pebbledb, boltdb) and every wrapper (PrefixDB, ImmutableDB, SnapshotDB,
// CollectingDB) implements the same key-value semantics as a sorted map.
//
// Per subject (backend or wrapper stack) an explicit-state BFS over operation sequences: the abstract state is the
// model map (plus the pending overlay for CollectingDB); for every reachable state and EVERY op of the alphabet the
// real DB is brought to that state (memory subjects: fresh instance + replay of the shortest path; disk subjects: wipe
// through the API + replay), the op is applied, and then everything observable is compared with the model: the op's
// result, Get/Has of every key of the menu (nil and "" included), full forward and reverse iteration with the iterator
// contract (Domain, Valid after exhaustion, panics on invalid use, Close), snapshots taken at every earlier point of
// the history (they must still show the state at their creation; also through SnapshotDB), guard keys around a
// PrefixDB.  Once per state: iterators for every (start,end) pair of the bound menu in both directions, and for disk
// backends a close/reopen.  Subjects are also compared with each other (digest of the raw observations).
package main

import (
	"bytes"
	"crypto/sha256"
	"fmt"
	"io"
	"log"
	"os"
	"path/filepath"
	"sort"
	"strconv"
	"strings"
	"sync"
	"sync/atomic"
	"time"

	"github.com/cockroachdb/pebble"
	"github.com/cockroachdb/pebble/vfs"
	"github.com/syndtr/goleveldb/leveldb/opt"
	"go.etcd.io/bbolt"

	dbm "github.com/gnolang/gno/tm2/pkg/db"
	"github.com/gnolang/gno/tm2/pkg/db/boltdb"
	"github.com/gnolang/gno/tm2/pkg/db/goleveldb"
	"github.com/gnolang/gno/tm2/pkg/db/memdb"
	"github.com/gnolang/gno/tm2/pkg/db/pebbledb"

	"verif/engine/vk"
)

var r *vk.Run

// coreDeadline ends the BFS phases (their share of the budget); the large-batch phase runs after it on its own share.
var coreDeadline time.Time

func coreExpired() bool {
	if r.Expired() {
		return true
	}
	if !coreDeadline.IsZero() && time.Now().After(coreDeadline) {
		r.MarkCapped()
		return true
	}
	return false
}

// workRoot is private to the process: two runs at the same time (a mutant demo next to a plain run) must not wipe each
// other's database files.
var workRoot = fmt.Sprintf("/verif/.work/c29/data-%d", os.Getpid())

// sweepStale removes data directories left by killed runs (older than an hour).
func sweepStale() {
	ds, _ := filepath.Glob("/verif/.work/c29/data*")
	for _, d := range ds {
		if fi, err := os.Stat(d); err == nil && time.Since(fi.ModTime()) > time.Hour {
			os.RemoveAll(d)
		}
	}
}

const nShards = 16 // fixed (not GOMAXPROCS): the physical history of every disk instance is deterministic

// ---------------------------------------------------------------------------------------------
// subjects

type inst struct {
	W       dbm.DB // handle the alphabet's write ops go to
	R       dbm.DB // handle observations go to
	under   dbm.DB // the DB below a wrapper (guard keys / drain target), may be nil
	coll    *dbm.BatchCollector
	closeFn func() error
}

type subject struct {
	name       string
	class      string // subjects of a class have identical observable behaviour and are cross-compared
	disk       bool
	open       func(dir string, sync bool) (*inst, error)
	snap       bool // NewSnapshot supported
	collecting bool
	readonly   bool   // R is a read-only wrapper: its mutators must panic
	prefix     []byte // PrefixDB: guard keys are kept in the underlying DB
	aliasEmpty bool   // boltdb: the empty key is stored as "nil" (documented in boltdb.go nonEmptyKey)
	reopen     bool
	kname      string // name used in violation keys (one key per root cause, not per backend underneath)
}

func (s *subject) keyName() string {
	if s.kname != "" {
		return s.kname
	}
	return s.name
}

func mk(path string) string { os.MkdirAll(path, 0o755); return path }

func openMem(string, bool) (dbm.DB, error) { return memdb.NewMemDB(), nil }
func openLevel(dir string, sync bool) (dbm.DB, error) {
	if sync {
		return goleveldb.NewGoLevelDB("db", mk(dir))
	}
	return goleveldb.NewGoLevelDBWithOpts("db", mk(dir), &opt.Options{NoSync: true})
}
func openPebble(dir string, sync bool) (dbm.DB, error) {
	if sync {
		return pebbledb.NewPebbleDB("db", mk(dir))
	}
	return pebbledb.NewPebbleDBWithOpts("db", mk(dir), &pebble.Options{FS: noSyncFS{vfs.Default}})
}

// noSyncFS is the default pebble file system (real files under /verif/.work/c29) with fsync elided.
type noSyncFS struct{ vfs.FS }

type noSyncFile struct{ vfs.File }

func (noSyncFile) Sync() error                { return nil }
func (noSyncFile) SyncData() error            { return nil }
func (noSyncFile) SyncTo(int64) (bool, error) { return false, nil }
func wrapF(f vfs.File, err error) (vfs.File, error) {
	if err != nil {
		return nil, err
	}
	return noSyncFile{f}, nil
}
func (fs noSyncFS) Create(name string) (vfs.File, error) { return wrapF(fs.FS.Create(name)) }
func (fs noSyncFS) Open(name string, o ...vfs.OpenOption) (vfs.File, error) {
	return wrapF(fs.FS.Open(name, o...))
}
func (fs noSyncFS) OpenReadWrite(name string, o ...vfs.OpenOption) (vfs.File, error) {
	return wrapF(fs.FS.OpenReadWrite(name, o...))
}
func (fs noSyncFS) OpenDir(name string) (vfs.File, error) { return wrapF(fs.FS.OpenDir(name)) }
func (fs noSyncFS) ReuseForWrite(o, n string) (vfs.File, error) {
	return wrapF(fs.FS.ReuseForWrite(o, n))
}
func openBolt(dir string, sync bool) (dbm.DB, error) {
	if sync {
		return boltdb.New("db", mk(dir))
	}
	o := *bbolt.DefaultOptions
	o.NoSync = true
	return boltdb.NewWithOptions("db", mk(dir), &o)
}

type opener func(dir string, sync bool) (dbm.DB, error)

func plain(name string, disk bool, o opener, snap, alias bool) *subject {
	return &subject{name: name, class: "kv", disk: disk, snap: snap, aliasEmpty: alias, reopen: disk,
		open: func(dir string, sync bool) (*inst, error) {
			d, err := o(dir, sync)
			if err != nil {
				return nil, err
			}
			return &inst{W: d, R: d, closeFn: d.Close}, nil
		}}
}

func guardKeys(prefix []byte) [][]byte {
	var g [][]byte
	lo := append([]byte{}, prefix...)
	lo[len(lo)-1]--
	g = append(g, append(lo, 0xff)) // just below the prefix range
	if hi := incr(prefix); hi != nil {
		g = append(g, hi, append(append([]byte{}, hi...), 0x00)) // the exclusive end itself, and just above
	}
	return g
}

func incr(p []byte) []byte {
	e := append([]byte{}, p...)
	for len(e) > 0 {
		if e[len(e)-1] != 0xff {
			e[len(e)-1]++
			return e
		}
		e = e[:len(e)-1]
	}
	return nil
}

func prefixed(name string, disk bool, o opener, prefix string, alias bool) *subject {
	return &subject{name: fmt.Sprintf("PrefixDB(%s,%q)", name, prefix), class: "kv", disk: disk, prefix: []byte(prefix), aliasEmpty: false,
		open: func(dir string, sync bool) (*inst, error) {
			d, err := o(dir, sync)
			if err != nil {
				return nil, err
			}
			for _, g := range guardKeys([]byte(prefix)) {
				if err := d.Set(g, []byte("guard")); err != nil {
					return nil, err
				}
			}
			p := dbm.NewPrefixDB(d, []byte(prefix))
			return &inst{W: p, R: p, under: d, closeFn: p.Close}, nil
		}}
}

func nestedPrefix() *subject {
	return &subject{name: `PrefixDB(PrefixDB(memdb,"a"),"\xff")`, class: "kv", prefix: []byte("a\xff"),
		open: func(string, bool) (*inst, error) {
			d := memdb.NewMemDB()
			for _, g := range guardKeys([]byte("a\xff")) {
				d.Set(g, []byte("guard"))
			}
			p := dbm.NewPrefixDB(dbm.NewPrefixDB(d, []byte("a")), []byte("\xff"))
			return &inst{W: p, R: p, under: d, closeFn: p.Close}, nil
		}}
}

func immutable(name string, disk bool, o opener, alias, snap bool) *subject {
	return &subject{name: "ImmutableDB(" + name + ")", class: "kv", disk: disk, readonly: true, aliasEmpty: alias, snap: snap,
		open: func(dir string, sync bool) (*inst, error) {
			d, err := o(dir, sync)
			if err != nil {
				return nil, err
			}
			return &inst{W: d, R: dbm.NewImmutableDB(d), under: d, closeFn: d.Close}, nil
		}}
}

func collecting(name string, disk bool, o opener, snap bool) *subject {
	return &subject{name: "CollectingDB(" + name + ")", kname: "CollectingDB", class: "collecting", disk: disk, collecting: true, snap: snap,
		open: func(dir string, sync bool) (*inst, error) {
			d, err := o(dir, sync)
			if err != nil {
				return nil, err
			}
			c := dbm.NewBatchCollector()
			cd := dbm.NewCollectingDB(d, c)
			return &inst{W: cd, R: cd, under: d, coll: c, closeFn: d.Close}, nil
		}}
}

// ---------------------------------------------------------------------------------------------
// alphabet

type opKind uint8

const (
	kSet opKind = iota
	kSetSync
	kDel
	kDelSync
	kBatch
	kDrain
)

type bop struct {
	del  bool
	k, v []byte
}

type op struct {
	kind  opKind
	k, v  []byte
	b     []bop
	end   int // 0 Write, 1 WriteSync, 2 Close without Write
	sized bool
}

func q(b []byte) string {
	if b == nil {
		return "nil"
	}
	return strconv.Quote(string(b))
}

func (o op) String() string {
	switch o.kind {
	case kSet:
		return fmt.Sprintf("Set(%s,%s)", q(o.k), q(o.v))
	case kSetSync:
		return fmt.Sprintf("SetSync(%s,%s)", q(o.k), q(o.v))
	case kDel:
		return fmt.Sprintf("Delete(%s)", q(o.k))
	case kDelSync:
		return fmt.Sprintf("DeleteSync(%s)", q(o.k))
	case kDrain:
		return "Drain"
	}
	var sb strings.Builder
	if o.sized {
		sb.WriteString("BatchWithSize{")
	} else {
		sb.WriteString("Batch{")
	}
	for _, b := range o.b {
		if b.del {
			fmt.Fprintf(&sb, "Delete(%s);", q(b.k))
		} else {
			fmt.Fprintf(&sb, "Set(%s,%s);", q(b.k), q(b.v))
		}
	}
	sb.WriteString([]string{"Write}", "WriteSync}", "Close}"}[o.end])
	return sb.String()
}

func buildAlphabet(keys [][]byte, bkeys [][]byte, collecting bool) []op {
	var ops []op
	vals := [][]byte{nil, {}, []byte("x")}
	for _, k := range keys {
		for _, v := range vals {
			ops = append(ops, op{kind: kSet, k: k, v: v})
		}
		ops = append(ops, op{kind: kSetSync, k: k, v: []byte("x")}, op{kind: kSetSync, k: k, v: nil})
		ops = append(ops, op{kind: kDel, k: k}, op{kind: kDelSync, k: k})
	}
	var bops []bop
	for _, k := range bkeys {
		bops = append(bops, bop{k: k, v: []byte("x")}, bop{k: k, v: nil}, bop{del: true, k: k})
	}
	seqs := [][]bop{{}}
	for _, a := range bops {
		seqs = append(seqs, []bop{a})
	}
	for _, a := range bops {
		for _, b := range bops {
			seqs = append(seqs, []bop{a, b})
		}
	}
	for i, s := range seqs {
		for end := 0; end < 3; end++ {
			ops = append(ops, op{kind: kBatch, b: s, end: end, sized: i%2 == 1})
		}
	}
	if collecting {
		ops = append(ops, op{kind: kDrain})
	}
	return ops
}

// ---------------------------------------------------------------------------------------------
// model

type pent struct {
	del bool
	v   []byte
}

type model struct {
	R map[string][]byte
	P map[string]pent // CollectingDB: ops collected and not yet drained
}

func newModel() *model { return &model{R: map[string][]byte{}, P: map[string]pent{}} }

func nn(b []byte) []byte {
	if b == nil {
		return []byte{}
	}
	return b
}

func (s *subject) mkey(k []byte) string {
	if s.aliasEmpty && len(k) == 0 {
		return "nil"
	}
	return string(k)
}

func (m *model) set(s *subject, k, v []byte) {
	if s.collecting {
		m.P[s.mkey(k)] = pent{v: nn(cpb(v))}
	} else {
		m.R[s.mkey(k)] = nn(cpb(v))
	}
}

func (m *model) del(s *subject, k []byte) {
	if s.collecting {
		m.P[s.mkey(k)] = pent{del: true}
	} else {
		delete(m.R, s.mkey(k))
	}
}

func (m *model) apply(s *subject, o op) {
	switch o.kind {
	case kSet, kSetSync:
		m.set(s, o.k, o.v)
	case kDel, kDelSync:
		m.del(s, o.k)
	case kBatch:
		if o.end == 2 {
			return
		}
		for _, b := range o.b {
			if b.del {
				m.del(s, b.k)
			} else {
				m.set(s, b.k, b.v)
			}
		}
	case kDrain:
		// the collector replays its op log in order; the net effect per key is its last op
		for k, p := range m.P {
			if p.del {
				delete(m.R, k)
			} else {
				m.R[k] = p.v
			}
		}
		m.P = map[string]pent{}
	}
}

// point: what Get must return (nil = absent).
func (m *model) point(s *subject, k []byte) []byte {
	mk := s.mkey(k)
	if p, ok := m.P[mk]; ok {
		if p.del {
			return nil
		}
		return p.v
	}
	return m.R[mk]
}

type kv struct{ k, v []byte }

func sortedKVs(mm map[string][]byte) []kv {
	out := make([]kv, 0, len(mm))
	for k, v := range mm {
		out = append(out, kv{[]byte(k), v})
	}
	sort.Slice(out, func(a, b int) bool { return bytes.Compare(out[a].k, out[b].k) < 0 })
	return out
}

func inDom(k, s, e []byte) bool {
	return bytes.Compare(k, s) >= 0 && (e == nil || bytes.Compare(k, e) < 0)
}

func rangeOf(all []kv, s, e []byte, asc bool) []kv {
	var out []kv
	for _, x := range all {
		if inDom(x.k, s, e) {
			out = append(out, x)
		}
	}
	if !asc {
		for a, b := 0, len(out)-1; a < b; a, b = a+1, b-1 {
			out[a], out[b] = out[b], out[a]
		}
	}
	return out
}

func (m *model) key() string {
	var sb strings.Builder
	for _, e := range sortedKVs(m.R) {
		sb.WriteString(strconv.Quote(string(e.k)) + "=" + strconv.Quote(string(e.v)) + ",")
	}
	if len(m.P) > 0 {
		sb.WriteString("|P:")
		ks := make([]string, 0, len(m.P))
		for k := range m.P {
			ks = append(ks, k)
		}
		sort.Strings(ks)
		for _, k := range ks {
			if m.P[k].del {
				sb.WriteString(strconv.Quote(k) + "=DEL,")
			} else {
				sb.WriteString(strconv.Quote(k) + "=" + strconv.Quote(string(m.P[k].v)) + ",")
			}
		}
	}
	return sb.String()
}

func cloneMap(m map[string][]byte) map[string][]byte {
	c := make(map[string][]byte, len(m))
	for k, v := range m {
		c[k] = v
	}
	return c
}

// ---------------------------------------------------------------------------------------------
// mismatch reporting: class = stable description without the history; the history goes to the detail

type mismatch struct {
	class  string
	detail string
}

func mm(class, format string, a ...any) *mismatch {
	return &mismatch{class: class, detail: fmt.Sprintf(format, a...)}
}

// ---------------------------------------------------------------------------------------------
// real-side helpers

// cpb copies a slice, keeping nil nil: the real DB never shares backing arrays with the op table or the model
// (memdb and the memory batches keep the caller's slices).
func cpb(b []byte) []byte {
	if b == nil {
		return nil
	}
	return append([]byte{}, b...)
}

func applyReal(s *subject, in *inst, o op) *mismatch {
	var err error
	var rec any
	switch o.kind {
	case kSet:
		rec = vk.Catch(func() { err = in.W.Set(cpb(o.k), cpb(o.v)) })
	case kSetSync:
		rec = vk.Catch(func() { err = in.W.SetSync(cpb(o.k), cpb(o.v)) })
	case kDel:
		rec = vk.Catch(func() { err = in.W.Delete(cpb(o.k)) })
	case kDelSync:
		rec = vk.Catch(func() { err = in.W.DeleteSync(cpb(o.k)) })
	case kDrain:
		rec = vk.Catch(func() {
			b := in.under.NewBatch()
			if err = in.coll.Drain(b); err != nil {
				return
			}
			if err = b.WriteSync(); err != nil {
				return
			}
			err = b.Close()
		})
	case kBatch:
		rec = vk.Catch(func() {
			var b dbm.Batch
			if o.sized {
				b = in.W.NewBatchWithSize(1) // (bbolt: MaxBatchSize=1 also makes db.Batch run immediately instead of after MaxBatchDelay)
			} else {
				b = in.W.NewBatch()
			}
			for _, x := range o.b {
				if x.del {
					err = b.Delete(cpb(x.k))
				} else {
					err = b.Set(cpb(x.k), cpb(x.v))
				}
				if err != nil {
					return
				}
			}
			switch o.end {
			case 0:
				err = b.Write()
			case 1:
				err = b.WriteSync()
			}
			if err != nil {
				return
			}
			err = b.Close()
			if err == nil {
				err = b.Close() // Close is documented idempotent
			}
		})
	}
	if rec != nil {
		return mm("op panicked", "%v panicked: %v", o, rec)
	}
	if err != nil {
		return mm("op returned an error", "%v returned error: %v", o, err)
	}
	return nil
}

func eqv(a, b []byte) bool { return (a == nil) == (b == nil) && bytes.Equal(a, b) }

func rq(b []byte) string {
	if b == nil {
		return "~"
	}
	return strconv.Quote(string(b))
}

func kvs(x []kv) string {
	var sb strings.Builder
	sb.WriteString("[")
	for _, e := range x {
		sb.WriteString(rq(e.k) + "=" + rq(e.v) + " ")
	}
	return sb.String() + "]"
}

type reader interface {
	Get([]byte) ([]byte, error)
	Has([]byte) (bool, error)
	Iterator(start, end []byte) (dbm.Iterator, error)
	ReverseIterator(start, end []byte) (dbm.Iterator, error)
}

// checkIter runs one iterator to exhaustion and checks the whole Iterator contract against want.
func checkIter(rd reader, s, e []byte, asc bool, want []kv, obs *strings.Builder, what string) *mismatch {
	dir := "Iterator"
	if !asc {
		dir = "ReverseIterator"
	}
	var it dbm.Iterator
	var err error
	rec := vk.Catch(func() {
		if asc {
			it, err = rd.Iterator(s, e)
		} else {
			it, err = rd.ReverseIterator(s, e)
		}
	})
	if rec != nil || err != nil || it == nil {
		return mm(what+dir+" could not be opened", "%s(%s,%s): panic=%v err=%v", dir, q(s), q(e), rec, err)
	}
	var got []kv
	bad := ""
	rec = vk.Catch(func() {
		ds, de := it.Domain()
		if !bytes.Equal(ds, s) || !bytes.Equal(de, e) || (de == nil) != (e == nil) {
			bad = fmt.Sprintf("Domain()=(%s,%s)", q(ds), q(de))
			return
		}
		for n := 0; it.Valid(); n++ {
			if n > len(want)+2 {
				bad = "yields more items than exist"
				return
			}
			got = append(got, kv{it.Key(), it.Value()})
			it.Next()
		}
	})
	if rec != nil {
		it.Close()
		return mm(what+dir+" panicked while valid", "%s(%s,%s): %v after %s", dir, q(s), q(e), rec, kvs(got))
	}
	if obs != nil {
		fmt.Fprintf(obs, "%s(%s,%s)=", dir, q(s), q(e))
		for _, x := range got {
			obs.WriteString(strconv.Quote(string(x.k)) + "=" + strconv.Quote(string(x.v)) + ",")
		}
		obs.WriteByte(';')
	}
	if bad == "" {
		if len(got) != len(want) {
			bad = "wrong item count"
		} else {
			for i := range got {
				if !bytes.Equal(got[i].k, want[i].k) || !bytes.Equal(got[i].v, want[i].v) {
					bad = "wrong item"
					break
				}
			}
		}
	}
	if bad == "" {
		if it.Valid() {
			bad = "Valid() true again after false"
		} else if vk.Catch(func() { it.Key() }) == nil {
			bad = "Key() on invalid iterator did not panic"
		} else if vk.Catch(func() { it.Value() }) == nil {
			bad = "Value() on invalid iterator did not panic"
		} else if vk.Catch(func() { it.Next() }) == nil {
			bad = "Next() on invalid iterator did not panic"
		} else if it.Error() != nil {
			bad = "Error() != nil"
		}
	}
	var cerr error
	if rec := vk.Catch(func() { cerr = it.Close() }); rec != nil || cerr != nil {
		if bad == "" {
			bad = fmt.Sprintf("Close: panic=%v err=%v", rec, cerr)
		}
	}
	if bad != "" {
		class := what + dir + ": " + bad
		if bad == "wrong item" || bad == "wrong item count" {
			class = what + dir + " yields wrong items"
		}
		return mm(class, "%s(%s,%s): %s; got %s want %s", dir, q(s), q(e), bad, kvs(got), kvs(want))
	}
	return nil
}

// checkPoints: Get/Has of every key of the menu.
func checkPoints(s *subject, rd reader, keys [][]byte, want func(k []byte) []byte, obs *strings.Builder, what string) *mismatch {
	for _, k := range keys {
		var got []byte
		var has bool
		var err, err2 error
		if rec := vk.Catch(func() { got, err = rd.Get(k); has, err2 = rd.Has(k) }); rec != nil || err != nil || err2 != nil {
			return mm(what+"Get/Has failed", "Get/Has(%s): panic=%v err=%v/%v", q(k), rec, err, err2)
		}
		w := want(k)
		if obs != nil {
			fmt.Fprintf(obs, "G(%s)=%s,%v;", q(k), rq(got), has)
		}
		if !eqv(got, w) {
			class := what + "Get returns a wrong value"
			if got == nil && w != nil && len(w) == 0 {
				class = what + "Get returns nil for a key that exists with an empty value"
			} else if got == nil {
				class = what + "Get returns nil for an existing key"
			} else if w == nil {
				class = what + "Get returns a value for an absent key"
			}
			return mm(class, "Get(%s)=%s want %s", q(k), rq(got), rq(w))
		}
		if has != (w != nil) {
			return mm(what+"Has is wrong", "Has(%s)=%v want %v", q(k), has, w != nil)
		}
	}
	return nil
}

type snapRec struct {
	snap dbm.Snapshot
	want map[string][]byte
	at   int
}

type env struct {
	s           *subject
	keys        [][]byte // point-read menu (nil, "" and all written keys)
	bounds      [][]byte // iterator bound menu (nil included)
	ops         []op
	sync        bool
	reopenEvery int  // close/reopen check at every n-th state of a level (disk backends)
	noReverse   bool // observe: skip the full reverse iteration (large-batch phase: done on every 8th batch only)
}

// observe compares everything cheap: point reads and the two full iterations; returns the raw observation digest.
func (e *env) observe(in *inst, m *model, obs *strings.Builder) *mismatch {
	s := e.s
	if mmx := checkPoints(s, in.R, e.keys, func(k []byte) []byte { return m.point(s, k) }, obs, ""); mmx != nil {
		return mmx
	}
	all := sortedKVs(m.R)
	for _, asc := range []bool{true, false} {
		if !asc && e.noReverse {
			continue
		}
		if mmx := checkIter(in.R, nil, nil, asc, rangeOf(all, nil, nil, asc), obs, ""); mmx != nil {
			return mmx
		}
	}
	if s.prefix != nil {
		for _, g := range guardKeys(s.prefix) {
			v, err := in.under.Get(g)
			if err != nil || !bytes.Equal(v, []byte("guard")) {
				return mm("PrefixDB touched a key outside its prefix", "guard key %s = %s err=%v", q(g), rq(v), err)
			}
		}
	}
	if s.readonly {
		for i, f := range []func(){
			func() { in.R.Set([]byte("a"), []byte("z")) }, func() { in.R.SetSync([]byte("a"), []byte("z")) },
			func() { in.R.Delete([]byte("a")) }, func() { in.R.DeleteSync([]byte("a")) },
			func() { b := in.R.NewBatch(); b.Set([]byte("a"), []byte("z")); b.Delete([]byte("b")); b.Write() },
		} {
			if vk.Catch(f) == nil {
				return mm("read-only wrapper accepted a mutation", "mutator #%d did not panic", i)
			}
		}
		b := in.R.NewBatch()
		b.Set([]byte("a"), []byte("z"))
		b.Close()
		if mmx := checkPoints(s, in.R, e.keys, func(k []byte) []byte { return m.point(s, k) }, nil, "after rejected mutations: "); mmx != nil {
			return mmx
		}
	}
	return nil
}

// sweep: iterators for every (start,end) pair of the bound menu, both directions.
func (e *env) sweep(in *inst, m *model) (*mismatch, int) {
	all := sortedKVs(m.R)
	n := 0
	for _, s := range e.bounds {
		for _, en := range e.bounds {
			for _, asc := range []bool{true, false} {
				n++
				if mmx := checkIter(in.R, s, en, asc, rangeOf(all, s, en, asc), nil, ""); mmx != nil {
					return mmx, n
				}
			}
		}
	}
	return nil, n
}

// checkSnapshots: every snapshot taken along the history still shows the state at its creation.
func (e *env) checkSnapshots(snaps []snapRec) (*mismatch, int) {
	n := 0
	for _, sr := range snaps {
		all := sortedKVs(sr.want)
		for pass, rd := range []reader{sr.snap, dbm.NewSnapshotDB(sr.snap)} {
			what := "snapshot: "
			if pass == 1 {
				what = "SnapshotDB: "
			}
			n++
			if mmx := checkPoints(e.s, rd, e.keys, func(k []byte) []byte { return sr.want[e.s.mkey(k)] }, nil, what); mmx != nil {
				mmx.detail = fmt.Sprintf("snapshot taken after %d ops: %s", sr.at, mmx.detail)
				return mmx, n
			}
			for _, asc := range []bool{true, false} {
				if mmx := checkIter(rd, nil, nil, asc, rangeOf(all, nil, nil, asc), nil, what); mmx != nil {
					mmx.detail = fmt.Sprintf("snapshot taken after %d ops: %s", sr.at, mmx.detail)
					return mmx, n
				}
			}
			// one bounded pair in each direction (bounds equal to / between keys)
			if len(e.bounds) > 3 {
				s, en := e.bounds[2], e.bounds[len(e.bounds)-1]
				for _, asc := range []bool{true, false} {
					if mmx := checkIter(rd, s, en, asc, rangeOf(all, s, en, asc), nil, what); mmx != nil {
						return mmx, n
					}
				}
			}
		}
		sdb := dbm.NewSnapshotDB(sr.snap)
		if vk.Catch(func() { sdb.Set([]byte("a"), []byte("z")) }) == nil || vk.Catch(func() { sdb.Delete([]byte("a")) }) == nil ||
			vk.Catch(func() { b := sdb.NewBatch(); b.Set([]byte("a"), nil); b.Write() }) == nil {
			return mm("SnapshotDB accepted a mutation", "mutator did not panic"), n
		}
		if err := sdb.Close(); err != nil {
			return mm("SnapshotDB.Close failed", "%v", err), n
		}
	}
	return nil, n
}

// ---------------------------------------------------------------------------------------------
// BFS per subject

type hkey [16]byte

type stateRec struct {
	path []uint16
}

type finding struct {
	class   string
	detail  string
	path    []string
	order   uint64
	subject string
}

type sstats struct {
	states, transitions, iterChecks, snapChecks, reopenChecks int64
	depth                                                     int
	exhaustive                                                bool
	findings                                                  []finding
}

type shardCtx struct {
	in  *inst
	dir string
}

func (e *env) fresh(sc *shardCtx) error {
	s := e.s
	if sc.in != nil && s.disk {
		// wipe through the API (the physical residue - tombstones, old versions - stays and is part of the test)
		in := sc.in
		if s.collecting {
			in.coll.Reset()
		}
		tgt := in.W
		if s.collecting {
			tgt = in.under
		}
		it, err := tgt.Iterator(nil, nil)
		if err != nil {
			return err
		}
		var ks [][]byte
		for ; it.Valid(); it.Next() {
			ks = append(ks, it.Key())
		}
		it.Close()
		for _, k := range ks {
			if err := tgt.Delete(k); err != nil {
				return err
			}
		}
		return nil
	}
	if sc.in != nil {
		sc.in.closeFn()
		sc.in = nil
	}
	in, err := s.open(sc.dir, e.sync)
	if err != nil {
		return err
	}
	sc.in = in
	return nil
}

func (e *env) reopen(sc *shardCtx) error {
	if err := sc.in.closeFn(); err != nil {
		return err
	}
	in, err := e.s.open(sc.dir, e.sync)
	sc.in = in
	return err
}

func pathStrings(ops []op, path []uint16) []string {
	out := make([]string, len(path))
	for i, p := range path {
		out[i] = ops[p].String()
	}
	return out
}

var printed = map[string]bool{}

var (
	crossMu sync.Mutex
	cross   = map[string]map[string][32]byte{} // class -> stateKey|op -> digest of raw observations
	crossBy = map[string]map[string]string{}   // class -> stateKey|op -> subject that set it
	crossN  atomic.Int64
)

func explore(e *env, maxDepth int, tag string) sstats {
	s := e.s
	var st sstats
	st.exhaustive = true
	seen := map[hkey]bool{}
	hk := func(k string) hkey {
		h := sha256.Sum256([]byte(k))
		var x hkey
		copy(x[:], h[:16])
		return x
	}
	seen[hk(newModel().key())] = true
	frontier := []stateRec{{}}
	st.states = 1
	r.Distinct(s.name + tag + "|")
	shards := make([]*shardCtx, nShards)
	for i := range shards {
		shards[i] = &shardCtx{dir: filepath.Join(workRoot, sanitize(s.name+tag), fmt.Sprint(i))}
	}
	defer func() {
		for _, sc := range shards {
			if sc.in != nil {
				sc.in.closeFn()
			}
		}
		os.RemoveAll(filepath.Join(workRoot, sanitize(s.name+tag)))
	}()
	var fmu sync.Mutex
	tolerated := map[string]bool{} // known-finding classes: reported once, then exploration continues
	minFinding := map[string]finding{}
	var harnessErr atomic.Value
	type cand struct {
		key    string
		parent int
		opi    int
	}
	for level := 0; len(frontier) > 0; level++ {
		lastLevel := maxDepth >= 0 && level == maxDepth
		cands := make([][]cand, nShards)
		var transitions, iterChecks, snapChecks, reopens atomic.Int64
		var stop atomic.Bool
		r.ParFor(nShards, func(sh int) {
			sc := shards[sh]
			for pi := sh; pi < len(frontier); pi += nShards {
				if coreExpired() || stop.Load() {
					stop.Store(true)
					return
				}
				path := frontier[pi].path
				report := func(mmx *mismatch, opi int) bool {
					p := pathStrings(e.ops, path)
					if opi >= 0 {
						p = append(p, e.ops[opi].String())
					}
					fmu.Lock()
					defer fmu.Unlock()
					if tolerated[mmx.class] {
						return true
					}
					f := finding{class: mmx.class, detail: mmx.detail, path: p,
						order: uint64(level)<<48 | uint64(pi)<<16 | uint64(opi+1), subject: s.name}
					if old, ok := minFinding[mmx.class]; !ok || f.order < old.order {
						minFinding[mmx.class] = f
					}
					return true // exploration of this level goes on; the level end decides (known finding vs. new violation)
				}
				// bring an instance to the frontier state, taking a snapshot at every point of the history
				goTo := func() (*model, []snapRec, error) {
					if err := e.fresh(sc); err != nil {
						return nil, nil, err
					}
					m := newModel()
					var snaps []snapRec
					take := func(at int) error {
						if !s.snap {
							return nil
						}
						sn, err := sc.in.R.NewSnapshot()
						if err != nil {
							return err
						}
						snaps = append(snaps, snapRec{sn, cloneMap(m.R), at})
						return nil
					}
					if err := take(0); err != nil {
						return nil, nil, err
					}
					for i, oi := range path {
						if mmx := applyReal(s, sc.in, e.ops[oi]); mmx != nil {
							return nil, nil, fmt.Errorf("replay diverged: %s", mmx.detail)
						}
						m.apply(s, e.ops[oi])
						if err := take(i + 1); err != nil {
							return nil, nil, err
						}
					}
					return m, snaps, nil
				}
				closeSnaps := func(snaps []snapRec) {
					for _, sr := range snaps {
						sr.snap.Close()
					}
				}
				// once per state: the full bound sweep (and for disk backends a close/reopen)
				{
					m, snaps, err := goTo()
					if err != nil {
						harnessErr.Store(err.Error())
						stop.Store(true)
						return
					}
					mmx, n := e.sweep(sc.in, m)
					iterChecks.Add(int64(n))
					if mmx != nil && !report(mmx, -1) {
						closeSnaps(snaps)
						continue
					}
					if !s.snap {
						var sn dbm.Snapshot
						var serr error
						rec := vk.Catch(func() { sn, serr = sc.in.R.NewSnapshot() })
						if rec != nil || serr == nil || sn != nil {
							if !report(mm("NewSnapshot on a backend documented as unsupported did not return an error", "panic=%v err=%v", rec, serr), -1) {
								continue
							}
						}
					}
					closeSnaps(snaps)
					if s.reopen && !s.collecting && (e.reopenEvery > 0 && pi%e.reopenEvery == 0) {
						if err := e.reopen(sc); err != nil {
							harnessErr.Store("reopen: " + err.Error())
							stop.Store(true)
							return
						}
						reopens.Add(1)
						if mmx := e.observe(sc.in, m, nil); mmx != nil {
							mmx.class = "after close/reopen: " + mmx.class
							if !report(mmx, -1) {
								continue
							}
						}
					}
				}
				if lastLevel {
					continue
				}
				restorable := s.disk && !s.collecting
				atS := false
				var mS *model
				for oi, o := range e.ops {
					var m *model
					var snaps []snapRec
					if restorable && atS {
						// the instance was put back into the frontier state by inverse writes (checked by the next observation)
						m = &model{R: cloneMap(mS.R), P: map[string]pent{}}
						if s.snap {
							sn, err := sc.in.R.NewSnapshot()
							if err != nil {
								harnessErr.Store(err.Error())
								stop.Store(true)
								return
							}
							snaps = append(snaps, snapRec{sn, cloneMap(m.R), len(path)})
						}
					} else {
						var err error
						m, snaps, err = goTo()
						if err != nil {
							harnessErr.Store(err.Error())
							stop.Store(true)
							return
						}
						mS = &model{R: cloneMap(m.R), P: map[string]pent{}}
					}
					atS = false
					transitions.Add(1)
					pre := crossKey(s, m)
					mmx := applyReal(s, sc.in, o)
					var obs strings.Builder
					if mmx == nil {
						m.apply(s, o)
						mmx = e.observe(sc.in, m, &obs)
					}
					if mmx == nil && len(snaps) > 0 {
						var n int
						mmx, n = e.checkSnapshots(snaps)
						snapChecks.Add(int64(n))
					}
					closeSnaps(snaps)
					iterChecks.Add(2)
					if mmx != nil {
						if !report(mmx, oi) {
							continue
						}
					} else if _, aliased := m.R["nil"]; !(s.aliasEmpty && aliased) {
						// cross-subject comparison of the raw observations
						ck := pre + "|" + o.String()
						d := sha256.Sum256([]byte(normalizeObs(s, obs.String())))
						crossMu.Lock()
						if cross[s.class+tag] == nil {
							cross[s.class+tag] = map[string][32]byte{}
							crossBy[s.class+tag] = map[string]string{}
						}
						if old, ok := cross[s.class+tag][ck]; ok {
							crossN.Add(1)
							if old != d {
								by := crossBy[s.class+tag][ck]
								crossMu.Unlock()
								report(mm("observations differ from "+by, "raw observations differ from subject %s: %s", by, obs.String()), oi)
								crossMu.Lock()
							}
						} else {
							cross[s.class+tag][ck] = d
							crossBy[s.class+tag][ck] = s.name
						}
						crossMu.Unlock()
					}
					cands[sh] = append(cands[sh], cand{m.key(), pi, oi})
					if restorable && mmx == nil {
						atS = true
						for k, v := range mS.R {
							if pv, ok := m.R[k]; !ok || !bytes.Equal(pv, v) {
								if sc.in.W.Set([]byte(k), cpb(v)) != nil {
									atS = false
								}
							}
						}
						for k := range m.R {
							if _, ok := mS.R[k]; !ok {
								if sc.in.W.Delete([]byte(k)) != nil {
									atS = false
								}
							}
						}
					}
				}
			}
		})
		st.transitions += transitions.Load()
		st.iterChecks += iterChecks.Load()
		st.snapChecks += snapChecks.Load()
		st.reopenChecks += reopens.Load()
		if he := harnessErr.Load(); he != nil {
			r.HarnessError("%s: %v", s.name, he)
		}
		// findings of this level: report the first of every class (deterministic order); known ones are tolerated
		st.findings = st.findings[:0]
		for _, f := range minFinding {
			st.findings = append(st.findings, f)
		}
		minFinding = map[string]finding{}
		sort.Slice(st.findings, func(a, b int) bool { return st.findings[a].order < st.findings[b].order })
		fatal := false
		for _, f := range st.findings {
			if tolerated[f.class] {
				continue
			}
			key := s.keyName() + ": " + f.class
			isNew := r.Violation(key, map[string]any{"subject": s.name, "class": f.class, "history": f.path, "mismatch": f.detail})
			if isNew && !printed[key] {
				printed[key] = true
				fmt.Printf("  %s\n    history: %s\n    => %s\n", key, strings.Join(f.path, " ; "), f.detail)
			}
			tolerated[f.class] = true // reported once (minimal history); exploration continues past it
		}
		if len(tolerated) > 6 {
			fatal = true // too many different mismatch classes: the subject has diverged from the model, stop here
		}
		st.findings = nil
		if fatal {
			st.exhaustive = false
			break
		}
		if stop.Load() || r.Capped() {
			st.exhaustive = false
			break
		}
		if lastLevel {
			break
		}
		var all []cand
		for _, c := range cands {
			all = append(all, c...)
		}
		sort.Slice(all, func(a, b int) bool {
			if all[a].parent != all[b].parent {
				return all[a].parent < all[b].parent
			}
			return all[a].opi < all[b].opi
		})
		var next []stateRec
		for _, c := range all {
			h := hk(c.key)
			if seen[h] {
				continue
			}
			seen[h] = true
			np := append(append([]uint16{}, frontier[c.parent].path...), uint16(c.opi))
			next = append(next, stateRec{np})
			r.Distinct(s.name + tag + "|" + c.key)
		}
		st.states += int64(len(next))
		if len(next) > 0 {
			st.depth = level + 1
		}
		frontier = next
	}
	return st
}

// crossKey: model state rendered identically for every subject of a class.
func crossKey(s *subject, m *model) string {
	if !s.aliasEmpty {
		return m.key()
	}
	c := &model{R: map[string][]byte{}, P: m.P}
	for k, v := range m.R {
		if k == "nil" {
			k = ""
		}
		c.R[k] = v
	}
	return c.key()
}

func sanitize(s string) string {
	var sb strings.Builder
	for _, c := range s {
		if c >= 'a' && c <= 'z' || c >= 'A' && c <= 'Z' || c >= '0' && c <= '9' {
			sb.WriteRune(c)
		} else {
			sb.WriteByte('_')
		}
	}
	return sb.String()
}

// normalizeObs maps documented per-backend renderings onto the common form before cross-comparison.
func normalizeObs(s *subject, o string) string { return o }

// ---------------------------------------------------------------------------------------------
// aliasing probes: slices handed out by Iterator.Key/Value are documented as copies ("safe for modification")

func scribble(b []byte) {
	for i := range b {
		b[i] ^= 0x5a
	}
}

func aliasProbes(s *subject, sync bool) int {
	dir := filepath.Join(workRoot, sanitize(s.name)+"_alias")
	defer os.RemoveAll(dir)
	n := 0
	type probe struct {
		name string
		run  func(in *inst) error
		viol bool // a violation of the documented contract (otherwise informational)
	}
	iterProbe := func(asc, key, viaSnap bool) func(in *inst) error {
		return func(in *inst) error {
			var rd reader = in.R
			if viaSnap {
				sn, err := in.R.NewSnapshot()
				if err != nil {
					return err
				}
				defer sn.Close()
				rd = sn
			}
			var it dbm.Iterator
			var err error
			if asc {
				it, err = rd.Iterator(nil, nil)
			} else {
				it, err = rd.ReverseIterator(nil, nil)
			}
			if err != nil {
				return err
			}
			for ; it.Valid(); it.Next() {
				if key {
					scribble(it.Key())
				} else {
					scribble(it.Value())
				}
			}
			return it.Close()
		}
	}
	probes := []probe{
		{"Iterator.Key", iterProbe(true, true, false), true},
		{"Iterator.Value", iterProbe(true, false, false), true},
		{"ReverseIterator.Key", iterProbe(false, true, false), true},
		{"ReverseIterator.Value", iterProbe(false, false, false), true},
		{"Get result", func(in *inst) error {
			for _, k := range []string{"a", "b"} {
				v, err := in.R.Get([]byte(k))
				if err != nil {
					return err
				}
				scribble(v)
			}
			return nil
		}, false},
		{"Set arguments after the call", func(in *inst) error {
			k, v := []byte("a"), []byte("xy")
			if err := in.W.Set(k, v); err != nil {
				return err
			}
			scribble(k)
			scribble(v)
			return nil
		}, false},
		{"Batch.Set arguments between Set and Write", func(in *inst) error {
			b := in.W.NewBatch()
			k, v := []byte("a"), []byte("xy")
			if err := b.Set(k, v); err != nil {
				return err
			}
			scribble(k)
			scribble(v)
			if err := b.Write(); err != nil {
				return err
			}
			return b.Close()
		}, false},
	}
	if s.snap {
		probes = append(probes, probe{"Snapshot Iterator.Key", iterProbe(true, true, true), true},
			probe{"Snapshot Iterator.Value", iterProbe(true, false, true), true})
	}
	aliased := map[string][]string{}
	defer func() {
		for _, what := range []string{"Key", "Value"} {
			if len(aliased[what]) == 0 {
				continue
			}
			key := s.keyName() + ": slice returned by Iterator." + what + " aliases the store"
			if r.Violation(key, map[string]any{"subject": s.name, "history": []string{`Set("a","xy")`, `Set("b","xy")`, "iterate, XOR every returned " + what + " slice with 0x5a", "read back"}, "probes": aliased[what]}) {
				fmt.Printf("  %s\n    => %s\n", key, strings.Join(aliased[what], " | "))
			}
		}
	}()
	for _, p := range probes {
		if s.readonly && strings.Contains(p.name, "arguments") {
			continue
		}
		os.RemoveAll(dir)
		in, err := s.open(dir, sync)
		if err != nil {
			r.HarnessError("alias probe open %s: %v", s.name, err)
		}
		m := newModel()
		for _, o := range []op{{kind: kSet, k: []byte("a"), v: []byte("xy")}, {kind: kSet, k: []byte("b"), v: []byte("xy")}} {
			if mmx := applyReal(s, in, o); mmx != nil {
				r.HarnessError("alias probe setup %s: %s", s.name, mmx.detail)
			}
			m.apply(s, o)
		}
		if s.collecting { // make the values live in the real DB too
			applyReal(s, in, op{kind: kDrain})
			m.apply(s, op{kind: kDrain})
		}
		e0 := &env{s: s, keys: [][]byte{[]byte("a"), []byte("b")}}
		if e0.observe(in, m, nil) != nil {
			in.closeFn() // the subject is already wrong before anything is scribbled on: not an aliasing question
			r.Outcome("alias_probe:skipped_subject_already_wrong")
			continue
		}
		n++
		if err := p.run(in); err != nil {
			if !(strings.Contains(p.name, "Snapshot")) {
				r.HarnessError("alias probe %s on %s: %v", p.name, s.name, err)
			}
		}
		e := &env{s: s, keys: [][]byte{[]byte("a"), []byte("b")}}
		mmx := e.observe(in, m, nil)
		in.closeFn()
		if mmx != nil {
			if p.viol {
				what := "Key"
				if strings.HasSuffix(p.name, "Value") {
					what = "Value"
				}
				aliased[what] = append(aliased[what], p.name+": "+mmx.detail)
				r.Outcome("alias_probe:violation")
			} else {
				r.Outcome("info:store_aliases_" + strings.ReplaceAll(p.name, " ", "_") + ":" + s.name)
			}
		} else {
			r.Outcome("alias_probe:copy_ok")
		}
	}
	return n
}

// ---------------------------------------------------------------------------------------------

func bs(ss ...string) [][]byte {
	out := make([][]byte, len(ss))
	for i, s := range ss {
		out[i] = []byte(s)
	}
	return out
}

func main() {
	r = vk.New("model_checking")
	r.SetBudget(85*time.Second, 20*time.Minute)
	// budget shares: the BFS phases (1-4) stop at coreDeadline, the large-batch phase (5) gets what is left, at most `share`
	share := 20 * time.Second
	coreDeadline = time.Now().Add(65 * time.Second)
	if r.Thorough() {
		share = 4 * time.Minute
		coreDeadline = time.Now().Add(16 * time.Minute)
	}
	log.SetOutput(io.Discard) // pebble's default logger reports WAL replays on reopen
	if r.ReplayIn != "" {
		// violation keys are class-stable ("<subject>: <mismatch class>"); the artefact holds the BFS-minimal history.
		// Replaying = re-running the (deterministic) quick exploration, which re-reports the key if it still reproduces.
		b, _ := os.ReadFile(r.ReplayIn)
		fmt.Printf("replay artefact:\n%s\nre-running the quick exploration:\n", b)
	}
	sweepStale()
	os.RemoveAll(workRoot)
	os.MkdirAll(workRoot, 0o755)

	th := r.Thorough()
	// keys written by single ops (nil and "" are the same key; both spellings are exercised)
	wkeys := append([][]byte{nil}, bs("", "a", "a\xff", "b", "\xff")...)
	bkeys := append([][]byte{nil}, bs("a")...)
	bounds := append([][]byte{nil}, bs("", "a", "a\x00", "a\xff", "b", "\xff")...)
	if th {
		wkeys = append([][]byte{nil}, bs("", "a", "a\x00", "a\xff", "b", "\xff")...)
		bkeys = append([][]byte{nil}, bs("a", "b")...)
		bounds = append(bounds, []byte("\xff\xff"))
	}
	readKeys := append(append([][]byte{}, wkeys...), []byte("a\x00\x00"), []byte("nil"))
	ckeys := append([][]byte{nil}, bs("a", "\xff")...)

	mem := plain("memdb", false, openMem, true, false)
	ldb := plain("goleveldb", true, openLevel, false, false)
	peb := plain("pebbledb", true, openPebble, true, false)
	bolt := plain("boltdb", true, openBolt, false, true)
	subjects := []*subject{mem, ldb, peb, bolt,
		prefixed("memdb", false, openMem, "a", false), prefixed("memdb", false, openMem, "\xff", false),
		prefixed("goleveldb", true, openLevel, "\xff", false), prefixed("pebbledb", true, openPebble, "a", false),
		immutable("memdb", false, openMem, false, true),
	}
	if th {
		subjects = append(subjects, prefixed("goleveldb", true, openLevel, "a", false), prefixed("pebbledb", true, openPebble, "\xff", false),
			prefixed("boltdb", true, openBolt, "a", false), prefixed("boltdb", true, openBolt, "\xff", false), nestedPrefix(),
			immutable("goleveldb", true, openLevel, false, false), immutable("pebbledb", true, openPebble, false, true))
	}
	csubjects := []*subject{collecting("memdb", false, openMem, true)}
	if th {
		csubjects = append(csubjects, collecting("pebbledb", true, openPebble, true))
	}

	per := map[string]any{}
	var tot sstats
	exhaustive := true
	run := func(s *subject, e *env, depth int, tag string) {
		t0 := time.Now()
		e.reopenEvery = 1
		if !th && !e.sync {
			e.reopenEvery = 4
		}
		st := explore(e, depth, tag)
		tot.states += st.states
		tot.transitions += st.transitions
		tot.iterChecks += st.iterChecks
		tot.snapChecks += st.snapChecks
		tot.reopenChecks += st.reopenChecks
		if st.depth > tot.depth {
			tot.depth = st.depth
		}
		if !st.exhaustive {
			exhaustive = false
		}
		per[s.name+tag] = map[string]any{"states": st.states, "transitions": st.transitions, "depth_to_fixpoint_or_bound": st.depth,
			"iterator_checks": st.iterChecks, "snapshot_checks": st.snapChecks, "reopen_checks": st.reopenChecks, "alphabet": len(e.ops), "complete": st.exhaustive}
		fmt.Printf("  %-40s alphabet=%d states=%d transitions=%d depth=%d iterChecks=%d snapChecks=%d reopen=%d complete=%v (%.1fs)\n",
			s.name+tag, len(e.ops), st.states, st.transitions, st.depth, st.iterChecks, st.snapChecks, st.reopenChecks, st.exhaustive, time.Since(t0).Seconds())
	}
	// order: cheap passes first, so that a budget cap (thorough) cuts the slow disk-backed fixpoints, not these
	// 1. default (syncing) options of the disk backends: everything else runs them without fsync for speed
	syncDepth := 1
	if th {
		syncDepth = 2
	}
	for _, s := range []*subject{ldb, peb, bolt} {
		run(s, &env{s: s, keys: readKeys, bounds: bounds, ops: buildAlphabet(append([][]byte{nil}, bs("a", "\xff")...), bs("a"), false), sync: true}, syncDepth, " [default options]")
	}
	// 2. aliasing probes: the four backends, and the wrappers over a backend that copies (so that a wrapper's own aliasing shows)
	probes := 0
	asubj := []*subject{mem, ldb, peb, bolt, prefixed("goleveldb", true, openLevel, "a", false), collecting("goleveldb", true, openLevel, false),
		immutable("pebbledb", true, openPebble, false, true)}
	for _, s := range asubj {
		probes += aliasProbes(s, false)
	}
	// 3. CollectingDB
	cops := buildAlphabet(ckeys, bs("a"), true)
	for _, s := range csubjects {
		run(s, &env{s: s, keys: append(append([][]byte{}, ckeys...), []byte("")), bounds: append([][]byte{nil}, bs("", "a", "b", "\xff")...), ops: cops}, -1, "")
	}
	// 4. key-value subjects: memory-backed first, then disk-backed
	ops := buildAlphabet(wkeys, bkeys, false)
	// disk-backed subjects get one key less than memory subjects (quick: 81 vs 243 model states, thorough: 243 vs 729)
	dops := buildAlphabet(append([][]byte{nil}, bs("", "a", "a\xff", "\xff")...), bkeys, false)
	if th {
		dops = buildAlphabet(append([][]byte{nil}, bs("", "a", "a\xff", "b", "\xff")...), bkeys, false)
	}
	for _, s := range subjects {
		if !s.disk {
			run(s, &env{s: s, keys: readKeys, bounds: bounds, ops: ops}, -1, "")
		}
	}
	for _, s := range subjects {
		if s.disk {
			run(s, &env{s: s, keys: readKeys, bounds: bounds, ops: dops}, -1, "")
		}
	}
	// 5. large batches (13..20 operations) staging one key several times: every subject. Last, on its own share of the
	// budget (quick 20 s, thorough 4 min; less if the phases before used more than expected).
	bigPer, bigTotal, bigComplete := runBigBatches(append(append([]*subject{}, subjects...), csubjects...), th, share)
	tot.transitions += bigTotal
	if !bigComplete {
		exhaustive = false
		r.MarkCapped()
	}
	os.RemoveAll(workRoot)
	r.EvalN(tot.transitions)
	r.OutcomeN("transition_checked", tot.transitions)
	r.OutcomeN("iterator_contract_check", tot.iterChecks)
	r.OutcomeN("snapshot_isolation_check", tot.snapChecks)
	r.OutcomeN("close_reopen_check", tot.reopenChecks)
	r.OutcomeN("cross_subject_comparison", crossN.Load())
	r.OutcomeN("large_batch_with_repeated_key_checked", bigTotal)
	r.Sample(map[string]any{"subject": "goleveldb", "history": []string{`Set("a\xff","x")`, `Batch{Delete(nil);Set("a",nil);WriteSync}`}, "then": "Get/Has of 9 keys, Iterator/ReverseIterator(nil,nil), once per state all 64 (start,end) pairs x 2 directions"})
	r.Assumptions = []string{
		"disk backends are opened without fsync for the bulk exploration (goleveldb opt.NoSync, pebble DisableWAL, bbolt NoSync) through the packages' public *WithOpts constructors; the default constructors are explored to a small depth ('[default options]')",
		"boltdb stores the empty key as \"nil\" (documented in boltdb.go nonEmptyKey): its model applies the same renaming, so iteration shows \"nil\" where other backends show \"\"",
		"goleveldb, boltdb and PrefixDB document NewSnapshot as unsupported: the check there is that an error is returned",
		"CollectingDB is documented to serve point reads from its pending ops and iterators from the underlying DB only; its model has the same two views",
		"cgo backends (lmdb, mdbx) are not buildable in this image",
		"Get results and argument buffers are covered by the interface's 'readonly' contract; aliasing there is recorded as info outcomes, only Iterator.Key/Value (documented as copies) is a violation",
	}
	r.Finish("per subject: BFS to fixpoint over the model-state graph (every reachable model state x every op: Set/SetSync/Delete/DeleteSync with nil/empty/non-empty keys and values, 0..2-op batches ended by Write/WriteSync/Close, Drain for CollectingDB), real DB brought to the state by fresh-or-wiped instance + replay; distinct = distinct (subject, model state)",
		exhaustive, map[string]any{"states": tot.states, "transitions": tot.transitions, "traces_validated_against_impl": tot.transitions,
			"depth": tot.depth, "subjects": per, "large_batches": bigPer, "large_batches_total": bigTotal, "alias_probes": probes, "cross_subject_comparisons": crossN.Load()})
}
