// Part 3 (writer paths). The /p/ immutability gate decides from the SHAPE of the call stack whether a write to /p/ state
// belongs to the package's own initialisation. This part enumerates the shapes: a purpose-built /p/ package whose
// exported entry points interpret a route string hop by hop — every hop is a real call frame of a given kind (pointer
// method, plain function, closure literal, deferred call, method value, interface dispatch, method expression, closure
// stored in a /p/ global, recover-wrapped call) — and perform one of 5 writes (sinks) at the end of the route, inline in
// the last frame. Importers (/r/ and /p/) reach the entry points from init(), from helpers of init(), from package-level
// var initialisers (direct call expression / func literal / helper), through 14 entry forms (method call, plain function,
// stored closure, method value / expression, interfaces, defer, callbacks re-entering /p/, local copy of the pointer,
// relays through another /p/ package and through a realm), while the importer is being ADDED (StageAdd); the same entry
// forms are driven through MsgCall and MsgRun (StageRun). Oracle as in part 2: the /p/ package's object bytes, vm/qeval
// and a reader realm never differ from the post-init snapshot, and an importer that does get deployed has seen and
// persisted exactly the snapshot. Controls: every (importer, site, entry) context is first deployed with the no-write sink
// (must be accepted, so a rejection of the writing variants is the gate's and not a compile error); and /p/ packages
// that run the same routes on their OWN state during their OWN add must be accepted with exactly the modelled state.
package main

import (
	"fmt"
	"os"
	"sort"
	"strings"
	"sync"
	"sync/atomic"
	"time"

	"github.com/gnolang/gno/tm2/pkg/std"
	"verif/engine/chainx"
)

// ---- the /p/ package -----------------------------------------------------------------------------------------

const wxWrite = `switch sink {
		case 0:
			t.F = 9
		case 1:
			S.F = 9
		case 2:
			Counter++
		case 3:
			M["z"] = 1
		case 4:
			Sl[0] = 9
		default:
			_ = t.F
		}`

const wxDispatch = `if route == "" {
		WRITE
		return 1
	}
	rest := route[1:]
	switch route[0] {
	case 'm':
		return t.Go(rest, sink)
	case 'f':
		return Step(t, rest, sink)
	case 'c':
		return func() int { return Step(t, rest, sink) }()
	case 'k':
		return func() int { return t.Go(rest, sink) }()
	case 'd':
		defer t.Go(rest, sink)
	case 'e':
		defer Step(t, rest, sink)
	case 'v':
		g := t.Go
		return g(rest, sink)
	case 'i':
		var y Goer = t
		return y.Go(rest, sink)
	case 'g':
		return Fn(rest, sink)
	case 'x':
		return (*T).Go(t, rest, sink)
	case 'r':
		defer func() { recover() }()
		return t.Go(rest, sink)
	case 'C':
		func() {
			WRITE
		}()
	case 'D':
		defer func() {
			WRITE
		}()
	case 'G':
		return FnW(sink)
	}
	return 0`

const wxSrcT = `package PKG

type T struct {
	F int
}

type Goer interface {
	Go(route string, sink int) int
}

var (
	Counter int
	S       = &T{F: 1}
	M       = map[string]int{"k": 1}
	Sl      = []int{1, 2, 3}
	I       Goer = S
	Fn      func(route string, sink int) int
	FnW     = func(sink int) int {
		t := S
		WRITE
		return 1
	}
)

func init() {
	Fn = func(route string, sink int) int { return S.Go(route, sink) }
	OWNINIT
}

func (t *T) Go(route string, sink int) int {
	DISPATCH
}

func Step(t *T, route string, sink int) int {
	DISPATCH
}

func (t *T) Call(f func() int) int { return f() }

func Do(f func() int) int { return f() }

func itoa(n int) string {
	if n == 0 {
		return "0"
	}
	s := ""
	for ; n > 0; n /= 10 {
		s = string(rune('0'+n%10)) + s
	}
	return s
}

func Snapshot() string {
	return itoa(Counter) + "," + itoa(S.F) + "," + itoa(len(M)) + ":" + itoa(M["k"]) + ":" + itoa(M["z"]) + "," +
		itoa(len(Sl)) + ":" + itoa(Sl[0]) + ":" + itoa(Sl[1])
}
`

func wxSrc(pkg, ownInit string) string {
	s := strings.ReplaceAll(wxSrcT, "DISPATCH", wxDispatch)
	s = strings.ReplaceAll(s, "WRITE", wxWrite)
	s = strings.Replace(s, "OWNINIT", ownInit, 1)
	return strings.Replace(s, "PKG", pkg, 1)
}

const wxSnap0 = "0,1,1:1:0,3:1:2"

// model of the /p/ state after a list of (route, sink) writes performed during the package's OWN initialisation
type wxModel struct {
	counter, f, z, sl0 int
}

func (m *wxModel) apply(sink int) {
	switch sink {
	case 0, 1:
		m.f = 9
	case 2:
		m.counter++
	case 3:
		m.z = 1
	case 4:
		m.sl0 = 9
	}
}

func (m wxModel) snap() string {
	return fmt.Sprintf("%d,%d,%d:1:%d,3:%d:2", m.counter, m.f, 1+m.z, m.z, m.sl0)
}

var sinkNames = []string{"recv-field", "global-ptr-field", "global-int", "map-insert", "slice-elem", "none"}

const sinkNone = 5

// ---- routes ---------------------------------------------------------------------------------------------------

const (
	hopsAll  = "mfckdevigxr"
	hopsCore = "mfk"
)

var terminals = []string{"", "C", "D", "G"}

func prefixes(alpha string, n int) []string {
	out := []string{""}
	for i := 0; i < n; i++ {
		var nx []string
		for _, p := range out {
			for _, h := range alpha {
				nx = append(nx, p+string(h))
			}
		}
		out = nx
	}
	return out
}

// ---- importers -------------------------------------------------------------------------------------------------

type entryDef struct {
	id    string
	stmt  string // statement(s); ROUTE and SINK are replaced by the route literal and the sink
	expr  string // expression form ("" = none)
	decl  string // extra top-level declarations of the importer
	relay string // "", "p" or "r": needs the relay package import
}

var entries = []entryDef{
	{id: "method", expr: "x.S.Go(ROUTE, SINK)"},
	{id: "func", expr: "x.Step(x.S, ROUTE, SINK)"},
	{id: "stored-closure", expr: "x.Fn(ROUTE, SINK)"},
	{id: "method-expr", expr: "(*x.T).Go(x.S, ROUTE, SINK)"},
	{id: "iface-global", expr: "x.I.Go(ROUTE, SINK)"},
	{id: "relay-p", expr: "rq.Relay(ROUTE, SINK)", relay: "p"},
	{id: "relay-p-nested", expr: "rq.RelayH(ROUTE, SINK)", relay: "p"},
	{id: "method-value", stmt: "mv := x.S.Go\n\tmv(ROUTE, SINK)"},
	{id: "iface-p", stmt: "var gi x.Goer = x.S\n\tgi.Go(ROUTE, SINK)"},
	{id: "iface-own", stmt: "var gi goer = x.S\n\tgi.Go(ROUTE, SINK)", decl: "type goer interface {\n\tGo(string, int) int\n}\n"},
	{id: "defer", stmt: "func() {\n\t\tdefer x.S.Go(ROUTE, SINK)\n\t}()"},
	{id: "callback-method", expr: "x.S.Call(func() int { return x.S.Go(ROUTE, SINK) })"},
	{id: "callback-func", expr: "x.Do(func() int { return x.S.Go(ROUTE, SINK) })"},
	{id: "local-copy", stmt: "lp := x.S\n\tlp.Go(ROUTE, SINK)"},
	{id: "relay-r", stmt: "rr.Relay(cross(cur), ROUTE, SINK)", relay: "r"}, // needs cur: site init-cur / call only
}

func entryByID(id string) entryDef {
	for _, e := range entries {
		if e.id == id {
			return e
		}
	}
	panic("no entry " + id)
}

func (e entryDef) statement() string {
	if e.stmt != "" {
		return e.stmt
	}
	return e.expr
}

type siteDef struct {
	id       string
	needExpr bool
	body     string // STMT / EXPR placeholders
	second   string // optional second file body
}

var sites = []siteDef{
	{id: "init", body: "var Seen string\n\nfunc init() {\n\tSTMT\n\tSeen = x.Snapshot()\n}\n"},
	{id: "init-helper1", body: "var Seen string\n\nfunc init() {\n\th1()\n\tSeen = x.Snapshot()\n}\n\nfunc h1() {\n\tSTMT\n}\n"},
	{id: "init-helper2", body: "var Seen string\n\nfunc init() {\n\th1()\n\tSeen = x.Snapshot()\n}\n\nfunc h1() { h2() }\n\nfunc h2() {\n\tSTMT\n}\n"},
	{id: "init-own-method", body: "var Seen string\n\ntype hT struct{}\n\nfunc (hT) do() {\n\tSTMT\n}\n\nfunc init() {\n\thT{}.do()\n\tSeen = x.Snapshot()\n}\n"},
	{id: "init-2nd-file", body: "var Seen string\n\nfunc init() {}\n", second: "func init() {\n\tSTMT\n\tSeen = x.Snapshot()\n}\n"},
	{id: "init-func-literal", body: "var Seen string\n\nfunc init() {\n\tfunc() {\n\t\tSTMT\n\t}()\n\tSeen = x.Snapshot()\n}\n"},
	{id: "init-recover", body: "var Seen string\n\nfunc init() {\n\tfunc() {\n\t\tdefer func() { recover() }()\n\t\tSTMT\n\t}()\n\tSeen = x.Snapshot()\n}\n"},
	{id: "var-func-literal", body: "var Seen = func() string {\n\tSTMT\n\treturn x.Snapshot()\n}()\n"},
	{id: "var-helper", body: "var Seen = h1()\n\nfunc h1() string {\n\tSTMT\n\treturn x.Snapshot()\n}\n"},
	{id: "var-direct", needExpr: true, body: "var dummy = EXPR\n\nvar Seen = after(dummy)\n\nfunc after(int) string { return x.Snapshot() }\n"},
	{id: "init-cur", body: "var Seen string\n\nfunc init(cur realm) {\n\tSTMT\n\tSeen = x.Snapshot()\n}\n"},
}

func siteByID(id string) siteDef {
	for _, s := range sites {
		if s.id == id {
			return s
		}
	}
	panic("no site " + id)
}

type wctx struct{ imp, site, entry string } // imp: "r" | "p"

func (c wctx) id() string { return c.imp + ":" + c.site + ":" + c.entry }

func (c wctx) applicable() bool {
	e, s := entryByID(c.entry), siteByID(c.site)
	if s.needExpr && e.expr == "" {
		return false
	}
	if e.relay == "r" && (c.imp != "r" || c.site != "init-cur") {
		return false
	}
	if c.site == "init-cur" && (c.imp != "r" || (c.entry != "relay-r" && c.entry != "method")) {
		return false
	}
	return true
}

type wcase struct {
	wctx
	route string
	sink  int
}

func (c wcase) id() string {
	return fmt.Sprintf("%s:route=%q:sink=%s", c.wctx.id(), c.route, sinkNames[c.sink])
}

// importerFiles generates the importer package (source identical for all routes/sinks of a context but the literals).
func (w *wworld) importerFiles(name string, c wcase) map[string]string {
	e, s := entryByID(c.entry), siteByID(c.site)
	sub := func(t string) string {
		return strings.ReplaceAll(strings.ReplaceAll(t, "ROUTE", fmt.Sprintf("%q", c.route)), "SINK", fmt.Sprint(c.sink))
	}
	imports := fmt.Sprintf("\tx %q\n", w.xPath)
	switch e.relay {
	case "p":
		imports += fmt.Sprintf("\trq %q\n", w.qPath)
	case "r":
		imports += fmt.Sprintf("\trr %q\n", w.rrPath)
	}
	head := "package " + name + "\n\nimport (\n" + imports + ")\n\n" + e.decl
	fill := func(b string) string {
		return strings.Replace(strings.Replace(b, "STMT", sub(e.statement()), 1), "EXPR", sub(e.expr), 1)
	}
	if s.second != "" {
		return map[string]string{"a.gno": "package " + name + "\n\n" + s.body, "b.gno": head + fill(s.second)}
	}
	return map[string]string{"a.gno": head + fill(s.body)}
}

// ---- world -------------------------------------------------------------------------------------------------------

type wworld struct {
	c                                     *chainx.Chain
	job                                   int
	k, n                                  int
	xPath, qPath, rrPath, rdPath, tryPath string
	pobj                                  map[string]string
	snap, qsnap                           string
	hist                                  []string
	okCtx                                 map[string]bool // contexts whose control deployment was accepted
}

var nWAttempts, nWAccepted atomic.Int64

var (
	obsMu        sync.Mutex
	observations = map[string]any{}
)

func observe(key string, v any) {
	obsMu.Lock()
	observations[key] = v
	obsMu.Unlock()
}

func (w *wworld) tx(msgs ...std.Msg) (string, bool, string) {
	w.c.BeginBlock()
	res := w.c.DeliverTx(w.c.MakeTx(keys, msgs, chainx.TxOpt{GasWanted: 100_000_000}))
	nTx.Add(1)
	w.c.EndBlockCommit()
	return string(res.Data), res.Error == nil, firstLine(res.Log)
}

func (w *wworld) mustDeploy(who chainx.Key, path string, files map[string]string) {
	if _, ok, log := w.tx(chainx.AddPkg(who.Addr, path, files)); !ok {
		r.HarnessError("part 3: deploy %s: %s\n%v", path, log, files)
	}
}

const relayPSrc = `package PKG

import x "XPATH"

func Relay(route string, sink int) int { return x.S.Go(route, sink) }

func RelayH(route string, sink int) int { return help(route, sink) }

func help(route string, sink int) int { return x.Step(x.S, route, sink) }
`

const relayRSrc = `package PKG

import x "XPATH"

func Relay(cur realm, route string, sink int) int { return x.S.Go(route, sink) }
`

// trySrc: StageRun driver; one realm function, the entry form is selected by name.
func (w *wworld) trySrc(pkg string) string {
	var b strings.Builder
	fmt.Fprintf(&b, "package %s\n\nimport (\n\tx %q\n\trq %q\n\trr %q\n)\n\ntype goer interface {\n\tGo(string, int) int\n}\n\n", pkg, w.xPath, w.qPath, w.rrPath)
	b.WriteString("func Try(cur realm, entry string, route string, sink int) string {\n\tswitch entry {\n")
	for _, e := range entries {
		st := strings.ReplaceAll(strings.ReplaceAll(e.statement(), "ROUTE", "route"), "SINK", "sink")
		fmt.Fprintf(&b, "\tcase %q:\n\t%s\n", e.id, strings.ReplaceAll(st, "\n", "\n\t"))
	}
	b.WriteString("\tdefault:\n\t\tpanic(\"no such entry\")\n\t}\n\treturn x.Snapshot()\n}\n")
	return b.String()
}

func (w *wworld) fresh() {
	w.k++
	w.hist = nil
	tag := fmt.Sprintf("j%02dk%02d", w.job, w.k)
	w.xPath, w.qPath = "gno.land/p/xx/wx"+tag, "gno.land/p/xx/wq"+tag
	w.rrPath, w.rdPath, w.tryPath = "gno.land/r/aa/wr"+tag, "gno.land/r/aa/wd"+tag, "gno.land/r/aa/wt"+tag
	w.mustDeploy(A, w.xPath, map[string]string{"x.gno": wxSrc("wx"+tag, "")})
	rep := func(src, pkg string) string {
		return strings.Replace(strings.Replace(src, "PKG", pkg, 1), "XPATH", w.xPath, 1)
	}
	w.mustDeploy(A, w.qPath, map[string]string{"q.gno": rep(relayPSrc, "wq"+tag)})
	w.mustDeploy(A, w.rrPath, map[string]string{"r.gno": rep(relayRSrc, "wr"+tag)})
	w.mustDeploy(A, w.rdPath, map[string]string{"rd.gno": rep("package PKG\n\nimport x \"XPATH\"\n\nfunc Read(cur realm) string { return x.Snapshot() }\n", "wd"+tag)})
	w.mustDeploy(A, w.tryPath, map[string]string{"t.gno": w.trySrc("wt" + tag)})
	w.pobj = w.c.PrefixDump("base", pidPrefix(w.xPath))
	if len(w.pobj) == 0 {
		r.HarnessError("%s has no persisted objects", w.xPath)
	}
	data, ok, log := w.tx(chainx.Call(U.Addr, nil, w.rdPath, "Read"))
	if !ok || !strings.Contains(data, `"`+wxSnap0+`"`) {
		r.HarnessError("part 3 reader: %v %q %s", ok, data, log)
	}
	w.snap = data
	q := w.c.Query("vm/qeval", []byte(w.xPath+".Snapshot()"))
	w.qsnap = fmt.Sprintf("%v|%s", q.Error != nil, q.Data)
	if !strings.Contains(w.qsnap, wxSnap0) {
		r.HarnessError("part 3 qeval: %s", w.qsnap)
	}
}

// frozen checks the persisted observation points of the /p/ package; withReader adds a reader-realm transaction.
func (w *wworld) frozen(id string, withReader bool, det func(map[string]any) map[string]any) bool {
	ok := true
	nChecks.Add(2)
	if d := chainx.DiffDump(w.pobj, w.c.PrefixDump("base", pidPrefix(w.xPath))); len(d) > 0 {
		wviol("p-package-object-bytes-changed-by:"+id, det(map[string]any{"diff": d}))
		ok = false
	}
	q := w.c.Query("vm/qeval", []byte(w.xPath+".Snapshot()"))
	if qs := fmt.Sprintf("%v|%s", q.Error != nil, q.Data); qs != w.qsnap {
		wviol("p-package-state-mutated-by(qeval):"+id, det(map[string]any{"before": w.qsnap, "after": qs}))
		ok = false
	}
	if withReader {
		nChecks.Add(1)
		data, good, log := w.tx(chainx.Call(U.Addr, nil, w.rdPath, "Read"))
		if !good {
			wviol("p-package-unreadable-after:"+id, det(map[string]any{"log": log}))
			return false
		}
		if data != w.snap {
			wviol("p-package-state-mutated-by:"+id, det(map[string]any{"snapshot_before": w.snap, "snapshot_after": data}))
			ok = false
		}
	}
	return ok
}

func rejectClass(log string) string {
	switch {
	case strings.Contains(log, "immutable post-init"):
		return "gate(immutable post-init)"
	case strings.Contains(log, "readonly"):
		return "readonly-check"
	case strings.Contains(log, "out of gas"):
		return "out-of-gas"
	}
	return "other"
}

// try = one attempt during ANOTHER package's add. Returns false when the /p/ instance is no longer pristine.
func (w *wworld) try(c wcase) bool {
	name := fmt.Sprintf("w%02dk%02dn%04d", w.job, w.k, w.n)
	w.n++
	path := "gno.land/r/aa/" + name
	if c.imp == "p" {
		path = "gno.land/p/xx/" + name
	}
	files := w.importerFiles(name, c)
	_, deployed, log := w.tx(chainx.AddPkg(U.Addr, path, files))
	id := "add:" + c.id()
	w.hist = append(w.hist, "deploy("+id+")")
	nWAttempts.Add(1)
	r.Eval()
	det := func(extra map[string]any) map[string]any {
		extra["history_on_this_p_package"] = append([]string{}, w.hist...)
		extra["p_package"] = w.xPath
		extra["importer_path"] = path
		extra["importer_files"] = files
		extra["case"] = c.id()
		return extra
	}
	if c.sink == sinkNone {
		// control: same source, no write — must be accepted and must see the snapshot
		if !deployed {
			r.HarnessError("part 3 control %s rejected: %s\n%v", c.id(), log, files)
		}
		w.okCtx[c.wctx.id()] = true
		r.Outcome("wpath:control-accepted:" + c.imp + ":" + c.site)
	} else if !w.okCtx[c.wctx.id()] {
		r.HarnessError("part 3: %s attempted before its control", c.id())
	}
	pristine := true
	if deployed {
		nWAccepted.Add(1)
		q := w.c.Query("vm/qeval", []byte(path+".Seen"))
		nChecks.Add(1)
		seen := string(q.Data)
		if q.Error != nil || !strings.Contains(seen, `"`+wxSnap0+`"`) {
			wviol("p-state-mutated-during-another-package-add:"+c.id(), det(map[string]any{"snapshot_after_p_init": wxSnap0,
				"value_seen_and_persisted_by_the_importer": seen, "qeval_error": fmt.Sprint(q.Error)}))
			r.Outcome("wpath:MUTATED:" + c.imp + ":" + c.site + ":" + c.entry)
			pristine = false
		}
		if c.sink != sinkNone {
			r.Outcome("wpath:add:write-attempt-ran-without-error:" + c.entry)
		}
	} else {
		cl := rejectClass(log)
		r.Outcome("wpath:add:rejected:" + cl)
		if cl == "other" || cl == "out-of-gas" {
			r.HarnessError("part 3: %s rejected for an unrelated reason: %s\n%v", c.id(), log, files)
		}
	}
	r.Distinct(fmt.Sprintf("wpath|%s|%v", c.id(), deployed))
	if !w.frozen(id, deployed, det) {
		pristine = false
	}
	return pristine
}

// call = one attempt in StageRun through the driver realm (MsgCall with the entry form, route and sink as arguments).
func (w *wworld) call(entry, route string, sink int) bool {
	id := fmt.Sprintf("call:%s:route=%q:sink=%s", entry, route, sinkNames[sink])
	data, good, log := w.tx(chainx.Call(U.Addr, nil, w.tryPath, "Try", entry, route, fmt.Sprint(sink)))
	w.hist = append(w.hist, id)
	r.Eval()
	det := func(extra map[string]any) map[string]any {
		extra["history_on_this_p_package"] = append([]string{}, w.hist...)
		extra["p_package"] = w.xPath
		extra["driver_realm_source"] = w.trySrc("wt")
		return extra
	}
	pristine := true
	if sink == sinkNone {
		if !good {
			r.HarnessError("part 3 call control %s rejected: %s", id, log)
		}
		r.Outcome("wpath:call:control-accepted")
	}
	if good {
		if data != w.snap {
			wviol("p-state-mutated-within-tx:"+id, det(map[string]any{"snapshot_before": w.snap, "snapshot_seen_by_the_mutating_tx": data}))
			pristine = false
		}
		if sink != sinkNone {
			r.Outcome("wpath:call:write-attempt-ran-without-error:" + entry)
		}
	} else {
		cl := rejectClass(log)
		r.Outcome("wpath:call:rejected:" + cl)
		if cl == "other" || cl == "out-of-gas" {
			r.HarnessError("part 3: %s rejected for an unrelated reason: %s", id, log)
		}
	}
	r.Distinct(fmt.Sprintf("wpath|%s|%v", id, good))
	if !w.frozen(id, false, det) {
		pristine = false
	}
	return pristine
}

// run = one attempt in StageRun through a MsgRun script.
func (w *wworld) run(entry, route string, sink int) bool {
	e := entryByID(entry)
	id := fmt.Sprintf("run:%s:route=%q:sink=%s", entry, route, sinkNames[sink])
	imports := fmt.Sprintf("\tx %q\n", w.xPath)
	if e.relay == "p" {
		imports += fmt.Sprintf("\trq %q\n", w.qPath)
	}
	st := strings.ReplaceAll(strings.ReplaceAll(e.statement(), "ROUTE", fmt.Sprintf("%q", route)), "SINK", fmt.Sprint(sink))
	src := "package main\n\nimport (\n" + imports + ")\n\n" + e.decl + "func main() {\n\t" + st + "\n\tprintln(x.Snapshot())\n}\n"
	_, good, log := w.tx(chainx.Run(U.Addr, nil, src))
	w.hist = append(w.hist, id)
	r.Eval()
	det := func(extra map[string]any) map[string]any {
		extra["history_on_this_p_package"] = append([]string{}, w.hist...)
		extra["p_package"] = w.xPath
		extra["script"] = src
		return extra
	}
	if sink == sinkNone && !good {
		r.HarnessError("part 3 run control %s rejected: %s\n%s", id, log, src)
	}
	if good && sink != sinkNone {
		r.Outcome("wpath:run:write-attempt-ran-without-error:" + entry)
	} else if !good {
		cl := rejectClass(log)
		r.Outcome("wpath:run:rejected:" + cl)
		if cl == "other" || cl == "out-of-gas" {
			r.HarnessError("part 3: %s rejected for an unrelated reason: %s\n%s", id, log, src)
		}
	}
	r.Distinct(fmt.Sprintf("wpath|%s|%v", id, good))
	return w.frozen(id, good, det)
}

// ---- own initialisation (the permitted side of the gate) ----------------------------------------------------------

type ownCase struct {
	label string
	steps []wcase // route/sink only
}

// ownInit deploys /p/ packages that perform the routes on their OWN state during their OWN add: from init(), and through
// a callback handed to an already published /p/ package (foreign frames between the package's init and its write).
func (w *wworld) ownInit(oc ownCase) {
	tag := fmt.Sprintf("o%02dn%03d", w.job, w.n)
	w.n++
	var b strings.Builder
	m := wxModel{f: 1, sl0: 1}
	for _, s := range oc.steps {
		switch s.entry {
		case "method":
			fmt.Fprintf(&b, "S.Go(%q, %d)\n\t", s.route, s.sink)
		case "func":
			fmt.Fprintf(&b, "Step(S, %q, %d)\n\t", s.route, s.sink)
		case "stored-closure":
			fmt.Fprintf(&b, "Fn(%q, %d)\n\t", s.route, s.sink)
		case "foreign-callback":
			fmt.Fprintf(&b, "cb.Do(func() int { return S.Go(%q, %d) })\n\t", s.route, s.sink)
		case "foreign-callback-method":
			fmt.Fprintf(&b, "cb.S.Call(func() int { return Step(S, %q, %d) })\n\t", s.route, s.sink)
		default:
			panic(s.entry)
		}
		m.apply(s.sink)
	}
	src := wxSrc("wo"+tag, b.String())
	if strings.Contains(b.String(), "cb.") {
		src = strings.Replace(src, "\n\ntype T struct", fmt.Sprintf("\n\nimport cb %q\n\ntype T struct", w.xPath), 1)
	}
	path := "gno.land/p/xx/wo" + tag
	_, deployed, log := w.tx(chainx.AddPkg(A.Addr, path, map[string]string{"x.gno": src}))
	r.Eval()
	id := "own-init:" + oc.label
	r.Distinct("wpath|" + id)
	det := map[string]any{"source": src, "path": path, "log": log, "p_package_used_for_callbacks": w.xPath}
	if !deployed {
		r.Outcome("wpath:own-init:REJECTED")
		wviol("p-package-own-initialisation-write-rejected:"+oc.label, det)
		return
	}
	r.Outcome("wpath:own-init:accepted")
	q := w.c.Query("vm/qeval", []byte(path+".Snapshot()"))
	nChecks.Add(1)
	if got := string(q.Data); q.Error != nil || !strings.Contains(got, `"`+m.snap()+`"`) {
		// Outside the property statement (nothing changes AFTER initialisation; every later observer sees the same
		// persisted state): writes of the package's own init() that were made while m.Realm was borrowed away are
		// kept in memory for the rest of init() but never persisted. Recorded as an observation, not as a violation.
		r.Outcome("wpath:own-init:persisted-state-differs-from-what-init-computed:" + oc.steps[0].entry)
		observe("own-init-writes-not-persisted:"+oc.label, map[string]any{"what": "persisted /p/ state after the package's own add differs from what its init() computed",
			"want(model of init)": m.snap(), "got(persisted)": got, "path": path, "p_package_used_for_callbacks": w.xPath, "init_statements": strings.TrimSpace(b.String())[:min(200, len(strings.TrimSpace(b.String())))]})
	}
	w.hist = append(w.hist, "deploy("+id+")")
	w.frozen(id, true, func(e map[string]any) map[string]any { e["case"] = id; e["p_package"] = w.xPath; return e })
}

// ---- enumeration ---------------------------------------------------------------------------------------------------

type wjob struct {
	adds []wcase
	own  []ownCase
	call [][3]string // entry, route, sink
	runs [][3]string
}

func writerPathJobs() []func() {
	thorough := r.Thorough()
	seen := map[string]bool{}
	var adds []wcase
	ctxSeen := map[string]bool{}
	add := func(ctx wctx, route string, sink int) {
		if !ctx.applicable() {
			return
		}
		if !ctxSeen[ctx.id()] {
			ctxSeen[ctx.id()] = true
			adds = append(adds, wcase{ctx, "m", sinkNone}) // control first
		}
		c := wcase{ctx, route, sink}
		if !seen[c.id()] {
			seen[c.id()] = true
			adds = append(adds, c)
		}
	}
	// (O) outer contexts
	var outer []wctx
	for _, imp := range []string{"r", "p"} {
		for _, s := range sites {
			outer = append(outer, wctx{imp, s.id, "method"})
		}
	}
	for _, e := range entries {
		outer = append(outer, wctx{"r", "init", e.id}, wctx{"r", "var-direct", e.id}, wctx{"r", "var-func-literal", e.id}, wctx{"p", "init", e.id},
			wctx{"r", "init-cur", e.id})
		if thorough {
			for _, s := range sites {
				outer = append(outer, wctx{"r", s.id, e.id}, wctx{"p", s.id, e.id})
			}
		}
	}
	// (A) every outer context x small inner menu
	type rs struct {
		route string
		sink  int
	}
	small := []rs{{"", 0}, {"m", 0}, {"f", 0}, {"k", 0}, {"d", 0}, {"C", 0}, {"m", 2}, {"f", 3}, {"mm", 4}}
	for _, ctx := range outer {
		if ctx.site == "var-func-literal" && entryByID(ctx.entry).expr != "" && !thorough {
			continue // quick: expression entries use var-direct, statement-only entries the func literal
		}
		for _, x := range small {
			add(ctx, x.route, x.sink)
		}
	}
	// (B) all routes of <=1 hop x terminals x sinks for three contexts
	bctx := []wctx{{"r", "init", "method"}, {"r", "var-direct", "func"}, {"p", "init", "stored-closure"}}
	for ci, ctx := range bctx {
		for _, p := range prefixes(hopsAll, 1) {
			for _, pre := range []string{"", p} {
				for _, t := range terminals {
					for sink := 0; sink < sinkNone; sink++ {
						if ci > 0 && !thorough && sink != 0 && sink != 2 {
							continue
						}
						add(ctx, pre+t, sink)
					}
				}
			}
		}
	}
	// (C) all routes of 2 hops; (D) 3 hops over the core hop alphabet
	for _, p := range prefixes(hopsAll, 2) {
		add(bctx[0], p, 0)
		add(bctx[1], p, 2)
		if thorough {
			for _, t := range terminals[1:] {
				add(bctx[0], p+t, 0)
				add(bctx[2], p+t, 3)
			}
		}
	}
	h3 := hopsCore
	if thorough {
		h3 = "mfkdvig"
	}
	for _, p := range prefixes(h3, 3) {
		add(bctx[0], p, 0)
		if thorough {
			add(bctx[1], p, 2)
		}
	}
	// group by context so that the control of a context runs on the same chain before its attempts
	sort.SliceStable(adds, func(i, j int) bool { return adds[i].wctx.id() < adds[j].wctx.id() })

	// StageRun: entries x routes of <=1 hop x terminals x sinks via MsgCall; a few MsgRun scripts
	var calls, runs [][3]string
	for ei, e := range entries {
		calls = append(calls, [3]string{e.id, "m", fmt.Sprint(sinkNone)})
		for _, p := range append([]string{""}, prefixes(hopsAll, 1)...) {
			for ti, t := range terminals {
				for sink := 0; sink < sinkNone; sink++ {
					// quick: the full (terminal, sink) product for the method and plain-function entries only
					if !thorough && ei > 1 && (ti > 1 || (sink != 0 && sink != 2)) {
						continue
					}
					calls = append(calls, [3]string{e.id, p + t, fmt.Sprint(sink)})
				}
			}
		}
		if e.relay != "r" {
			runs = append(runs, [3]string{e.id, "m", fmt.Sprint(sinkNone)}, [3]string{e.id, "", "0"}, [3]string{e.id, "m", "0"}, [3]string{e.id, "f", "2"})
		}
	}
	for _, p := range prefixes(hopsAll, 2) {
		calls = append(calls, [3]string{"method", p, "0"}, [3]string{"func", p, "2"})
	}
	// own-initialisation cases
	var owns []ownCase
	for _, en := range []string{"method", "func", "stored-closure", "foreign-callback", "foreign-callback-method"} {
		oc := ownCase{label: en + ":all-routes<=1-hop-x-terminals-x-sinks"}
		for _, p := range append([]string{""}, prefixes(hopsAll, 1)...) {
			for _, t := range terminals {
				for sink := 0; sink <= sinkNone; sink++ {
					oc.steps = append(oc.steps, wcase{wctx{"p", "own-init", en}, p + t, sink})
				}
			}
		}
		owns = append(owns, oc)
		for _, sink := range []int{0, 2} {
			owns = append(owns, ownCase{label: fmt.Sprintf("%s:route=\"mf\":sink=%s", en, sinkNames[sink]), steps: []wcase{{wctx{"p", "own-init", en}, "mf", sink}}})
		}
	}

	// partition: ~perJob add attempts per chain; a context split over two chains gets its control on both
	const perJob, perCall = 100, 230
	var jobs []*wjob
	for i := 0; i < len(adds); i += perJob {
		j := &wjob{}
		have := map[string]bool{}
		for _, c := range adds[i:min(i+perJob, len(adds))] {
			if !have[c.wctx.id()] && c.sink != sinkNone {
				j.adds = append(j.adds, wcase{c.wctx, "m", sinkNone})
			}
			have[c.wctx.id()] = true
			j.adds = append(j.adds, c)
		}
		jobs = append(jobs, j)
	}
	// the StageRun and own-init work goes onto chains of their own
	for i := 0; i < len(calls); i += perCall {
		jobs = append(jobs, &wjob{call: calls[i:min(i+perCall, len(calls))]})
	}
	jobs = append(jobs, &wjob{runs: runs, own: owns})
	r.Sample(map[string]any{"part3_add_attempts": len(adds), "part3_contexts": len(ctxSeen), "part3_call_attempts": len(calls), "part3_run_attempts": len(runs),
		"part3_own_init_packages": len(owns), "part3_chains": len(jobs), "part3_example": adds[len(adds)/2].id()})
	if os.Getenv("C12_WDUMP") != "" {
		for _, c := range adds {
			fmt.Println(c.id())
		}
	}
	var out []func()
	for ji, j := range jobs {
		out = append(out, func() { runWJob(ji, j) })
	}
	return out
}

func runWJob(ji int, j *wjob) {
	c, err := chainx.New(chainx.NewMemPebble(), chainx.Spec{Keys: keys, Fund: 1_000_000_000_000_000, MaxGas: -1})
	if err != nil {
		r.HarnessError("chain init: %v", err)
	}
	nChains.Add(1)
	w := &wworld{c: c, job: ji, okCtx: map[string]bool{}}
	if os.Getenv("C12_WTIME") != "" {
		t0 := time.Now()
		defer func() {
			fmt.Printf("part3 job %d: adds=%d calls=%d runs=%d own=%d wall=%.1fs\n", ji, len(j.adds), len(j.call), len(j.runs), len(j.own), time.Since(t0).Seconds())
		}()
	}
	w.fresh()
	if ji == 0 {
		r.Sample(map[string]any{"part3_p_objects": len(w.pobj), "part3_reader_snapshot": w.snap, "part3_example_importer": w.importerFiles("wNN", j.adds[1])})
	}
	for _, a := range j.adds {
		if r.Expired() {
			return
		}
		if !w.try(a) {
			w.fresh() // attribute later differences to later attempts
		}
	}
	for _, cl := range j.call {
		if r.Expired() {
			return
		}
		var sink int
		fmt.Sscan(cl[2], &sink)
		if !w.call(cl[0], cl[1], sink) {
			w.fresh()
		}
	}
	for _, cl := range j.runs {
		var sink int
		fmt.Sscan(cl[2], &sink)
		if !w.run(cl[0], cl[1], sink) {
			w.fresh()
		}
	}
	for _, oc := range j.own {
		w.ownInit(oc)
	}
	// end of chain: the reader realm once more
	w.frozen(fmt.Sprintf("end-of-chain:part3-job-%d", ji), true, func(e map[string]any) map[string]any {
		e["history_on_this_p_package"] = append([]string{}, w.hist...)
		return e
	})
}

// wdebug (C12_WDEBUG=<dir>): development aid — deploys one /p/ instance, then every <name>.gno of the directory as
// gno.land/p/xx/<name> (XPATH replaced by the instance path) and prints the result and vm/qeval of <path>.Dbg().
func wdebug(dir string) {
	c, err := chainx.New(chainx.NewMemPebble(), chainx.Spec{Keys: keys, Fund: 1_000_000_000_000_000, MaxGas: -1})
	if err != nil {
		r.HarnessError("chain init: %v", err)
	}
	w := &wworld{c: c, job: 99, okCtx: map[string]bool{}}
	w.fresh()
	ents, _ := os.ReadDir(dir)
	var batch []std.Msg
	var batchPaths []string
	for _, e := range ents {
		if !strings.HasSuffix(e.Name(), ".gno") {
			continue
		}
		b, _ := os.ReadFile(dir + "/" + e.Name())
		name := strings.TrimSuffix(e.Name(), ".gno")
		inBatch := strings.HasPrefix(name, "tx_")
		name = strings.TrimPrefix(name, "tx_")
		path := "gno.land/p/xx/" + name
		if strings.HasPrefix(name, "r") {
			path = "gno.land/r/aa/" + name
		}
		msg := chainx.AddPkg(A.Addr, path, map[string]string{"a.gno": strings.ReplaceAll(string(b), "XPATH", w.xPath)})
		if inBatch {
			batch, batchPaths = append(batch, msg), append(batchPaths, path)
			continue
		}
		_, ok, log := w.tx(msg)
		q := w.c.Query("vm/qeval", []byte(path+".Dbg()"))
		fmt.Printf("%s: deployed=%v log=%s\n   Dbg()=%s err=%v\n   x.Snapshot=%s\n", name, ok, log, q.Data, q.Error, w.c.Query("vm/qeval", []byte(w.xPath+".Snapshot()")).Data)
	}
	if len(batch) > 0 {
		_, ok, log := w.tx(batch...)
		fmt.Printf("one tx %v: ok=%v log=%s\n", batchPaths, ok, log)
		for _, path := range batchPaths {
			q := w.c.Query("vm/qeval", []byte(path+".Dbg()"))
			fmt.Printf("   %s.Dbg()=%s err=%v\n", path, q.Data, q.Error)
		}
	}
	os.Exit(0)
}

// wviol buffers a part-3 violation and counts its kind in the outcome histogram. vk prints and stores only the first 20
// keys of a run, and one gate defect makes hundreds of part-3 inputs fail: the buffer is reported after all jobs have
// finished, in sorted order, so that the keys of parts 1 and 2 (some are listed in known_findings.jsonl) come first and
// the printed part-3 keys are the same on every run. Every key still goes through r.Violation (known-finding matching).
func wviol(key string, detail any) {
	r.Outcome("wpath:VIOLATION-KIND:" + key[:strings.IndexByte(key, ':')])
	obsMu.Lock()
	if _, dup := wviolations[key]; !dup {
		wviolations[key] = detail
	}
	obsMu.Unlock()
}

var wviolations = map[string]any{}

func flushWViolations() {
	var ks []string
	for k := range wviolations {
		ks = append(ks, k)
	}
	sort.Strings(ks)
	for _, k := range ks {
		r.Violation(k, wviolations[k])
	}
}
