package main

import (
	"fmt"
	"strings"

	"github.com/gnolang/gno/tm2/pkg/std"
	"verif/engine/chainx"
)

const pxSrcT = `package PKG

type T struct {
	F   int
	Ref *int
}

var (
	Counter int
	S       = &T{F: 1}
	V       = T{F: 2}
	M       = map[string]int{"k": 1}
	Sl      = []int{1, 2, 3}
	Arr     = [2]int{4, 5}
	Fn      = func() int { return 7 }
)

func Inc()                 { Counter++ }
func (t *T) Set(v int)     { t.F = v }
func (t *T) SetRef(p *int) { t.Ref = p }
func (t *T) Bump()         { Counter++ }
func (t *T) PutM(k string) { M[k] = 1 }
func Ptr() *int            { return &Counter }
func With(f func(p *int))  { f(&Counter) }
func SetM(k string, v int) { M[k] = v }
func Push(v int)           { Sl = append(Sl, v) }

func itoa(n int) string {
	if n == 0 {
		return "0"
	}
	s := ""
	for ; n > 0; n /= 10 {
		s = string(rune('0'+n%10)) + s
	}
	return s
}

func Snapshot() string {
	ref := 0
	if S.Ref != nil {
		ref = *S.Ref
	}
	return itoa(Counter) + "," + itoa(S.F) + "," + itoa(ref) + "," + itoa(V.F) + "," +
		itoa(len(M)) + ":" + itoa(M["k"]) + "," + itoa(len(Sl)) + ":" + itoa(Sl[0]) + ":" + itoa(Sl[1]) + "," +
		itoa(Arr[0]) + "," + itoa(Fn())
}
`

const readerSrcT = `package RD

import x "PXPATH"

func Read(cur realm) string { return x.Snapshot() }
`

type attempt struct{ id, stmt string }

var attempts = []attempt{
	{"p-func-inc", "x.Inc()"},
	{"assign-global", "x.Counter = 5"},
	{"incdec-global", "x.Counter++"},
	{"method-on-global-ptr", "x.S.Set(9)"},
	{"method-on-struct-global", "x.V.Set(9)"},
	{"method-stores-own-object-in-p", "x.S.SetRef(&own)"},
	{"method-mutates-other-global", "x.S.Bump()"},
	{"method-inserts-into-map-global", `x.S.PutM("z")`},
	{"method-via-local-copy-of-ptr", "q := x.S; q.Set(9)"},
	{"field-via-global-ptr", "x.S.F = 9"},
	{"field-of-struct-global", "x.V.F = 9"},
	{"map-insert", `x.M["z"] = 1`},
	{"map-insert-via-p-func", `x.SetM("z", 1)`},
	{"map-delete", `delete(x.M, "k")`},
	{"slice-elem", "x.Sl[0] = 9"},
	{"slice-swap", "x.Sl[0], x.Sl[1] = x.Sl[1], x.Sl[0]"},
	{"slice-copy-into", "copy(x.Sl, []int{9, 9, 9})"},
	{"slice-append-via-p-func", "x.Push(4)"},
	{"slice-reassign", "x.Sl = append(x.Sl, 4)"},
	{"array-elem", "x.Arr[0] = 9"},
	{"ptr-from-p-func", "p := x.Ptr(); *p = 9"},
	{"addr-of-global", "p := &x.Counter; *p = 9"},
	{"callback-with-ptr", "x.With(func(p *int) { *p = 9 })"},
	{"store-own-object-in-p", "x.S.Ref = &own"},
	{"func-var-reassign", "x.Fn = func() int { return 8 }"},
}

var forms = []string{"call", "run", "init", "varinit", "init-then-read-in-same-tx"}

type mcase struct {
	form string
	a    attempt
	n    int
}

func (m mcase) id() string { return m.form + ":" + m.a.id }

type mworld struct {
	c      *chainx.Chain
	k      int    // instance number on this chain
	pxPath string // gno.land/p/xx/kNN
	rdPath string
	pobj   map[string]string
	snap   string // Data of Read() right after deployment
	qsnap  string
	hist   []string
}

func (w *mworld) tx(msg std.Msg) (string, bool, string) {
	w.c.BeginBlock()
	res := w.c.DeliverTx(w.c.MakeTx(keys, []std.Msg{msg}, chainx.TxOpt{GasWanted: 60_000_000}))
	nTx.Add(1)
	w.c.EndBlockCommit()
	return string(res.Data), res.Error == nil, firstLine(res.Log)
}

// fresh deploys a new instance of the /p/ package and its reader realm and records the post-init observations.
func (w *mworld) fresh() {
	w.k++
	w.hist = nil
	pk := fmt.Sprintf("k%02d", w.k)
	w.pxPath = "gno.land/p/xx/" + pk
	w.rdPath = "gno.land/r/aa/rd" + pk
	if _, ok, log := w.tx(chainx.AddPkg(A.Addr, w.pxPath, map[string]string{"x.gno": strings.Replace(pxSrcT, "PKG", pk, 1)})); !ok {
		r.HarnessError("deploy %s: %s", w.pxPath, log)
	}
	rd := strings.Replace(strings.Replace(readerSrcT, "RD", "rd"+pk, 1), "PXPATH", w.pxPath, 1)
	if _, ok, log := w.tx(chainx.AddPkg(A.Addr, w.rdPath, map[string]string{"rd.gno": rd})); !ok {
		r.HarnessError("deploy reader: %s", log)
	}
	w.pobj = w.c.PrefixDump("base", pidPrefix(w.pxPath))
	if len(w.pobj) == 0 {
		r.HarnessError("%s has no persisted objects", w.pxPath)
	}
	data, ok, log := w.tx(chainx.Call(U.Addr, nil, w.rdPath, "Read"))
	if !ok || !strings.Contains(data, "0,1,0,2,1:1,3:1:2,4,7") {
		r.HarnessError("reader: %v %q %s", ok, data, log)
	}
	w.snap = data
	q := w.c.Query("vm/qeval", []byte(w.pxPath+".Snapshot()"))
	w.qsnap = fmt.Sprintf("%v|%s", q.Error != nil, q.Data)
}

func (w *mworld) observe(mc mcase, first string) bool {
	ok := true
	cur := w.c.PrefixDump("base", pidPrefix(w.pxPath))
	nChecks.Add(1)
	det := func(extra map[string]any) map[string]any {
		extra["first_attempt_on_this_package"] = first
		extra["history"] = append([]string{}, w.hist...)
		extra["statement"] = mc.a.stmt
		extra["p_package"] = w.pxPath
		return extra
	}
	if d := chainx.DiffDump(w.pobj, cur); len(d) > 0 {
		r.Violation("p-package-object-bytes-changed-by:"+mc.id(), det(map[string]any{"diff": d}))
		ok = false
	}
	data, good, log := w.tx(chainx.Call(U.Addr, nil, w.rdPath, "Read"))
	if !good {
		r.Violation("p-package-unreadable-after:"+mc.id(), det(map[string]any{"log": log}))
		return false
	}
	if data != w.snap {
		r.Violation("p-package-state-mutated-by:"+mc.id(), det(map[string]any{"snapshot_before": w.snap, "snapshot_after": data}))
		ok = false
	}
	q := w.c.Query("vm/qeval", []byte(w.pxPath+".Snapshot()"))
	nChecks.Add(1)
	if qs := fmt.Sprintf("%v|%s", q.Error != nil, q.Data); qs != w.qsnap {
		r.Violation("p-package-state-mutated-by(qeval):"+mc.id(), det(map[string]any{"before": w.qsnap, "after": qs}))
		ok = false
	}
	return ok
}

func (w *mworld) attempt(mc mcase, first string) bool {
	var class string
	imp := "import x \"" + w.pxPath + "\"\n\n"
	tag := fmt.Sprintf("%02dx%02d", w.k, mc.n)
	deploy := func(prefix, src string) bool {
		_, good, _ := w.tx(chainx.AddPkg(A.Addr, "gno.land/r/aa/"+prefix+tag, map[string]string{"m.gno": src}))
		w.hist = append(w.hist, "deploy("+mc.id()+")")
		return good
	}
	switch mc.form {
	case "call":
		src := fmt.Sprintf("package m%s\n\n%svar own = 3\n\nfunc Try(cur realm) string {\n\t%s\n\t_ = own\n\treturn x.Snapshot()\n}\n", tag, imp, mc.a.stmt)
		if !deploy("m", src) {
			class = "rejected-at-deploy"
			break
		}
		data, good2, _ := w.tx(chainx.Call(U.Addr, nil, "gno.land/r/aa/m"+tag, "Try"))
		w.hist = append(w.hist, "call("+mc.id()+")")
		if !good2 {
			class = "rejected-at-run"
			break
		}
		class = "ran-without-error"
		if data != w.snap {
			r.Violation("p-package-state-mutated-within-tx:"+mc.id(), map[string]any{"first_attempt_on_this_package": first, "history": append([]string{}, w.hist...),
				"statement": mc.a.stmt, "snapshot_before": w.snap, "snapshot_seen_by_the_mutating_tx": data})
			r.Outcome("mutation:" + mc.id() + ":MUTATED-IN-TX")
		}
	case "run":
		src := fmt.Sprintf("package main\n\n%svar own = 3\n\nfunc main() {\n\t%s\n\t_ = own\n\tprintln(x.Snapshot())\n}\n", imp, mc.a.stmt)
		_, good, _ := w.tx(chainx.Run(U.Addr, nil, src))
		w.hist = append(w.hist, "run("+mc.id()+")")
		class = "rejected"
		if good {
			class = "ran-without-error"
		}
	case "init", "varinit", "init-then-read-in-same-tx":
		// the deployed package records what its own initialisation saw after the statement
		var src string
		if mc.form == "varinit" {
			src = fmt.Sprintf("package v%s\n\n%svar own = 3\n\nvar Seen = func() string {\n\t%s\n\t_ = own\n\treturn x.Snapshot()\n}()\n\nfunc GetSeen(cur realm) string { return Seen }\n", tag, imp, mc.a.stmt)
		} else {
			pk := "i"
			if mc.form != "init" {
				pk = "s"
			}
			src = fmt.Sprintf("package "+pk+"%s\n\n%svar own = 3\n\nvar Seen string\n\nfunc init() {\n\t%s\n\t_ = own\n\tSeen = x.Snapshot()\n}\n\nfunc GetSeen(cur realm) string { return Seen }\n", tag, imp, mc.a.stmt)
		}
		class = "rejected"
		pfx := map[string]string{"init": "i", "varinit": "v", "init-then-read-in-same-tx": "s"}[mc.form]
		path := "gno.land/r/aa/" + pfx + tag
		if mc.form == "init-then-read-in-same-tx" {
			// one tx, two messages: the deployment, then a read of the /p/ state through the reader realm
			w.c.BeginBlock()
			res := w.c.DeliverTx(w.c.MakeTx(keys, []std.Msg{chainx.AddPkg(A.Addr, path, map[string]string{"m.gno": src}), chainx.Call(A.Addr, nil, w.rdPath, "Read")}, chainx.TxOpt{GasWanted: 60_000_000}))
			nTx.Add(1)
			w.c.EndBlockCommit()
			w.hist = append(w.hist, "tx[deploy("+mc.id()+"), call(reader.Read)]")
			if res.Error != nil {
				break
			}
			class = "ran-without-error"
			if !strings.Contains(string(res.Data), strings.TrimSpace(w.snap)) {
				r.Violation("p-package-state-mutated-for-later-message-of-same-tx:"+mc.id(), map[string]any{"first_attempt_on_this_package": first, "history": append([]string{}, w.hist...),
					"statement": mc.a.stmt, "snapshot_before": w.snap, "tx_data(deploy result, then Read result)": string(res.Data), "p_package": w.pxPath})
				w.observe(mc, first)
				return false
			}
			break
		}
		if !deploy(pfx, src) {
			break
		}
		class = "ran-without-error"
		data, good2, log := w.tx(chainx.Call(U.Addr, nil, path, "GetSeen"))
		if !good2 {
			r.HarnessError("GetSeen: %s", log)
		}
		if data != w.snap {
			key := "p-package-state-mutated-within-tx:" + mc.id()
			if strings.HasPrefix(mc.a.id, "method-") {
				// one root cause (see NOTES.md): the immutability gate exempts every StageAdd write reached through a method on a /p/ receiver
				key = "p-package-state-transiently-mutated-by-method-call-during-another-package-initialisation"
			}
			r.Violation(key, map[string]any{"case": mc.id(), "first_attempt_on_this_package": first, "history": append([]string{}, w.hist...),
				"statement": mc.a.stmt, "snapshot_before": w.snap, "snapshot_seen_by_the_deploying_package_after_the_statement": data, "p_package": w.pxPath})
			r.Outcome("mutation:" + mc.id() + ":MUTATED-IN-TX")
		}
	}
	r.Outcome("mutation:" + mc.form + ":" + class)
	if class == "ran-without-error" {
		r.Outcome("mutation-ran-without-error:" + mc.id())
	}
	r.Distinct("mut|" + mc.id() + "|" + class)
	r.Eval()
	return w.observe(mc, first)
}

// mutationPart: chain f (one per form): every attempt of the form first on a fresh /p/ instance; chains "fwd"/"rev":
// all 80 attempts in sequence on one instance, in both orders.
func mutationJobs() []func() {
	var cases []mcase
	for _, f := range forms {
		for i, a := range attempts {
			cases = append(cases, mcase{f, a, i})
		}
	}
	r.Sample(map[string]any{"mutation_cases": len(cases), "example": cases[3].id() + ": " + cases[3].a.stmt})
	nw := func() *mworld {
		c, err := chainx.New(chainx.NewMemPebble(), chainx.Spec{Keys: keys, Fund: 1_000_000_000_000_000, MaxGas: -1})
		if err != nil {
			r.HarnessError("chain init: %v", err)
		}
		nChains.Add(1)
		return &mworld{c: c}
	}
	body := func(i int) {
		w := nw()
		if i == len(forms)+2 {
			escalation(w)
			return
		}
		if i < len(forms) {
			for _, mc := range cases {
				if mc.form != forms[i] {
					continue
				}
				w.fresh()
				if i == 0 && mc.n == 0 {
					r.Sample(map[string]any{"p_objects": len(w.pobj), "reader_snapshot": w.snap, "qeval_snapshot": w.qsnap})
				}
				w.attempt(mc, mc.id())
			}
			return
		}
		seq := append([]mcase{}, cases...)
		if i == len(forms)+1 {
			for a, b := 0, len(seq)-1; a < b; a, b = a+1, b-1 {
				seq[a], seq[b] = seq[b], seq[a]
			}
		}
		w.fresh()
		for _, mc := range seq {
			if !w.attempt(mc, seq[0].id()) {
				return
			}
		}
	}
	// the two long sequences first
	order := []int{len(forms), len(forms) + 1}
	for i := 0; i < len(forms)+3; i++ {
		if i != len(forms) && i != len(forms)+1 {
			order = append(order, i)
		}
	}
	var jobs []func()
	for _, i := range order {
		jobs = append(jobs, func() { body(i) })
	}
	return jobs
}

// escalation: does the transient /p/ mutation matter? A victim realm guards a state-changing function with a
// flag that lives in /p/ state (S.F == 9, which no transaction can ever set persistently). The attacker's package
// sets the flag through a method during its own initialisation and calls the victim in the same initialisation.
func escalation(w *mworld) {
	w.fresh()
	vic := fmt.Sprintf("package vic\n\nimport x %q\n\nvar Hits int\n\nfunc Priv(cur realm) int {\n\tif x.S.F != 9 {\n\t\tpanic(\"denied: /p/ flag not set\")\n\t}\n\tHits++\n\treturn Hits\n}\n\nfunc GetHits(cur realm) int { return Hits }\n", w.pxPath)
	if _, ok, log := w.tx(chainx.AddPkg(A.Addr, "gno.land/r/aa/vic", map[string]string{"vic.gno": vic})); !ok {
		r.HarnessError("deploy victim: %s", log)
	}
	if _, ok, _ := w.tx(chainx.Call(U.Addr, nil, "gno.land/r/aa/vic", "Priv")); ok {
		r.HarnessError("victim guard does not hold without mutation")
	}
	before, _, _ := w.tx(chainx.Call(U.Addr, nil, "gno.land/r/aa/vic", "GetHits"))
	att := fmt.Sprintf("package att\n\nimport (\n\tx %q\n\t\"gno.land/r/aa/vic\"\n)\n\nfunc init(cur realm) {\n\tx.S.Set(9)\n\tvic.Priv(cross(cur))\n}\n", w.pxPath)
	_, ok, log := w.tx(chainx.AddPkg(U.Addr, "gno.land/r/aa/att", map[string]string{"att.gno": att}))
	w.hist = append(w.hist, "deploy(victim guarded by /p/ flag)", "call(victim.Priv) -> denied", "deploy(attacker: init sets the flag via x.S.Set(9), then calls victim.Priv)")
	after, _, _ := w.tx(chainx.Call(U.Addr, nil, "gno.land/r/aa/vic", "GetHits"))
	r.Eval()
	r.Distinct("mut|escalation")
	if !ok {
		r.Outcome("escalation:attacker-deploy-rejected")
		_ = log
	} else if after != before {
		r.Outcome("escalation:VICTIM-STATE-CHANGED")
		r.Violation("transient-p-mutation-during-init-escalates-to-persistent-write-in-another-realm", map[string]any{"history": w.hist,
			"victim_hits_before": before, "victim_hits_after": after, "victim_source": vic, "attacker_source": att, "p_package": w.pxPath})
	} else {
		r.Outcome("escalation:deployed-but-victim-unchanged")
	}
	w.observe(mcase{"escalation", attempt{"escalation", "x.S.Set(9); vic.Priv(cross(cur))"}, 0}, "escalation")
}
