// C12: published package code is immutable and namespace-protected.
//
// Real gno.land app (engine chainx). Transition system = the real chain; reference model = map path -> (files,
// private?) updated by the rules of the property statement (hand-written path validity table, no shared code).
//
// Part 1 (deploy histories). Operation alphabet = MsgAddPackage(path, package variant, deployer) over a path menu
// built to collide / probe normalisation (30 shapes), 11 package variants and 2 deployers, under 3 namespace-
// registry configurations. The state graph is explored exhaustively up to D state-changing (model-accepted)
// deployments; at every visited state EVERY operation of the alphabet that the model rejects is delivered too
// (self-loops: must fail and change nothing). After every block: vm/qfile of every well-formed menu path returns
// exactly the model's files (listing and every body; keeper metadata predicted by an independent formatter) or
// "not available"; the set of pkg: keys of the main store equals the model's key set; blobs of public packages
// are byte-identical to their first appearance; every object of a deployed /p/ package is byte-identical to its
// post-init snapshot.
// Chain construction dominates the cost, so the histories of one (configuration, alphabet) pair share one chain:
// each history runs on its own *instance* of the path menu (namespace token tNNN substituted for the colliding
// name), and a final sweep re-checks every instance of the chain (so anything a later history did to an earlier
// history's packages is caught too).
// Part 2 (/p/ mutation). See mut.go.
package main

import (
	"fmt"
	"os"
	"runtime/debug"
	"runtime/pprof"
	"sort"
	"strings"
	"sync"
	"sync/atomic"
	"time"

	"github.com/gnolang/gno/gno.land/pkg/gnoland"
	"github.com/gnolang/gno/gno.land/pkg/sdk/vm"
	"github.com/gnolang/gno/gnovm/pkg/gnolang"
	abci "github.com/gnolang/gno/tm2/pkg/bft/abci/types"
	"github.com/gnolang/gno/tm2/pkg/std"
	"verif/engine/chainx"
	"verif/engine/vk"
)

var tStart = time.Now()

var (
	A, U = chainx.NewKey("c12-A"), chainx.NewKey("c12-U")
	keys = []chainx.Key{A, U}
	who  = []chainx.Key{A, U}
	r    *vk.Run
)

// ---- path menu (shapes; T = instance token, e.g. t00a) ----------------------------------------------------

type shape struct {
	id    string
	path  func(T string) string
	name  func(T string) string
	valid bool // hand-written: is this a well-formed /r/ or /p/ path under the chain domain
	isP   bool
	paU   bool // namespace is U's own address (personal namespace); otherwise the namespace is T (owned by A)
}

func tok(T string) string { return T }
func lit(s string) func(string) string {
	return func(string) string { return s }
}
func pad(T string, n int) string { return "gno.land/r/" + T + "/" + strings.Repeat("b", n-len("gno.land/r/"+T+"/")) }

const draftPath = "gno.land/r/dr"

var shapes = []shape{
	{"r/T", func(T string) string { return "gno.land/r/" + T }, tok, true, false, false},
	{"r/T/", func(T string) string { return "gno.land/r/" + T + "/" }, tok, false, false, false},
	{"r//T", func(T string) string { return "gno.land/r//" + T }, tok, false, false, false},
	{"//r/T", func(T string) string { return "gno.land//r/" + T }, tok, false, false, false},
	{"UPPER-domain", func(T string) string { return "GNO.LAND/r/" + T }, tok, false, false, false},
	{"UPPER-letter", func(T string) string { return "gno.land/R/" + T }, tok, false, false, false},
	{"UPPER-name", func(T string) string { return "gno.land/r/" + strings.ToUpper(T) }, tok, false, false, false},
	{"other-domain", func(T string) string { return "other.land/r/" + T }, tok, false, false, false},
	{"suffix-domain", func(T string) string { return "gno.land.evil.com/r/" + T }, tok, false, false, false},
	{"prefix-domain", func(T string) string { return "gno.landx/r/" + T }, tok, false, false, false},
	{"r/T_test", func(T string) string { return "gno.land/r/" + T + "_test" }, func(T string) string { return T + "_test" }, false, false, false},
	{"r/T_filetest", func(T string) string { return "gno.land/r/" + T + "_filetest" }, func(T string) string { return T + "_filetest" }, false, false, false},
	{"r/T/bb_test", func(T string) string { return "gno.land/r/" + T + "/bb_test" }, lit("bb_test"), false, false, false},
	{"e/addr/run", func(T string) string { return "gno.land/e/" + A.Addr.String() + "/run" }, lit("run"), false, false, false},
	{"e/T/bb", func(T string) string { return "gno.land/e/" + T + "/bb" }, lit("bb"), false, false, false},
	{"x/T", func(T string) string { return "gno.land/x/" + T }, tok, false, false, false},
	{"p/T", func(T string) string { return "gno.land/p/" + T }, tok, true, true, false},
	{"r/T/internal/bb", func(T string) string { return "gno.land/r/" + T + "/internal/bb" }, lit("bb"), true, false, false},
	{"r/T/v2", func(T string) string { return "gno.land/r/" + T + "/v2" }, tok, true, false, false},
	{"unicode", func(T string) string { return "gno.land/r/" + strings.Replace(T, "t", "т", 1) }, tok, false, false, false}, // cyrillic te
	{"empty", lit(""), tok, false, false, false},
	{"long256", func(T string) string { return pad(T, 256) }, func(T string) string { return pad(T, 256)[len("gno.land/r/"+T+"/"):] }, true, false, false},
	{"long257", func(T string) string { return pad(T, 257) }, func(T string) string { return pad(T, 257)[len("gno.land/r/"+T+"/"):] }, false, false, false},
	{"hash", func(T string) string { return "gno.land/r/" + T + "#bb" }, tok, false, false, false},
	{"stdlib", lit("strings"), lit("strings"), false, false, false},
	{"trailing-nl", func(T string) string { return "gno.land/r/" + T + "\n" }, tok, false, false, false},
	{"trailing-sp", func(T string) string { return "gno.land/r/" + T + " " }, tok, false, false, false},
	{"dotdot", func(T string) string { return "gno.land/r/" + T + "/../" + T }, tok, false, false, false},
	{"r/PA-U/T", func(T string) string { return "gno.land/r/" + U.Addr.String() + "/" + T }, tok, true, false, true},
	{"r/dr", lit(draftPath), lit("dr"), true, false, false}, // deployed (public, draft) at genesis by A; namespace "dr"
}

func shapeIdx(id string) int {
	for i, p := range shapes {
		if p.id == id {
			return i
		}
	}
	panic("no shape " + id)
}

// pathDef is a shape instantiated for a token.
type pathDef struct {
	shape
	p, n string
}

func inst(si int, T string) pathDef { return pathDef{shapes[si], shapes[si].path(T), shapes[si].name(T)} }

// ---- package variants ------------------------------------------------------------------------------------

type variantDef struct {
	id       string
	private  bool
	hasTests bool
	reject   string // non-empty: the statement's rules reject this variant after genesis
	gnomod   func(p pathDef) string
	gno      func(p pathDef) map[string]string
}

func body(p pathDef, v int) string {
	if p.isP {
		return fmt.Sprintf("package %s\n\nvar X = %d\n\nfunc Get() int { return X + %d }\n", p.n, v, v)
	}
	return fmt.Sprintf("package %s\n\nvar X = %d\n\nfunc Get(cur realm) int { X += %d; return X }\n", p.n, v, v)
}

// test files deliberately import nothing: type-checking an import re-checks the imported package from source on
// every transaction ("testing" drags in a large part of the stdlib: ~50 ms per tx).
func testFile(p pathDef) string {
	return fmt.Sprintf("package %s\n\nvar testOnly = X + 1\n\nfunc testHelper() int { return testOnly }\n", p.n)
}

const fileTest = "package main\n\nfunc main() {\n\tprintln(\"ok\")\n}\n\n// Output:\n// ok\n"

func modHead(p pathDef) string { return fmt.Sprintf("module = %q\ngno = \"0.9\"\n", p.p) }

var variants = []variantDef{
	{id: "pub", gnomod: modHead, gno: func(p pathDef) map[string]string { return map[string]string{"a.gno": body(p, 1)} }},
	{id: "pub2", gnomod: modHead, gno: func(p pathDef) map[string]string {
		return map[string]string{"a.gno": body(p, 2), "b.gno": "package " + p.n + "\n\nconst K = 2\n"}
	}},
	{id: "priv", private: true, gnomod: func(p pathDef) string { return modHead(p) + "private = true\n" },
		gno: func(p pathDef) map[string]string { return map[string]string{"a.gno": body(p, 3)} }},
	{id: "priv2", private: true, hasTests: true, gnomod: func(p pathDef) string { return modHead(p) + "private = true\n" },
		gno: func(p pathDef) map[string]string {
			return map[string]string{"c.gno": body(p, 4), "c_test.gno": testFile(p)}
		}},
	{id: "pubtests", hasTests: true, gnomod: modHead, gno: func(p pathDef) map[string]string {
		return map[string]string{"a.gno": body(p, 5), "a_test.gno": testFile(p), "z_filetest.gno": fileTest}
	}},
	{id: "forgedmeta", gnomod: func(p pathDef) string {
		return fmt.Sprintf("module = \"gno.land/r/zzz/other\"\ngno = \"0.9\"\n\n[addpkg]\n  creator = %q\n  height = 999\n", "g1jg8mtutu9khhfwc4nxmuhcpftf0pajdhfvsqf5")
	}, gno: func(p pathDef) map[string]string { return map[string]string{"a.gno": body(p, 6)} }},
	{id: "testonly", hasTests: true, reject: "no production .gno file", gnomod: modHead, gno: func(p pathDef) map[string]string {
		return map[string]string{"a_test.gno": "package " + p.n + "\n\nvar testOnly = 1\n"}
	}},
	{id: "draft", reject: "draft after genesis", gnomod: func(p pathDef) string { return modHead(p) + "draft = true\n" },
		gno: func(p pathDef) map[string]string { return map[string]string{"a.gno": body(p, 7)} }},
	{id: "replace", reject: "development package (replace)", gnomod: func(p pathDef) string {
		return modHead(p) + "\n[[replace]]\n  old = \"gno.land/p/q\"\n  new = \"../q\"\n"
	}, gno: func(p pathDef) map[string]string { return map[string]string{"a.gno": body(p, 8)} }},
	{id: "gno.mod", reject: "deprecated gno.mod", gnomod: modHead, gno: func(p pathDef) map[string]string {
		return map[string]string{"a.gno": body(p, 9), "gno.mod": "module " + p.p + "\n"}
	}},
	{id: "typeerr", reject: "type check error", gnomod: modHead, gno: func(p pathDef) map[string]string {
		return map[string]string{"a.gno": "package " + p.n + "\n\nvar X int = \"s\"\n"}
	}},
}

func varIdx(id string) int {
	for i, v := range variants {
		if v.id == id {
			return i
		}
	}
	panic("no variant " + id)
}

// sentFiles: what is sent in the message.
func sentFiles(p pathDef, v variantDef) []*std.MemFile {
	m := v.gno(p)
	m["gnomod.toml"] = v.gnomod(p)
	var names []string
	for n := range m {
		names = append(names, n)
	}
	sort.Strings(names)
	var fs []*std.MemFile
	for _, n := range names {
		fs = append(fs, &std.MemFile{Name: n, Body: m[n]})
	}
	return fs
}

// expectedFiles: what queries must return after a successful deploy — the sent files with gnomod.toml carrying
// the keeper's metadata (independent formatter; layout = the documented gnomod.toml format).
func expectedFiles(p pathDef, v variantDef, creator string, height int64) map[string]string {
	m := v.gno(p)
	g := fmt.Sprintf("module = %q\ngno = \"0.9\"\n", p.p)
	if v.id == "draft" {
		g += "draft = true\n"
	}
	if v.private {
		g += "private = true\n"
	}
	g += fmt.Sprintf("\n[addpkg]\n  creator = %q\n", creator)
	if height != 0 {
		g += fmt.Sprintf("  height = %d\n", height)
	}
	m["gnomod.toml"] = g
	return m
}

// ---- configurations ------------------------------------------------------------------------------------

type cfgDef struct {
	name      string
	registry  bool // registry realm deployed at genesis
	emptyPar  bool // vm param sysnames_pkgpath = ""
	enforcing bool // model: is a namespace registry configured
}

var cfgs = []cfgDef{
	{"registry", true, false, true},
	{"registry-deployed-param-empty", true, true, false},
	{"registry-not-deployed", false, false, false},
}

const namesPath = "gno.land/r/sys/names"

// Purpose-built registry with the interface the keeper calls: personal namespaces, and A owns every namespace
// made of a 't' followed by three characters (the instance tokens).
func namesRealm() string {
	return fmt.Sprintf(`package names

func IsAuthorizedAddressForNamespace(addr address, ns string) bool {
	if addr.String() == ns {
		return true
	}
	return len(ns) == 4 && ns[0] == 't' && addr == address(%q)
}
`, A.Addr.String())
}

// model of the registry
func authorised(w int, p pathDef) bool {
	if p.paU {
		return w == 1
	}
	if p.id == "r/dr" {
		return false // namespace "dr" is owned by nobody
	}
	return w == 0
}

func genTx(msg std.Msg) std.Tx {
	return std.Tx{Msgs: []std.Msg{msg}, Fee: std.NewFee(100_000_000, std.NewCoin("ugnot", 1_000_000)), Signatures: []std.Signature{{}}}
}

func addMsg(creator chainx.Key, path, name string, files []*std.MemFile) vm.MsgAddPackage {
	return vm.MsgAddPackage{Creator: creator.Addr, Package: &std.MemPackage{Name: name, Path: path, Files: files}}
}

func spec(cfg cfgDef) chainx.Spec {
	s := chainx.Spec{Keys: keys, Fund: 1_000_000_000_000_000, MaxGas: -1}
	dr := inst(shapeIdx("r/dr"), "")
	s.GenesisTxs = append(s.GenesisTxs, genTx(addMsg(A, dr.p, dr.n, sentFiles(dr, variants[varIdx("draft")]))))
	if cfg.registry {
		s.GenesisTxs = append(s.GenesisTxs, genTx(chainx.AddPkg(A.Addr, namesPath, map[string]string{"names.gno": namesRealm()})))
	}
	if cfg.emptyPar {
		s.Mutate = func(gs *gnoland.GnoGenesisState) { gs.VM.Params.SysNamesPkgPath = "" }
	}
	return s
}

// ---- abstract model (drives the enumeration) -------------------------------------------------------------

type op struct{ p, v, w int } // shape, variant, deployer

func (o op) String() string { return shapes[o.p].id + ":" + variants[o.v].id + ":" + who[o.w].Name[4:] }

type absEntry struct{ v, w int }
type absState map[int]absEntry // shape index -> entry

func (s absState) key() string {
	var ks []int
	for k := range s {
		ks = append(ks, k)
	}
	sort.Ints(ks)
	var b strings.Builder
	for _, k := range ks {
		fmt.Fprintf(&b, "%s=%s/%s;", shapes[k].id, variants[s[k].v].id, who[s[k].w].Name[4:])
	}
	return b.String()
}

func (s absState) clone() absState {
	n := absState{}
	for k, v := range s {
		n[k] = v
	}
	return n
}

// predict is the property's rule set: does the deployment succeed in state s?
func predict(cfg cfgDef, s absState, o op) (bool, string) {
	p, v := inst(o.p, "t000"), variants[o.v]
	switch {
	case !p.valid:
		return false, "invalid-path"
	case v.reject != "":
		return false, "invalid-package"
	case v.private && p.isP:
		return false, "private-p"
	case cfg.enforcing && !authorised(o.w, p):
		return false, "unauthorised"
	}
	if e, ok := s[o.p]; ok {
		if !variants[e.v].private {
			return false, "exists-public"
		}
		if !v.private {
			return false, "private-to-public"
		}
	}
	return true, ""
}

func initialAbs() absState { return absState{shapeIdx("r/dr"): {varIdx("draft"), 0}} }

// ---- concrete model (checked against the chain) ------------------------------------------------------------

type entry struct {
	files    map[string]string
	private  bool
	hasTests bool
	desc     string
	blob     map[string]string // pkg: key -> bytes at first appearance (public packages)
	pobj     map[string]string // /p/: object snapshot
}

// world = one chain hosting many menu instances.
type world struct {
	cfg      cfgDef
	c        *chainx.Chain
	model    map[string]*entry // path -> entry (all instances)
	baseline map[string]string // pkg: keys that exist at genesis and are not ours (stdlibs, registry) -> blob
	T        string            // current instance token
	abs      absState          // abstract state of the current instance
	hist     []string          // history of the current instance
	ninst    int
}

var (
	nTx, nStatesSeen, nChecks, nChains atomic.Int64
	stateSet                            sync.Map
)

func newWorld(cfg cfgDef) *world {
	c, err := chainx.New(chainx.NewMemPebble(), spec(cfg))
	if err != nil {
		r.HarnessError("chain init: %v", err)
	}
	for _, tr := range c.Init.TxResponses {
		if tr.Error != nil {
			r.HarnessError("genesis tx failed: %v %s", tr.Error, tr.Log)
		}
	}
	nChains.Add(1)
	w := &world{cfg: cfg, c: c, model: map[string]*entry{}, baseline: map[string]string{}}
	dr := inst(shapeIdx("r/dr"), "")
	w.model[dr.p] = &entry{files: expectedFiles(dr, variants[varIdx("draft")], A.Addr.String(), 0), desc: "draft"}
	for k, v := range c.PrefixDump("main", "pkg:") {
		if !strings.HasPrefix(k, "pkg:"+dr.p) {
			w.baseline[k] = v
		}
	}
	return w
}

func (w *world) newInstance() {
	w.T = "t" + base36(w.ninst)
	w.ninst++
	w.abs = initialAbs()
	w.hist = nil
}

func base36(n int) string {
	const d = "0123456789abcdefghijklmnopqrstuvwxyz"
	s := ""
	for i := 0; i < 3; i++ {
		s = string(d[n%36]) + s
		n /= 36
	}
	return s
}

func (w *world) detail(extra map[string]any) map[string]any {
	d := map[string]any{"config": w.cfg.name, "instance_token": w.T, "history_of_this_instance": append([]string{}, w.hist...),
		"model_state": w.abs.key(), "earlier_instances_on_this_chain": w.ninst - 1}
	for k, v := range extra {
		d[k] = v
	}
	return d
}

func pidPrefix(path string) string {
	s := gnolang.ObjectIDFromPkgID(gnolang.PkgIDFromPkgPath(path)).String()
	return "oid:" + s[:strings.LastIndexByte(s, ':')+1]
}

func (w *world) qfile(arg string) (string, bool) {
	res := w.c.Query("vm/qfile", []byte(arg))
	nChecks.Add(1)
	if res.Error != nil {
		return "", false
	}
	return string(res.Data), true
}

// checkPath: vm/qfile of one well-formed path against the model.
func (w *world) checkPath(sid, path string, viol func(string, map[string]any)) {
	e := w.model[path]
	list, found := w.qfile(path)
	if e == nil {
		if found {
			viol("qfile-serves-undeployed-path:"+sid+":"+w.cfg.name, map[string]any{"path": path, "listing": list})
		}
		return
	}
	var names []string
	for n := range e.files {
		names = append(names, n)
	}
	sort.Strings(names)
	if !found || list != strings.Join(names, "\n") {
		viol(fmt.Sprintf("qfile-listing-differs-from-deployed:%s:%s:%s", sid, e.desc, w.cfg.name), map[string]any{"path": path, "got": list, "found": found, "want": names})
		return
	}
	for _, n := range names {
		got, f := w.qfile(path + "/" + n)
		if !f || got != e.files[n] {
			viol(fmt.Sprintf("qfile-body-differs-from-deployed:%s:%s:%s:%s", sid, e.desc, n, w.cfg.name), map[string]any{"path": path, "got": got, "found": f, "want": e.files[n]})
		}
	}
}

// check compares the observation points with the model. all=false: qfile/blob values only for the current
// instance (+ key set of the whole chain); all=true: everything ever deployed on this chain + genesis blobs.
func (w *world) check(after string, all bool) bool {
	ok := true
	viol := func(key string, extra map[string]any) {
		extra["after"] = after
		r.Violation(key, w.detail(extra))
		ok = false
	}
	// (1) vm/qfile
	cur := map[string]bool{}
	for si, sh := range shapes {
		if sh.valid {
			p := inst(si, w.T)
			cur[p.p] = true
			w.checkPath(sh.id, p.p, viol)
		}
	}
	if all {
		for path, e := range w.model {
			if !cur[path] {
				w.checkPath("earlier-instance("+e.desc+")", path, viol)
			}
		}
	}
	// (2) pkg: keys of the main store <-> model paths, public blobs frozen
	want := map[string]bool{}
	for path, e := range w.model {
		want["pkg:"+path] = true
		if e.hasTests {
			want["pkg:"+path+"#allbutprod"] = true
		}
	}
	got := w.c.PrefixScan("main", "pkg:", func(k string) bool {
		if _, base := w.baseline[k]; base {
			return all
		}
		return all || cur[strings.TrimSuffix(strings.TrimPrefix(k, "pkg:"), "#allbutprod")]
	})
	nChecks.Add(1)
	for k, v := range got {
		if bv, base := w.baseline[k]; base {
			if all && v != bv {
				viol("genesis-package-blob-changed:"+shortKey(k), map[string]any{"key": k})
			}
			continue
		}
		if !want[k] {
			viol("unexpected-pkg-key-in-store:"+w.cfg.name+":"+shapeOfKey(k, w.T), map[string]any{"key": k})
			continue
		}
		path := strings.TrimSuffix(strings.TrimPrefix(k, "pkg:"), "#allbutprod")
		e := w.model[path]
		if !e.private && (all || cur[path]) {
			if e.blob == nil {
				e.blob = map[string]string{}
			}
			if old, seen := e.blob[k]; !seen {
				e.blob[k] = v
			} else if old != v {
				viol("public-package-blob-changed:"+w.cfg.name+":"+e.desc, map[string]any{"key": k})
			}
		}
	}
	for k := range want {
		if _, okk := got[k]; !okk {
			viol("model-package-missing-from-store:"+w.cfg.name+":"+shapeOfKey(k, w.T), map[string]any{"key": k})
		}
	}
	for k := range w.baseline {
		if _, okk := got[k]; !okk {
			viol("genesis-package-key-vanished:"+shortKey(k), map[string]any{"key": k})
		}
	}
	// (3) /p/ objects frozen
	for path, e := range w.model {
		if !gnolang.IsPPackagePath(path) || !(all || cur[path]) {
			continue
		}
		now := w.c.PrefixDump("base", pidPrefix(path))
		nChecks.Add(1)
		if e.pobj == nil {
			e.pobj = now
			if len(now) == 0 {
				viol("p-package-has-no-objects", map[string]any{"path": path})
			}
			continue
		}
		if d := chainx.DiffDump(e.pobj, now); len(d) > 0 {
			viol("p-package-object-bytes-changed:"+e.desc, map[string]any{"path": path, "diff": d})
		}
	}
	if _, loaded := stateSet.LoadOrStore(w.cfg.name+"|"+w.abs.key(), true); !loaded {
		nStatesSeen.Add(1)
	}
	return ok
}

func shapeOfKey(k, T string) string {
	return shortKey(strings.ReplaceAll(strings.ReplaceAll(k, T, "T"), strings.ToUpper(T), "T"))
}

func shortKey(k string) string {
	if len(k) > 60 {
		return k[:60] + "..."
	}
	return k
}

func (w *world) mkTx(o op) std.Tx {
	p, v := inst(o.p, w.T), variants[o.v]
	return w.c.MakeTx(keys, []std.Msg{addMsg(who[o.w], p.p, p.n, sentFiles(p, v))}, chainx.TxOpt{GasWanted: 60_000_000})
}

func errClass(res abci.ResponseDeliverTx) string {
	if res.Error == nil {
		return "ok"
	}
	return strings.TrimPrefix(fmt.Sprintf("%T", res.Error), "vm.")
}

func firstLine(s string) string {
	s = strings.Join(strings.Fields(s), " ")
	if len(s) > 400 {
		s = s[:400]
	}
	return s
}

func (w *world) onState(o op) string {
	if e, ok := w.abs[o.p]; ok {
		return "on=" + variants[e.v].id
	}
	return "on=absent"
}

func (w *world) ourKeys(k string) bool { _, base := w.baseline[k]; return !base }

// failBlock delivers every model-rejected op of the alphabet in one block; each must fail; nothing may change.
func (w *world) failBlock(alphabet []op) bool {
	w.c.BeginBlock()
	before := w.c.PrefixScan("main", "pkg:", w.ourKeys)
	n := 0
	for _, o := range alphabet {
		if ok, why := predict(w.cfg, w.abs, o); !ok {
			res := w.c.DeliverTx(w.mkTx(o))
			nTx.Add(1)
			n++
			r.Outcome("rejected:model=" + why + ":impl=" + errClass(res))
			if res.Error == nil {
				w.hist = append(w.hist, "REJECTED-OPS-BLOCK[... "+o.String()+"]")
				r.Violation(fmt.Sprintf("deploy-accepted-but-must-be-rejected(%s):%s:%s:%s", why, o.String(), w.onState(o), w.cfg.name),
					w.detail(map[string]any{"op": o.String(), "path": inst(o.p, w.T).p, "model_reason": why, "result": chainx.ResKey(res)}))
				w.c.EndBlockCommit()
				return false
			}
			if now := w.c.PrefixScan("main", "pkg:", w.ourKeys); len(chainx.DiffDump(before, now)) > 0 {
				r.Violation(fmt.Sprintf("failed-deploy-changed-package-store:%s:%s:%s", o.String(), w.onState(o), w.cfg.name),
					w.detail(map[string]any{"op": o.String(), "diff": chainx.DiffDump(before, now), "log": firstLine(res.Log)}))
				w.c.EndBlockCommit()
				return false
			}
		}
	}
	w.c.EndBlockCommit()
	w.hist = append(w.hist, fmt.Sprintf("block(%d rejected ops)", n))
	return w.check("rejected-ops block", false)
}

func (w *world) apply(o op, height int64) {
	p, v := inst(o.p, w.T), variants[o.v]
	w.abs[o.p] = absEntry{o.v, o.w}
	w.model[p.p] = &entry{files: expectedFiles(p, v, who[o.w].Addr.String(), height), private: v.private, hasTests: v.hasTests,
		desc: shapes[o.p].id + "=" + v.id}
}

// success delivers a model-accepted op in its own block.
func (w *world) success(o op) bool {
	w.c.BeginBlock()
	res := w.c.DeliverTx(w.mkTx(o))
	nTx.Add(1)
	w.c.EndBlockCommit()
	st := w.onState(o)
	w.hist = append(w.hist, o.String())
	if res.Error != nil {
		r.Outcome("accepted-by-model:impl=" + errClass(res))
		r.Violation(fmt.Sprintf("valid-deploy-rejected:%s:%s:%s", o.String(), st, w.cfg.name),
			w.detail(map[string]any{"op": o.String(), "path": inst(o.p, w.T).p, "result": chainx.ResKey(res), "log": firstLine(res.Log)}))
		return false
	}
	r.Outcome("deployed:" + variants[o.v].id + ":" + st)
	w.apply(o, w.c.Height)
	return w.check(o.String(), false)
}

// ---- enumeration ---------------------------------------------------------------------------------------------

type job struct {
	seq      []op
	ownsFail []bool // ownsFail[i]: this job runs the rejected-ops block at the node reached after seq[:i]
	oneBlock bool   // deliver all of seq in a single block (no rejected-ops blocks), check at the end
}

type group struct { // one chain
	cfg      cfgDef
	label    string
	alphabet []op
	jobs     []job
	restart  bool
}

func enumerate(cfg cfgDef, alphabet []op, depth int, label string) *group {
	g := &group{cfg: cfg, label: label, alphabet: alphabet}
	owned := map[string]bool{}
	var rec func(s absState, seq []op)
	rec = func(s absState, seq []op) {
		var succ []op
		if len(seq) < depth {
			for _, o := range alphabet {
				if ok, _ := predict(cfg, s, o); ok {
					succ = append(succ, o)
				}
			}
		}
		if len(succ) == 0 {
			j := job{seq: append([]op{}, seq...)}
			for i := 0; i <= len(seq); i++ {
				k := fmt.Sprint(seq[:i])
				j.ownsFail = append(j.ownsFail, !owned[k])
				owned[k] = true
			}
			g.jobs = append(g.jobs, j)
			return
		}
		for _, o := range succ {
			n := s.clone()
			n[o.p] = absEntry{o.v, o.w}
			rec(n, append(seq, o))
		}
	}
	rec(initialAbs(), nil)
	return g
}

func (w *world) runJob(g *group, j job) bool {
	w.newInstance()
	r.Eval()
	if j.oneBlock {
		w.c.BeginBlock()
		for _, o := range j.seq {
			res := w.c.DeliverTx(w.mkTx(o))
			nTx.Add(1)
			st := w.onState(o)
			w.hist = append(w.hist, "sameblock:"+o.String())
			if res.Error != nil {
				r.Violation(fmt.Sprintf("valid-deploy-rejected:%s:%s:%s:same-block", o.String(), st, w.cfg.name),
					w.detail(map[string]any{"op": o.String(), "log": firstLine(res.Log)}))
				w.c.EndBlockCommit()
				return false
			}
			w.apply(o, w.c.Height+1)
		}
		w.c.EndBlockCommit()
		r.Distinct("oneblock|" + w.cfg.name + "|" + fmt.Sprint(j.seq))
		return w.check("single block", false)
	}
	for i := 0; i <= len(j.seq); i++ {
		if j.ownsFail[i] {
			r.Distinct(g.label + "|" + w.cfg.name + "|" + w.abs.key())
			if !w.failBlock(g.alphabet) {
				return false
			}
		}
		if i < len(j.seq) {
			if !w.success(j.seq[i]) {
				return false
			}
		}
	}
	return true
}

func (g *group) run() {
	w := newWorld(g.cfg)
	w.newInstance()
	if !w.check("genesis", true) {
		return
	}
	w.ninst = 0
	for _, j := range g.jobs {
		if r.Expired() {
			return
		}
		if !w.runJob(g, j) {
			return // the chain has diverged from the model; reported
		}
	}
	if !w.check("end of chain (all instances)", true) {
		return
	}
	if g.restart {
		if err := w.c.Restart(); err != nil {
			r.HarnessError("restart: %v", err)
		}
		r.Outcome("restart-checked")
		if !w.check("restart (all instances)", true) {
			return
		}
		// and one more history on the restarted app
		last := g.jobs[len(g.jobs)-1]
		last.ownsFail = make([]bool, len(last.seq)+1)
		for i := range last.ownsFail {
			last.ownsFail[i] = true
		}
		if w.runJob(g, last) {
			w.check("after restart + one more history (all instances)", true)
		}
	}
}

func product(ps []string, vs []string, ws []int) []op {
	var out []op
	for _, p := range ps {
		for _, v := range vs {
			for _, w := range ws {
				out = append(out, op{shapeIdx(p), varIdx(v), w})
			}
		}
	}
	return out
}

func shapeIDs(f func(shape) bool) []string {
	var s []string
	for _, p := range shapes {
		if f(p) {
			s = append(s, p.id)
		}
	}
	return s
}

func allVariantIDs() []string {
	var s []string
	for _, v := range variants {
		s = append(s, v.id)
	}
	return s
}

func main() {
	debug.SetGCPercent(400)
	r = vk.New("model_checking")
	r.SetBudget(6*time.Minute, 28*time.Minute)

	both := []int{0, 1}
	col := []string{"r/T"}
	// "core": every variant x both deployers on the colliding path
	core := product(col, allVariantIDs(), both)
	// "wide": core + every other well-formed shape x {pub, priv} x both deployers + every malformed shape x {pub (+priv in thorough)} x A
	mv := []string{"pub"}
	if r.Thorough() {
		mv = []string{"pub", "priv"}
	}
	wide := append(append(product(col, allVariantIDs(), both),
		product(shapeIDs(func(s shape) bool { return s.valid && s.id != "r/T" }), []string{"pub", "priv"}, both)...),
		product(shapeIDs(func(s shape) bool { return !s.valid }), mv, []int{0})...)
	// "full": the whole product (rejected-ops sweep at the initial state)
	full := product(shapeIDs(func(shape) bool { return true }), allVariantIDs(), both)
	// "reduced": deeper histories on the colliding path
	red := append(product(col, []string{"priv", "priv2"}, both), op{shapeIdx("r/T"), varIdx("pub"), 0}, op{shapeIdx("r/T"), varIdx("pubtests"), 1})

	var groups []*group
	dCore, dWide, dRed := 3, 1, 4
	if r.Thorough() {
		dCore, dWide, dRed = 4, 2, 5
	}
	for ci, cfg := range cfgs {
		// quick: the third configuration (no registry realm at all) behaves like the second; it gets a shallower core only
		d := dCore
		if r.Quick() && ci == 2 {
			d = 2
		}
		gc := enumerate(cfg, core, d, "core")
		// same-block variants of every core sequence of length >= 2
		if r.Thorough() || ci == 1 {
			for _, j := range append([]job{}, gc.jobs...) {
				if len(j.seq) >= 2 {
					jb := j
					jb.oneBlock = true
					gc.jobs = append(gc.jobs, jb)
				}
			}
		}
		gc.restart = true
		groups = append(groups, gc)
		if r.Thorough() || ci < 2 {
			groups = append(groups, enumerate(cfg, wide, dWide, "wide"), enumerate(cfg, red, dRed, "reduced"))
		}
		if r.Thorough() || ci == 0 {
			groups = append(groups, enumerate(cfg, full, 0, "full"))
		}
	}
	// split long chains so that all cores are used (node ownership of the rejected-ops sweeps is static)
	var split []*group
	for _, g := range groups {
		const max = 40
		for i := 0; i < len(g.jobs) || i == 0; i += max {
			c := *g
			c.jobs = g.jobs[i:min(i+max, len(g.jobs))]
			c.restart = g.restart && i == 0
			split = append(split, &c)
		}
	}
	groups = split
	if n := os.Getenv("C12_MAXJOBS"); n != "" {
		var k int
		fmt.Sscan(n, &k)
		for _, g := range groups {
			if k < len(g.jobs) {
				g.jobs = g.jobs[:k]
			}
		}
	}
	njobs := 0
	gsz := map[string]int{}
	for _, g := range groups {
		njobs += len(g.jobs)
		gsz[g.label+"/"+g.cfg.name] += len(g.jobs)
	}
	// longest chains first
	sort.SliceStable(groups, func(i, j int) bool { return len(groups[i].jobs)*len(groups[i].alphabet) > len(groups[j].jobs)*len(groups[j].alphabet) })
	r.Sample(map[string]any{"histories_per_alphabet_and_config": gsz, "chains_part1": len(groups), "alphabets": map[string]int{"core": len(core), "wide": len(wide), "full": len(full), "reduced": len(red)}})
	if g := groups[0]; len(g.jobs) > 0 {
		r.Sample(map[string]any{"example_history": fmt.Sprint(g.jobs[len(g.jobs)/3].seq), "config": g.cfg.name})
	}
	if pf := os.Getenv("C12_PROF"); pf != "" {
		f, _ := os.Create(pf)
		pprof.StartCPUProfile(f)
	}
	// one job list for all cores, longest jobs first: the two long part-2 sequences, the biggest deploy-history chains,
	// the part-3 chains, the remaining deploy-history chains, the short part-2 chains
	var jobs, tail []func()
	timed := func(label string, f func()) func() {
		if os.Getenv("C12_WTIME") == "" {
			return f
		}
		return func() {
			t0 := time.Now()
			f()
			fmt.Printf("job %s: start=%.0fs wall=%.1fs\n", label, t0.Sub(tStart).Seconds(), time.Since(t0).Seconds())
		}
	}
	if d := os.Getenv("C12_WDEBUG"); d != "" {
		wdebug(d)
	}
	var p1, p3 []func()
	if os.Getenv("C12_NOMUT") == "" {
		if os.Getenv("C12_ONLYW") == "" {
			mj := mutationJobs()
			for i := range mj {
				mj[i] = timed(fmt.Sprintf("part2:%d", i), mj[i])
			}
			jobs, tail = append(jobs, mj[:2]...), mj[2:]
		}
		if os.Getenv("C12_NOW") == "" {
			p3 = writerPathJobs()
		}
	}
	if os.Getenv("C12_ONLYMUT") == "" && os.Getenv("C12_ONLYW") == "" {
		for _, g := range groups {
			p1 = append(p1, timed(fmt.Sprintf("part1:%s/%s(%d histories)", g.label, g.cfg.name, len(g.jobs)), g.run))
		}
	}
	// measured: the two part-2 sequences and the biggest deploy-history chains are the critical path
	nFirst := min(8, len(p1))
	jobs = append(append(append(jobs, p1[:nFirst]...), p3...), p1[nFirst:]...)
	jobs = append(jobs, tail...)
	r.ParFor(len(jobs), func(i int) { jobs[i]() })
	flushWViolations()
	if os.Getenv("C12_PROF") != "" {
		pprof.StopCPUProfile()
	}

	r.Assumptions = []string{
		"model-rejected operations are explored as self-loops: at every visited model state all of them are delivered (one block) on the chain that first reaches that state, not each on a fresh chain",
		"histories of one (configuration, alphabet) pair share a chain, each on its own instance (namespace token) of the path menu; a final sweep re-checks all instances of the chain",
		"path validity, registry authorisation and the stored gnomod.toml (module/creator/height patched by the keeper) are predicted by hand-written tables/formatters in the harness",
		"registry = purpose-built realm at gno.land/r/sys/names exposing IsAuthorizedAddressForNamespace (the interface the keeper calls); the examples/ realm needs the whole govdao tree",
		"private packages may be redeployed (by anyone when no registry is configured): the statement protects public entries only",
	}
	r.Finish(fmt.Sprintf("state graph of MsgAddPackage histories: <=%d accepted deployments over the 22-op alphabet on the colliding path (+ the same sequences inside one block), <=%d over the %d-op path-menu alphabet, <=%d over a 6-op reduced alphabet, the full %d-op product at the initial state; every model-rejected op of the alphabet delivered at every visited state; x3 registry configurations (quick: the no-registry-realm configuration only gets the colliding-path alphabet to depth 2, the full product runs under the enforcing configuration only); restart of 3 chains; + the /p/ mutation menu (25 statements x 5 forms, each first on a fresh /p/ package, then all in sequence both ways, + an escalation scenario); + part 3, writer paths into /p/ state while ANOTHER package is being added: importer (/r/, /p/) x 11 sites (init, helpers of init 1-2 frames, own method, second file, func literal, recover-wrapped, var initialiser as direct call expression / func literal / helper, init(cur realm)) x 15 entry forms (method, function, stored closure, method value/expression, 3 interface forms, defer, 2 callbacks, local copy, relays through a /p/ package (direct, nested) and a realm) x route inside /p/ (11 hop kinds: method, function, closure literal->function/method, deferred method/function, method value, interface, stored closure, method expression, recover-wrapped; 4 terminals: inline, closure literal, deferred closure, stored closure) x 5 sinks: every context x 9-case inner menu, 3 contexts x all routes of <=1 hop x terminals x sinks, all 2-hop routes, 3-hop routes over 3 hop kinds; the same entry forms through MsgCall/MsgRun; a no-write control per context; own-initialisation controls; distinct = distinct (alphabet, config, model state) nodes + same-block sequences + mutation cases + writer-path cases",
		dCore, dWide, len(wide), dRed, len(full)),
		true, map[string]any{"states": nStatesSeen.Load(), "transitions": nTx.Load(), "traces_validated_against_impl": nTx.Load(),
			"observation_checks": nChecks.Load(), "observations": observations, "part3_add_attempts": nWAttempts.Load(), "part3_add_attempts_that_deployed": nWAccepted.Load(), "chains": nChains.Load(), "histories": njobs, "depth": map[string]int{"core": dCore, "wide": dWide, "reduced": dRed}})
}
