package main

import (
	"bytes"
	"encoding/json"
	"fmt"
	"io"
	"os"
	"path/filepath"
	"runtime"
	"runtime/pprof"
	"sort"
	"strings"
	"sync"
	"time"

	"github.com/gnolang/gno/tm2/pkg/amino"
	auto "github.com/gnolang/gno/tm2/pkg/autofile"
	cs "github.com/gnolang/gno/tm2/pkg/bft/consensus"
	walm "github.com/gnolang/gno/tm2/pkg/bft/wal"
	"verif/engine/vk"
)

type realWAL interface {
	walm.WAL
	Group() *auto.Group
}

func openWAL(d string, headLimit int64) realWAL {
	w, err := walm.NewWAL(filepath.Join(d, "wal"), walMax, auto.GroupHeadSizeLimit(headLimit))
	if err != nil {
		r.HarnessError("NewWAL: %v", err)
	}
	return w
}

// closeWAL releases the head file without the fsync that Group.Close would do.
func closeWAL(w realWAL) {
	h := w.Group().Head
	h.Close()
	h.VerifStopSignals()
}

func readGroup(w realWAL, cont bool, maxIter int) reading {
	g := w.Group()
	gr, err := g.NewReader(g.MinIndex(), 0)
	if err != nil {
		r.HarnessError("NewReader: %v", err)
	}
	dec := walm.NewWALReader(gr, walMax)
	defer dec.Close()
	return readDec(dec, cont, maxIter)
}

func readStream(b []byte, cont bool, maxIter int) reading {
	return readDec(walm.NewWALReader(bytes.NewReader(b), walMax), cont, maxIter)
}

func diskFiles(d string) (files [][]byte, names []string) {
	ents, _ := os.ReadDir(d)
	var idx []string
	head := false
	for _, e := range ents {
		if e.Name() == "wal" {
			head = true
		} else {
			idx = append(idx, e.Name())
		}
	}
	sort.Strings(idx)
	if head {
		idx = append(idx, "wal")
	}
	for _, n := range idx {
		b, _ := os.ReadFile(filepath.Join(d, n))
		files = append(files, b)
	}
	return files, idx
}

// ---------------------------------------------------------------------------------------------
// violation collector: one class key per defect, minimal witness kept

type witness struct {
	size   int
	desc   string
	detail any
	count  int64
}

var (
	vmu  sync.Mutex
	vmap = map[string]*witness{}
)

func fail(key string, size int, desc string, detail any) {
	vmu.Lock()
	defer vmu.Unlock()
	w := vmap[key]
	if w == nil {
		vmap[key] = &witness{size: size, desc: desc, detail: detail, count: 1}
		return
	}
	w.count++
	if size < w.size || (size == w.size && desc < w.desc) {
		w.size, w.desc, w.detail = size, desc, detail
	}
}

// per-phase soft deadline (cumulative share of the run budget) so that no phase starves the later ones
var (
	runStart      = time.Now()
	phaseDeadline time.Time
)

func setPhaseShare(cumulative float64) {
	if os.Getenv("C38_PHASES") != "" {
		cumulative = 1.0 // explicit phase selection: the selected phases share the whole budget
	}
	phaseDeadline = runStart.Add(time.Duration(float64(r.Budget) * cumulative))
}

func expired() bool {
	if r.Expired() {
		return true
	}
	if time.Now().After(phaseDeadline) {
		r.MarkCapped()
		return true
	}
	return false
}

// parFor is vk.ParFor with the phase deadline.
func parFor(n int, f func(i int)) {
	r.ParFor(n, func(i int) {
		if expired() {
			return
		}
		f(i)
	})
}

// ---------------------------------------------------------------------------------------------
// P1: read-back through the real writer

func allSeqs(alpha string, n int) []string {
	out := []string{}
	var rec func(p string)
	rec = func(p string) {
		if len(p) > 0 {
			out = append(out, p)
		}
		if len(p) == n {
			return
		}
		for i := 0; i < len(alpha); i++ {
			rec(p + string(alpha[i]))
		}
	}
	rec("")
	sort.Slice(out, func(i, j int) bool {
		if len(out[i]) != len(out[j]) {
			return len(out[i]) < len(out[j])
		}
		return out[i] < out[j]
	})
	return out
}

// rotPatterns: all vectors in {0..maxRot}^n.
func rotPatterns(n, maxRot int) [][]int {
	out := [][]int{}
	cur := make([]int, n)
	var rec func(i int)
	rec = func(i int) {
		if i == n {
			out = append(out, append([]int(nil), cur...))
			return
		}
		for v := 0; v <= maxRot; v++ {
			cur[i] = v
			rec(i + 1)
		}
	}
	rec(0)
	return out
}

func sameFiles(a, b [][]byte) bool {
	if len(a) != len(b) {
		return false
	}
	for i := range a {
		if !bytes.Equal(a[i], b[i]) {
			return false
		}
	}
	return true
}

func fileSizes(f [][]byte) []int {
	var out []int
	for _, x := range f {
		out = append(out, len(x))
	}
	return out
}

// checkIntact: an intact log must read back exactly.
func checkIntact(tag, label string, rd reading, w []item, spec map[string]any) bool {
	ok := rd.eof && !rd.runaway && len(rd.obs) == len(w)
	if ok {
		for i := range w {
			if !rd.obs[i].same(w[i]) {
				ok = false
			}
		}
	}
	if !ok {
		cls := "differs"
		for _, o := range rd.obs {
			if o.kind == 'e' {
				cls = "error-on-intact-log(" + errClass(o.err) + ")"
				break
			}
		}
		fail("readback:"+cls, len(w), label, map[string]any{"phase": tag, "log": label, "read": describe(rd.obs, w), "eof": rd.eof, "replay": spec})
	}
	return ok
}

type p1case struct {
	syms      string
	rot       []int
	headLimit int64
	syncMeta  bool
}

func runP1(c p1case) {
	d := <-dirPool
	defer func() { dirPool <- d }()
	cleanDir(d)
	seq := buildSeq(c.syms, 1)
	spec := map[string]any{"phase": "P1", "syms": c.syms, "rot": c.rot, "head_limit": c.headLimit, "sync_meta": c.syncMeta}
	w := openWAL(d, c.headLimit)
	enc := walm.NewWALWriter(w.Group(), walMax) // constructed exactly like baseWAL.enc; lets us fix the timestamp
	rot := c.rot
	var headSize int64
	if c.headLimit > 0 { // predict size-limit driven rotation
		rot = make([]int, len(seq))
	}
	for i, it := range seq {
		var err error
		switch {
		case it.meta && c.syncMeta:
			err = w.WriteMetaSync(walm.MetaMessage{Height: it.h})
		case it.meta:
			err = enc.WriteMeta(walm.MetaMessage{Height: it.h})
		default:
			err = enc.Write(it.twm)
		}
		if it.big != (err != nil) {
			fail("write:size-limit-wrong", len(seq), c.syms, map[string]any{"log": c.syms, "item": i, "sized_len": len(it.sized), "max": walMax, "err": fmt.Sprint(err), "replay": spec})
		}
		if c.headLimit > 0 {
			if !it.big {
				headSize += int64(len(it.line))
				if headSize >= c.headLimit {
					rot[i] = 1
					headSize = 0
				}
			}
		} else {
			for k := 0; k < rot[i]; k++ {
				w.Group().RotateFile()
			}
		}
	}
	if err := w.FlushAndSync(); err != nil {
		r.HarnessError("FlushAndSync: %v", err)
	}
	label := layoutLabel(seq, 0, rot)
	if c.headLimit > 0 {
		label += fmt.Sprintf(" (headSizeLimit=%d)", c.headLimit)
	}
	want := splitFiles(seq, 0, rot)
	got, names := diskFiles(d)
	if !sameFiles(got, want) {
		fail("layout:files-differ-from-reference-encoding", len(seq), label, map[string]any{"log": label, "files": names, "sizes": fileSizes(got), "want_sizes": fileSizes(want), "replay": spec})
	}
	wr := written(seq)
	ok := checkIntact("P1", label, readGroup(w, false, len(seq)+4), wr, spec)
	closeWAL(w)
	// a restarted node opens the group afresh
	w2 := openWAL(d, 0)
	ok = checkIntact("P1-reopen", label, readGroup(w2, false, len(seq)+4), wr, spec) && ok
	closeWAL(w2)
	r.Eval()
	if ok {
		r.Outcome(fmt.Sprintf("readback_ok_files=%d", len(want)))
	}
	r.Distinct("P1:" + label)
}

func phase1() {
	// quick: all sequences <= 2 over the 8 line kinds (0..2 rotations per gap) + all sequences of 3 over 5 kinds;
	// thorough: all sequences <= 4 over the 8 kinds.
	seqs := allSeqs("VPBTRXZM", 2)
	for _, s := range allSeqs("VTXZM", 3) {
		if len(s) == 3 {
			seqs = append(seqs, s)
		}
	}
	if r.Thorough() {
		seqs = allSeqs("VPBTRXZM", 4)
	}
	var cases []p1case
	for _, s := range seqs {
		maxRot := 1
		if len(s) <= 2 {
			maxRot = 2
		}
		for k, rot := range rotPatterns(len(s), maxRot) {
			cases = append(cases, p1case{syms: s, rot: rot, syncMeta: k%2 == 0})
		}
	}
	// head-size-limit driven rotation (inside Group.Write): every limit that changes the layout
	for _, s := range []string{"MVPM", "VTRMV", "MBXM", "TTTTT", "MRMRM"} {
		seq := buildSeq(s, 1)
		lim := map[int64]bool{}
		var cum int64
		for _, it := range seq {
			for _, d := range []int64{-1, 0, 1} {
				if v := int64(len(it.line)) + d; v > 0 {
					lim[v] = true
				}
				if v := cum + int64(len(it.line)) + d; v > 0 {
					lim[v] = true
				}
			}
			cum += int64(len(it.line))
		}
		var ls []int64
		for l := range lim {
			ls = append(ls, l)
		}
		sort.Slice(ls, func(i, j int) bool { return ls[i] < ls[j] })
		for _, l := range ls {
			cases = append(cases, p1case{syms: s, headLimit: l, syncMeta: true})
		}
	}
	r.Sample(map[string]any{"phase": "P1 read-back", "cases": len(cases), "example": layoutLabel(buildSeq("MVB", 1), 0, []int{1, 0, 1}), "legend": "V vote P proposal B 2kB part T timeout R roundstep X exactly-maxSize Z oversized #h marker | rotation"})
	parFor(len(cases), func(i int) { runP1(cases[i]) })
}

// the baseWAL service path with real timestamps: Start (writes #0), Write, WriteSync, WriteMetaSync, Stop, reopen.
func phase1Service(list []string) {
	d := <-dirPool
	defer func() { dirPool <- d }()
	for _, syms := range list {
		cleanDir(d)
		seq := buildSeq(syms, 1)
		w := openWAL(d, 0)
		if err := w.Start(); err != nil {
			r.HarnessError("Start: %v", err)
		}
		for i, it := range seq {
			switch {
			case it.meta:
				w.WriteMetaSync(walm.MetaMessage{Height: it.h})
			case i%2 == 0:
				w.Write(it.twm.Msg)
			default:
				w.WriteSync(it.twm.Msg)
			}
		}
		w.Stop()
		w.Group().Head.VerifStopSignals()
		w2 := openWAL(d, 0)
		g := w2.Group()
		gr, _ := g.NewReader(g.MinIndex(), 0)
		dec := walm.NewWALReader(gr, walMax)
		want := append([]item{mkMeta(0)}, seq...)
		ok := true
		for i := 0; ; i++ {
			msg, meta, err := dec.ReadMessage()
			if err == io.EOF {
				ok = ok && i == len(want)
				break
			}
			if err != nil || i >= len(want) {
				ok = false
				break
			}
			if want[i].meta {
				ok = ok && meta != nil && meta.Height == want[i].h
			} else {
				ok = ok && msg != nil && !msg.Time.IsZero() &&
					bytes.Equal(amino.MustMarshalAny(msg.Msg), amino.MustMarshalAny(want[i].twm.Msg))
			}
		}
		dec.Close()
		closeWAL(w2)
		r.Eval()
		if !ok {
			fail("readback:service-path-differs", len(seq), syms, map[string]any{"log": "#0 " + syms, "replay": map[string]any{"phase": "P1svc", "syms": syms}})
		} else {
			r.Outcome("service_path_readback_ok")
		}
	}
}

// ---------------------------------------------------------------------------------------------
// P2 / P3: byte-level faults

type blog struct {
	syms   string
	stream bool // also run the in-memory stream representation (identical for all layouts of a log: once per log)
	wide   bool // thorough: substitute all 255 other byte values (otherwise the quick set)
	rot    []int
	seq    []item // written items only
	label  string
	files  [][]byte
	lines  []lineRef // per written item: file, offset
}

type lineRef struct{ file, off int }

func mkBlog(syms string, lead int, rot []int) blog {
	seq := buildSeq(syms, 1)
	b := blog{syms: syms, rot: rot, seq: written(seq), label: layoutLabel(seq, lead, rot), files: splitFiles(seq, lead, rot)}
	f := lead
	off := 0
	for i, it := range seq {
		if !it.big {
			b.lines = append(b.lines, lineRef{f, off})
			off += len(it.line)
		}
		if rot[i] > 0 {
			f += rot[i]
			off = 0
		}
	}
	return b
}

func byteLogs() []blog {
	var out []blog
	// every line kind alone; every ordered pair of the small kinds and every pair with a marker, in both layouts
	// (thorough: every ordered pair of all 7 kinds)
	pairs := allSeqs("VPTRM", 2)
	for _, big := range []string{"B", "X"} {
		pairs = append(pairs, big, big+"M", "M"+big)
	}
	if r.Thorough() {
		pairs = allSeqs("VPBTRXM", 2)
	}
	for _, s := range pairs {
		b := mkBlog(s, 0, make([]int, len(s)))
		b.stream = true
		// all 255 values: every line kind alone, every pair of small kinds, every pair with a marker
		b.wide = r.Thorough() && (len(s) == 1 || !strings.ContainsAny(s, "BX") || strings.Contains(s, "M"))
		out = append(out, b)
		if len(s) == 2 {
			out = append(out, mkBlog(s, 0, []int{1, 0}))
		}
	}
	// long logs: lines straddling the 4096-byte bufio buffers of the GroupReader and of the WALReader
	long := "MVPBBTMRXVBM"
	if r.Thorough() {
		b := mkBlog(long, 0, make([]int, len(long)))
		b.stream = true
		out = append(out, b)
	}
	rot := make([]int, len(long))
	rot[3], rot[6], rot[8] = 1, 1, 2
	lb := mkBlog(long, 0, rot)
	lb.stream = !r.Thorough()
	out = append(out, lb)
	return out
}

// completeLines: how many items have their whole line (newline included) / whole content (newline
// excluded) inside the first k bytes of the concatenated stream.
func (b blog) completeLines(k int) (withNL, content int) {
	pos := 0
	for _, it := range b.seq {
		if pos+len(it.line)-1 <= k {
			content++
		}
		if pos+len(it.line) <= k {
			withNL++
		}
		pos += len(it.line)
	}
	return
}

func (b blog) atBoundary(k int) bool {
	pos := 0
	for _, it := range b.seq {
		if pos == k {
			return true
		}
		pos += len(it.line)
	}
	return pos == k
}

func (b blog) concat() []byte {
	var out []byte
	for _, f := range b.files {
		out = append(out, f...)
	}
	return out
}

// endClass: the statement allows exactly two endings of a read on a truncated log: end-of-file (io.EOF) or an
// error that the package itself classifies as corruption (wal.IsDataCorruptionError). Any other error is an
// ending the callers (SearchForHeight, consensus catchupReplay, replay_file) cannot handle.
func endClass(pfx string, rd reading) string {
	if rd.eof {
		return ""
	}
	if n := len(rd.obs); n > 0 && rd.obs[n-1].kind == 'e' {
		if rd.obs[n-1].dc {
			return ""
		}
		return pfx + ":prefix-then-error-that-is-neither-EOF-nor-corruption(" + errClass(rd.obs[n-1].err) + ")"
	}
	return pfx + ":reader-stopped-without-EOF-or-error"
}

func checkTrunc(b blog, how string, k int, rd reading) {
	lo, hi := b.completeLines(k)
	s := succ(rd.obs)
	key := ""
	switch {
	case rd.runaway:
		key = "trunc:reader-does-not-terminate"
	case len(s) > len(b.seq):
		key = "trunc:more-items-than-written"
	}
	if key == "" {
		for i, o := range s {
			if !o.same(b.seq[i]) {
				key = "trunc:altered-or-reordered-item-returned"
				break
			}
		}
	}
	if key == "" {
		// reading stops at the first error, so an error can only be the last observation
		for i, o := range rd.obs {
			if o.kind == 'e' && i != len(rd.obs)-1 {
				key = "trunc:item-after-error"
			}
		}
	}
	if key == "" && len(s) < lo {
		key = "trunc:complete-line-not-returned"
	}
	if key == "" && len(s) > hi {
		key = "trunc:item-returned-from-incomplete-line"
	}
	if key == "" {
		key = endClass("trunc", rd)
	}
	if key != "" {
		fail(key, len(b.seq)*100000+k, fmt.Sprintf("%s cut@%d", b.label, k),
			map[string]any{"log": b.label, "mode": how, "cut_at_byte": k, "complete_lines": lo, "read": describe(rd.obs, b.seq), "eof": rd.eof,
				"replay": map[string]any{"phase": "P2", "syms": b.syms, "rot": b.rot, "cut": k}})
		return
	}
	switch {
	case len(rd.obs) > 0 && rd.obs[len(rd.obs)-1].kind == 'e':
		r.Outcome("trunc_prefix_then_DataCorruptionError") // any other error was rejected by endClass above
	case len(s) > lo:
		r.Outcome("trunc_prefix_incl_unterminated_full_line_then_EOF")
	case b.atBoundary(k):
		r.Outcome("trunc_at_line_boundary_prefix_then_EOF")
	default:
		r.Outcome("trunc_midline_prefix_then_EOF")
	}
}

func phase2(logs []blog) {
	type job struct {
		b    blog
		file int
	}
	var jobs []job
	for _, b := range logs {
		for j := range b.files {
			jobs = append(jobs, job{b, j})
		}
	}
	last := logs[len(logs)-1]
	r.Sample(map[string]any{"phase": "P2 truncation at every byte", "logs": len(logs), "example_log": last.label, "file_sizes": fileSizes(last.files)})
	parFor(len(jobs), func(i int) {
		b, j := jobs[i].b, jobs[i].file
		d := <-dirPool
		defer func() { dirPool <- d }()
		before := 0
		for x := 0; x < j; x++ {
			before += len(b.files[x])
		}
		var kept [][]byte
		kept = append(kept, b.files[:j]...)
		kept = append(kept, nil)
		stream := b.concat()
		putFiles(d, kept, 0)
		// One group per job: a group reader opens the files by path on every read, so growing the head byte by byte
		// under an open group reads exactly like a freshly opened group (truncOne, used by replay, opens a new one).
		w := openWAL(d, 0)
		defer closeWAL(w)
		hf, err := os.OpenFile(filepath.Join(d, "wal"), os.O_WRONLY|os.O_APPEND, 0o600)
		if err != nil {
			r.HarnessError("open head: %v", err)
		}
		defer hf.Close()
		for o := 0; o <= len(b.files[j]); o++ {
			if o%256 == 0 && expired() {
				return
			}
			k := before + o
			if o > 0 {
				if _, err := hf.Write(b.files[j][o-1 : o]); err != nil {
					r.HarnessError("write: %v", err)
				}
			}
			rd := readGroup(w, false, len(b.seq)+4)
			checkTrunc(b, "files", k, rd)
			r.Eval()
			if b.stream {
				checkTrunc(b, "stream", k, readStream(stream[:k], false, len(b.seq)+4))
				r.Eval()
			}
			// distinct fault = (line kind, previous line kind, byte offset inside the line)
			lo, _ := b.completeLines(k)
			if lo < len(b.seq) {
				pos := 0
				for _, it := range b.seq[:lo] {
					pos += len(it.line)
				}
				prev := "^"
				if lo > 0 {
					prev = b.seq[lo-1].label[:1]
				}
				r.Distinct(fmt.Sprintf("P2:%s>%s+%d", prev, b.seq[lo].label[:1], k-pos))
			}
		}
	})
}

// truncOne: cut the log after k bytes, in every representation (files: both variants at a file boundary).
func truncOne(d string, b blog, k int) {
	stream := b.concat()
	checkTrunc(b, "stream", k, readStream(stream[:k], false, len(b.seq)+4))
	before := 0
	for j := range b.files {
		if o := k - before; o >= 0 && o <= len(b.files[j]) {
			var kept [][]byte
			kept = append(kept, b.files[:j]...)
			kept = append(kept, b.files[j][:o])
			putFiles(d, kept, 0)
			w := openWAL(d, 0)
			rd := readGroup(w, false, len(b.seq)+4)
			closeWAL(w)
			checkTrunc(b, "files", k, rd)
		}
		before += len(b.files[j])
	}
}

// substOne: substitute one byte of line c, in both representations.
func substOne(d string, b blog, c, off int, v byte) {
	ref := b.lines[c]
	spos := ref.off
	for x := 0; x < ref.file; x++ {
		spos += len(b.files[x])
	}
	stream := b.concat()
	stream[spos+off] = v
	checkSubst(b, "stream", c, off, v, readStream(stream, true, len(b.seq)+8))
	files := make([][]byte, len(b.files))
	copy(files, b.files)
	files[ref.file] = append([]byte(nil), b.files[ref.file]...)
	files[ref.file][ref.off+off] = v
	putFiles(d, files, 0)
	w := openWAL(d, 0)
	rd := readGroup(w, true, len(b.seq)+8)
	closeWAL(w)
	checkSubst(b, "files", c, off, v, rd)
}

func substValues(orig byte, all bool) []byte {
	if all {
		out := make([]byte, 0, 255)
		for v := 0; v < 256; v++ {
			if byte(v) != orig {
				out = append(out, byte(v))
			}
		}
		return out
	}
	cand := []byte{0x00, orig ^ 1, orig ^ 0x80, '\n', '\r', '#', 'A'}
	var out []byte
	seen := map[byte]bool{orig: true}
	for _, c := range cand {
		if !seen[c] {
			seen[c] = true
			out = append(out, c)
		}
	}
	return out
}

// checkSubst: line c of the log had the byte at offset off substituted by v.
func checkSubst(b blog, how string, c, off int, v byte, rd reading) {
	w := b.seq
	s := succ(rd.obs)
	nerr := len(rd.obs) - len(s)
	wit := func() map[string]any {
		return map[string]any{"log": b.label, "mode": how, "line": c, "line_kind": w[c].label, "offset_in_line": off,
			"orig": fmt.Sprintf("%q", w[c].line[off]), "subst": fmt.Sprintf("%q", v), "read": describe(rd.obs, w), "eof": rd.eof,
			"replay": map[string]any{"phase": "P3", "syms": b.syms, "rot": b.rot, "line": c, "off": off, "val": int(v)}}
	}
	size := len(w)*100000 + off
	desc := fmt.Sprintf("%s line%d+%d=%q", b.label, c, off, v)
	if rd.runaway {
		fail("subst:reader-does-not-terminate", size, desc, wit())
		return
	}
	// is the list of returned items a subsequence of the written log (every item bit-identical, in order)?
	subseq := true
	j := 0
	for _, o := range s {
		for j < len(w) && !o.same(w[j]) {
			j++
		}
		if j == len(w) {
			subseq = false
			break
		}
		j++
	}
	if w[c].meta {
		// marker lines carry no checksum (documented TODO in WALWriter.WriteMeta); the property quantifies over
		// message lines, so this is only classified. Messages decoded from the OTHER lines must still be unaltered.
		for _, o := range s {
			if o.kind != 'm' {
				continue
			}
			found := false
			for _, it := range w {
				found = found || o.same(it)
			}
			if !found {
				fail("subst:altered-message-returned(after marker-line corruption)", size, desc, wit())
				return
			}
		}
		switch {
		case !subseq:
			r.Outcome("markerline_subst_height_altered_silently(unprotected,not in property)")
		case len(s) == len(w):
			r.Outcome("markerline_subst_decodes_identically")
		default:
			r.Outcome("markerline_subst_reported_as_error_or_EOF")
		}
		return
	}
	if !subseq {
		fail("subst:altered-message-returned", size, desc, wit())
		return
	}
	// the items before the corrupted line are untouched and must all be there
	for i := 0; i < c; i++ {
		if i >= len(s) || !s[i].same(w[i]) {
			fail("subst:item-before-corruption-lost", size, desc, wit())
			return
		}
	}
	// corrupted line reported, or decoded bit-identically, or (newline of the last line) looks like a truncation
	switch {
	case len(s) == len(w) && nerr == 0:
		r.Outcome("subst_decodes_bit_identically(base64 trailing-bits alias)")
	case nerr > 0:
		dc := true
		for _, o := range rd.obs {
			if o.kind == 'e' && !o.dc {
				dc = false
			}
		}
		rest := "rest_of_log_recovered"
		if len(s) < len(w)-2 {
			rest = "rest_of_log_partly_lost"
		}
		if dc {
			r.Outcome("subst_reported_DataCorruptionError," + rest)
		} else {
			r.Outcome("subst_reported_untyped_error," + rest)
		}
	case c == len(w)-1 && off == len(w[c].line)-1 && len(s) == len(w)-1 && rd.eof:
		r.Outcome("subst_newline_of_last_line=unterminated_line_then_EOF")
	default:
		fail("subst:corruption-not-reported", size, desc, wit())
	}
}

func phase3(logs []blog) {
	type job struct {
		b    blog
		line int
	}
	var jobs []job
	for _, b := range logs {
		for c := range b.seq {
			jobs = append(jobs, job{b, c})
		}
	}
	r.Sample(map[string]any{"phase": "P3 single-byte substitution", "lines": len(jobs), "values_quick": "0x00, b^1, b^0x80, LF, CR, '#', 'A' ('B' where the byte is 'A')", "values_thorough": "all 255 other byte values on the in-memory stream for every line kind alone, every pair of small kinds and every pair with a marker; the quick set everywhere (files and stream)"})
	parFor(len(jobs), func(i int) {
		b, c := jobs[i].b, jobs[i].line
		d := <-dirPool
		defer func() { dirPool <- d }()
		ref := b.lines[c]
		stream := b.concat()
		spos := 0
		for x := 0; x < ref.file; x++ {
			spos += len(b.files[x])
		}
		spos += ref.off
		putFiles(d, b.files, 0)
		hp := filepath.Join(d, "wal")
		if ref.file < len(b.files)-1 {
			hp = fmt.Sprintf("%s.%03d", hp, ref.file)
		}
		w := openWAL(d, 0) // one group per job, a new group reader per variant (see phase2)
		defer closeWAL(w)
		hf, err := os.OpenFile(hp, os.O_WRONLY, 0o600)
		if err != nil {
			r.HarnessError("open: %v", err)
		}
		defer hf.Close()
		line := b.seq[c].line
		// quick: real files for the small line kinds in one layout per log (rotated one for pairs); every line
		// also goes through the same decoder on the in-memory stream
		onFiles := r.Thorough() || (len(line) <= 700 && (len(b.seq) == 1 || len(b.files) > 1))
		for off := 0; off < len(line); off++ {
			if off%64 == 0 && expired() {
				return
			}
			orig := line[off]
			for _, v := range substValues(orig, false) {
				if !onFiles {
					break
				}
				if _, err := hf.WriteAt([]byte{v}, int64(ref.off+off)); err != nil {
					r.HarnessError("write: %v", err)
				}
				rd := readGroup(w, true, len(b.seq)+8)
				checkSubst(b, "files", c, off, v, rd)
				r.Eval()
				r.Distinct(fmt.Sprintf("P3:%s+%d=%02x", b.seq[c].label[:1], off, v))
			}
			if b.stream {
				for _, v := range substValues(orig, b.wide) {
					stream[spos+off] = v
					checkSubst(b, "stream", c, off, v, readStream(stream, true, len(b.seq)+8))
					r.Eval()
					r.Distinct(fmt.Sprintf("P3:%s+%d=%02x", b.seq[c].label[:1], off, v))
				}
				stream[spos+off] = orig
			}
			if onFiles {
				if _, err := hf.WriteAt([]byte{orig}, int64(ref.off+off)); err != nil {
					r.HarnessError("write: %v", err)
				}
			}
		}
	})
}

// ---------------------------------------------------------------------------------------------
// P4: SearchForHeight over every layout

type searchOpt struct {
	name string
	opt  *walm.WALSearchOptions
}

var searchOpts = []searchOpt{
	{"default", nil},
	{"backwards", &walm.WALSearchOptions{Mode: walm.WALSearchModeBackwards}},
	{"binary", &walm.WALSearchOptions{Mode: walm.WALSearchModeBinary}},
	{"backwards+ignoreCorruption", &walm.WALSearchOptions{Mode: walm.WALSearchModeBackwards, IgnoreDataCorruptionErrors: true}},
	{"binary+ignoreCorruption", &walm.WALSearchOptions{Mode: walm.WALSearchModeBinary, IgnoreDataCorruptionErrors: true}},
}

type p4case struct {
	syms string // over {m, M}
	lead int
	rot  []int
	base int
}

func buildSearchSeq(syms string) []item {
	var out []item
	h := int64(1)
	for i := 0; i < len(syms); i++ {
		if syms[i] == 'M' {
			out = append(out, mkMeta(h))
			h++
		} else {
			out = append(out, mkMsg(fmt.Sprintf("m%d", i+1), cs.VerifTimeoutInfo(time.Second, int64(i+1), 0, 3)))
		}
	}
	return out
}

func errClass(e string) string {
	if i := strings.IndexAny(e, ":[0123456789"); i > 0 {
		e = e[:i]
	}
	return strings.TrimSpace(e)
}

func runP4(c p4case) {
	d := <-dirPool
	defer func() { dirPool <- d }()
	seq := buildSearchSeq(c.syms)
	files := splitFiles(seq, c.lead, c.rot)
	label := layoutLabel(seq, c.lead, c.rot)
	if c.base > 0 {
		label = fmt.Sprintf("[first file index %d] %s", c.base, label)
	}
	putFiles(d, files, c.base)
	w := openWAL(d, 0)
	defer closeWAL(w)
	// where each item lives
	fileOf := make([]int, len(seq))
	f := c.lead
	for i := range seq {
		fileOf[i] = f
		f += c.rot[i]
	}
	var maxH int64
	for _, it := range seq {
		if it.meta {
			maxH = it.h
		}
	}
	size := len(seq)*100 + len(files)
	for h := int64(0); h <= maxH+1; h++ {
		at := -1
		for i, it := range seq {
			if it.meta && it.h == h {
				at = i
			}
		}
		for oi, so := range searchOpts {
			if oi >= 3 && (!r.Thorough() || len(seq) > 4) {
				break // IgnoreDataCorruptionErrors only matters on corrupted logs: small layouts in thorough only
			}
			var (
				rd    io.ReadCloser
				found bool
				err   error
				got   reading
			)
			rec := vk.Catch(func() {
				rd, found, err = w.SearchForHeight(h, so.opt)
				if found && rd != nil {
					dec := walm.NewWALReader(rd, walMax) // as consensus/replay.go does
					got = readDec(dec, false, len(seq)+4)
				}
				if rd != nil {
					rd.Close()
				}
			})
			r.Eval()
			wit := func() map[string]any {
				return map[string]any{"layout": label, "files": len(files), "search_height": h, "options": so.name,
					"found": found, "err": fmt.Sprint(err), "panic": fmt.Sprint(rec), "read_after": describe(got.obs, seq),
					"replay": map[string]any{"phase": "P4", "syms": c.syms, "lead": c.lead, "rot": c.rot, "base": c.base}}
			}
			desc := fmt.Sprintf("%s h=%d %s", label, h, so.name)
			switch {
			case rec != nil:
				fail("search:panic("+errClass(fmt.Sprint(rec))+")", size, desc, wit())
			case err != nil:
				fail("search:error("+errClass(err.Error())+")", size, desc, wit())
			case found && at < 0:
				fail("search:found-a-height-that-was-never-written", size, desc, wit())
			case !found && at >= 0:
				fail("search:existing-marker-not-found", size, desc, wit())
			case !found:
				if rd != nil {
					fail("search:reader-returned-with-found=false", size, desc, wit())
				} else {
					r.Outcome("search_absent_height_not_found")
				}
			default:
				want := seq[at+1:]
				same := len(got.obs) == len(want) && got.eof
				for i := 0; same && i < len(want); i++ {
					same = got.obs[i].same(want[i])
				}
				if same {
					if len(want) > 0 && fileOf[at+1] != fileOf[at] {
						r.Outcome("search_found_next_line_in_later_file")
					} else if len(want) > 0 && fileOf[len(seq)-1] != fileOf[at] {
						r.Outcome("search_found_rest_spans_files")
					} else {
						r.Outcome("search_found_rest_in_same_file")
					}
					break
				}
				// classify: a strict prefix of the expected rest that stops exactly where the marker's file ends?
				inFile := 0
				for i := at + 1; i < len(seq) && fileOf[i] == fileOf[at]; i++ {
					inFile++
				}
				prefix := got.eof && len(got.obs) == inFile && inFile < len(want)
				for i := 0; prefix && i < inFile; i++ {
					prefix = got.obs[i].same(want[i])
				}
				switch {
				case prefix && inFile == 0:
					fail("search:reader-at-EOF-instead-of-first-line-after-marker(marker is last line of its file)", size, desc, wit())
				case prefix:
					fail("search:reader-stops-at-end-of-marker-file(rest of the log in later files not delivered)", size, desc, wit())
				default:
					fail("search:reader-not-positioned-after-marker", size, desc, wit())
				}
			}
		}
	}
	r.Distinct("P4:" + label)
}

func phase4() {
	n, maxFiles := 5, 5
	if r.Thorough() {
		n, maxFiles = 7, 5
	}
	var cases []p4case
	for _, s := range allSeqs("mM", n) {
		if !strings.Contains(s, "M") {
			continue
		}
		for _, rot := range rotPatterns(len(s), 2) {
			tot := 0
			for _, v := range rot {
				tot += v
			}
			for lead := 0; lead <= 1; lead++ {
				if 1+tot+lead > maxFiles {
					continue
				}
				for _, base := range []int{0, 1} {
					if base > 0 && tot+lead == 0 {
						continue
					}
					cases = append(cases, p4case{syms: s, lead: lead, rot: rot, base: base})
				}
			}
		}
	}
	r.Sample(map[string]any{"phase": "P4 SearchForHeight", "layouts": len(cases), "example": layoutLabel(buildSearchSeq("mMmMm"), 0, []int{0, 1, 0, 2, 0}), "legend": "mK message, #h marker, | rotation (|| = an empty file)", "heights": "0..max+1", "options": len(searchOpts)})
	parFor(len(cases), func(i int) { runP4(cases[i]) })
}

// ---------------------------------------------------------------------------------------------

func report() {
	keys := make([]string, 0, len(vmap))
	for k := range vmap {
		keys = append(keys, k)
	}
	sort.Strings(keys)
	for _, k := range keys {
		w := vmap[k]
		r.Violation(k, map[string]any{"minimal_witness": w.detail, "failing_cases": w.count})
		fmt.Printf("  %s: %d failing cases; minimal: %s\n", k, w.count, w.desc)
	}
}

// replay re-runs the minimal witness of a recorded violation on the real code (vcheck C38 replay <file>).
func replay(path string) {
	raw, err := os.ReadFile(path)
	if err != nil {
		r.HarnessError("replay: %v", err)
	}
	var doc struct {
		Detail struct {
			W struct {
				Replay struct {
					Phase     string `json:"phase"`
					Syms      string `json:"syms"`
					Lead      int    `json:"lead"`
					Rot       []int  `json:"rot"`
					Base      int    `json:"base"`
					HeadLimit int64  `json:"head_limit"`
					SyncMeta  bool   `json:"sync_meta"`
					Cut       int    `json:"cut"`
					Line      int    `json:"line"`
					Off       int    `json:"off"`
					Val       int    `json:"val"`
				} `json:"replay"`
			} `json:"minimal_witness"`
		} `json:"detail"`
	}
	if err := json.Unmarshal(raw, &doc); err != nil {
		r.HarnessError("replay: %v", err)
	}
	sp := doc.Detail.W.Replay
	fmt.Printf("replaying %+v\n", sp)
	switch sp.Phase {
	case "P1":
		runP1(p1case{syms: sp.Syms, rot: sp.Rot, headLimit: sp.HeadLimit, syncMeta: sp.SyncMeta})
	case "P1svc":
		phase1Service([]string{sp.Syms})
	case "P2":
		d := <-dirPool
		truncOne(d, mkBlog(sp.Syms, 0, sp.Rot), sp.Cut)
		dirPool <- d
	case "P3":
		d := <-dirPool
		substOne(d, mkBlog(sp.Syms, 0, sp.Rot), sp.Line, sp.Off, byte(sp.Val))
		dirPool <- d
	case "P4":
		runP4(p4case{syms: sp.Syms, lead: sp.Lead, rot: sp.Rot, base: sp.Base})
	case "P5":
		d := <-dirPool
		truncSearchOne(d, mkSearchBlog(sp.Syms, sp.Rot), sp.Cut)
		dirPool <- d
	default:
		r.HarnessError("replay: no replay spec in %s", path)
	}
	os.RemoveAll(workDir + "/run")
	report()
	if r.Violations() == 0 {
		fmt.Println("replay: no violation reproduced")
		os.Exit(0)
	}
	os.Exit(1)
}

func main() {
	r = vk.New("fault_enumeration")
	if os.Getenv("C38_BLOCKPROF") != "" {
		runtime.SetBlockProfileRate(1000)
		runtime.SetMutexProfileFraction(10)
	}
	if pf := os.Getenv("C38_PPROF"); pf != "" {
		f, _ := os.Create(pf)
		pprof.StartCPUProfile(f)
	}
	r.SetBudget(80*time.Second, 20*time.Minute)
	initDirs(64)
	// warm the exact-size cache deterministically
	for ord := 1; ord <= 12; ord++ {
		mkSym('X', ord)
		mkSym('Z', ord)
	}
	if r.ReplayIn != "" {
		phaseDeadline = time.Now().Add(time.Hour)
		replay(r.ReplayIn)
	}
	only := os.Getenv("C38_PHASES")
	run := func(p string) bool { return only == "" || strings.Contains(only, p) }
	logs := byteLogs()
	if run("4") {
		setPhaseShare(0.40)
		phase4()
		fmt.Printf("P4 done at %.1fs evals=%d\n", time.Since(runStart).Seconds(), r.Evals())
	}
	if run("1") {
		setPhaseShare(0.55)
		phase1Service([]string{"V", "VTM", "PBMRVMT", "MMV"})
		phase1()
		fmt.Printf("P1 done at %.1fs evals=%d\n", time.Since(runStart).Seconds(), r.Evals())
	}
	if run("2") {
		setPhaseShare(0.68)
		phase2(logs)
		fmt.Printf("P2 done at %.1fs evals=%d\n", time.Since(runStart).Seconds(), r.Evals())
	}
	if run("5") {
		setPhaseShare(0.78)
		phase5()
		fmt.Printf("P5 done at %.1fs evals=%d\n", time.Since(runStart).Seconds(), r.Evals())
	}
	if run("3") {
		setPhaseShare(1.0)
		phase3(logs)
		fmt.Printf("P3 done at %.1fs evals=%d\n", time.Since(runStart).Seconds(), r.Evals())
	}
	os.RemoveAll(workDir + "/run")
	pprof.StopCPUProfile()
	if bp := os.Getenv("C38_BLOCKPROF"); bp != "" {
		f, _ := os.Create(bp)
		pprof.Lookup("block").WriteTo(f, 0)
		f.Close()
		f, _ = os.Create(bp + ".mutex")
		pprof.Lookup("mutex").WriteTo(f, 0)
		f.Close()
	}

	report()
	r.Assumptions = []string{
		"reference model: list of written items + an independent encoder (base64-nopad(crc32c(amino sized bytes) || bytes) + newline, marker = #{\"h\":\"N\"}); amino itself is trusted",
		"a crash is modelled as truncation of the byte stream at any byte (files after the cut absent; both 'head' and 'rotated + empty head' variants at file boundaries)",
		"after the surviving prefix a read must end with io.EOF or an error for which wal.IsDataCorruptionError is true (the only two endings SearchForHeight, catchupReplay and replay_file handle); a content-complete but unterminated last line may be returned or dropped",
		"marker lines have no checksum in the format (documented TODO); single-byte corruption of a marker line is classified, not judged",
		"maxSize is scaled to 4096 bytes so that exactly-max and oversized messages are cheap to enumerate",
		"P2-P4 layouts are written directly as files; P1 shows the real writer/rotation produces exactly those bytes",
	}
	r.Finish("P1: all sequences <= n over 8 line kinds x all rotation vectors through the real writer; P2: every byte cut of every log in a covering set (all sequences <= 2 over 7 kinds, two layouts, + long logs); P3: every byte of every line x substitution set; P4: all {message,marker} sequences <= n x all splits into <= F files x all heights x 5 option sets; P5: all {message,marker} sequences <= 3 (4 in two layouts; thorough 5 + the 12-line log) x all splits x every byte cut x all heights x search modes, exact ending oracle (EOF or corruption error only) as in P2. distinct = distinct layouts in P1/P4, distinct (line kind, context, byte offset[, value]) faults in P2/P3 and distinct (layout, cut) in P5",
		true, map[string]any{"phases_env": only})
}
