// C38: the consensus write-ahead log (tm2/pkg/bft/wal on tm2/pkg/autofile) preserves what was written.
//
// Bounded exhaustive fault enumeration on the real WAL / autofile.Group code over real files under
// /verif/.work/c38 (plus the same decoder over in-memory streams for the widest byte sweep):
//
//	P1 read-back   every message sequence <= n over {vote, proposal, 2kB block part, timeout, round step,
//	               message of exactly maxSize, oversized message, height marker} x every rotation layout,
//	               written by the real writer (explicit RotateFile and head-size-limit driven rotation);
//	               on-disk bytes are compared with an independent reference encoder and the log is read back.
//	P2 truncation  every log of a covering set x every layout x EVERY byte cut (crash): the reader returns
//	               a prefix of what was written, then io.EOF or an error classified as corruption
//	               (wal.IsDataCorruptionError) - never anything else, never another kind of error.
//	P5 crash+search every {message, marker} sequence <= n x every split x EVERY byte cut x every height x search mode:
//	               SearchForHeight on a log cut inside a line behaves as on the log cut at the previous line
//	               boundary (found / not found, never an unclassified error); the returned reader delivers the
//	               surviving lines after the marker, then EOF or a corruption error (trunc_search.go).
//	P3 corruption  every byte of every line x a substitution alphabet (all 255 other values in thorough):
//	               a corrupted message line is reported as an error or decodes bit-identically; every item
//	               returned is bit-identical to a written one, in order.
//	P4 search      every sequence over {message, marker} <= n x every split into files (empty files, marker
//	               last / first line of a file, head without marker, pruned groups) x every height present or
//	               absent x every WALSearchOptions mode: SearchForHeight returns found iff the marker exists and the
//	               returned reader delivers the log from the first line after the marker.
//
// The oracle is a reference model of the log: the list of written items and an independent line encoder.
package main

import (
	"bytes"
	"encoding/base64"
	"encoding/binary"
	"fmt"
	"hash/crc32"
	"io"
	"os"
	"path/filepath"
	"strings"
	"sync"
	"time"

	"github.com/gnolang/gno/tm2/pkg/amino"
	cs "github.com/gnolang/gno/tm2/pkg/bft/consensus"
	"github.com/gnolang/gno/tm2/pkg/bft/types"
	walm "github.com/gnolang/gno/tm2/pkg/bft/wal"
	"github.com/gnolang/gno/tm2/pkg/crypto/merkle"
	"verif/engine/vk"
)

const (
	walMax  = 4096 // maxSize given to NewWAL / WALReader (the node uses 1 MB; the boundary logic is the same)
	workDir = "/verif/.work/c38"
)

var (
	r          *vk.Run
	t0         = time.Unix(1700000000, 123456789).UTC()
	castagnoli = crc32.MakeTable(crc32.Castagnoli)
)

// ---------------------------------------------------------------------------------------------
// reference model of a log

type item struct {
	label string
	meta  bool
	h     int64
	twm   walm.TimedWALMessage
	sized []byte // amino length-prefixed bytes of twm (what the CRC covers)
	line  []byte // reference encoding of the line, newline included
	big   bool   // oversized: the writer must refuse it and write nothing
}

func refLine(sized []byte) []byte {
	buf := make([]byte, 4+len(sized))
	binary.BigEndian.PutUint32(buf, crc32.Checksum(sized, castagnoli))
	copy(buf[4:], sized)
	return append([]byte(base64.RawStdEncoding.EncodeToString(buf)), '\n')
}

func mkMsg(label string, m walm.WALMessage) item {
	twm := walm.TimedWALMessage{Time: t0, Msg: m}
	sized := amino.MustMarshalSized(twm)
	it := item{label: label, twm: twm, sized: sized, line: refLine(sized)}
	if len(sized) > walMax {
		it.big = true
	}
	return it
}

func mkMeta(h int64) item {
	return item{label: fmt.Sprintf("#%d", h), meta: true, h: h, line: []byte(fmt.Sprintf("#{\"h\":\"%d\"}\n", h))}
}

func fill(n int, seed byte) []byte {
	b := make([]byte, n)
	for i := range b {
		b[i] = seed + byte(i*7)
	}
	return b
}

func blockID(seed byte) types.BlockID {
	return types.BlockID{Hash: fill(32, seed), PartsHeader: types.PartSetHeader{Total: 3, Hash: fill(32, seed+1)}}
}

func partMsg(ord int, n int) walm.WALMessage {
	return cs.VerifMsgInfo(&cs.BlockPartMessage{Height: int64(ord), Round: 1, Part: &types.Part{
		Index: 1, Bytes: fill(n, byte(ord)),
		Proof: merkle.SimpleProof{Total: 3, Index: 1, LeafHash: fill(32, 9), Aunts: [][]byte{fill(32, 10)}},
	}}, "g1peer0000000000000000000000000000000000")
}

var (
	exactMu  sync.Mutex
	exactLen = map[string]int{}
)

// partOfSize builds a block-part message whose TimedWALMessage encodes to exactly target bytes.
func partOfSize(label string, ord int, target int) item {
	key := fmt.Sprint(ord, ":", target)
	exactMu.Lock()
	n, ok := exactLen[key]
	exactMu.Unlock()
	if !ok {
		n = -1
		for k := target - 400; k <= target; k++ {
			if k < 0 {
				continue
			}
			if len(amino.MustMarshalSized(walm.TimedWALMessage{Time: t0, Msg: partMsg(ord, k)})) == target {
				n = k
				break
			}
		}
		if n < 0 {
			r.HarnessError("cannot build a message of exactly %d bytes", target)
		}
		exactMu.Lock()
		exactLen[key] = n
		exactMu.Unlock()
	}
	return mkMsg(label, partMsg(ord, n))
}

// symbols of the message alphabet; ord makes every item of a sequence distinct.
func mkSym(sym byte, ord int) item {
	switch sym {
	case 'V':
		return mkMsg("V", cs.VerifMsgInfo(&cs.VoteMessage{Vote: &types.Vote{
			Type: types.PrevoteType, Height: int64(ord), Round: 1, BlockID: blockID(3), Timestamp: t0,
			ValidatorIndex: 2, Signature: fill(64, 5),
		}}, "g1peer0000000000000000000000000000000000"))
	case 'P':
		return mkMsg("P", cs.VerifMsgInfo(&cs.ProposalMessage{Proposal: &types.Proposal{
			Type: types.ProposalType, Height: int64(ord), Round: 1, POLRound: -1, BlockID: blockID(4), Timestamp: t0, Signature: fill(64, 6),
		}}, ""))
	case 'B':
		return mkMsg("B", partMsg(ord, 2048))
	case 'T':
		return mkMsg("T", cs.VerifTimeoutInfo(3*time.Second, int64(ord), 1, 4))
	case 'R':
		return mkMsg("R", cs.VerifNewRoundStep(int64(ord), 0, 3))
	case 'X':
		return partOfSize("X", ord, walMax)
	case 'Z':
		return partOfSize("Z", ord, walMax+1)
	}
	panic("bad symbol")
}

// buildSeq turns a symbol string into items; 'M' is the next height marker (first marker = firstH).
func buildSeq(syms string, firstH int64) []item {
	var out []item
	h := firstH
	for i := 0; i < len(syms); i++ {
		if syms[i] == 'M' {
			out = append(out, mkMeta(h))
			h++
		} else {
			out = append(out, mkSym(syms[i], i+1))
		}
	}
	return out
}

// written = items that end up in the log (oversized ones are refused).
func written(seq []item) []item {
	var out []item
	for _, it := range seq {
		if !it.big {
			out = append(out, it)
		}
	}
	return out
}

// splitFiles predicts the files of a log: rot[i] rotations after item i (rot has len(seq) entries),
// lead rotations before the first item. The last element is the head.
func splitFiles(seq []item, lead int, rot []int) [][]byte {
	files := [][]byte{{}}
	for k := 0; k < lead; k++ {
		files = append(files, []byte{})
	}
	for i, it := range seq {
		if !it.big {
			files[len(files)-1] = append(files[len(files)-1], it.line...)
		}
		for k := 0; k < rot[i]; k++ {
			files = append(files, []byte{})
		}
	}
	return files
}

func layoutLabel(seq []item, lead int, rot []int) string {
	var sb strings.Builder
	sb.WriteString(strings.Repeat("|", lead))
	for i, it := range seq {
		if i > 0 && (len(rot) == 0 || rot[i-1] == 0) {
			sb.WriteByte(' ')
		}
		sb.WriteString(it.label)
		if len(rot) > 0 {
			sb.WriteString(strings.Repeat("|", rot[i]))
		}
	}
	return sb.String()
}

// ---------------------------------------------------------------------------------------------
// observations of the real reader

type obs struct {
	kind  byte // 'm' message, '#' marker, 'e' error
	sized []byte
	h     int64
	dc    bool
	err   string
}

type reading struct {
	obs     []obs
	eof     bool // ended with io.EOF
	runaway bool
}

func (o obs) same(it item) bool {
	if it.meta {
		return o.kind == '#' && o.h == it.h
	}
	return o.kind == 'm' && bytes.Equal(o.sized, it.sized)
}

func readDec(dec *walm.WALReader, cont bool, maxIter int) reading {
	var rd reading
	for i := 0; ; i++ {
		if i > maxIter {
			rd.runaway = true
			return rd
		}
		msg, meta, err := dec.ReadMessage()
		if err == io.EOF {
			rd.eof = true
			return rd
		}
		if err != nil {
			rd.obs = append(rd.obs, obs{kind: 'e', dc: walm.IsDataCorruptionError(err), err: err.Error()})
			if !cont {
				return rd
			}
			continue
		}
		switch {
		case msg != nil && meta == nil:
			bz, merr := amino.MarshalSized(*msg)
			if merr != nil {
				bz = []byte("unmarshalable:" + merr.Error())
			}
			rd.obs = append(rd.obs, obs{kind: 'm', sized: bz})
		case meta != nil && msg == nil:
			rd.obs = append(rd.obs, obs{kind: '#', h: meta.Height})
		default:
			rd.obs = append(rd.obs, obs{kind: 'e', err: "ReadMessage returned neither/both of msg and meta with nil error"})
		}
	}
}

func succ(os []obs) []obs {
	var out []obs
	for _, o := range os {
		if o.kind != 'e' {
			out = append(out, o)
		}
	}
	return out
}

func describe(os []obs, w []item) []string {
	var out []string
	for _, o := range os {
		switch o.kind {
		case 'e':
			e := o.err
			if len(e) > 90 {
				e = e[:90]
			}
			out = append(out, "ERR("+e+")")
		case '#':
			out = append(out, fmt.Sprintf("#%d", o.h))
		default:
			l := "msg?"
			for i, it := range w {
				if o.same(it) {
					l = fmt.Sprintf("%s@%d", it.label, i)
					break
				}
			}
			out = append(out, l)
		}
	}
	return out
}

// ---------------------------------------------------------------------------------------------
// files

var dirPool chan string

func initDirs(n int) {
	os.RemoveAll(workDir + "/run")
	dirPool = make(chan string, n)
	for i := 0; i < n; i++ {
		d := fmt.Sprintf("%s/run/w%02d", workDir, i)
		if err := os.MkdirAll(d, 0o755); err != nil {
			r.HarnessError("mkdir: %v", err)
		}
		dirPool <- d
	}
}

func cleanDir(d string) {
	ents, _ := os.ReadDir(d)
	for _, e := range ents {
		os.Remove(filepath.Join(d, e.Name()))
	}
}

// putFiles writes a layout directly (no fsync): files[:len-1] are wal.<base+j>, the last one is the head.
func putFiles(d string, files [][]byte, base int) {
	cleanDir(d)
	for j, f := range files {
		p := filepath.Join(d, "wal")
		if j < len(files)-1 {
			p = fmt.Sprintf("%s.%03d", p, base+j)
		}
		if err := os.WriteFile(p, f, 0o600); err != nil {
			r.HarnessError("write %s: %v", p, err)
		}
	}
}
