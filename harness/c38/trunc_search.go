package main

// P5: SearchForHeight on truncated logs (a node restarting after a crash searches its own torn WAL).
//
// Every sequence over {message, marker} up to length n x every split into files x EVERY byte cut x every height
// 0..max+1 (max taken over the UNCUT log, so markers lost in the cut are searched too) x search modes.
// A log cut in the middle of a line must be searched exactly like the log cut at the previous line boundary:
// found iff the marker is among the surviving complete lines, never an error that is neither end-of-file nor
// corruption; the returned reader delivers the surviving lines after the marker, then io.EOF or a corruption error.

import (
	"fmt"
	"io"
	"os"
	"path/filepath"
	"strings"

	walm "github.com/gnolang/gno/tm2/pkg/bft/wal"
	"verif/engine/vk"
)

func mkSearchBlog(syms string, rot []int) blog {
	if strings.Trim(syms, "mM") != "" {
		return mkBlog(syms, 0, rot) // a log over the P1-P3 line kinds
	}
	seq := buildSearchSeq(syms)
	return blog{syms: syms, rot: rot, seq: seq, label: layoutLabel(seq, 0, rot), files: splitFiles(seq, 0, rot)}
}

// checkTruncSearch: the group behind w currently holds the first k bytes of b (later files absent).
func checkTruncSearch(w realWAL, b blog, k int, opts []searchOpt) {
	lo, hi := b.completeLines(k) // lo: lines with their newline; hi: + a last line whose content is complete but unterminated
	var maxH int64
	for _, it := range b.seq {
		if it.meta {
			maxH = it.h
		}
	}
	size := len(b.seq)*100000 + k
	for h := int64(0); h <= maxH+1; h++ {
		atLo, atHi, atAll := -1, -1, -1
		for i, it := range b.seq {
			if it.meta && it.h == h {
				atAll = i
				if i < hi {
					atHi = i
				}
				if i < lo {
					atLo = i
				}
			}
		}
		for _, so := range opts {
			var (
				rd    io.ReadCloser
				found bool
				err   error
				got   reading
			)
			rec := vk.Catch(func() {
				rd, found, err = w.SearchForHeight(h, so.opt)
				if found && rd != nil {
					got = readDec(walm.NewWALReader(rd, walMax), false, len(b.seq)+4) // as consensus/replay.go does
				}
				if rd != nil {
					rd.Close()
				}
			})
			r.Eval()
			desc := fmt.Sprintf("%s cut@%d h=%d %s", b.label, k, h, so.name)
			bad := func(key string) {
				fail(key, size, desc, map[string]any{"layout": b.label, "cut_at_byte": k, "complete_lines": lo, "search_height": h,
					"options": so.name, "found": found, "err": fmt.Sprint(err), "panic": fmt.Sprint(rec),
					"read_after": describe(got.obs, b.seq), "eof_after": got.eof,
					"replay": map[string]any{"phase": "P5", "syms": b.syms, "rot": b.rot, "cut": k}})
			}
			switch {
			case rec != nil:
				bad("trunc-search:panic(" + errClass(fmt.Sprint(rec)) + ")")
			case err != nil && !walm.IsDataCorruptionError(err):
				bad("trunc-search:error-that-is-neither-EOF-nor-corruption(" + errClass(err.Error()) + ")")
			case err != nil && atLo >= 0:
				bad("trunc-search:marker-in-surviving-prefix-not-found(corruption error)")
			case err != nil:
				r.Outcome("truncsearch_absent_height_reported_as_corruption")
			case found && atHi < 0:
				bad("trunc-search:found-a-marker-that-is-not-in-the-surviving-prefix")
			case !found && atLo >= 0:
				bad("trunc-search:marker-in-surviving-prefix-not-found")
			case !found && rd != nil:
				bad("trunc-search:reader-returned-with-found=false")
			case !found:
				switch {
				case atAll >= 0:
					r.Outcome("truncsearch_marker_lost_in_the_cut_not_found")
				case b.atBoundary(k):
					r.Outcome("truncsearch_absent_height_not_found(cut at line boundary)")
				default:
					r.Outcome("truncsearch_absent_height_not_found(cut inside a line)")
				}
			default:
				at := atHi
				s := succ(got.obs)
				ok := !got.runaway && at+1+len(s) >= lo && at+1+len(s) <= hi
				for i := 0; ok && i < len(s); i++ {
					ok = s[i].same(b.seq[at+1+i])
				}
				for i, o := range got.obs {
					if o.kind == 'e' && i != len(got.obs)-1 {
						ok = false
					}
				}
				switch {
				case !ok:
					bad("trunc-search:reader-does-not-deliver-the-surviving-lines-after-the-marker")
				case endClass("x", got) != "":
					bad(endClass("trunc-search-read", got))
				case atLo < 0:
					r.Outcome("truncsearch_found_unterminated_marker_line")
				case b.atBoundary(k):
					r.Outcome("truncsearch_found_rest_then_EOF(cut at line boundary)")
				case got.eof:
					r.Outcome("truncsearch_found_rest_then_EOF(cut inside a line)")
				default:
					r.Outcome("truncsearch_found_rest_then_DataCorruptionError")
				}
			}
		}
	}
}

func p5opts() []searchOpt {
	if r.Thorough() {
		return searchOpts
	}
	return searchOpts[1:3] // backwards (= what nil options select) and binary
}

func phase5() {
	n, maxFiles := 4, 4
	if r.Thorough() {
		n, maxFiles = 5, 4
	}
	var logs []blog
	for _, s := range allSeqs("mM", n) {
		if !strings.Contains(s, "M") {
			continue
		}
		for _, rot := range rotPatterns(len(s)-1, 1) { // rotations between lines; the cut makes its own head
			tot := 1
			for _, v := range rot {
				tot += v
			}
			if tot > maxFiles {
				continue
			}
			if r.Quick() && len(s) == 4 && tot != 1 && tot != 4 {
				continue // quick: length-4 logs in one file and in one file per line only
			}
			logs = append(logs, mkSearchBlog(s, append(append([]int(nil), rot...), 0)))
		}
	}
	if r.Thorough() { // the 12-line log whose lines straddle the 4096-byte buffers of the group reader and of the WAL reader
		long := "MVPBBTMRXVBM"
		rot := make([]int, len(long))
		rot[3], rot[6], rot[8] = 1, 1, 2
		logs = append(logs, mkBlog(long, 0, rot))
	}
	type job struct {
		b    blog
		file int
	}
	var jobs []job
	cuts := 0
	for _, b := range logs {
		for j := range b.files {
			jobs = append(jobs, job{b, j})
			cuts += len(b.files[j]) + 1
		}
	}
	opts := p5opts()
	r.Sample(map[string]any{"phase": "P5 SearchForHeight on logs truncated at every byte", "logs": len(logs), "cuts": cuts,
		"example": logs[len(logs)-1].label, "file_sizes": fileSizes(logs[len(logs)-1].files), "heights": "0..max+1 of the uncut log", "options": len(opts)})
	parFor(len(jobs), func(i int) {
		b, j := jobs[i].b, jobs[i].file
		d := <-dirPool
		defer func() { dirPool <- d }()
		before := 0
		for x := 0; x < j; x++ {
			before += len(b.files[x])
		}
		var kept [][]byte
		kept = append(kept, b.files[:j]...)
		kept = append(kept, nil)
		putFiles(d, kept, 0)
		w := openWAL(d, 0) // one group per job; the head grows byte by byte underneath (see phase2)
		defer closeWAL(w)
		hf, err := os.OpenFile(filepath.Join(d, "wal"), os.O_WRONLY|os.O_APPEND, 0o600)
		if err != nil {
			r.HarnessError("open head: %v", err)
		}
		defer hf.Close()
		for o := 0; o <= len(b.files[j]); o++ {
			if o%16 == 0 && expired() {
				return
			}
			if o > 0 {
				if _, err := hf.Write(b.files[j][o-1 : o]); err != nil {
					r.HarnessError("write: %v", err)
				}
			}
			checkTruncSearch(w, b, before+o, opts)
			r.Distinct(fmt.Sprintf("P5:%s@%d", b.label, before+o))
		}
	})
}

// truncSearchOne (replay): cut after k bytes, freshly opened group, every option set.
func truncSearchOne(d string, b blog, k int) {
	before := 0
	for j := range b.files {
		if o := k - before; o >= 0 && o <= len(b.files[j]) {
			var kept [][]byte
			kept = append(kept, b.files[:j]...)
			kept = append(kept, b.files[j][:o])
			putFiles(d, kept, 0)
			w := openWAL(d, 0)
			checkTruncSearch(w, b, k, searchOpts)
			closeWAL(w)
		}
		before += len(b.files[j])
	}
}
