// C40: the mempool never duplicates, loses order, or over-reaps.
//
// Part A (explicit-state BFS, engine E1): operation sequences on the REAL CListMempool (real clist, real
// local ABCI client, scripted ABCI app) explored breadth-first with deduplication on a canonical state key;
// successors by replay on a fresh instance. After every transition all read APIs and every reap from a
// menu are compared with a reference model derived from the observed accept/reject answers.
// Part B (stateless schedule exploration, engine E2): 2-3 threads {CheckTx,CheckTx | Lock;Update;Unlock | Reap}
// through the sync/atomic/time shims, all schedules up to a preemption bound.
package main

import (
	"encoding/json"
	"flag"
	"fmt"
	"os"
	"os/exec"
	"sort"
	"strings"
	"time"

	abcicli "github.com/gnolang/gno/tm2/pkg/bft/abci/client"
	abci "github.com/gnolang/gno/tm2/pkg/bft/abci/types"
	"github.com/gnolang/gno/tm2/pkg/bft/appconn"
	"github.com/gnolang/gno/tm2/pkg/bft/mempool"
	cfg "github.com/gnolang/gno/tm2/pkg/bft/mempool/config"
	"github.com/gnolang/gno/tm2/pkg/bft/types"
	"github.com/gnolang/gno/tm2/pkg/errors"
	vs "github.com/gnolang/gno/tm2/pkg/verifsync"
	"verif/engine/vk"
)

// ---- fixture ---------------------------------------------------------------------------------

const (
	poolSize    = 3
	maxPending  = 31
	maxTxBytes0 = 20
)

var txs = []types.Tx{
	types.Tx("a"),                     // t0: 1 byte
	types.Tx("bbbbbbbbbb"),            // t1: 10 bytes
	types.Tx("cccccccccccccccccccc"),  // t2: 20 bytes == maxTxBytes
	types.Tx("ddddddddddddddddddddd"), // t3: 21 bytes  > maxTxBytes
	types.Tx("e"),                     // t4: 1 byte (4th small tx: exceeds Size when 3 are in)
}
var gas = []int64{1, 5, 10, 1, 1}

func txIndex(tx []byte) int {
	for i, t := range txs {
		if string(t) == string(tx) {
			return i
		}
	}
	return -1
}

type testError struct{ abciErrorBase }
type abciErrorBase struct{}

func (abciErrorBase) AssertABCIError() {}
func (abciErrorBase) Error() string    { return "scripted-invalid" }

// scripted ABCI application: a tx is valid unless it is in the invalid set
type app struct {
	abci.BaseApplication
	invalid [5]bool
	checks  int
}

func (a *app) CheckTx(req abci.RequestCheckTx) abci.ResponseCheckTx {
	a.checks++
	i := txIndex(req.Tx)
	if i < 0 || a.invalid[i] {
		return abci.ResponseCheckTx{ResponseBase: abci.ResponseBase{Error: testError{}}}
	}
	return abci.ResponseCheckTx{GasWanted: gas[i]}
}

type sys struct {
	app *app
	mp  *mempool.CListMempool
	// reference model
	model     []int // tx indices in arrival order
	height    int64
	maxTx     int64
	cacheSize int
}

func newSys(cacheSize int) *sys {
	a := &app{}
	cli := abcicli.NewLocalClient(nil, a)
	conf := &cfg.MempoolConfig{Recheck: true, Size: poolSize, MaxPendingTxsBytes: maxPending, CacheSize: cacheSize}
	mp := mempool.NewCListMempool(conf, appconn.NewMempool(cli), 0, maxTxBytes0)
	return &sys{app: a, mp: mp, maxTx: maxTxBytes0, cacheSize: cacheSize}
}

// ---- operations ------------------------------------------------------------------------------

type op struct {
	Kind string // check | update | flush | toggle
	Tx   int    // check/toggle
	Com  []int  // update: committed tx indices
	Bad  []bool // update: per committed tx, deliver result was an error
	Max  int64  // update: new maxTxBytes (0 = unchanged)
}

func (o op) String() string {
	switch o.Kind {
	case "check":
		return fmt.Sprintf("CheckTx(t%d)", o.Tx)
	case "toggle":
		return fmt.Sprintf("AppToggleValidity(t%d)", o.Tx)
	case "flush":
		return "Flush"
	default:
		return fmt.Sprintf("Update(committed=%v bad=%v maxTxBytes=%d)", o.Com, o.Bad, o.Max)
	}
}

func alphabet() []op {
	var a []op
	for i := range txs {
		a = append(a, op{Kind: "check", Tx: i})
	}
	for _, c := range [][]int{{}, {0}, {1}, {0, 1}, {2}, {1, 0}, {4}} {
		a = append(a, op{Kind: "update", Com: c, Bad: make([]bool, len(c))})
	}
	a = append(a, op{Kind: "update", Com: []int{1}, Bad: []bool{true}})
	a = append(a, op{Kind: "update", Com: []int{}, Bad: []bool{}, Max: 5})
	a = append(a, op{Kind: "update", Com: []int{}, Bad: []bool{}, Max: 20})
	a = append(a, op{Kind: "flush"})
	for _, i := range []int{0, 1, 4} {
		a = append(a, op{Kind: "toggle", Tx: i})
	}
	return a
}

type finding struct{ class, detail string }

// apply executes o on the real mempool and on the model; returns a finding if the property is violated.
// obs receives the observable answer (used in the state key only through the model).
func (s *sys) apply(o op) (f *finding, note string) {
	switch o.Kind {
	case "toggle":
		s.app.invalid[o.Tx] = !s.app.invalid[o.Tx]
	case "flush":
		s.mp.Flush()
		s.model = nil
	case "check":
		var res abci.Response
		called := false
		err := s.mp.CheckTx(txs[o.Tx], func(r abci.Response) { res = r; called = true })
		accepted := false
		if err == nil {
			if !called {
				return &finding{"checktx-contract", "CheckTx returned nil error but the callback was not called (local client)"}, ""
			}
			if r, ok := res.(abci.ResponseCheckTx); ok && r.Error == nil {
				accepted = true
			}
		}
		if accepted {
			present := false
			for _, i := range s.model {
				present = present || i == o.Tx
			}
			if !present { // an accepted resubmission of a pending tx must not create a second entry
				s.model = append(s.model, o.Tx)
			}
			note = "accepted"
		} else if err != nil {
			note = "rejected:" + errClass(err)
		} else {
			note = "rejected:app"
		}
	case "update":
		var ctxs types.Txs
		var drs []abci.ResponseDeliverTx
		for k, i := range o.Com {
			ctxs = append(ctxs, txs[i])
			dr := abci.ResponseDeliverTx{}
			if o.Bad[k] {
				dr.Error = testError{}
			}
			drs = append(drs, dr)
		}
		if o.Max != 0 {
			s.maxTx = o.Max
		}
		s.height++
		s.mp.Lock()
		rec := vk.Catch(func() { s.mp.Update(s.height, ctxs, drs, nil, o.Max) })
		s.mp.Unlock()
		if rec != nil {
			msg := fmt.Sprint(rec)
			if strings.Contains(msg, "Unexpected tx response from proxy during recheck") {
				return &finding{"recheck-cursor-mismatch-panic", firstLine(msg)}, ""
			}
			return &finding{"update-panic", firstLine(msg)}, ""
		}
		// model: committed txs leave; remaining txs that are too large or app-invalid leave (recheck); order kept
		var nm []int
		for _, i := range s.model {
			committed := false
			for _, c := range o.Com {
				if c == i {
					committed = true
				}
			}
			if committed || int64(len(txs[i])) > s.maxTx || s.app.invalid[i] {
				continue
			}
			nm = append(nm, i)
		}
		s.model = nm
		// every committed tx must be gone
		cur := s.contents()
		for _, c := range o.Com {
			for _, i := range cur {
				if i == c {
					return &finding{"committed-not-removed", fmt.Sprintf("t%d committed by Update but still in the mempool %v", c, cur)}, ""
				}
			}
		}
	}
	return s.invariants(), note
}

func errClass(err error) string {
	switch errors.Cause(err).(type) {
	case mempool.MempoolIsFullError:
		return "full"
	case mempool.TxTooLargeError:
		return "toolarge"
	}
	if err == mempool.ErrTxInCache {
		return "incache"
	}
	return "other"
}

func (s *sys) contents() []int {
	var c []int
	ts, _ := mempool.VerifContents(s.mp)
	for _, t := range ts {
		c = append(c, txIndex(t))
	}
	return c
}

var reapBytes = []int64{-1, 1, 11, 12, 31, 1000}
var reapGas = []int64{-1, 0, 1, 6, 16}
var reapN = []int{-1, 0, 1, 2, 3, 4}

// invariants checks the property on the current real state against the model.
func (s *sys) invariants() *finding {
	if flag, cur := mempool.VerifRechecking(s.mp); flag != 0 || cur {
		// the local client answers synchronously, so after Update returned no recheck can be pending;
		// a flag left set makes every later Reap spin forever (checked here instead of hanging in Reap)
		return &finding{"recheck-stuck", fmt.Sprintf("recheck state left set after Update returned (rechecking=%d cursorSet=%v): every later Reap blocks forever", flag, cur)}
	}
	cur := s.contents()
	seen := map[int]bool{}
	var bytes int64
	for _, i := range cur {
		if seen[i] {
			return &finding{"duplicate", fmt.Sprintf("mempool holds t%d twice: %v", i, cur)}
		}
		seen[i] = true
		bytes += int64(len(txs[i]))
	}
	if fmt.Sprint(cur) != fmt.Sprint(s.model) {
		return &finding{"order-or-loss", fmt.Sprintf("contents %v != accepted-in-arrival-order model %v", cur, s.model)}
	}
	if len(cur) > poolSize || bytes > maxPending {
		return &finding{"size-limit", fmt.Sprintf("contents %v: %d txs / %d bytes exceed limits %d / %d", cur, len(cur), bytes, poolSize, maxPending)}
	}
	if s.mp.Size() != len(cur) || s.mp.TxsBytes() != bytes {
		return &finding{"size-accounting", fmt.Sprintf("Size()=%d TxsBytes()=%d but contents %v (%d bytes)", s.mp.Size(), s.mp.TxsBytes(), cur, bytes)}
	}
	for _, n := range reapN {
		got := s.mp.ReapMaxTxs(n)
		want := len(cur)
		if n >= 0 && n < want {
			want = n
		}
		if len(got) != want || !isPrefix(got, cur) {
			return &finding{"reap-max-txs", fmt.Sprintf("ReapMaxTxs(%d) returned %d txs %v from contents %v (want the first %d)", n, len(got), idxs(got), cur, want)}
		}
	}
	for _, b := range reapBytes {
		for _, g := range reapGas {
			got := s.mp.ReapMaxBytesMaxGas(b, g)
			// model: longest prefix within both limits
			var tb, tg int64
			want := 0
			for _, i := range cur {
				if b > -1 && tb+int64(len(txs[i])) > b {
					break
				}
				if g > -1 && tg+gas[i] > g {
					break
				}
				tb += int64(len(txs[i]))
				tg += gas[i]
				want++
			}
			if len(got) != want || !isPrefix(got, cur) {
				return &finding{"reap-bytes-gas", fmt.Sprintf("ReapMaxBytesMaxGas(%d,%d) returned %v from contents %v (want the first %d)", b, g, idxs(got), cur, want)}
			}
		}
	}
	return nil
}

func isPrefix(got types.Txs, cur []int) bool {
	if len(got) > len(cur) {
		return false
	}
	for k, t := range got {
		if txIndex(t) != cur[k] {
			return false
		}
	}
	return true
}

func idxs(t types.Txs) []int {
	var r []int
	for _, x := range t {
		r = append(r, txIndex(x))
	}
	return r
}

func firstLine(s string) string {
	if i := strings.IndexByte(s, '\n'); i >= 0 {
		return s[:i]
	}
	return s
}

// stateKey: model contents + app validity + maxTx + the cache's observable behaviour (which txs would be
// answered "in cache") — probed on a replayed twin so the real instance is not disturbed.
func (s *sys) stateKey(path []op) string {
	twin := replay(s.cacheSize, path)
	var inCache []int
	for i := range txs {
		t2 := replay(s.cacheSize, path) // fresh twin per probe: probing mutates LRU order
		err := t2.mp.CheckTx(txs[i], nil)
		if err == mempool.ErrTxInCache {
			inCache = append(inCache, i)
		}
	}
	_ = twin
	return fmt.Sprintf("m=%v inv=%v max=%d cache=%v", s.model, s.app.invalid, s.maxTx, inCache)
}

func replay(cacheSize int, path []op) *sys {
	s := newSys(cacheSize)
	for _, o := range path {
		s.apply(o)
	}
	return s
}

// ---- Part A: BFS -----------------------------------------------------------------------------

type bfsStats struct {
	States, Transitions, Depth int
	Capped                     bool
	Notes                      map[string]int
}

func bfs(r *vk.Run, cacheSize, maxDepth int) bfsStats {
	al := alphabet()
	st := bfsStats{Notes: map[string]int{}}
	seen := map[string]bool{}
	type node struct{ path []op }
	root := replay(cacheSize, nil)
	seen[root.stateKey(nil)] = true
	st.States = 1
	frontier := []node{{nil}}
	for d := 0; d < maxDepth && len(frontier) > 0; d++ {
		var next []node
		for _, n := range frontier {
			if r.Expired() {
				st.Capped = true
				return st
			}
			for _, o := range al {
				s := replay(cacheSize, n.path)
				f, note := s.apply(o)
				st.Transitions++
				r.Eval()
				if note != "" {
					st.Notes[note]++
					r.Outcome(note)
				}
				np := append(append([]op{}, n.path...), o)
				if f != nil {
					var ps []string
					for _, p := range np {
						ps = append(ps, p.String())
					}
					key := fmt.Sprintf("%s:cache=%d", f.class, cacheSize)
					switch f.class {
					case "duplicate":
						key = "duplicate-after-cache-miss"
					case "recheck-stuck", "recheck-cursor-mismatch-panic":
						key = "recheck-drops-tx-by-size-or-precheck-under-cursor"
					}
					r.Violation(key, map[string]any{"class": f.class, "detail": f.detail, "cache_size": cacheSize, "ops": ps, "path": np})
					continue
				}
				if strings.HasPrefix(note, "PANIC") {
					continue // instance unusable after the out-of-statement panic; do not extend
				}
				k := s.stateKey(np)
				if !seen[k] {
					seen[k] = true
					st.States++
					r.Distinct(fmt.Sprintf("c%d|%s", cacheSize, k))
					next = append(next, node{np})
					if st.States%97 == 1 {
						var ps []string
						for _, p := range np {
							ps = append(ps, p.String())
						}
						r.Sample(map[string]any{"cache_size": cacheSize, "ops": ps, "state": k})
					}
				}
			}
		}
		frontier = next
		st.Depth = d + 1
	}
	return st
}

// ---- Part B: schedules -----------------------------------------------------------------------

type conc struct {
	s       *sys
	acc     []int     // accepted tx indices in acceptance order (recorded under mem.mtx via callback)
	reaps   [][]int   // results of concurrent reaps
	updated bool
}

type cscenario struct {
	name string
	body func(c *conc, spawn func(string, func()))
}

func (c *conc) check(th string, i int) {
	c.s.mp.CheckTx(txs[i], func(r abci.Response) {
		if rr, ok := r.(abci.ResponseCheckTx); ok && rr.Error == nil {
			for _, a := range c.acc {
				if a == i {
					return
				}
			}
			c.acc = append(c.acc, i)
		}
	})
}

func (c *conc) update(com []int) {
	var ctxs types.Txs
	var drs []abci.ResponseDeliverTx
	for _, i := range com {
		ctxs = append(ctxs, txs[i])
		drs = append(drs, abci.ResponseDeliverTx{})
	}
	c.s.mp.Lock()
	c.s.mp.Update(1, ctxs, drs, nil, 0)
	// under the lock: committed txs accepted so far leave the model
	var na []int
	for _, a := range c.acc {
		keep := true
		for _, x := range com {
			if x == a {
				keep = false
			}
		}
		if keep && !c.s.app.invalid[a] {
			na = append(na, a)
		}
	}
	c.acc = na
	c.s.mp.Unlock()
}

var cscenarios = []cscenario{
	{"check,check|update|reap", func(c *conc, spawn func(string, func())) {
		c.check("main", 0)
		spawn("C", func() { c.check("C", 1); c.check("C", 4) })
		spawn("U", func() { c.update([]int{0}) })
		spawn("R", func() { c.reaps = append(c.reaps, idxs(c.s.mp.ReapMaxTxs(1)), idxs(c.s.mp.ReapMaxBytesMaxGas(11, -1))) })
	}},
	{"check,check|check,check(same)|update", func(c *conc, spawn func(string, func())) {
		spawn("C1", func() { c.check("C1", 0); c.check("C1", 1) })
		spawn("C2", func() { c.check("C2", 1); c.check("C2", 0) })
		spawn("U", func() { c.update([]int{1}) })
	}},
	{"recheck-invalid|check|reap", func(c *conc, spawn func(string, func())) {
		c.check("main", 0)
		c.check("main", 1)
		c.s.app.invalid[0] = true // t0 becomes invalid: the recheck inside Update removes it
		spawn("U", func() { c.update(nil) })
		spawn("C", func() { c.check("C", 4) })
		spawn("R", func() { c.reaps = append(c.reaps, idxs(c.s.mp.ReapMaxTxs(-1))) })
	}},
}

func (c *conc) oracle(x *vs.Exec) (string, string) {
	if len(x.Panics) > 0 {
		return "panic", fmt.Sprint(x.Panics)
	}
	if x.Deadlock {
		return "deadlock", strings.Join(x.Blocked, ",")
	}
	if x.Horizon {
		return "horizon", "livelock suspected: " + strings.Join(x.Blocked, ",")
	}
	c.s.model = c.acc
	if f := c.s.invariants(); f != nil {
		return f.class, f.detail
	}
	for _, rp := range c.reaps {
		seen := map[int]bool{}
		for _, i := range rp {
			if seen[i] {
				return "reap-duplicate", fmt.Sprint(rp)
			}
			seen[i] = true
		}
	}
	if len(c.reaps) > 0 && len(c.reaps[0]) > 1 && cscenarioReapMax1 {
		return "reap-max-txs", fmt.Sprintf("concurrent ReapMaxTxs(1) returned %v", c.reaps[0])
	}
	return "", ""
}

var cscenarioReapMax1 bool

type jobResult struct {
	Scenario  string         `json:"scenario"`
	Bound     int            `json:"bound"`
	Execs     int            `json:"execs"`
	MaxPoints int            `json:"max_points"`
	Capped    bool           `json:"capped"`
	Outcomes  map[string]int `json:"outcomes"`
	Viol      []map[string]any `json:"viol"`
	Err       string         `json:"err,omitempty"`
}

func runJob(si, bound, cacheSize int, budget time.Duration) jobResult {
	sc := cscenarios[si]
	cscenarioReapMax1 = si == 0
	res := jobResult{Scenario: fmt.Sprintf("%s/cache=%d", sc.name, cacheSize), Bound: bound, Outcomes: map[string]int{}}
	var c *conc
	body := func() {
		c = &conc{s: newSys(cacheSize)}
		sc.body(c, func(n string, f func()) { vs.Go(n, f) })
	}
	start := time.Now()
	seen := map[string]bool{}
	ex := &vs.Explorer{Bound: bound, Horizon: 3000, Stop: func() bool { return time.Since(start) > budget }}
	ex.Check = func(x *vs.Exec) bool {
		class, detail := c.oracle(x)
		res.Outcomes[fmt.Sprintf("final=%v reaps=%v", c.s.contents(), c.reaps)]++
		if class != "" && !seen[class] {
			seen[class] = true
			sched := append([]int{}, x.Choices...)
			stable := true
			var tr []string
			for k := 0; k < 5; k++ {
				x2, err := vs.Replay(sched, 3000, body)
				if err != nil {
					stable = false
					continue
				}
				c2, _ := c.oracle(x2)
				tr = x2.Trace
				if c2 != class {
					stable = false
				}
			}
			res.Viol = append(res.Viol, map[string]any{"class": class, "detail": detail, "schedule": sched, "stable": stable, "trace": tr})
		}
		return true
	}
	if err := ex.Explore(body); err != nil {
		res.Err = err.Error()
	}
	res.Execs, res.MaxPoints, res.Capped = ex.Execs, ex.MaxPoints, ex.Capped
	return res
}

func main() {
	worker := flag.String("worker", "", "internal: scenario:bound:cache:budget")
	r := vk.New("model_checking")
	if *worker != "" {
		var si, bound, cs, bs int
		fmt.Sscanf(*worker, "%d:%d:%d:%d", &si, &bound, &cs, &bs)
		b, _ := json.Marshal(runJob(si, bound, cs, time.Duration(bs)*time.Second))
		fmt.Println("RESULT " + string(b))
		return
	}
	if r.ReplayIn != "" {
		replayFile(r)
		return
	}
	r.SetBudget(90*time.Second, 12*time.Minute)
	depth := 5
	if r.Thorough() {
		depth = 7
	}
	// Part A
	var stA []bfsStats
	states, trans := 0, 0
	for _, cs := range []int{2, 0, 8} {
		st := bfs(r, cs, depth)
		stA = append(stA, st)
		states += st.States
		trans += st.Transitions
	}
	// Part B
	type job struct{ si, bound, cs int }
	var jobs []job
	bounds := []int{0, 1, 2}
	if r.Thorough() {
		bounds = []int{0, 1, 2, 3}
	}
	for si := range cscenarios {
		for _, b := range bounds {
			for _, cs := range []int{2, 8} {
				jobs = append(jobs, job{si, b, cs})
			}
		}
	}
	results := make([]jobResult, len(jobs))
	per := int(r.Budget.Seconds() * 0.5)
	r.ParFor(len(jobs), func(i int) {
		cmd := exec.Command(os.Args[0], "-id", r.ID, "-worker", fmt.Sprintf("%d:%d:%d:%d", jobs[i].si, jobs[i].bound, jobs[i].cs, per))
		cmd.Env = append(os.Environ(), "GOMAXPROCS=1")
		out, err := cmd.CombinedOutput()
		ok := false
		for _, line := range strings.Split(string(out), "\n") {
			if strings.HasPrefix(line, "RESULT ") {
				ok = json.Unmarshal([]byte(line[7:]), &results[i]) == nil
			}
		}
		if !ok {
			results[i].Err = fmt.Sprintf("worker failed: %v: %s", err, tail(string(out), 1500))
		}
	})
	scheds := 0
	var perSc []map[string]any
	for _, jr := range results {
		if jr.Err != "" {
			r.HarnessError("concurrent scenario %q bound %d: %s", jr.Scenario, jr.Bound, jr.Err)
		}
		scheds += jr.Execs
		r.EvalN(int64(jr.Execs))
		if jr.Capped {
			r.MarkCapped()
		}
		for o := range jr.Outcomes {
			r.Distinct(jr.Scenario + "|" + o)
		}
		perSc = append(perSc, map[string]any{"scenario": jr.Scenario, "preemption_bound": jr.Bound, "schedules": jr.Execs, "max_points": jr.MaxPoints, "distinct_outcomes": len(jr.Outcomes)})
		for _, v := range jr.Viol {
			if v["stable"] != true {
				r.HarnessError("unstable violation in %s: %v", jr.Scenario, v["class"])
			}
			r.Violation(fmt.Sprintf("sched:%s:%v", jr.Scenario, v["class"]), v)
		}
	}
	capped := false
	for _, s := range stA {
		capped = capped || s.Capped
	}
	if capped {
		r.MarkCapped()
	}
	var notes []string
	for _, s := range stA {
		for n, c := range s.Notes {
			if strings.HasPrefix(n, "PANIC") {
				notes = append(notes, fmt.Sprintf("%s x%d (observation, outside the statement: Update panics when the recheck drops the head by size/preCheck while the cursor points at it)", n, c))
			}
		}
	}
	sort.Strings(notes)
	r.Assumptions = []string{
		"ABCI app is a scripted stub behind the real local client (synchronous callbacks, as in production)",
		"model of accepted txs is derived from the mempool's own accept/reject answers; contents must equal accepted-in-arrival-order minus committed/recheck-invalid/oversized",
		"reap oracle: longest prefix within the limits; ReapMaxTxs(n) exactly min(n,len)",
		"Part B scheduling points: sync/atomic operations and the polling sleep of clist_mempool.go, clist.go and the local ABCI client (import-rewritten shims)",
	}
	r.Finish("Part A: BFS over op sequences (CheckTx x5 txs, Update x10 variants, Flush, app validity toggles) on the real mempool to the depth bound for cache sizes {2,0,8}, dedup on (contents, app validity, maxTxBytes, cache answers); Part B: all schedules <= bound preemptions of 3 concurrent scenarios; distinct = distinct canonical states + distinct (scenario, outcome) pairs",
		true, map[string]any{"states": states, "transitions": trans, "traces_validated_against_impl": trans, "depth": depth, "schedules": scheds,
			"bfs": stA, "concurrent": perSc, "observations": notes})
}

func tail(s string, n int) string {
	if len(s) > n {
		return s[len(s)-n:]
	}
	return s
}

func replayFile(r *vk.Run) {
	b, err := os.ReadFile(r.ReplayIn)
	if err != nil {
		r.HarnessError("%v", err)
	}
	var f struct {
		Detail struct {
			Cache int  `json:"cache_size"`
			Path  []op `json:"path"`
		} `json:"detail"`
	}
	if err := json.Unmarshal(b, &f); err != nil || f.Detail.Path == nil {
		r.HarnessError("replay supports sequential (Part A) artefacts only: %v", err)
	}
	s := newSys(f.Detail.Cache)
	for _, o := range f.Detail.Path {
		fd, note := s.apply(o)
		fmt.Printf("%-60s contents=%v model=%v %s\n", o.String(), s.contents(), s.model, note)
		if fd != nil {
			fmt.Printf("  -> %s: %s\nVIOLATION property=%s replay=%s\n", fd.class, fd.detail, r.ID, r.ReplayIn)
			os.Exit(1)
		}
	}
	os.Exit(0)
}
