// This directory is a verbatim copy of go1.23.5 src/go/parser/{parser,interface,resolver}.go
// (from /usr/lib/go-1.23), used by the C21 harness as the second reference parser.
// Only edit: the import of go/internal/typeparams (not importable outside GOROOT) is replaced by
// the local copy of PackIndexExpr below.  Regenerate with:
//
//	cp /usr/lib/go-1.23/src/go/parser/{parser,interface,resolver}.go . &&
//	sed -i '/"go\/internal\/typeparams"/d; s/typeparams\.PackIndexExpr/packIndexExpr/g' parser.go
package parser

import (
	"go/ast"
	"go/token"
)

func packIndexExpr(x ast.Expr, lbrack token.Pos, exprs []ast.Expr, rbrack token.Pos) ast.Expr {
	switch len(exprs) {
	case 0:
		panic("internal error: PackIndexExpr with empty expr slice")
	case 1:
		return &ast.IndexExpr{X: x, Lbrack: lbrack, Index: exprs[0], Rbrack: rbrack}
	default:
		return &ast.IndexListExpr{X: x, Lbrack: lbrack, Indices: exprs, Rbrack: rbrack}
	}
}
