// C21: gnovm/pkg/parser (the forked Go parser) parses exactly like go/parser: same AST, same errors, no panic.
//
// Differential, bounded-exhaustive.  Three parsers run on every input:
//
//	fork   = github.com/gnolang/gno/gnovm/pkg/parser            (ParseFile, ParseFile2+callback, ParseExprFrom, ParseExprFrom2+callback)
//	ref125 = go/parser of the toolchain that builds the harness (go1.25.9)
//	ref123 = verbatim copy of go1.23.5 go/parser                (harness/c21/ref123)
//
// The fork was cut from a Go release between the two (go1.24), so the oracle is: wherever ref123 and ref125 agree
// with each other, the fork must produce the identical *ast.File / ast.Expr (all fields, positions, comments, scopes,
// objects, unresolved list) and the identical scanner.ErrorList, and must not panic.  Inputs on which the two stdlib
// versions disagree are version drift and counted as "undecided" (sub-classified by which side the fork matches).
// Independently of the references: the fork with a callback must return exactly what the fork without one returns,
// and the callback must observe exactly the go/scanner token stream from the point where it is installed.
//
// Where the two references differ only in the tree (e.g. go1.23.5 leaves FileStart/FileEnd unset in the empty file it
// returns after a resolver bailout) but report the identical error list, the fork must report that error list too.
//
// Enumerated: (a) every token sequence of length <= k over a fixed alphabet in three frames (file, func body,
// expression); (b) every single-token deletion / duplication / substitution of the corpus files
// gnovm/tests/files/**.gno, examples/**.gno and the parser's own testdata; across parser modes; (c) comment- and
// line-directive-aware piece sequences in six frames and corpus files with one inserted `//line` / `/*line*/`
// directive (comments.go); (d) nesting ladders around every parser limit (maxScopeDepth, maxNestLev) combined with
// earlier errors on the same / other lines, in worker subprocesses (ladder.go).
package main

import (
	"bytes"
	"encoding/json"
	"fmt"
	"go/ast"
	goparser "go/parser"
	"go/scanner"
	"go/token"
	"os"
	"path/filepath"
	"reflect"
	"runtime/debug"
	"runtime/pprof"
	"sort"
	"strconv"
	"strings"
	"sync"
	"sync/atomic"
	"time"
	"unsafe"

	gnoparser "github.com/gnolang/gno/gnovm/pkg/parser"
	"verif/engine/vk"
	ref123 "verif/harness/c21/ref123"
)

var r *vk.Run

// ---------------------------------------------------------------------------------------------
// the three implementations behind one signature

type result struct {
	node any // *ast.File or ast.Expr
	err  error
	pan  any
	toks []token.Token // callback stream (fork with callback only)
	levs []int
}

const fname = "in.go"

// kinds of entry point
const (
	epFile = iota
	epExpr
)

func runFork(ep int, src []byte, mode uint, withCB bool) (res result) {
	res.pan = vk.Catch(func() {
		fs := token.NewFileSet()
		var cb gnoparser.ParserCallback
		if withCB {
			cb = func(tok token.Token, lev int) {
				res.toks = append(res.toks, tok)
				res.levs = append(res.levs, lev)
			}
		}
		switch {
		case ep == epFile && withCB:
			res.node, res.err = gnoparser.ParseFile2(fs, fname, src, gnoparser.Mode(mode), cb)
		case ep == epFile:
			res.node, res.err = gnoparser.ParseFile(fs, fname, src, gnoparser.Mode(mode))
		case withCB:
			res.node, res.err = gnoparser.ParseExprFrom2(fs, fname, src, gnoparser.Mode(mode), cb)
		default:
			res.node, res.err = gnoparser.ParseExprFrom(fs, fname, src, gnoparser.Mode(mode))
		}
	})
	return
}

func run125(ep int, src []byte, mode uint) (res result) {
	res.pan = vk.Catch(func() {
		fs := token.NewFileSet()
		if ep == epFile {
			res.node, res.err = goparser.ParseFile(fs, fname, src, goparser.Mode(mode))
		} else {
			res.node, res.err = goparser.ParseExprFrom(fs, fname, src, goparser.Mode(mode))
		}
	})
	return
}

func run123(ep int, src []byte, mode uint) (res result) {
	res.pan = vk.Catch(func() {
		fs := token.NewFileSet()
		if ep == epFile {
			res.node, res.err = ref123.ParseFile(fs, fname, src, ref123.Mode(mode))
		} else {
			res.node, res.err = ref123.ParseExprFrom(fs, fname, src, ref123.Mode(mode))
		}
	})
	return
}

// ---------------------------------------------------------------------------------------------
// structural comparison of two parse results (everything: positions, comments, scopes, objects)

type cmper struct {
	seen map[unsafe.Pointer]unsafe.Pointer
}

func (c *cmper) eq(a, b reflect.Value) bool {
	if a.IsValid() != b.IsValid() {
		return false
	}
	if !a.IsValid() {
		return true
	}
	if a.Type() != b.Type() {
		return false
	}
	switch a.Kind() {
	case reflect.Interface:
		if a.IsNil() || b.IsNil() {
			return a.IsNil() == b.IsNil()
		}
		return c.eq(a.Elem(), b.Elem())
	case reflect.Pointer:
		if a.IsNil() || b.IsNil() {
			return a.IsNil() == b.IsNil()
		}
		pa, pb := a.UnsafePointer(), b.UnsafePointer()
		if prev, ok := c.seen[pa]; ok {
			return prev == pb // sharing structure must be the same
		}
		c.seen[pa] = pb
		return c.eq(a.Elem(), b.Elem())
	case reflect.Struct:
		for i := 0; i < a.NumField(); i++ {
			if !c.eq(a.Field(i), b.Field(i)) {
				return false
			}
		}
		return true
	case reflect.Slice:
		if a.IsNil() != b.IsNil() || a.Len() != b.Len() {
			return false
		}
		for i := 0; i < a.Len(); i++ {
			if !c.eq(a.Index(i), b.Index(i)) {
				return false
			}
		}
		return true
	case reflect.Map:
		if a.IsNil() != b.IsNil() || a.Len() != b.Len() {
			return false
		}
		it := a.MapRange()
		for it.Next() {
			bv := b.MapIndex(it.Key())
			if !bv.IsValid() || !c.eq(it.Value(), bv) {
				return false
			}
		}
		return true
	case reflect.String:
		return a.String() == b.String()
	case reflect.Int, reflect.Int8, reflect.Int16, reflect.Int32, reflect.Int64:
		return a.Int() == b.Int()
	case reflect.Uint, reflect.Uint8, reflect.Uint16, reflect.Uint32, reflect.Uint64:
		return a.Uint() == b.Uint()
	case reflect.Bool:
		return a.Bool() == b.Bool()
	default:
		panic("cmper: unhandled kind " + a.Kind().String())
	}
}

func sameNode(a, b any) bool {
	c := cmper{seen: map[unsafe.Pointer]unsafe.Pointer{}}
	return c.eq(reflect.ValueOf(&a).Elem(), reflect.ValueOf(&b).Elem())
}

func sameErr(a, b error) bool {
	if a == nil || b == nil {
		return a == nil && b == nil
	}
	la, oka := a.(scanner.ErrorList)
	lb, okb := b.(scanner.ErrorList)
	if oka != okb {
		return false
	}
	if !oka {
		return a.Error() == b.Error()
	}
	if len(la) != len(lb) {
		return false
	}
	for i := range la {
		if la[i].Pos != lb[i].Pos || la[i].Msg != lb[i].Msg {
			return false
		}
	}
	return true
}

func sameResult(a, b *result) bool {
	if (a.pan != nil) != (b.pan != nil) {
		return false
	}
	if a.pan != nil {
		return fmt.Sprint(a.pan) == fmt.Sprint(b.pan)
	}
	return sameErr(a.err, b.err) && sameNode(a.node, b.node)
}

func dump(res *result) string {
	var b bytes.Buffer
	if res.pan != nil {
		fmt.Fprintf(&b, "PANIC: %v\n", res.pan)
		return b.String()
	}
	if el, ok := res.err.(scanner.ErrorList); ok {
		for _, e := range el {
			fmt.Fprintf(&b, "ERR %s\n", e.Error())
		}
	} else if res.err != nil {
		fmt.Fprintf(&b, "ERR %v\n", res.err)
	}
	ast.Fprint(&b, nil, res.node, nil)
	return b.String()
}

const bigSrc = 16 << 10

// dumpErrs is dump without the tree (inputs larger than bigSrc)
func dumpErrs(res *result) string {
	var b bytes.Buffer
	if res.pan != nil {
		fmt.Fprintf(&b, "PANIC: %v\n", res.pan)
		return b.String()
	}
	if el, ok := res.err.(scanner.ErrorList); ok {
		for i, e := range el {
			if i == 40 {
				fmt.Fprintf(&b, "... %d more\n", len(el)-i)
				break
			}
			fmt.Fprintf(&b, "ERR %s\n", e.Error())
		}
	} else if res.err != nil {
		fmt.Fprintf(&b, "ERR %v\n", res.err)
	}
	b.WriteString("(tree not dumped)\n")
	return b.String()
}

func firstDiff(a, b string) string {
	la, lb := strings.Split(a, "\n"), strings.Split(b, "\n")
	for i := 0; i < len(la) || i < len(lb); i++ {
		var x, y string
		if i < len(la) {
			x = la[i]
		}
		if i < len(lb) {
			y = lb[i]
		}
		if x != y {
			return fmt.Sprintf("line %d: fork=%q ref=%q", i, strings.TrimSpace(x), strings.TrimSpace(y))
		}
	}
	return "(dumps equal; difference is in pointer sharing)"
}

// ---------------------------------------------------------------------------------------------
// callback oracle: the callback stream equals the go/scanner stream from the point the callback is installed
// (parser.init scans up to and including the first non-comment token before ParseFile2 stores the callback),
// followed by any number of EOFs.

func scanAll(src []byte) []token.Token {
	fs := token.NewFileSet()
	f := fs.AddFile(fname, -1, len(src))
	var s scanner.Scanner
	s.Init(f, src, nil, scanner.ScanComments)
	var out []token.Token
	for {
		_, tok, _ := s.Scan()
		out = append(out, tok)
		if tok == token.EOF {
			return out
		}
	}
}

// returns "" if fine, else a description
func checkCallback(src []byte, mode uint, res *result) string {
	ref := scanAll(src)
	skip := 0
	for skip < len(ref) && ref[skip] == token.COMMENT {
		skip++
	}
	skip++ // first non-comment token (possibly EOF) is consumed by init
	at := func(i int) token.Token {
		if skip+i < len(ref) {
			return ref[skip+i]
		}
		return token.EOF
	}
	for i, t := range res.toks {
		if t != at(i) {
			return fmt.Sprintf("callback token #%d is %v, scanner stream has %v", i, t, at(i))
		}
		if res.levs[i] < 0 {
			return fmt.Sprintf("callback nest level %d < 0 at token #%d", res.levs[i], i)
		}
	}
	// completeness: an error-free full parse must have consumed the whole input
	const partial = uint(goparser.ImportsOnly | goparser.PackageClauseOnly)
	if res.pan == nil && res.err == nil && mode&partial == 0 && skip+len(res.toks) < len(ref) {
		return fmt.Sprintf("callback saw %d tokens, scanner stream has %d after the first", len(res.toks), len(ref)-skip)
	}
	return ""
}

// ---------------------------------------------------------------------------------------------
// one evaluation = one (entry point, source, mode)

var (
	nDecided   atomic.Int64
	nUndecided atomic.Int64
	nParses    atomic.Int64
)

type caseID struct {
	family string // enum | mut
	ep     int
	mode   uint
	label  string // stable human-readable identification of the input
	src    []byte
}

// Violations are aggregated per class (failure kind, input family, entry point); each class is reported once with its
// minimal failing input (shortest source, then smallest label) and the number of failing inputs.
type classRec struct {
	n      int64
	label  string
	src    string
	detail map[string]any
}

var (
	classMu sync.Mutex
	classes = map[string]*classRec{}
)

func report(c *caseID, what string, mk func() map[string]any) {
	eps := "file"
	if c.ep == epExpr {
		eps = "expr"
	}
	fam := c.family // enum-core, cmt-top, ... -> enum, cmt
	if i := strings.IndexByte(fam, '-'); i > 0 {
		fam = fam[:i]
	}
	class := what + ":" + fam + ":" + eps
	classMu.Lock()
	defer classMu.Unlock()
	cr := classes[class]
	if cr == nil {
		cr = &classRec{}
		classes[class] = cr
	}
	cr.n++
	if cr.n == 1 || len(c.src) < len(cr.src) || (len(c.src) == len(cr.src) && c.label < cr.label) {
		detail := mk()
		detail["key"] = c.key(what)
		cr.label, cr.src, cr.detail = c.label, string(c.src), detail
	}
}

func flushClasses() {
	var keys []string
	for k := range classes {
		keys = append(keys, k)
	}
	sort.Strings(keys)
	for _, k := range keys {
		cr := classes[k]
		d := cr.detail
		d["class"] = k
		d["failing_inputs_in_class"] = cr.n
		r.Violation(k, d)
		fmt.Printf("  class %s: %d failing inputs; minimal: %s\n", k, cr.n, cr.label)
	}
}

func (c *caseID) key(what string) string {
	eps := "file"
	if c.ep == epExpr {
		eps = "expr"
	}
	return fmt.Sprintf("%s:%s:%s:mode=%d:%s", what, c.family, eps, c.mode, c.label)
}

type tally struct {
	agree, undecided123, undecided125, undecidedNeither, okParse, errParse, errOutside int64
	dirDecided, dirUndecided                                                           int64 // inputs of the cmt-*/linedir families that contain a line directive
	errDecided                                                                         int64 // undecided inputs on which the references agree on the error list
}

func check(c *caseID, t *tally) {
	f0 := runFork(c.ep, c.src, c.mode, false)
	f1 := runFork(c.ep, c.src, c.mode, true)
	a := run125(c.ep, c.src, c.mode)
	b := run123(c.ep, c.src, c.mode)
	nParses.Add(4)

	detail := func(ref *result, extra string) map[string]any {
		d := map[string]any{"src": string(c.src), "mode": c.mode, "entry": c.ep, "label": c.label, "note": extra}
		if len(c.src) > bigSrc {
			// nesting ladders: the tree dump of a 10^5-deep AST is quadratic in size; only the error lists are written out
			// (the label regenerates the input: see ladderSource)
			d["src"] = string(c.src[:200]) + fmt.Sprintf(" ...(%d bytes; regenerate from the label)", len(c.src))
			d["fork"] = clip(dumpErrs(&f0))
			if ref != nil {
				d["ref"] = clip(dumpErrs(ref))
				d["first_diff"] = firstDiff(dumpErrs(&f0), dumpErrs(ref))
			}
			return d
		}
		d["fork"] = clip(dump(&f0))
		if ref != nil {
			d["ref"] = clip(dump(ref))
			d["first_diff"] = firstDiff(dump(&f0), dump(ref))
		}
		return d
	}

	// never panics (unconditional)
	if f0.pan != nil || f1.pan != nil {
		p := f0.pan
		if p == nil {
			p = f1.pan
		}
		report(c, "panic", func() map[string]any {
			return detail(nil, fmt.Sprintf("fork panicked: %v (ref125 panic=%v ref123 panic=%v)", p, a.pan, b.pan))
		})
		return
	}
	// the callback is an observer only
	if !sameResult(&f0, &f1) {
		report(c, "callback-changes-result", func() map[string]any {
			return detail(&f1, "ParseFile/ParseExprFrom and the *2 variant with a callback differ")
		})
		return
	}
	if msg := checkCallback(c.src, c.mode, &f1); msg != "" {
		report(c, "callback-stream", func() map[string]any { return detail(nil, msg) })
		return
	}
	if f0.err == nil {
		t.okParse++
	} else {
		t.errParse++
	}
	dir := hasDirective(c)
	if sameResult(&a, &b) {
		t.agree++
		if dir {
			t.dirDecided++
		}
		if !sameResult(&f0, &a) {
			report(c, "differs", func() map[string]any {
				return detail(&a, "go1.23.5 and go1.25.9 go/parser agree with each other, the fork differs")
			})
		}
		return
	}
	// Version drift between the two stdlib parsers: not judged.  (A "sandwich" rule — every error of the fork must be
	// reported by one of the references — was tried and is unsound: when both a go1.24 and a go1.25 change are triggered
	// and error recovery diverges, the fork legitimately reports errors neither reference has, e.g.
	// gnovm/tests/files/scope1.gno with `+` replaced by `goto`.  It is kept as an informational counter only.)
	if c.mode&uint(goparser.AllErrors) != 0 && sandwich(f0.err, a.err, b.err) != "" {
		t.errOutside++
	}
	if dir {
		t.dirUndecided++
	}
	// The drift may be confined to the tree (e.g. go1.23.5 leaves FileStart/FileEnd unset in the empty file returned after a
	// resolver bailout, go1.24+ sets them): where the two references report the identical error list, the fork must too.
	if a.pan == nil && b.pan == nil && sameErr(a.err, b.err) {
		t.errDecided++
		if !sameErr(f0.err, a.err) {
			report(c, "errors-differ", func() map[string]any {
				return detail(&a, "go1.23.5 and go1.25.9 go/parser report the identical error list (their trees differ), the fork reports a different one")
			})
			return
		}
	}
	switch {
	case sameResult(&f0, &b):
		t.undecided123++
	case sameResult(&f0, &a):
		t.undecided125++
	default:
		t.undecidedNeither++
		noteNeither(c.key("neither"))
	}
}

type errKey struct {
	pos token.Position
	msg string
}

func errSet(e error) map[errKey]bool {
	m := map[errKey]bool{}
	if el, ok := e.(scanner.ErrorList); ok {
		for _, x := range el {
			m[errKey{x.Pos, x.Msg}] = true
		}
	} else if e != nil {
		m[errKey{msg: e.Error()}] = true
	}
	return m
}

func sandwich(fork, r125, r123 error) string {
	ef, e5, e3 := errSet(fork), errSet(r125), errSet(r123)
	var bad []string
	for k := range ef {
		if !e5[k] && !e3[k] {
			bad = append(bad, fmt.Sprintf("fork reports %s: %q which neither reference reports", k.pos, k.msg))
		}
	}
	for k := range e5 {
		if e3[k] && !ef[k] {
			bad = append(bad, fmt.Sprintf("both references report %s: %q, the fork does not", k.pos, k.msg))
		}
	}
	if len(bad) == 0 {
		return ""
	}
	sort.Strings(bad)
	return bad[0]
}

// the (few) undecided inputs on which the fork matches neither reference are listed in the evidence (smallest keys first)
var (
	neitherMu sync.Mutex
	neither   []string
)

func noteNeither(k string) {
	neitherMu.Lock()
	neither = append(neither, k)
	sort.Strings(neither)
	if len(neither) > 8 {
		neither = neither[:8]
	}
	neitherMu.Unlock()
}

func (t *tally) flush() {
	r.OutcomeN("decided_refs_agree", t.agree)
	r.OutcomeN("undecided_fork_matches_go1.23", t.undecided123)
	r.OutcomeN("undecided_fork_matches_go1.25", t.undecided125)
	r.OutcomeN("undecided_fork_matches_neither", t.undecidedNeither)
	r.OutcomeN("undecided_allerrors_fork_error_in_neither_ref(info)", t.errOutside)
	r.OutcomeN("fork_parse_ok", t.okParse)
	r.OutcomeN("fork_parse_errors", t.errParse)
	r.OutcomeN("undecided_tree_only(error_lists_agree_and_are_judged)", t.errDecided)
	r.OutcomeN("with_line_directive_decided", t.dirDecided)
	r.OutcomeN("with_line_directive_undecided(go1.23 adjusted vs go1.25 raw lines)", t.dirUndecided)
	nDecided.Add(t.agree)
	nUndecided.Add(t.undecided123 + t.undecided125 + t.undecidedNeither)
	r.EvalN(t.agree + t.undecided123 + t.undecided125 + t.undecidedNeither)
	*t = tally{}
}

func clip(s string) string {
	if len(s) > 6000 {
		return s[:6000] + "\n...(clipped)"
	}
	return s
}

// ---------------------------------------------------------------------------------------------
// (a) token-sequence enumeration

// core alphabet: 30 tokens
var core = []string{
	"x", "1", `"s"`, "(", ")", "[", "]", "{", "}", ",", ";", ".", ":", "=", ":=", "*", "<-", "...",
	"func", "type", "var", "import", "struct", "interface", "if", "for", "range", "goto", "~", "\n",
}

// wide alphabet = core + 30 more (shallower depth)
var wideExtra = []string{
	"y", "_", "1.5", "'c'", "`r`", "+", "-", "&", "!", "==", "<", "++", "+=", "|", "map", "chan", "switch", "case",
	"default", "select", "else", "return", "go", "defer", "const", "break", "continue", "fallthrough", "//c\n", "/*c*/",
}

// three 12-token alphabets that reach depth 5 (quick) / 6 (thorough) in one frame each
var (
	decl12 = []string{"x", "(", ")", "[", "]", "{", "}", ",", "func", "type", "struct", "interface"}
	stmt12 = []string{"x", ";", "=", ":=", "{", "}", "if", "for", "range", ",", "(", ")"}
	expr12 = []string{"x", "(", ")", "[", "]", "{", "}", ",", ".", ":", "*", "+"}
)

type frame struct {
	name     string
	ep       int
	pre, suf string
	raw      bool // pieces are concatenated without separators (comment-aware alphabets: `//line` must stay in column 1)
}

var frames = []frame{
	{"file", epFile, "package p;", "", false},
	{"body", epFile, "package p; func _() {", "}", false},
	{"expr", epExpr, "", "", false},
}

var fileModes = []uint{
	0,
	uint(goparser.ParseComments),
	uint(goparser.AllErrors),
	uint(goparser.SkipObjectResolution),
	uint(goparser.ImportsOnly),
	uint(goparser.PackageClauseOnly),
	uint(goparser.DeclarationErrors),
	uint(goparser.ParseComments | goparser.DeclarationErrors),                                 // gnolang.Machine.ParseFile
	uint(goparser.ParseComments | goparser.DeclarationErrors | goparser.SkipObjectResolution), // gotypecheck
	uint(goparser.ParseComments | goparser.AllErrors),                                         // gnofmt
}
var exprModes = []uint{0, uint(goparser.SkipObjectResolution), uint(goparser.ParseComments | goparser.AllErrors)}

func modesFor(fr frame, all bool) []uint {
	if fr.ep == epExpr {
		if all {
			return exprModes
		}
		return exprModes[:1]
	}
	if all {
		return fileModes
	}
	return []uint{uint(goparser.ParseComments | goparser.DeclarationErrors)}
}

func render(fr frame, alpha []string, idx []int) (src []byte, label string) {
	var b strings.Builder
	b.WriteString(fr.pre)
	for _, i := range idx {
		if !fr.raw {
			b.WriteByte(' ')
		}
		b.WriteString(alpha[i])
	}
	if !fr.raw {
		b.WriteByte(' ')
	}
	b.WriteString(fr.suf)
	var l strings.Builder
	l.WriteString(fr.name)
	l.WriteString(":")
	for j, i := range idx {
		if j > 0 {
			l.WriteByte(' ')
		}
		if fr.raw {
			l.WriteString("<" + strings.ReplaceAll(alpha[i], "\n", `\n`) + ">")
			continue
		}
		l.WriteString(strings.ReplaceAll(alpha[i], "\n", `\n`))
	}
	return []byte(b.String()), l.String()
}

// enumerate all sequences of exactly length n over alpha in frame fr; parallel over the first two positions
func enumerate(fr frame, family string, alpha []string, n int, modes []uint) (count int64, complete bool) {
	A := len(alpha)
	top := 1
	split := 0
	for split < n && split < 2 {
		top *= A
		split++
	}
	var cnt atomic.Int64
	var done atomic.Int64
	r.ParFor(top, func(w int) {
		var t tally
		idx := make([]int, n)
		ww := w
		for j := split - 1; j >= 0; j-- {
			idx[j] = ww % A
			ww /= A
		}
		var rec func(pos int) bool
		rec = func(pos int) bool {
			if pos == n {
				src, label := render(fr, alpha, idx)
				for _, m := range modes {
					c := caseID{family: family, ep: fr.ep, mode: m, label: label, src: src}
					check(&c, &t)
				}
				cnt.Add(1)
				return true
			}
			for i := 0; i < A; i++ {
				idx[pos] = i
				if !rec(pos + 1) {
					return false
				}
				if pos == n-2 && r.Expired() {
					return false
				}
			}
			return true
		}
		if rec(split) {
			done.Add(1)
		}
		t.flush()
	})
	return cnt.Load(), int(done.Load()) == top
}

// ---------------------------------------------------------------------------------------------
// (b) corpus mutation

type tokSpan struct {
	off, end int
	tok      token.Token
	auto     bool // automatically inserted semicolon (no source text, or a newline)
}

func tokenize(src []byte) []tokSpan {
	fs := token.NewFileSet()
	f := fs.AddFile(fname, -1, len(src))
	var s scanner.Scanner
	s.Init(f, src, nil, scanner.ScanComments)
	var out []tokSpan
	for {
		pos, tok, lit := s.Scan()
		if tok == token.EOF {
			return out
		}
		off := f.Offset(pos)
		sp := tokSpan{off: off, tok: tok}
		switch {
		case tok == token.SEMICOLON && lit == "\n":
			sp.auto = true
			sp.end = off
			if off < len(src) && src[off] == '\n' {
				sp.end = off + 1
			}
		case lit != "":
			sp.end = off + len(lit)
			if sp.end > len(src) || string(src[off:sp.end]) != lit {
				continue // literal with stripped carriage returns: not mutated
			}
		default:
			sp.end = off + len(tok.String())
		}
		if sp.end > len(src) {
			sp.end = len(src)
		}
		out = append(out, sp)
	}
}

type corpusFile struct {
	rel string
	src []byte
}

func loadCorpus(repo string) []corpusFile {
	var out []corpusFile
	add := func(root string, match func(string) bool) {
		filepath.WalkDir(filepath.Join(repo, root), func(p string, d os.DirEntry, err error) error {
			if err != nil || d.IsDir() || !match(p) {
				return nil
			}
			b, err := os.ReadFile(p)
			if err != nil {
				return nil
			}
			rel, _ := filepath.Rel(repo, p)
			out = append(out, corpusFile{rel, b})
			return nil
		})
	}
	isGno := func(p string) bool { return strings.HasSuffix(p, ".gno") }
	add("gnovm/tests/files", isGno)
	add("examples", isGno)
	add("gnovm/pkg/parser/testdata", func(p string) bool {
		return strings.HasSuffix(p, ".go2") || strings.HasSuffix(p, ".src") || strings.HasSuffix(p, ".go")
	})
	sort.Slice(out, func(i, j int) bool { return out[i].rel < out[j].rel })
	return out
}

var mutModes = []uint{
	uint(goparser.ParseComments | goparser.DeclarationErrors), // what gno's Machine.ParseFile uses
	uint(goparser.AllErrors),
}

// substitution alphabet for corpus mutation (tokens that change structure)
var substAlpha = []string{"x", "(", ")", "{", "}", "[", "]", ",", ";", ".", ":", "=", "*", "...", "func", "type", "struct", "interface", "goto", "range"}

func splice(src []byte, off, end int, ins string) []byte {
	out := make([]byte, 0, len(src)+len(ins)+2)
	out = append(out, src[:off]...)
	out = append(out, ins...)
	out = append(out, src[end:]...)
	return out
}

func mutateFile(cf corpusFile, doDup, doSubst bool, t *tally) (n int64, complete bool) {
	toks := tokenize(cf.src)
	one := func(label string, src []byte) {
		for _, m := range mutModes {
			c := caseID{family: "mut", ep: epFile, mode: m, label: cf.rel + ":" + label, src: src}
			check(&c, t)
		}
		n++
	}
	one("orig", cf.src)
	for i, sp := range toks {
		if r.Expired() {
			return n, false
		}
		text := string(cf.src[sp.off:sp.end])
		// deletion (an automatic semicolon is deleted by replacing its newline with a space)
		if sp.auto {
			if sp.end > sp.off {
				one(fmt.Sprintf("del@%d", i), splice(cf.src, sp.off, sp.end, " "))
			}
		} else {
			one(fmt.Sprintf("del@%d", i), splice(cf.src, sp.off, sp.end, " "))
		}
		if doDup {
			if sp.auto {
				one(fmt.Sprintf("dup@%d", i), splice(cf.src, sp.off, sp.off, ";"))
			} else {
				one(fmt.Sprintf("dup@%d", i), splice(cf.src, sp.end, sp.end, " "+text))
			}
		}
		if doSubst {
			for _, s := range substAlpha {
				if s == text {
					continue
				}
				one(fmt.Sprintf("sub@%d=%s", i, s), splice(cf.src, sp.off, sp.end, " "+s+" "))
			}
		}
	}
	return n, true
}

// ---------------------------------------------------------------------------------------------

func replay(path string) {
	b, err := os.ReadFile(path)
	if err != nil {
		r.HarnessError("replay: %v", err)
	}
	var rec struct {
		Detail struct {
			Src   string `json:"src"`
			Mode  uint   `json:"mode"`
			Entry int    `json:"entry"`
			Label string `json:"label"`
		} `json:"detail"`
	}
	if err := json.Unmarshal(b, &rec); err != nil {
		r.HarnessError("replay: %v", err)
	}
	var t tally
	c := caseID{family: "replay", ep: rec.Detail.Entry, mode: rec.Detail.Mode, label: rec.Detail.Label, src: []byte(rec.Detail.Src)}
	if src, ok := ladderSourceFromLabel(rec.Detail.Label); ok { // ladder inputs are regenerated (large ones are stored clipped)
		c.src = src
	}
	check(&c, &t)
	t.flush()
	flushClasses()
	r.Finish("replay of one input", false, map[string]any{"states": 1, "transitions": 1, "traces_validated_against_impl": 1})
}

func main() {
	// tiny live heap + very high allocation rate: fewer GC cycles, but keep the heap small enough to stay cache/TLB friendly
	if os.Getenv("GOGC") == "" {
		debug.SetGCPercent(400)
	}
	if len(os.Args) > 1 && os.Args[1] == "-ladderworker" {
		ladderWorker(os.Args[2:])
		return
	}
	r = vk.New("exploration")
	if pf := os.Getenv("C21_PROF"); pf != "" {
		f, _ := os.Create(pf)
		pprof.StartCPUProfile(f)
		defer pprof.StopCPUProfile()
		time.AfterFunc(20*time.Second, func() { pprof.StopCPUProfile(); f.Close(); os.Exit(3) })
	}
	r.SetBudget(88*time.Second, 25*time.Minute)
	t0 := time.Now()
	if r.ReplayIn != "" {
		replay(r.ReplayIn)
		return
	}
	if sf := os.Getenv("C21_SHOW"); sf != "" { // debugging aid: C21_SHOW=<file> [C21_SHOW_MODE=n] [C21_SHOW_EXPR=1] prints the three results
		src, err := os.ReadFile(sf)
		if err != nil {
			r.HarnessError("%v", err)
		}
		var mode uint
		fmt.Sscan(os.Getenv("C21_SHOW_MODE"), &mode)
		ep := epFile
		if os.Getenv("C21_SHOW_EXPR") != "" {
			ep = epExpr
		}
		f0, a, b := runFork(ep, src, mode, false), run125(ep, src, mode), run123(ep, src, mode)
		fmt.Printf("fork==go1.25:%v fork==go1.23:%v go1.25==go1.23:%v\n", sameResult(&f0, &a), sameResult(&f0, &b), sameResult(&a, &b))
		fmt.Println("fork vs go1.25:", firstDiff(dump(&f0), dump(&a)))
		fmt.Println("fork vs go1.23:", firstDiff(dump(&f0), dump(&b)))
		if os.Getenv("C21_SHOW_DUMP") != "" {
			fmt.Printf("---- fork\n%s---- go1.25\n%s---- go1.23\n%s", dump(&f0), dump(&a), dump(&b))
		}
		os.Exit(0)
	}
	repo := os.Getenv("VERIF_REPO")
	if repo == "" {
		repo = "/repo"
	}
	wide := append(append([]string{}, core...), wideExtra...)

	// sanity: the harness must be able to tell trees apart (guards against a vacuous comparator)
	{
		a := run125(epFile, []byte("package p; var x = 1"), 0)
		b := run125(epFile, []byte("package p; var x = 2"), 0)
		c := run125(epFile, []byte("package p;  var x = 1"), 0) // position shift only
		if sameResult(&a, &b) || sameResult(&a, &c) || !sameResult(&a, &a) {
			r.HarnessError("comparator self-test failed")
		}
	}

	type plan struct {
		alphaName string
		alpha     []string
		frames    []frame
		n         int
		allModes  bool
		family    string // "" = "enum-"+alphaName
		modes     []uint // nil = modesFor(frame, allModes)
	}
	fFile, fBody, fExpr := frames[0:1], frames[1:2], frames[2:3]
	var plans, late, big []plan
	upTo := func(name string, alpha []string, fr []frame, k int, all bool) {
		for n := 0; n <= k; n++ {
			plans = append(plans, plan{alphaName: name, alpha: alpha, frames: fr, n: n, allModes: all})
		}
	}
	if r.Quick() {
		upTo("core", core, frames, 3, true)
		upTo("wide", wide, frames, 2, true)
		upTo("decl12", decl12, fFile, 5, false)
		upTo("stmt12", stmt12, fBody, 5, false)
		upTo("expr12", expr12, fExpr, 5, false)
		big = append(big, plan{alphaName: "wide", alpha: wide, frames: frames, n: 3})
		big = append(big, plan{alphaName: "core", alpha: core, frames: frames, n: 4})
	} else {
		upTo("core", core, frames, 4, true)
		upTo("wide", wide, frames, 3, true)
		upTo("decl12", decl12, fFile, 6, false)
		upTo("stmt12", stmt12, fBody, 6, false)
		upTo("expr12", expr12, fExpr, 6, false)
		// after the corpus mutations (deepest level last: it is the one a budget cap should hit)
		late = append(late, plan{alphaName: "core", alpha: core, frames: frames, n: 5})
	}
	// comment-aware alphabets (comments.go): pieces concatenated raw, six frames
	cmtDepth := func(all, pc, gno int) {
		for _, cf := range cmtFrames {
			fam, al, fr := "cmt-"+cf.fr.name, cf.alpha(), []frame{cf.fr}
			for n := 0; n <= gno; n++ {
				modes := fileModes
				switch {
				case n > pc:
					modes = gnoMode
					if r.Quick() {
						plans = append(plans, plan{alphaName: fam + "-8", alpha: cf.alphaDeepest(), frames: fr, n: n, family: fam, modes: modes})
					} else { // thorough: the deepest level runs after the corpus (it is the one a budget cap should hit)
						late = append([]plan{{alphaName: fam, alpha: al, frames: fr, n: n, family: fam, modes: modes}}, late...)
					}
					continue
				case n > all:
					modes = pcModes
					if r.Quick() {
						modes = pcModesQuick
					}
				}
				plans = append(plans, plan{alphaName: fam, alpha: al, frames: fr, n: n, family: fam, modes: modes})
			}
		}
	}
	if r.Quick() {
		cmtDepth(3, 4, 5)
	} else {
		cmtDepth(4, 5, 6)
	}
	plans = append(plans, big...) // the two largest quick plans come last: they are the ones a budget cap should hit
	only := os.Getenv("C21_ONLY")
	if only == "cmt" {
		plans, late = nil, nil
		cmtDepth(3, 4, 5)
	}
	if os.Getenv("C21_BENCH") != "" {
		plans = []plan{{alphaName: "core", alpha: core, frames: frames, n: 3, allModes: true}}
	}
	if only == "corpus" || only == "ladder" || only == "linedir" {
		plans, late = nil, nil
	}
	// nesting ladders (ladder.go) run in worker subprocesses, concurrently with the in-process enumeration
	ladderCh := make(chan ladderSummary, 1)
	if os.Getenv("C21_BENCH") == "" && os.Getenv("C21_NOLADDER") == "" && (only == "" || only == "ladder") {
		par := 3
		if r.Thorough() {
			par = 6
		}
		if only == "ladder" {
			par, _ = strconv.Atoi(os.Getenv("C21_LPAR"))
		}
		go func() { ladderCh <- ladderPhase(r.Tier, par, t0.Add(r.Budget)) }()
	} else {
		ladderCh <- ladderSummary{complete: true}
	}
	exhaustive := true
	lastPhase := time.Now()
	phase := func(name string) { // progress line (wall clock; informational only)
		fmt.Printf("  phase %-28s %6.1fs\n", name, time.Since(lastPhase).Seconds())
		lastPhase = time.Now()
	}
	var nseq int64
	enumInfo := []string{}
	maxDepth := 0
	runPlans := func(plans []plan) {
		for _, pl := range plans {
			for _, fr := range pl.frames {
				modes, family := pl.modes, pl.family
				if modes == nil {
					modes = modesFor(fr, pl.allModes)
				}
				if family == "" {
					family = "enum-" + pl.alphaName
				}
				cnt, ok := enumerate(fr, family, pl.alpha, pl.n, modes)
				nseq += cnt
				if pl.n >= 3 {
					enumInfo = append(enumInfo, fmt.Sprintf("%s/%s/len=%d/modes=%d: %d sequences complete=%v", pl.alphaName, fr.name, pl.n, len(modes), cnt, ok))
				}
				if ok {
					r.Distinct(fmt.Sprintf("plan:%s:%s:%d", pl.alphaName, fr.name, pl.n))
					if pl.n > maxDepth {
						maxDepth = pl.n
					}
				} else {
					exhaustive = false
				}
			}
		}
	}
	runPlans(plans)
	phase("enumeration")
	enumEvals := r.Evals()

	// corpus mutations
	corpus := loadCorpus(repo)
	phase("corpus load")
	if len(corpus) < 100 {
		r.HarnessError("corpus not found under %s (%d files)", repo, len(corpus))
	}
	var sel []corpusFile
	if os.Getenv("C21_BENCH") != "" || only == "enum" || only == "cmt" || only == "ladder" {
		sel = corpus[:1]
	} else if r.Quick() {
		// quick: every 4th file, at most 2 KB; deletions + duplications
		for i, cf := range corpus {
			if i%4 == 0 && len(cf.src) <= 2<<10 {
				sel = append(sel, cf)
			}
		}
	} else {
		// thorough: every file up to 8 KB; deletions + duplications; substitutions (20 tokens) for files up to 1 KB
		for _, cf := range corpus {
			if len(cf.src) <= 8<<10 {
				sel = append(sel, cf)
			}
		}
	}
	if os.Getenv("C21_REVERSE") != "" { // debugging aid: visit the selected files in reverse order (useful with a small -budget)
		for i, j := 0, len(sel)-1; i < j; i, j = i+1, j-1 {
			sel[i], sel[j] = sel[j], sel[i]
		}
	}
	var nmut, nlinedir, filesDone atomic.Int64
	r.ParFor(len(sel), func(i int) {
		var t tally
		cf := sel[i]
		doSubst := r.Thorough() && len(cf.src) <= 1<<10
		n, ok := int64(0), true
		if only != "linedir" {
			n, ok = mutateFile(cf, true, doSubst, &t)
		}
		nmut.Add(n)
		if ok {
			n, ok = lineDirFile(cf, &t) // one inserted line directive (comments.go)
			nlinedir.Add(n)
		}
		if ok {
			filesDone.Add(1)
			r.Distinct("file:" + cf.rel)
		}
		t.flush()
	})
	if int(filesDone.Load()) != len(sel) {
		exhaustive = false
	}
	enumEvals -= r.Evals()
	phase("corpus mutations")
	runPlans(late)
	enumEvals += r.Evals()
	phase("late enumeration")
	lad := <-ladderCh // (its evaluations are flushed by ladderPhase before it returns)
	phase("waiting for ladder workers")
	if !lad.complete {
		exhaustive = false
	}
	flushClasses()
	r.Sample(map[string]any{"frame": "file", "src": "package p; func ( x ) x [ x any ] ( ) { }", "modes": fileModes})
	r.Sample(map[string]any{"corpus_files_selected": len(sel), "corpus_files_total": len(corpus), "first": sel[0].rel})
	for i, s := range enumInfo {
		if i < 4 {
			r.Sample(s)
		}
	}
	r.Assumptions = append(r.Assumptions,
		"reference = agreement of go1.25.9 go/parser (toolchain) and a verbatim go1.23.5 copy; inputs where the two disagree are undecided (counted in outcome_histogram)",
		"the callback is installed after parser.init has scanned the leading comments and first token; the callback oracle starts from there",
		"inputs beyond the stated sequence length / alphabet and beyond single-token mutations / single inserted line directives of the corpus are not covered",
		"nesting ladders: the trip point of a limit is located by bisection on the go1.25.9 reference assuming monotonicity; quick runs the 1e5-scale (maxNestLev) classes for one construct only (parenthesised expressions, file and expression entry points), thorough for all")
	states := nseq + nmut.Load() + nlinedir.Load() + lad.cases
	r.Finish("fork result (AST incl. positions, comments, scopes, objects; scanner.ErrorList) == stdlib result wherever go1.23.5 and go1.25.9 agree (error list alone where only their trees differ); no panic or crash; callback is a pure observer of the scanner stream",
		exhaustive, map[string]any{
			"states":                        states,
			"transitions":                   r.Evals(),
			"traces_validated_against_impl": r.Evals(),
			"depth":                         maxDepth,
			"token_sequences":               nseq,
			"enum_evaluations":              enumEvals,
			"corpus_mutants":                nmut.Load(),
			"corpus_line_directive_inserts": nlinedir.Load(),
			"ladder_cases":                  lad.cases,
			"ladder_classes":                lad.classes,
			"ladder_classes_1e5_scale":      lad.deepClasses,
			"ladder_classes_skipped":        lad.skipped,
			"ladder_trip_points":            lad.trips,
			"corpus_files":                  len(sel),
			"parses":                        nParses.Load(),
			"decided":                       nDecided.Load(),
			"undecided_version_drift":       nUndecided.Load(),
			"alphabet_core":                 len(core),
			"alphabet_wide":                 len(wide),
			"plans":                         enumInfo,
			"undecided_neither_examples":    neither,
		})
}
