// Nesting ladders for C21: inputs that go past every limit of the parser, with earlier errors already recorded.
//
// The parser has two depth limits (maxNestLev = 1e5 recursion levels while parsing, maxScopeDepth = 1e3 scopes during
// object resolution).  Exceeding one raises a bailout panic that the four entry points recover and turn into an error;
// how that error is recorded interacts with the error list built so far (same-line suppression, the ">10 errors" stop)
// and with AllErrors.  None of the token sequences / corpus mutations gets anywhere near these limits.
//
// A ladder is a nesting construct (open^N inner close^N, or head unit^N for the iteratively parsed chains) in a frame
// (statement of a func body, or the expression entry point).  For every (construct, frame, resolution on/off) the trip
// point N* — the smallest N at which the REFERENCE parser reports a limit — is found by bisection; then the depths
// around N* are combined with every error prefix (none / one error on the same line / one on another line / 10 /
// 11 / 10 + one on the same line; syntax error or declaration error) and every mode of the class, and checked by
// check() like any other input (fork with and without callback vs. the two references; a panic escaping the fork is a
// violation).  Ladders run in worker subprocesses (memory and stack capped): a crash of the worker (stack overflow
// when a limit is gone) is reported as a violation, it does not kill the harness.
package main

import (
	"bufio"
	"bytes"
	"encoding/json"
	"fmt"
	goparser "go/parser"
	"os"
	"os/exec"
	"runtime"
	"runtime/debug"
	"runtime/pprof"
	"sort"
	"strconv"
	"strings"
	"sync"
	"syscall"
	"time"
)

const (
	kStmt = iota // the ladder is a statement
	kExpr        // ... an expression
	kType        // ... a type
)

type construct struct {
	name                     string
	kind                     int
	head, open, inner, close string
	site                     string // the limit check it is aimed at (documentation)
	quickDeep                bool   // its 1e5-scale classes (file with resolution, expr) run in the quick tier too (a 1e5-deep
	// evaluation costs ~0.4 CPU-s: four parses of 2*10^5 tokens on a 100 MB stack and three tree comparisons)
}

var constructs = []construct{
	// statements: every scope-opening statement of the resolver; parseStmt / parseIfStmt recursion
	{"block", kStmt, "", "{", "", "}", "BlockStmt scope; parseStmt", false},
	{"funclit-stmt", kStmt, "", "func() {", "", "}()", "FuncLit scope", false},
	{"if", kStmt, "", "if x {", "", "}", "IfStmt+BlockStmt scopes", false},
	{"else-if", kStmt, "if x {} else ", "if x {} else ", "{}", "", "IfStmt scope; parseIfStmt", false},
	{"for", kStmt, "", "for {", "", "}", "ForStmt scope", false},
	{"range", kStmt, "", "for _, v := range x {", "", "}", "RangeStmt scope", false},
	{"switch", kStmt, "", "switch { case x: ", "", "}", "SwitchStmt+CaseClause scopes", false},
	{"typeswitch", kStmt, "", "switch y := x.(type) { case T: ", "", "}", "TypeSwitchStmt scopes", false},
	{"select", kStmt, "", "select { case <-x: ", "", "}", "SelectStmt+CommClause scopes", false},
	{"label", kStmt, "", "L: ", "{}", "", "LabeledStmt; parseStmt", false},
	// expressions
	{"paren", kExpr, "", "(", "x", ")", "parseUnaryExpr/parsePrimaryExpr/parseBinaryExpr", true},
	{"unary", kExpr, "", "!", "x", "", "parseUnaryExpr", false},
	{"deref", kExpr, "", "*", "x", "", "parseUnaryExpr", false},
	{"recv", kExpr, "", "<-", "x", "", "parseUnaryExpr ARROW re-association", false},
	{"index", kExpr, "", "x[", "x", "]", "parsePrimaryExpr", false},
	{"call", kExpr, "", "f(", "x", ")", "parsePrimaryExpr", false},
	{"selector-chain", kExpr, "x", ".a", "", "", "parsePrimaryExpr loop", false},
	{"call-chain", kExpr, "x", "()", "", "", "parsePrimaryExpr loop", false},
	{"index-chain", kExpr, "x", "[x]", "", "", "parsePrimaryExpr loop", false},
	{"assert-chain", kExpr, "x", ".(T)", "", "", "parsePrimaryExpr loop", false},
	{"binary-chain", kExpr, "x", "+x", "", "", "parseBinaryExpr loop", false},
	{"complit", kExpr, "T", "{", "", "}", "parseLiteralValue", false},
	{"funclit-expr", kExpr, "", "func() { _ = ", "x", " }", "FuncLit scope via expressions", false},
	// types
	{"slice-type", kType, "", "[]", "int", "", "tryIdentOrType", false},
	{"ptr-type", kType, "", "*", "int", "", "tryIdentOrType", false},
	{"chan-type", kType, "", "chan ", "int", "", "tryIdentOrType", false},
	{"recvchan-type", kType, "", "<-chan ", "int", "", "tryIdentOrType", false},
	{"map-type", kType, "", "map[x]", "int", "", "tryIdentOrType", false},
	{"struct-type", kType, "", "struct{ a ", "int", " }", "StructType scope; tryIdentOrType", false},
	{"func-type", kType, "", "func(", "", ")", "FuncType scope; tryIdentOrType", false},
	{"paren-type", kType, "", "(", "int", ")", "tryIdentOrType", false},
	{"instance-type", kType, "", "T[", "int", "]", "tryIdentOrType / index", false},
}

func (c *construct) text(n int) string {
	var b strings.Builder
	b.Grow(len(c.head) + n*(len(c.open)+len(c.close)) + len(c.inner))
	b.WriteString(c.head)
	for i := 0; i < n; i++ {
		b.WriteString(c.open)
	}
	b.WriteString(c.inner)
	for i := 0; i < n; i++ {
		b.WriteString(c.close)
	}
	return b.String()
}

// error prefixes: others = errors on distinct earlier lines, same = one more error on the ladder's own line
type prefix struct {
	others int
	same   bool
}

func (p prefix) String() string {
	s := strconv.Itoa(p.others)
	if p.same {
		s += "+same"
	}
	return s
}

var (
	prefixesFull = []prefix{{0, false}, {0, true}, {1, false}, {10, false}, {10, true}, {11, false}}
	prefixesDeep = []prefix{{0, false}, {0, true}, {11, false}}
)

const (
	errSyn  = "syn"  // a syntax error the parser recovers from without skipping tokens: expected ')', found ']'
	errDecl = "decl" // a redeclaration: reported by the resolver, only with DeclarationErrors
)

// ladderSource builds the input.  epFile: statement of a func body; epExpr: argument of a call (so that earlier
// arguments can carry the error prefix).
func ladderSource(c *construct, ep int, n int, p prefix, ek string) []byte {
	var b bytes.Buffer
	lad := c.text(n)
	if ep == epExpr {
		if c.kind == kStmt {
			lad = "func() { " + lad + " }"
		}
		b.WriteString("f(\n")
		for i := 0; i < p.others; i++ {
			b.WriteString("(1],\n")
		}
		if p.same {
			b.WriteString("(1], ")
		}
		b.WriteString(lad)
		b.WriteString(")")
		return b.Bytes()
	}
	one := func(i int) string {
		if ek == errDecl {
			return fmt.Sprintf("var v%d, v%d int", i, i)
		}
		return "_ = (1]"
	}
	b.WriteString("package p\nfunc f() {\n")
	for i := 0; i < p.others; i++ {
		b.WriteString(one(i))
		b.WriteString("\n")
	}
	if p.same {
		b.WriteString(one(p.others))
		b.WriteString("; ")
	}
	switch c.kind {
	case kExpr:
		b.WriteString("_ = ")
	case kType:
		b.WriteString("var _ ")
	}
	b.WriteString(lad)
	b.WriteString("\n}\n")
	return b.Bytes()
}

// a class = (construct, entry point, object resolution on/off): one trip point, one worker
type ladderClass struct {
	ci      int
	ep      int
	resolve bool
}

func (lc ladderClass) String() string {
	eps, res := "file", "noresolve"
	if lc.ep == epExpr {
		eps = "expr"
	}
	if lc.resolve {
		res = "resolve"
	}
	return constructs[lc.ci].name + "/" + eps + "/" + res
}

func (lc ladderClass) modes(deep bool) []uint {
	const (
		AE = uint(goparser.AllErrors)
		DE = uint(goparser.DeclarationErrors)
		PC = uint(goparser.ParseComments)
		SK = uint(goparser.SkipObjectResolution)
	)
	switch {
	case lc.ep == epExpr: // no object resolution in ParseExprFrom: the two classes coincide, only "noresolve" is run
		return []uint{0, AE}
	case lc.resolve && deep:
		return []uint{PC | DE, AE}
	case lc.resolve:
		return []uint{0, AE, PC | DE, DE | AE}
	case deep:
		return []uint{SK, SK | AE}
	default:
		return []uint{SK, SK | AE, SK | PC | DE}
	}
}

const (
	shallowMax = 2100   // scope-depth trips are looked for up to here
	deepMax    = 100100 // maxNestLev trips
)

func tripped(c *construct, ep int, mode uint, n int) bool {
	res := run125(ep, ladderSource(c, ep, n, prefix{}, errSyn), mode)
	return res.pan == nil && res.err != nil && strings.Contains(res.err.Error(), "exceeded max")
}

// smallest n in (lo,hi] with tripped(n), assuming monotonicity; ok=false if tripped(hi) is false
func tripPoint(c *construct, ep int, mode uint, lo, hi int) (int, bool) {
	if !tripped(c, ep, mode, hi) {
		return 0, false
	}
	for hi-lo > 1 {
		mid := (lo + hi) / 2
		if tripped(c, ep, mode, mid) {
			hi = mid
		} else {
			lo = mid
		}
	}
	return hi, true
}

type ladderOut struct {
	Class    string               `json:"class"`
	Trip     int                  `json:"trip"`
	Deep     bool                 `json:"deep"`
	Skipped  string               `json:"skipped,omitempty"`
	Cases    int64                `json:"cases"`
	Complete bool                 `json:"complete"`
	Tally    tally                `json:"-"`
	T        [7]int64             `json:"t"`
	Dir      [3]int64             `json:"dir"`
	Parses   int64                `json:"parses"`
	Classes  map[string]*classOut `json:"classes,omitempty"`
	Neither  []string             `json:"neither,omitempty"`
}

type classOut struct {
	N      int64          `json:"n"`
	Label  string         `json:"label"`
	SrcLen int            `json:"srclen"`
	Detail map[string]any `json:"detail"`
}

// ladderWorker runs the given classes and writes one JSON line per class.  args: <class index>[,<class index>...] <tier> <deadline unix seconds>
func ladderWorker(args []string) {
	lim := syscall.Rlimit{Cur: 6 << 30, Max: 6 << 30}
	_ = syscall.Setrlimit(syscall.RLIMIT_AS, &lim)
	debug.SetMaxStack(768 << 20)
	if g, err := strconv.Atoi(os.Getenv("C21_WGOGC")); err == nil { // tuning aid; the default (100) measured best
		debug.SetGCPercent(g)
	}
	runtime.GOMAXPROCS(2)
	if pf := os.Getenv("C21_PROF"); pf != "" {
		f, _ := os.Create(pf)
		pprof.StartCPUProfile(f)
		defer pprof.StopCPUProfile()
	}
	thorough := args[1] == "thorough"
	dl, _ := strconv.ParseInt(args[2], 10, 64)
	deadline := time.Unix(dl, 0)
	for _, a := range strings.Split(args[0], ",") { // one JSON line per class
		idx, _ := strconv.Atoi(a)
		classes, neither = map[string]*classRec{}, nil
		nParses.Store(0)
		ladderClassRun(idx, thorough, deadline)
	}
}

func ladderClassRun(idx int, thorough bool, deadline time.Time) {
	lc := ladderClasses()[idx]
	c := &constructs[lc.ci]
	out := ladderOut{Class: lc.String(), Complete: true}
	emit := func() {
		out.T = [7]int64{out.Tally.agree, out.Tally.undecided123, out.Tally.undecided125, out.Tally.undecidedNeither, out.Tally.okParse, out.Tally.errParse, out.Tally.errOutside}
		out.Dir = [3]int64{out.Tally.dirDecided, out.Tally.dirUndecided, out.Tally.errDecided}
		out.Parses = nParses.Load()
		out.Neither = neither
		out.Classes = map[string]*classOut{}
		for k, cr := range classes {
			out.Classes[k] = &classOut{cr.n, cr.label, len(cr.src), cr.detail}
		}
		w := bufio.NewWriter(os.Stdout)
		json.NewEncoder(w).Encode(&out)
		w.Flush()
	}
	base := uint(0)
	if !lc.resolve {
		base = uint(goparser.SkipObjectResolution)
	}
	if time.Now().After(deadline) {
		out.Complete = false
		out.Skipped = "budget cap reached before this class was started"
		emit()
		return
	}
	trip, ok := 0, false
	if lc.resolve && lc.ep == epFile {
		trip, ok = tripPoint(c, lc.ep, base, 0, shallowMax)
	}
	if !ok {
		if !thorough && !(c.quickDeep && (lc.resolve || lc.ep == epExpr)) {
			out.Skipped = "1e5-scale class: thorough tier only"
			emit()
			return
		}
		out.Deep = true
		// every maxNestLev trip seen so far lies within a few units of 1e5: try a narrow bracket first (an accelerator
		// only: the result is the smallest tripping depth in any case)
		if lo, hi := 100000-8, 100000+2; !tripped(c, lc.ep, base, lo) {
			trip, ok = tripPoint(c, lc.ep, base, lo, hi)
		}
		if !ok {
			trip, ok = tripPoint(c, lc.ep, base, 0, deepMax)
		}
	}
	if !ok {
		out.Skipped = fmt.Sprintf("no limit reached up to %d units", deepMax)
		emit()
		return
	}
	out.Trip = trip
	var depths []int
	quickDeepTrim := false // quick tier, 1e5 scale: below the trip point only the error-free input in the first mode
	prefixes, kinds := prefixesFull, []string{errSyn, errDecl}
	switch {
	case out.Deep && !thorough:
		depths, prefixes, kinds = []int{trip - 1, trip}, prefixesDeep, []string{errSyn}
		quickDeepTrim = true
	case out.Deep:
		depths, prefixes, kinds = []int{trip - 1, trip, trip + 1}, prefixesDeep, []string{errSyn}
	case thorough:
		depths = []int{1, 2, 3, trip / 2, trip - 3, trip - 2, trip - 1, trip, trip + 1, trip + 2, trip + 3, 2 * trip}
	default:
		depths = []int{trip - 1, trip}
	}
	if lc.ep == epExpr || !lc.resolve {
		kinds = []string{errSyn} // a redeclaration is an error only for the resolver
	}
	seen := map[int]bool{}
	for _, n := range depths {
		if n < 1 || seen[n] {
			continue
		}
		seen[n] = true
		rel := "n=" + strconv.Itoa(n)
		if d := n - trip; d >= -3 && d <= 3 {
			rel += fmt.Sprintf("(trip%+d)", d)
		}
		for _, p := range prefixes {
			for _, ek := range kinds {
				if ek == errDecl && p.others == 0 && !p.same {
					continue // same input as syn without errors
				}
				src := ladderSource(c, lc.ep, n, p, ek)
				for mi, m := range lc.modes(out.Deep) {
					if quickDeepTrim && n < trip && (mi > 0 || p != (prefix{})) {
						continue
					}
					if time.Now().After(deadline) {
						out.Complete = false
						emit()
						return
					}
					id := caseID{family: "ladder", ep: lc.ep, mode: m, label: fmt.Sprintf("%s:%s:errs=%s/%s", lc.String(), rel, p, ek), src: src}
					before := out.Tally.agree
					check(&id, &out.Tally)
					out.Cases++
					if os.Getenv("C21_LADDER_DEBUG") != "" {
						fmt.Fprintf(os.Stderr, "decided=%v mode=%d %s\n", out.Tally.agree > before, m, id.label)
						if os.Getenv("C21_LADDER_DEBUG") == id.label+"/"+strconv.Itoa(int(m)) {
							os.WriteFile("/verif/.work/c21/ladder-debug.go.txt", src, 0o644)
						}
					}
				}
			}
		}
	}
	emit()
}

func ladderClasses() []ladderClass {
	var out []ladderClass
	for ci := range constructs {
		out = append(out, ladderClass{ci, epFile, true}, ladderClass{ci, epFile, false}, ladderClass{ci, epExpr, false})
	}
	return out
}

// ladderPhase spawns one worker per class (w at a time) and merges their results.
type ladderSummary struct {
	classes, deepClasses, skipped int
	cases                         int64
	complete                      bool
	trips                         []string
}

var (
	cpuMu     sync.Mutex
	ladderCPU time.Duration
)

func ladderPhase(tier string, parallel int, deadline time.Time) ladderSummary {
	lcs := ladderClasses()
	outs := make([]*ladderOut, len(lcs))
	errs := make([]string, len(lcs))
	sem := make(chan struct{}, parallel)
	done := make(chan int, len(lcs))
	// one worker process runs a group of classes: quick = the (file, resolution on) classes in three groups (scope-depth
	// trips, ~1 ms per case) and every 1e5-scale class alone; thorough = every class alone
	runGroup := func(group []int) {
		if time.Now().After(deadline) { // budget used up: not started
			for _, i := range group {
				if outs[i] == nil {
					outs[i] = &ladderOut{Class: lcs[i].String(), Skipped: "budget cap reached before this class was started"}
				}
			}
			return
		}
		var ids []string
		for _, i := range group {
			ids = append(ids, strconv.Itoa(i))
		}
		cmd := exec.Command(os.Args[0], "-ladderworker", strings.Join(ids, ","), tier, strconv.FormatInt(deadline.Unix(), 10))
		// stacks stay grown between the parses of a worker (re-growing a 100 MB stack costs more than a parse)
		cmd.Env = append(os.Environ(), "GODEBUG=gcshrinkstackoff=1")
		var so, se bytes.Buffer
		cmd.Stdout, cmd.Stderr = &so, &se
		err := cmd.Run()
		if ps := cmd.ProcessState; ps != nil {
			cpuMu.Lock()
			ladderCPU += ps.UserTime() + ps.SystemTime()
			cpuMu.Unlock()
		}
		lines := bytes.Split(bytes.TrimSpace(so.Bytes()), []byte("\n"))
		for k, i := range group {
			if k < len(lines) {
				var o ladderOut
				if json.Unmarshal(lines[k], &o) == nil && o.Class == lcs[i].String() {
					outs[i] = &o
					continue
				}
			}
			tail := se.String()
			if len(tail) > 600 {
				tail = tail[:600]
			}
			errs[i] = fmt.Sprintf("%v; stderr: %s", err, tail)
		}
	}
	var groups [][]int
	shallow := make([][]int, 3)
	for i := range lcs {
		c := &constructs[lcs[i].ci]
		fileResolve := lcs[i].resolve && lcs[i].ep == epFile
		switch {
		case tier != "thorough" && !c.quickDeep && !fileResolve:
			// certain to be a 1e5-scale class: no worker needed to find that out
			outs[i] = &ladderOut{Class: lcs[i].String(), Complete: true, Skipped: "1e5-scale class: thorough tier only"}
		case tier != "thorough" && fileResolve && !c.quickDeep:
			g := lcs[i].ci % len(shallow)
			shallow[g] = append(shallow[g], i)
		default:
			groups = append(groups, []int{i})
		}
	}
	for _, g := range shallow {
		if len(g) > 0 {
			groups = append(groups, g)
		}
	}
	for _, g := range groups {
		go func(g []int) {
			sem <- struct{}{}
			defer func() { <-sem; done <- 0 }()
			runGroup(g)
			if len(g) > 1 {
				// a group that died is re-run class by class, so that the crash is attributed to its class
				for _, i := range g {
					if outs[i] == nil {
						runGroup([]int{i})
					}
				}
			}
		}(g)
	}
	for range groups {
		<-done
	}
	sum := ladderSummary{complete: true}
	fmt.Printf("  ladder workers: %.1f CPU-s\n", ladderCPU.Seconds())
	for i, o := range outs {
		if o == nil {
			// the worker died: with every limit in place no input of a ladder can do that
			c := caseID{family: "ladder", ep: lcs[i].ep, label: lcs[i].String()}
			report(&c, "crash", func() map[string]any {
				return map[string]any{"label": lcs[i].String(), "note": "ladder worker died (stack overflow / out of memory / uncaught runtime error): " + errs[i]}
			})
			continue
		}
		sum.classes++
		if o.Skipped != "" {
			if strings.HasPrefix(o.Skipped, "budget") {
				sum.complete = false
			}
			sum.skipped++
			sum.trips = append(sum.trips, o.Class+": "+o.Skipped)
			continue
		}
		if o.Deep {
			sum.deepClasses++
		}
		if !o.Complete {
			sum.complete = false
		}
		sum.cases += o.Cases
		sum.trips = append(sum.trips, fmt.Sprintf("%s: trip=%d cases=%d", o.Class, o.Trip, o.Cases))
		t := tally{o.T[0], o.T[1], o.T[2], o.T[3], o.T[4], o.T[5], o.T[6], o.Dir[0], o.Dir[1], o.Dir[2]}
		t.flush()
		nParses.Add(o.Parses)
		r.Distinct("ladder:" + o.Class)
		for _, k := range o.Neither {
			noteNeither(k)
		}
		var keys []string
		for k := range o.Classes {
			keys = append(keys, k)
		}
		sort.Strings(keys)
		classMu.Lock()
		for _, k := range keys {
			co := o.Classes[k]
			cr := classes[k]
			if cr == nil {
				cr = &classRec{}
				classes[k] = cr
			}
			pad := strings.Repeat(" ", co.SrcLen) // only the length of src takes part in the "minimal input" order
			if cr.n == 0 || co.SrcLen < len(cr.src) || (co.SrcLen == len(cr.src) && co.Label < cr.label) {
				cr.label, cr.src, cr.detail = co.Label, pad, co.Detail
			}
			cr.n += co.N
		}
		classMu.Unlock()
	}
	return sum
}

// ladderSourceFromLabel regenerates the input of a ladder case from its label (replay of inputs too large to be stored):
// <construct>/<file|expr>/<resolve|noresolve>:n=<depth>[(trip±k)]:errs=<others>[+same]/<syn|decl>
func ladderSourceFromLabel(label string) ([]byte, bool) {
	parts := strings.Split(label, ":")
	if len(parts) != 3 {
		return nil, false
	}
	cl := strings.Split(parts[0], "/")
	if len(cl) != 3 || !strings.HasPrefix(parts[1], "n=") || !strings.HasPrefix(parts[2], "errs=") {
		return nil, false
	}
	var c *construct
	for i := range constructs {
		if constructs[i].name == cl[0] {
			c = &constructs[i]
		}
	}
	if c == nil {
		return nil, false
	}
	ep := epFile
	if cl[1] == "expr" {
		ep = epExpr
	}
	ns := strings.TrimPrefix(parts[1], "n=")
	if i := strings.IndexByte(ns, '('); i >= 0 {
		ns = ns[:i]
	}
	n, err := strconv.Atoi(ns)
	if err != nil {
		return nil, false
	}
	es := strings.Split(strings.TrimPrefix(parts[2], "errs="), "/")
	if len(es) != 2 {
		return nil, false
	}
	var p prefix
	if strings.HasSuffix(es[0], "+same") {
		p.same = true
		es[0] = strings.TrimSuffix(es[0], "+same")
	}
	if p.others, err = strconv.Atoi(es[0]); err != nil {
		return nil, false
	}
	return ladderSource(c, ep, n, p, es[1]), true
}
