// Comment- and line-directive-aware inputs for C21.
//
// The token alphabets of main.go contain two comment tokens but no `//line` directive, no doc comment followed by a
// declaration on the next line, no comment inside a parenthesised declaration.  Comment attachment in the parser
// (consumeComment / consumeCommentGroup / next: lead and line comments, Doc and Comment fields of specs, fields and
// declarations) depends on LINE NUMBERS, and line numbers are what `//line` and `/*line*/` directives rewrite.
//
// (1) cmt-* families: every sequence of "pieces" (directives shifting line numbers up and down, an inline /*line*/
//
//	directive, line comment, inline comment, multi-line comment, blank line, `;`, two items of the frame) concatenated
//	WITHOUT separators (a //line directive is only one in column 1) inside six frames: top level, before the
//	package clause, inside `var (`, inside a struct type, inside an interface type, inside a func body.
//
// (2) linedir family: corpus files with one directive inserted at the start of a line: every line that starts with a
//
//	token gets the shifting-up directive; every top-level declaration, its doc comment and the file start get all
//	three directives in both corpus modes.
package main

import (
	"bytes"
	"fmt"
	"go/ast"
	goparser "go/parser"
	"go/token"
	"sort"
)

var cmtCommon = []string{
	"//line f.go:100\n", // line numbers jump up
	"//line f.go:1\n",   // ... and down (lines repeat)
	"/*line f.go:7:3*/", // effective immediately, mid-line
	"// d\n",
	"/* c */",
	"/* m\n c */",
	"\n",
	";",
}

type cmtFrame struct {
	fr    frame
	items []string
}

var cmtFrames = []cmtFrame{
	{frame{"top", epFile, "package p\n", "\n", true}, []string{"var a int ", "func f() {} "}},
	{frame{"head", epFile, "", "package p\n\n// d\nvar a int // t\n", true}, nil},
	{frame{"spec", epFile, "package p\nvar (\n", "\n)\n", true}, []string{"a int ", "b = 1 "}},
	{frame{"field", epFile, "package p\ntype T struct {\n", "\n}\n", true}, []string{"A int ", "B "}},
	{frame{"iface", epFile, "package p\ntype I interface {\n", "\n}\n", true}, []string{"M() ", "N "}},
	{frame{"stmt", epFile, "package p\nfunc f() {\n", "\n}\n", true}, []string{"a := 1 ", "var b int "}},
}

func (cf cmtFrame) alpha() []string {
	return append(append([]string{}, cmtCommon...), cf.items...)
}

// the deepest level drops the shifting-down directive and the second item (8 pieces instead of 10)
func (cf cmtFrame) alphaDeepest() []string {
	out := append([]string{}, cmtCommon[0])
	out = append(out, cmtCommon[2:]...)
	if len(cf.items) > 0 {
		out = append(out, cf.items[0])
	}
	return out
}

var (
	pcModes = []uint{ // the modes in which comments reach the tree
		uint(goparser.ParseComments),
		uint(goparser.ParseComments | goparser.DeclarationErrors),
		uint(goparser.ParseComments | goparser.DeclarationErrors | goparser.SkipObjectResolution),
		uint(goparser.ParseComments | goparser.AllErrors),
	}
	pcModesQuick = []uint{uint(goparser.ParseComments | goparser.DeclarationErrors), uint(goparser.ParseComments | goparser.AllErrors)} // gnolang, gnofmt
	gnoMode      = []uint{uint(goparser.ParseComments | goparser.DeclarationErrors)}
)

// ---------------------------------------------------------------------------------------------
// corpus files with one inserted directive

var lineDirs = []struct{ name, text string }{
	{"up", "//line f.go:1000\n"},
	{"down", "//line f.go:1\n"},
	{"inline", "/*line f.go:7:3*/"},
}

func lineStartOf(src []byte, off int) (int, bool) {
	i := off
	for i > 0 && (src[i-1] == ' ' || src[i-1] == '\t') {
		i--
	}
	if i == 0 || src[i-1] == '\n' {
		return i, true
	}
	return 0, false
}

func lineDirFile(cf corpusFile, t *tally) (n int64, complete bool) {
	// lines that start with a token (so the insertion point is not inside a raw string or a block comment)
	starts := map[int]bool{}
	for _, sp := range tokenize(cf.src) {
		if sp.auto {
			continue
		}
		if ls, ok := lineStartOf(cf.src, sp.off); ok {
			starts[ls] = true
		}
	}
	// top-level declarations and their doc comments (reference parser; deterministic)
	top := map[int]bool{0: true}
	fs := token.NewFileSet()
	if f, _ := goparser.ParseFile(fs, fname, cf.src, goparser.ParseComments); f != nil {
		tf := fs.File(f.FileStart)
		mark := func(p token.Pos) {
			if tf == nil || !p.IsValid() {
				return
			}
			if ls, ok := lineStartOf(cf.src, tf.Offset(p)); ok && starts[ls] {
				top[ls] = true
			}
		}
		for _, d := range f.Decls {
			mark(d.Pos())
			switch d := d.(type) {
			case *ast.GenDecl:
				if d.Doc != nil {
					mark(d.Doc.Pos())
				}
			case *ast.FuncDecl:
				if d.Doc != nil {
					mark(d.Doc.Pos())
				}
			}
		}
	}
	starts[0] = true
	var offs []int
	for o := range starts {
		offs = append(offs, o)
	}
	sort.Ints(offs)
	for _, o := range offs {
		if r.Expired() {
			return n, false
		}
		for di, d := range lineDirs {
			modes := mutModes
			if !top[o] {
				if di != 0 {
					continue
				}
				modes = gnoMode
			}
			src := splice(cf.src, o, o, d.text)
			for _, m := range modes {
				c := caseID{family: "linedir", ep: epFile, mode: m, label: fmt.Sprintf("%s:%s@%d", cf.rel, d.name, o), src: src}
				check(&c, t)
			}
			n++
		}
	}
	return n, true
}

func hasDirective(c *caseID) bool {
	if c.family != "linedir" && (len(c.family) < 4 || c.family[:4] != "cmt-") {
		return false
	}
	return bytes.Contains(c.src, []byte("line f.go:"))
}
