// C53: genesis application is deterministic and representation-independent.
//
// Genesis documents are composed from a component menu (balances incl. repeated address / vesting / non-ugnot denom,
// packages, txs ok / failing / with metadata, auth / bank / vm params variants, realm params of every type,
// InitialHeight variants, invalid documents). Every document is written once to
// /verif/.work/c53/<n>/genesis.json (amino JSON, the format `gnoland` writes) and applied to a fresh real gno.land
// application in three representations:
//   mem   the in-memory gnoland.GnoGenesisState object that was composed (twice),
//   file  bft/types.GenesisDocFromFile of the JSON (in-memory apply path after a JSON round trip),
//   strm  the real streaming loader gnoland.LoadStreamingGenesisDoc -> *GenesisStateRef (twice; the second run
//         re-opens the on-disk cache written by the first).
// Each application goes through chainx.InitFromDoc, which mimics the node (state.MakeGenesisState validation,
// Handshaker's RequestInitChain built from the document, first Commit).
// Oracle: all five applications agree on accept/reject; when accepted they agree on the InitChain request's
// InitialHeight, on every TxResponses[i] (error class, GasUsed, GasWanted, data, events) and on the first Commit's
// app hash; when rejected, on the rejection text.
package main

import (
	"fmt"
	"os"
	"path/filepath"
	"runtime/debug"
	"sort"
	"strings"
	"sync/atomic"
	"time"

	"github.com/gnolang/gno/gno.land/pkg/gnoland"
	"github.com/gnolang/gno/gno.land/pkg/sdk/vm"
	"github.com/gnolang/gno/tm2/pkg/amino"
	bft "github.com/gnolang/gno/tm2/pkg/bft/types"
	"github.com/gnolang/gno/tm2/pkg/log"
	"github.com/gnolang/gno/tm2/pkg/sdk/bank"
	"github.com/gnolang/gno/tm2/pkg/sdk/params"
	"github.com/gnolang/gno/tm2/pkg/std"
	"verif/engine/chainx"
	"verif/engine/vk"
)

var (
	A, B, V1, V2, D = chainx.NewKey("c53-A"), chainx.NewKey("c53-B"), chainx.NewKey("c53-V1"), chainx.NewKey("c53-V2"), chainx.NewKey("c53-D")
	r               *vk.Run
	nApps           atomic.Int64
	sampleSlots     [3]map[string]any
)

const work = "/verif/.work/c53"

var genesisTime = time.Unix(1_700_000_000, 0).UTC()

func coins(s string) std.Coins { return std.MustParseCoins(s) }

func gtx(msgs ...std.Msg) std.Tx {
	sigs := map[string]bool{}
	var n int
	for _, m := range msgs {
		for _, s := range m.GetSigners() {
			if !sigs[s.String()] {
				sigs[s.String()] = true
				n++
			}
		}
	}
	return std.Tx{Msgs: msgs, Fee: std.NewFee(100_000_000, std.NewCoin("ugnot", 1_000_000)), Signatures: make([]std.Signature, n)}
}

const realmSrc = "package gen\n\nvar X = 1\n\nfunc init() { X = 40 }\n\nfunc Inc(cur realm) int { X++; return X }\n"
const pkgSrc = "package lib\n\nvar Table = map[string]int{\"a\": 1}\n\nfunc Get(k string) int { return Table[k] }\n"
const userSrc = "package user\n\nimport \"gno.land/p/c53/lib\"\n\nvar Y int\n\nfunc init() { Y = lib.Get(\"a\") + 1 }\n\nfunc Bump(cur realm) int { Y += lib.Get(\"a\"); return Y }\n"

type comp struct {
	id      string
	invalid bool // the statement's rules (or plain validation) must reject a document containing it
	apply   func(doc *bft.GenesisDoc, gs *gnoland.GnoGenesisState)
}

func base() (*bft.GenesisDoc, *gnoland.GnoGenesisState) {
	gs := gnoland.DefaultGenState()
	gs.Balances = []gnoland.Balance{
		{Address: A.Addr, Amount: coins("1000000000000ugnot")},
		{Address: B.Addr, Amount: coins("2000000000000ugnot")},
	}
	doc := &bft.GenesisDoc{GenesisTime: genesisTime, ChainID: "c53-chain"}
	doc.ConsensusParams.Block = nil
	return doc, &gs
}

var comps = []comp{
	{"bal-repeated-address", false, func(d *bft.GenesisDoc, gs *gnoland.GnoGenesisState) {
		gs.Balances = append(gs.Balances, gnoland.Balance{Address: A.Addr, Amount: coins("777ugnot")}, gnoland.Balance{Address: D.Addr, Amount: coins("5ugnot")})
	}},
	{"bal-vesting-continuous", false, func(d *bft.GenesisDoc, gs *gnoland.GnoGenesisState) {
		gs.Balances = append(gs.Balances, gnoland.Balance{Address: V1.Addr, Amount: coins("900000ugnot"),
			Vesting: &std.VestingSchedule{OriginalVesting: coins("600000ugnot"), StartTime: genesisTime.Unix(), EndTime: genesisTime.Unix() + 1000}})
	}},
	{"bal-vesting-delayed", false, func(d *bft.GenesisDoc, gs *gnoland.GnoGenesisState) {
		gs.Balances = append(gs.Balances, gnoland.Balance{Address: V2.Addr, Amount: coins("900000ugnot"),
			Vesting: &std.VestingSchedule{OriginalVesting: coins("900000ugnot"), EndTime: genesisTime.Unix() + 5000, Type: std.VestingDelayed}})
	}},
	{"bal-plain-after-vesting-same-address", false, func(d *bft.GenesisDoc, gs *gnoland.GnoGenesisState) {
		gs.Balances = append(gs.Balances, gnoland.Balance{Address: V1.Addr, Amount: coins("900000ugnot"),
			Vesting: &std.VestingSchedule{OriginalVesting: coins("600000ugnot"), StartTime: genesisTime.Unix(), EndTime: genesisTime.Unix() + 1000}},
			gnoland.Balance{Address: V1.Addr, Amount: coins("12ugnot")})
	}},
	{"bal-other-denoms", false, func(d *bft.GenesisDoc, gs *gnoland.GnoGenesisState) {
		gs.Balances = append(gs.Balances, gnoland.Balance{Address: D.Addr, Amount: coins("100foo,5ugnot,9223372036854775807zzz")})
	}},
	{"tx-addpkg-realm", false, func(d *bft.GenesisDoc, gs *gnoland.GnoGenesisState) {
		gs.Txs = append(gs.Txs, gnoland.TxWithMetadata{Tx: gtx(chainx.AddPkg(A.Addr, "gno.land/r/c53/gen", map[string]string{"gen.gno": realmSrc}))})
	}},
	{"tx-addpkg-p-and-user", false, func(d *bft.GenesisDoc, gs *gnoland.GnoGenesisState) {
		gs.Txs = append(gs.Txs,
			gnoland.TxWithMetadata{Tx: gtx(chainx.AddPkg(B.Addr, "gno.land/p/c53/lib", map[string]string{"lib.gno": pkgSrc}))},
			gnoland.TxWithMetadata{Tx: gtx(chainx.AddPkg(B.Addr, "gno.land/r/c53/user", map[string]string{"user.gno": userSrc}))})
	}},
	{"tx-call-gen", false, func(d *bft.GenesisDoc, gs *gnoland.GnoGenesisState) { // fails unless tx-addpkg-realm precedes it
		gs.Txs = append(gs.Txs, gnoland.TxWithMetadata{Tx: gtx(chainx.Call(B.Addr, nil, "gno.land/r/c53/gen", "Inc"))})
	}},
	{"tx-failing-typecheck", false, func(d *bft.GenesisDoc, gs *gnoland.GnoGenesisState) {
		gs.Txs = append(gs.Txs, gnoland.TxWithMetadata{Tx: gtx(chainx.AddPkg(A.Addr, "gno.land/r/c53/bad", map[string]string{"bad.gno": "package bad\n\nvar X int = \"s\"\n"}))})
	}},
	{"tx-send-with-metadata", false, func(d *bft.GenesisDoc, gs *gnoland.GnoGenesisState) {
		gs.Txs = append(gs.Txs, gnoland.TxWithMetadata{Tx: gtx(bank.MsgSend{FromAddress: A.Addr, ToAddress: D.Addr, Amount: coins("42ugnot")}),
			Metadata: &gnoland.GnoTxMetadata{Timestamp: genesisTime.Unix() - 12345, Failed: true, GasUsed: 777, GasWanted: 888, Source: "base", Note: "c53"}})
	}},
	{"tx-run-with-timestamp", false, func(d *bft.GenesisDoc, gs *gnoland.GnoGenesisState) {
		gs.Txs = append(gs.Txs, gnoland.TxWithMetadata{Tx: gtx(chainx.Run(A.Addr, nil, "package main\n\nimport \"time\"\n\nfunc main() { println(time.Now().Unix()) }\n")),
			Metadata: &gnoland.GnoTxMetadata{Timestamp: 1_600_000_000}})
	}},
	{"tx-memo-unicode", false, func(d *bft.GenesisDoc, gs *gnoland.GnoGenesisState) {
		t := gtx(bank.MsgSend{FromAddress: B.Addr, ToAddress: A.Addr, Amount: coins("1ugnot")})
		t.Memo = "mémo <&>   \"q\" \\ \x7f"
		gs.Txs = append(gs.Txs, gnoland.TxWithMetadata{Tx: t})
	}},
	{"params-auth", false, func(d *bft.GenesisDoc, gs *gnoland.GnoGenesisState) {
		gs.Auth.Params.MaxMemoBytes = 99_999
		gs.Auth.Params.TxSigLimit = 3
		gs.Auth.Params.UnrestrictedAddrs = append(gs.Auth.Params.UnrestrictedAddrs, D.Addr)
	}},
	{"params-bank-restricted", false, func(d *bft.GenesisDoc, gs *gnoland.GnoGenesisState) { gs.Bank.Params.RestrictedDenoms = []string{"foo"} }},
	{"params-vm", false, func(d *bft.GenesisDoc, gs *gnoland.GnoGenesisState) {
		gs.VM.Params.SysNamesPkgPath = ""
		gs.VM.Params.StoragePrice = "200ugnot"
	}},
	{"realm-params", false, func(d *bft.GenesisDoc, gs *gnoland.GnoGenesisState) {
		gs.VM.RealmParams = append(gs.VM.RealmParams,
			params.NewParam("gno.land/r/c53/gen:s", "str"), params.NewParam("gno.land/r/c53/gen:i", int64(-9007199254740993)),
			params.NewParam("gno.land/r/c53/gen:u", uint64(18446744073709551615)), params.NewParam("gno.land/r/c53/gen:b", true),
			params.NewParam("gno.land/r/c53/gen:y", []byte{0, 1, 255}), params.NewParam("gno.land/r/c53/gen:ss", []string{"a", "", "c"}))
	}},
	{"initial-height-1", false, func(d *bft.GenesisDoc, gs *gnoland.GnoGenesisState) { d.InitialHeight = 1 }},
	{"initial-height-5", false, func(d *bft.GenesisDoc, gs *gnoland.GnoGenesisState) { d.InitialHeight = 5; gs.InitialHeight = 5 }},
	{"consensus-params-maxgas", false, func(d *bft.GenesisDoc, gs *gnoland.GnoGenesisState) {
		cp := bft.DefaultConsensusParams()
		cp.Block.MaxGas = 123_456_789
		d.ConsensusParams = cp
	}},
	// --- invalid documents ---
	{"INVALID-app-initial-height-mismatch", true, func(d *bft.GenesisDoc, gs *gnoland.GnoGenesisState) { d.InitialHeight = 5; gs.InitialHeight = 7 }},
	{"INVALID-gas-replay-mode", true, func(d *bft.GenesisDoc, gs *gnoland.GnoGenesisState) { gs.GasReplayMode = "bogus" }},
	{"INVALID-signer-info-collision", true, func(d *bft.GenesisDoc, gs *gnoland.GnoGenesisState) {
		// account number 0 belongs to the first balance entry (A); the metadata claims it for D
		gs.Txs = append(gs.Txs, gnoland.TxWithMetadata{Tx: gtx(bank.MsgSend{FromAddress: A.Addr, ToAddress: D.Addr, Amount: coins("1ugnot")}),
			Metadata: &gnoland.GnoTxMetadata{Timestamp: 1, SignerInfo: []gnoland.SignerAccountInfo{{Address: D.Addr, AccountNum: 0, Sequence: 0}}}})
	}},
	{"INVALID-vesting-exceeds-balance", true, func(d *bft.GenesisDoc, gs *gnoland.GnoGenesisState) {
		gs.Balances = append(gs.Balances, gnoland.Balance{Address: V2.Addr, Amount: coins("5ugnot"),
			Vesting: &std.VestingSchedule{OriginalVesting: coins("900000ugnot"), EndTime: genesisTime.Unix() + 5000}})
	}},
	{"INVALID-vm-params", true, func(d *bft.GenesisDoc, gs *gnoland.GnoGenesisState) { gs.VM.Params.ChainDomain = "not a domain" }},
	{"INVALID-chain-id-empty", true, func(d *bft.GenesisDoc, gs *gnoland.GnoGenesisState) { d.ChainID = "" }},
}

func compIdx(id string) int {
	for i, c := range comps {
		if c.id == id {
			return i
		}
	}
	panic(id)
}

// ---- observations ------------------------------------------------------------------------------------------

type obsv struct {
	mode     string
	loadErr  string
	run      chainx.GenesisRun
	key      string // canonical comparison string
	detail   []string
	accepted bool
}

func canon(mode string, loadErr string, run chainx.GenesisRun) obsv {
	o := obsv{mode: mode, loadErr: loadErr, run: run}
	if loadErr != "" {
		o.key = "REJECTED(load): " + loadErr
		return o
	}
	if run.Rejected != "" {
		o.key = "REJECTED: " + run.Rejected
		return o
	}
	o.accepted = true
	var b strings.Builder
	fmt.Fprintf(&b, "initialHeight=%d apphash=%X validators=%d", run.ReqInitialHeight, run.AppHash, len(run.Init.Validators))
	o.detail = append(o.detail, b.String())
	for i, tr := range run.Init.TxResponses {
		s := fmt.Sprintf("tx[%d] %s", i, chainx.ResKey(tr))
		o.detail = append(o.detail, s)
		b.WriteString("|" + s)
	}
	o.key = b.String()
	return o
}

// rejection texts may embed paths of the cache; compare them after normalising
func normReject(s string) string {
	s = strings.ReplaceAll(s, work, "")
	if i := strings.Index(s, "\nstack:"); i >= 0 {
		s = s[:i]
	}
	if len(s) > 300 {
		s = s[:300]
	}
	return s
}

func runDoc(n int, ids []int) {
	r.Eval()
	doc, gs := base()
	var names []string
	invalid := false
	for _, i := range ids {
		comps[i].apply(doc, gs)
		names = append(names, comps[i].id)
		invalid = invalid || comps[i].invalid
	}
	label := strings.Join(names, "+")
	if label == "" {
		label = "(baseline)"
	}
	doc.AppState = *gs
	dir := filepath.Join(work, fmt.Sprintf("g%04d", n))
	os.RemoveAll(dir)
	os.MkdirAll(dir, 0o755)
	path := filepath.Join(dir, "genesis.json")
	if err := doc.SaveAs(path); err != nil {
		r.HarnessError("cannot write genesis %s: %v", label, err)
	}
	var obs []obsv
	apply := func(mode string, d *bft.GenesisDoc, loadErr error) {
		nApps.Add(1)
		if loadErr != nil {
			obs = append(obs, canon(mode, loadErr.Error(), chainx.GenesisRun{}))
			return
		}
		obs = append(obs, canon(mode, "", chainx.InitFromDoc(chainx.NewMemPebble(), d)))
	}
	apply("mem#1", doc, nil)
	apply("mem#2", doc, nil)
	fd, ferr := bft.GenesisDocFromFile(path)
	apply("file", fd, ferr)
	for k := 1; k <= 2; k++ {
		sd, serr := gnoland.LoadStreamingGenesisDoc(path, filepath.Join(dir, "cache"), log.NewNoopLogger())
		apply(fmt.Sprintf("strm#%d", k), sd, serr)
	}
	// oracle
	det := func() map[string]any {
		m := map[string]any{"genesis": label, "file": path}
		for _, o := range obs {
			if o.accepted {
				m[o.mode] = o.detail
			} else {
				m[o.mode] = normReject(o.key)
			}
		}
		return m
	}
	acc := 0
	for _, o := range obs {
		if o.accepted {
			acc++
		}
	}
	class := "accepted"
	switch {
	case acc == 0:
		class = "rejected-by-all"
	case acc < len(obs):
		class = "MIXED"
	}
	r.Outcome(class)
	r.Distinct(label + "|" + class)
	if invalid && acc == len(obs) {
		r.Outcome("invalid-document-accepted-by-all")
	}
	if acc != 0 && acc != len(obs) {
		var who []string
		for _, o := range obs {
			if !o.accepted {
				who = append(who, o.mode)
			}
		}
		sort.Strings(who)
		// key by the invalid components of the document (the rest of the document is in the detail)
		var inv []string
		for _, i := range ids {
			if comps[i].invalid {
				inv = append(inv, comps[i].id)
			}
		}
		what := strings.Join(inv, "+")
		if what == "" {
			what = label
		}
		r.Violation("representations-disagree-on-accepting:"+what+":rejected-only-by="+strings.Join(dedupModes(who), ","), det())
		return
	}
	ref := obs[0]
	for _, o := range obs[1:] {
		if acc == 0 {
			if normReject(o.key) != normReject(ref.key) {
				r.Outcome("rejected-by-all-with-different-reasons:" + label)
			}
			continue
		}
		if o.key == ref.key {
			continue
		}
		if o.run.ReqInitialHeight != ref.run.ReqInitialHeight {
			// one class: the document's initial height does not reach the application in this representation
			r.Violation(fmt.Sprintf("genesis-initial-height-differs-between-representations:%s=%d-vs-%s=%d", modeClass(ref.mode), ref.run.ReqInitialHeight,
				modeClass(o.mode), o.run.ReqInitialHeight), det())
		}
		if strings.Join(o.detail[1:], "|") != strings.Join(ref.detail[1:], "|") {
			r.Violation(fmt.Sprintf("representations-differ(tx-responses):%s:%s-vs-%s", label, modeClass(ref.mode), modeClass(o.mode)), det())
			return
		}
		if string(o.run.AppHash) != string(ref.run.AppHash) {
			r.Violation(fmt.Sprintf("representations-differ(app-hash):%s:%s-vs-%s", label, modeClass(ref.mode), modeClass(o.mode)), det())
			return
		}
	}
	if n < 3 {
		sampleSlots[n] = map[string]any{"genesis": label, "result": obs[0].detail}
	}
}

func modeClass(m string) string { return strings.SplitN(m, "#", 2)[0] }

func dedupModes(ms []string) []string {
	seen := map[string]bool{}
	var out []string
	for _, m := range ms {
		if c := modeClass(m); !seen[c] {
			seen[c] = true
			out = append(out, c)
		}
	}
	return out
}

func main() {
	debug.SetGCPercent(400)
	r = vk.New("exploration")
	r.SetBudget(6*time.Minute, 28*time.Minute)
	_ = amino.MustMarshalJSON
	_ = vm.DefaultGenesisState
	os.MkdirAll(work, 0o755)

	var docs [][]int
	docs = append(docs, nil)
	for i := range comps {
		docs = append(docs, []int{i})
	}
	// pairs: quick = all pairs over a core subset + every component paired with the realm deployment; thorough = all pairs
	core := []int{compIdx("bal-repeated-address"), compIdx("tx-addpkg-realm"), compIdx("tx-call-gen"), compIdx("realm-params"), compIdx("initial-height-5")}
	if r.Thorough() {
		core = append(core, compIdx("bal-vesting-continuous"), compIdx("tx-failing-typecheck"))
	}
	inCore := map[int]bool{}
	for _, c := range core {
		inCore[c] = true
	}
	for i := range comps {
		for j := range comps {
			if i == j || comps[i].invalid && comps[j].invalid {
				continue
			}
			ordered := strings.HasPrefix(comps[i].id, "tx-") && strings.HasPrefix(comps[j].id, "tx-") // tx order matters
			if !ordered && j < i {
				continue
			}
			if r.Thorough() || (inCore[i] && inCore[j]) {
				docs = append(docs, []int{i, j})
			}
		}
	}
	// everything valid at once (menu order), and the tx components in all orders of a 3-subset
	var all []int
	for i, c := range comps {
		if !c.invalid && c.id != "initial-height-1" && c.id != "bal-plain-after-vesting-same-address" {
			all = append(all, i)
		}
	}
	docs = append(docs, all)
	t3 := []int{compIdx("tx-addpkg-realm"), compIdx("tx-call-gen"), compIdx("tx-send-with-metadata")}
	for _, p := range [][]int{{0, 1, 2}, {0, 2, 1}, {1, 0, 2}, {1, 2, 0}, {2, 0, 1}, {2, 1, 0}} {
		docs = append(docs, []int{t3[p[0]], t3[p[1]], t3[p[2]]})
	}
	if r.Thorough() {
		for a := 0; a < len(core); a++ {
			for b := a + 1; b < len(core); b++ {
				for c := b + 1; c < len(core); c++ {
					docs = append(docs, []int{core[a], core[b], core[c]})
				}
			}
		}
	}
	r.Sample(map[string]any{"documents": len(docs), "components": len(comps)})
	r.ParFor(len(docs), func(i int) { runDoc(i, docs[i]) })
	for _, sl := range sampleSlots {
		if sl != nil {
			r.Sample(sl)
		}
	}
	r.Assumptions = []string{
		"each representation is driven through chainx.InitFromDoc, which mimics the node: GenesisDoc.ValidateAndComplete (state.MakeGenesisState), RequestInitChain built like consensus.Handshaker (InitialHeight, validators, consensus params, AppState from the document), first Commit",
		"genesis txs are unsigned (gnoland.TestAppOptions: SkipGenesisSigVerification) and no validators are declared; the documents are written with GenesisDoc.SaveAs (amino JSON)",
		"rejection = document validation error, loader error, ResponseInitChain.Error or a panic of InitChain/Commit",
	}
	r.Finish("genesis documents = baseline, every component alone, pairs (quick: over a 5-component core; thorough: all; both orders for tx components), all valid components together, all 6 orders of a 3-tx subset (thorough: + all core triples); each applied 5 times: in-memory object x2, JSON file via GenesisDocFromFile, streamed via LoadStreamingGenesisDoc x2 (cold and warm cache); distinct = distinct (document, outcome class)",
		true, map[string]any{"documents": len(docs), "applications": nApps.Load(), "representations": 3})
}
