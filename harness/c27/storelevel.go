package main

// Store-level crash enumeration (no VM, no ABCI): the multistore exactly as gno.land mounts it
// (gno.land/pkg/gnoland/app.go: main = store/bptree FastStoreConstructor, base = dbadapter, both
// MountStoreWithDB(key, cons, db) on the root DB) on crashdb.  Blocks are staged like BaseApp does (cache
// multistore -> MultiWrite -> Commit).  What the app-level scenarios cannot afford is affordable here: commits at
// several SCALES (small, > 64 KiB, > 1 MiB as one value / as many values / main store only, > 4 MiB), every ordered
// pair of them, under every pruning strategy; the crash-point set is still every prefix of the physical write log.
// A commit that reaches the DB in one atomic batch contributes one unit; whatever splits it contributes its extra
// units as crash points automatically.

import (
	"crypto/sha256"
	"fmt"
	"sort"
	"strings"
	"sync"

	dbm "github.com/gnolang/gno/tm2/pkg/db"
	storebptree "github.com/gnolang/gno/tm2/pkg/store/bptree"
	"github.com/gnolang/gno/tm2/pkg/store/dbadapter"
	"github.com/gnolang/gno/tm2/pkg/store/rootmulti"
	"github.com/gnolang/gno/tm2/pkg/store/types"
	"verif/engine/crashdb"
	"verif/engine/vk"
)

// shape = how much one block writes.  minBytes is the scale the shape must reach in the physical commit (asserted).
type shape struct {
	name          string
	mainN, mainSz int
	baseN, baseSz int
	minBytes      int
	maxBytes      int
}

var shapes = []shape{
	{"s", 4, 32, 4, 32, 0, 64 << 10},              // small block
	{"m", 24, 4096, 24, 4096, 64 << 10, 1 << 20},  // > 64 KiB
	{"B", 2, 32, 1, 1536 << 10, 1 << 20, 4 << 20}, // > 1 MiB: ONE big value in the base store
	{"M", 200, 4096, 2, 32, 1 << 20, 4 << 20},     // > 1 MiB: main store only (values + index copies + nodes)
	{"L", 160, 4096, 160, 4096, 1 << 20, 4 << 20}, // > 1 MiB: many values, both stores
	{"H", 220, 8192, 220, 8192, 4 << 20, 1 << 30}, // > 4 MiB
}

const universe = 220

type pruneOpt struct {
	name string
	opts types.PruningOptions
}

var pruneOpts = []pruneOpt{
	{"syncable", types.PruneSyncableStrategy.Options()},
	{"everything", types.PruneEverythingStrategy.Options()},
	{"nothing", types.PruneNothingStrategy.Options()},
	{"recent2", types.PruningOptions{KeepRecent: 2, KeepEvery: 0}},
}

var (
	slMainKey = types.NewStoreKey("main")
	slBaseKey = types.NewStoreKey("base")
)

func slOpen(db dbm.DB, p pruneOpt) (ms types.CommitMultiStore, err error) {
	if rec := vk.Catch(func() {
		m := rootmulti.NewMultiStore(db)
		m.SetStoreOptions(types.StoreOptions{PruningOptions: p.opts})
		m.MountStoreWithDB(slMainKey, storebptree.FastStoreConstructor, db)
		m.MountStoreWithDB(slBaseKey, dbadapter.StoreConstructor, db)
		err = m.LoadLatestVersion()
		ms = m
	}); rec != nil {
		return nil, fmt.Errorf("panic: %v", rec)
	}
	return
}

func slVal(blk, i, sz int, store byte) []byte {
	v := make([]byte, sz)
	x := uint64(blk)*0x9E3779B97F4A7C15 ^ uint64(i)*0xBF58476D1CE4E5B9 ^ uint64(store)<<56
	for p := 0; p < sz; p += 8 {
		x += 0x9E3779B97F4A7C15
		z := x
		z = (z ^ (z >> 30)) * 0xBF58476D1CE4E5B9
		z = (z ^ (z >> 27)) * 0x94D049BB133111EB
		z ^= z >> 31
		for q := 0; q < 8 && p+q < sz; q++ {
			v[p+q] = byte(z >> (8 * q))
		}
	}
	copy(v, fmt.Sprintf("b%d.%c%d|", blk, store, i))
	return v
}

func mainKeyOf(i int) []byte { return []byte(fmt.Sprintf("key%04d", i)) }
func baseKeyOf(i int) []byte { return []byte(fmt.Sprintf("obj:%04d", i)) }

// slStage stages block blk of shape sh: in-place overwrites in both stores, a few deletions in both, one header key.
func slStage(cms types.MultiStore, blk int, sh shape) {
	mainSt, baseSt := cms.GetStore(slMainKey), cms.GetStore(slBaseKey)
	baseSt.Set(nil, []byte("obj:hdr"), []byte(fmt.Sprintf("header-of-block-%d", blk)))
	for i := 0; i < sh.mainN; i++ {
		if blk > 1 && (i+blk)%7 == 0 {
			mainSt.Delete(nil, mainKeyOf(i))
		} else {
			mainSt.Set(nil, mainKeyOf(i), slVal(blk, i, sh.mainSz, 'm'))
		}
	}
	for i := 0; i < sh.baseN; i++ {
		if blk > 1 && (i+blk)%5 == 0 {
			baseSt.Delete(nil, baseKeyOf(i))
		} else {
			baseSt.Set(nil, baseKeyOf(i), slVal(blk, i, sh.baseSz, 'b'))
		}
	}
}

func slCommit(ms types.CommitMultiStore, blk int, sh shape) (cid types.CommitID, err error) {
	if rec := vk.Catch(func() {
		cms := ms.MultiCacheWrap()
		slStage(cms, blk, sh)
		cms.MultiWrite()
		cid = ms.Commit()
	}); rec != nil {
		err = fmt.Errorf("panic: %v", rec)
	}
	return
}

func digest(b []byte) string {
	if b == nil {
		return "-"
	}
	h := sha256.Sum256(b)
	return fmt.Sprintf("%d:%x", len(b), h[:8])
}

// slObserve reads the whole logical state through the multistore: Get of every key of the universe (the main store
// serves Get through the fast index) and the iteration of both stores (leaf walk / raw range).
func slObserve(ms types.CommitMultiStore) (obs map[string]string, err error) {
	obs = map[string]string{}
	if rec := vk.Catch(func() {
		mainSt, baseSt := ms.GetStore(slMainKey), ms.GetStore(slBaseKey)
		for i := 0; i < universe; i++ {
			obs["get main/"+string(mainKeyOf(i))] = digest(mainSt.Get(nil, mainKeyOf(i)))
			obs["get base/"+string(baseKeyOf(i))] = digest(baseSt.Get(nil, baseKeyOf(i)))
		}
		obs["get base/obj:hdr"] = digest(baseSt.Get(nil, []byte("obj:hdr")))
		it := mainSt.Iterator(nil, nil, nil)
		for ; it.Valid(); it.Next() {
			obs["iter main/"+string(it.Key())] = digest(it.Value())
		}
		it.Close()
		// the base store shares the raw DB with the tree's physical records: iterate the logical key range only
		it = baseSt.Iterator(nil, []byte("obj:"), []byte("obj;"))
		for ; it.Valid(); it.Next() {
			obs["iter base/"+string(it.Key())] = digest(it.Value())
		}
		it.Close()
	}); rec != nil {
		err = fmt.Errorf("panic: %v", rec)
	}
	return
}

func obsDiff(got, want map[string]string) string {
	var ks []string
	for k := range got {
		ks = append(ks, k)
	}
	for k := range want {
		if _, ok := got[k]; !ok {
			ks = append(ks, k)
		}
	}
	sort.Strings(ks)
	n, first := 0, ""
	for _, k := range ks {
		g, gok := got[k]
		w, wok := want[k]
		if g != w || gok != wok {
			if n == 0 {
				first = fmt.Sprintf("%s = %s, want %s", k, orAbsent(g, gok), orAbsent(w, wok))
			}
			n++
		}
	}
	if n == 0 {
		return ""
	}
	return fmt.Sprintf("%d observation(s) differ, first: %s", n, first)
}

func orAbsent(s string, ok bool) string {
	if !ok {
		return "(not iterated)"
	}
	return s
}

type slFinding struct {
	class, prune, seq string
	k, n              int
	detail            string
	weight            int // bytes written by the sequence: the reported case per class is the lightest one
}

type slStats struct {
	mu             sync.Mutex
	findings       []slFinding
	runs           int
	points         int
	commitBytes    map[string][2]int // shape -> min,max physical bytes of its commit
	unitsPerCommit map[int]int
}

// slRun plays one block sequence under one pruning option, then enumerates every prefix of its physical write log.
func slRun(r *vk.Run, p pruneOpt, seq []shape, st *slStats) {
	var names []string
	for _, sh := range seq {
		names = append(names, sh.name)
	}
	seqName := strings.Join(names, ",")
	add := func(class string, k, n int, detail string) {
		st.mu.Lock()
		w := 0
		for _, sh := range seq {
			w += sh.mainN*sh.mainSz + sh.baseN*sh.baseSz
		}
		st.findings = append(st.findings, slFinding{class, p.name, seqName, k, n, detail, w})
		st.mu.Unlock()
	}
	db := crashdb.New()
	ms, err := slOpen(db, p)
	if err != nil {
		r.HarnessError("store-level: open: %v", err)
	}
	boundary := []int{0}
	hashes := [][]byte{nil}
	obs := []map[string]string{{}}
	o0, _ := slObserve(ms)
	obs[0] = o0
	for bi, sh := range seq {
		before := db.NumUnits()
		cid, err := slCommit(ms, bi+1, sh)
		if err != nil {
			r.HarnessError("store-level: reference commit %s block %d: %v", seqName, bi+1, err)
		}
		if cid.Version != int64(bi+1) {
			r.HarnessError("store-level: reference commit returned version %d, want %d", cid.Version, bi+1)
		}
		bytes := 0
		for _, u := range db.Units[before:] {
			for _, o := range u.Ops {
				bytes += len(o.K) + len(o.V)
			}
		}
		if bytes <= sh.minBytes || bytes > sh.maxBytes {
			r.HarnessError("store-level: shape %s commits %d physical bytes, outside its scale (%d, %d]", sh.name, bytes, sh.minBytes, sh.maxBytes)
		}
		st.mu.Lock()
		mm, ok := st.commitBytes[sh.name]
		if !ok || bytes < mm[0] {
			mm[0] = bytes
		}
		if bytes > mm[1] {
			mm[1] = bytes
		}
		st.commitBytes[sh.name] = mm
		st.unitsPerCommit[db.NumUnits()-before]++
		st.mu.Unlock()
		boundary = append(boundary, db.NumUnits())
		hashes = append(hashes, cid.Hash)
		o, err := slObserve(ms)
		if err != nil {
			r.HarnessError("store-level: reference read: %v", err)
		}
		obs = append(obs, o)
	}
	units := db.Units
	N := len(seq)
	st.mu.Lock()
	st.runs++
	st.mu.Unlock()
	for k := 0; k <= len(units); k++ {
		r.Eval()
		st.mu.Lock()
		st.points++
		st.mu.Unlock()
		lo := 0
		for h, b := range boundary {
			if b <= k {
				lo = h
			}
		}
		cdb := crashdb.Rebuild(units, k)
		cms, err := slOpen(cdb, p)
		if err != nil {
			add("reopen-fails", k, len(units), firstLine(err.Error()))
			continue
		}
		V := int(cms.LastCommitID().Version)
		if V != lo && V != lo+1 || V > N {
			add("not-previous-or-new", k, len(units), fmt.Sprintf("reopened at version %d, last fully written commit %d", V, lo))
			continue
		}
		r.Distinct(fmt.Sprintf("store|%s|%s|k=%d|v=%d", p.name, seqName, k, V))
		r.Outcome(fmt.Sprintf("store:reopened-at-version-%d", V))
		if string(cms.LastCommitID().Hash) != string(hashes[V]) {
			add("apphash-after-crash", k, len(units), fmt.Sprintf("version %d hash %X, uncrashed run %X", V, cms.LastCommitID().Hash, hashes[V]))
			continue
		}
		o, err := slObserve(cms)
		if err != nil {
			add("read-fails-after-crash", k, len(units), firstLine(err.Error()))
			continue
		}
		if d := obsDiff(o, obs[V]); d != "" {
			add("contents-after-crash", k, len(units), fmt.Sprintf("reopened at version %d (crash inside the commit of %d): %s", V, lo+1, d))
			continue
		}
		// continue the chain from the recovered state: same blocks, same hashes, same final contents
		ok := true
		for b := V + 1; b <= N && ok; b++ {
			cid, err := slCommit(cms, b, seq[b-1])
			switch {
			case err != nil:
				add("continuation-fails", k, len(units), fmt.Sprintf("block %d: %s", b, firstLine(err.Error())))
				ok = false
			case cid.Version != int64(b) || string(cid.Hash) != string(hashes[b]):
				add("continuation-apphash", k, len(units), fmt.Sprintf("block %d committed as version %d hash %X, uncrashed run %X", b, cid.Version, cid.Hash, hashes[b]))
				ok = false
			}
		}
		if ok && V < N {
			o, err := slObserve(cms)
			if err != nil {
				add("continuation-fails", k, len(units), firstLine(err.Error()))
			} else if d := obsDiff(o, obs[N]); d != "" {
				add("continuation-contents", k, len(units), d)
			}
		}
	}
}

// storeLevel enumerates: every pruning option x every block sequence  s X Y s  (X, Y over all shapes; the leading
// small block gives pruning a predecessor, the trailing one is re-executed by the continuation), thorough: s X Y Z s.
func storeLevel(r *vk.Run, workers int) map[string]any {
	st := &slStats{commitBytes: map[string][2]int{}, unitsPerCommit: map[int]int{}}
	type job struct {
		p   pruneOpt
		seq []shape
	}
	var jobs []job
	for _, p := range pruneOpts {
		for _, x := range shapes {
			for _, y := range shapes {
				if r.Thorough() {
					for _, z := range shapes {
						jobs = append(jobs, job{p, []shape{shapes[0], x, y, z, shapes[0]}})
					}
				} else {
					jobs = append(jobs, job{p, []shape{shapes[0], x, y, shapes[0]}})
				}
			}
		}
	}
	// heaviest first
	weight := func(j job) int {
		w := 0
		for _, s := range j.seq {
			w += s.mainN*s.mainSz*2 + s.baseN*s.baseSz
		}
		return w
	}
	sort.SliceStable(jobs, func(a, b int) bool { return weight(jobs[a]) > weight(jobs[b]) })
	var wg sync.WaitGroup
	ch := make(chan job)
	for w := 0; w < workers; w++ {
		wg.Add(1)
		go func() {
			defer wg.Done()
			for j := range ch {
				slRun(r, j.p, j.seq, st)
			}
		}()
	}
	for _, j := range jobs {
		ch <- j
	}
	close(ch)
	wg.Wait()
	// per class: the lightest failing case (then pruning name, sequence, crash point)
	best := map[string]slFinding{}
	less := func(a, b slFinding) bool {
		if a.weight != b.weight {
			return a.weight < b.weight
		}
		if a.prune != b.prune {
			return a.prune < b.prune
		}
		if a.seq != b.seq {
			return a.seq < b.seq
		}
		return a.k < b.k
	}
	count := map[string]int{}
	for _, f := range st.findings {
		count[f.class]++
		if b, ok := best[f.class]; !ok || less(f, b) {
			best[f.class] = f
		}
	}
	var cls []string
	for c := range best {
		cls = append(cls, c)
	}
	sort.Strings(cls)
	for _, c := range cls {
		f := best[c]
		r.Violation(fmt.Sprintf("store:%s:prune=%s:blocks=%s:unit=%d/%d", f.class, f.prune, f.seq, f.k, f.n),
			map[string]any{"level": "store", "class": f.class, "prune": f.prune, "blocks": f.seq, "crash_after_units": f.k, "units_total": f.n, "detail": f.detail, "cases_in_class": count[f.class]})
	}
	var shp []map[string]any
	for _, s := range shapes {
		mm := st.commitBytes[s.name]
		shp = append(shp, map[string]any{"shape": s.name, "main_writes": fmt.Sprintf("%d x %d B", s.mainN, s.mainSz), "base_writes": fmt.Sprintf("%d x %d B", s.baseN, s.baseSz),
			"physical_commit_bytes_min": mm[0], "physical_commit_bytes_max": mm[1]})
	}
	upc := map[string]int{}
	for k, v := range st.unitsPerCommit {
		upc[fmt.Sprintf("%d", k)] = v
	}
	var pn []string
	for _, p := range pruneOpts {
		pn = append(pn, fmt.Sprintf("%s(KeepRecent=%d,KeepEvery=%d)", p.name, p.opts.KeepRecent, p.opts.KeepEvery))
	}
	return map[string]any{"mounts": "main=store/bptree.FastStoreConstructor, base=dbadapter.StoreConstructor, both MountStoreWithDB(key, cons, rootDB)",
		"pruning": pn, "shapes": shp, "sequences": len(jobs), "crash_points": st.points, "physical_units_per_commit_histogram": upc}
}
