// C27: a crash during commit never leaves a torn state (fault_enumeration).
//
// The real gno.land app runs genesis + N blocks on crashdb (memdb that logs every physical write unit; a
// Batch.Write/WriteSync is one atomic unit, as on every production backend). The log is recorded once;
// then for EVERY prefix of the log a fresh DB holding exactly that prefix is built, the app is re-opened
// on it (LoadLatestVersion + VM Initialize, as after a process kill) and must come up at exactly the
// previous or the new committed version: LastBlockHeight/app hash equal to the uncrashed run's at that
// height, full semantic store dump equal, and re-executing the remaining blocks (same tx bytes) must
// reproduce the same tx results and app hashes. Any write that reaches the DB outside a commit's single
// batch shows up as an extra unit and is therefore itself a crash point.
//
// Commit SCALE is a dimension of its own: the blocks of the app-level scenarios commit < 64 KiB, > 64 KiB, > 1 MiB
// and > 4 MiB (realm objects holding 32 KiB strings: created, overwritten in place, several txs per block), and
// storelevel.go repeats the enumeration without the VM on the multistore mounted exactly like gno.land's, for every
// ordered pair of commit scales under every pruning strategy.
package main

import (
	"flag"
	"fmt"
	"os"
	"runtime/debug"
	"strings"
	"sync"
	"time"

	"github.com/gnolang/gno/gno.land/pkg/sdk/vm"
	"github.com/gnolang/gno/tm2/pkg/amino"
	abci "github.com/gnolang/gno/tm2/pkg/bft/abci/types"
	"github.com/gnolang/gno/tm2/pkg/sdk/bank"
	"github.com/gnolang/gno/tm2/pkg/std"
	"github.com/gnolang/gno/tm2/pkg/store/types"
	"verif/engine/chainx"
	"verif/engine/crashdb"
	"verif/engine/vk"
)

const stPath = "gno.land/r/verif/st"

const realmSt = `package st

var (
	val   string
	items []*item
)

type item struct{ s string }

func Write(cur realm, v string) string { val = v; return val }
func Grow(cur realm, n int) int {
	for i := 0; i < n; i++ {
		items = append(items, &item{s: "xxxxxxxxxxxxxxxxxxxxxxxxxxxxxxxx"})
	}
	return len(items)
}
func Shrink(cur realm) int { items = nil; return 0 }

// big commits: every blob is an object of its own holding a kib KiB string
type blob struct{ s string }

var blobs []*blob

func Fill(cur realm, n int, kib int, tag string) int {
	s := tag + "0123456789abcdef"
	for len(s) < kib*1024 {
		s = s + s
	}
	for i := 0; i < n; i++ {
		blobs = append(blobs, &blob{s: s})
	}
	return len(blobs)
}

// Refill overwrites every blob in place.
func Refill(cur realm, tag string) int {
	for _, b := range blobs {
		b.s = tag + b.s[len(tag):]
	}
	return len(blobs)
}
`

var (
	A, B = chainx.NewKey("A"), chainx.NewKey("B")
	keys = []chainx.Key{A, B}
)

func coins(n int64) std.Coins { return std.Coins{std.NewCoin("ugnot", n)} }

type scenario struct {
	name   string
	prune  types.PruneStrategy
	blocks [][]func(c *chainx.Chain) std.Tx
	scale  []int // scale[i] = physical bytes the commit of block i+1 must exceed (asserted on the reference run)
}

func call(k chainx.Key, fn string, args ...string) func(c *chainx.Chain) std.Tx {
	return func(c *chainx.Chain) std.Tx {
		return c.MakeTx(keys, []std.Msg{chainx.Call(k.Addr, nil, stPath, fn, args...)}, chainx.TxOpt{})
	}
}

// bigCall: a call that stores / overwrites MiBs: large gas allowance and an explicit storage deposit.
func bigCall(k chainx.Key, fn string, args ...string) func(c *chainx.Chain) std.Tx {
	return func(c *chainx.Chain) std.Tx {
		m := vm.NewMsgCall(k.Addr, nil, stPath, fn, args)
		m.MaxDeposit = coins(5_000_000_000)
		return c.MakeTx(keys, []std.Msg{m}, chainx.TxOpt{GasWanted: 2_000_000_000, FeeAmount: 50_000_000})
	}
}

func scenarios(thorough bool) []scenario {
	deploy := func(c *chainx.Chain) std.Tx {
		return c.MakeTx(keys, []std.Msg{chainx.AddPkg(B.Addr, "gno.land/r/verif/late", map[string]string{"a.gno": "package late\n\nvar N int\n\nfunc Inc(cur realm) int { N++; return N }\n"})}, chainx.TxOpt{})
	}
	send := func(c *chainx.Chain) std.Tx {
		return c.MakeTx(keys, []std.Msg{bank.MsgSend{FromAddress: A.Addr, ToAddress: B.Addr, Amount: coins(777)}}, chainx.TxOpt{})
	}
	inc := func(c *chainx.Chain) std.Tx {
		return c.MakeTx(keys, []std.Msg{chainx.Call(A.Addr, nil, "gno.land/r/verif/late", "Inc")}, chainx.TxOpt{})
	}
	fail := func(c *chainx.Chain) std.Tx {
		return c.MakeTx(keys, []std.Msg{bank.MsgSend{FromAddress: B.Addr, ToAddress: A.Addr, Amount: coins(900_000_000_000_000)}}, chainx.TxOpt{})
	}
	base := [][]func(c *chainx.Chain) std.Tx{
		{call(A, "Write", "one"), call(B, "Grow", "5")},
		{deploy, send},
		{call(A, "Shrink"), inc, fail},
		{},
		{call(B, "Write", "two"), inc},
	}
	// the same blocks with commits at several scales (crash-point count per scenario unchanged):
	//   A: small | > 64 KiB | > 1 MiB | empty        B: small | > 1 MiB | > 4 MiB (in-place overwrite + 3 txs) | empty
	with := func(blk []func(c *chainx.Chain) std.Tx, more ...func(c *chainx.Chain) std.Tx) []func(c *chainx.Chain) std.Tx {
		return append(append([]func(c *chainx.Chain) std.Tx{}, blk...), more...)
	}
	scaleA := [][]func(c *chainx.Chain) std.Tx{
		base[0],
		with(base[1], bigCall(A, "Fill", "3", "32", "a2")),
		with(base[2], bigCall(B, "Fill", "40", "32", "a3")),
		base[3],
		with(base[4], bigCall(A, "Refill", "a5")),
	}
	scaleB := [][]func(c *chainx.Chain) std.Tx{
		base[0],
		with(base[1], bigCall(A, "Fill", "40", "32", "b2")),
		with(base[2], bigCall(B, "Refill", "B3"), bigCall(A, "Fill", "40", "32", "b3"), bigCall(B, "Fill", "40", "32", "c3"), bigCall(A, "Fill", "16", "32", "d3")),
		base[3],
		with(base[4], bigCall(A, "Refill", "b5")),
	}
	scA := []int{0, 64 << 10, 1 << 20, 0, 1 << 20}
	scB := []int{0, 1 << 20, 4 << 20, 0, 4 << 20}
	scs := []scenario{
		{"syncable", types.PruneSyncableStrategy, scaleA[:4], scA},
		{"prune-everything", types.PruneEverythingStrategy, scaleB[:4], scB},
	}
	if thorough {
		scs = append(scs, scenario{"prune-nothing-5-blocks", types.PruneNothingStrategy, scaleB, scB},
			scenario{"prune-everything-5-blocks", types.PruneEverythingStrategy, scaleA, scA},
			scenario{"syncable-5-blocks-small", types.PruneSyncableStrategy, base, nil})
	}
	return scs
}

func spec(p types.PruneStrategy) chainx.Spec {
	s := chainx.Spec{Keys: keys, Fund: 1_000_000_000_000, Prune: p}
	s.GenesisTxs = []std.Tx{{
		Msgs:       []std.Msg{chainx.AddPkg(A.Addr, stPath, map[string]string{"st.gno": realmSt})},
		Fee:        std.NewFee(100_000_000, std.NewCoin("ugnot", 1_000_000)),
		Signatures: []std.Signature{{}},
	}}
	return s
}

type ref struct {
	txErrors    []string
	commitBytes []int      // physical bytes (keys+values) written by the commit of height h
	boundary    []int      // boundary[h] = number of log units after the commit of height h (h=0: genesis)
	hash        [][]byte   // app hash per height
	dump        []string   // HashDump of committed state per height
	txs         [][][]byte // tx bytes per block (index = height-1)
	results     [][]string // ResKey per tx per block
	units       []crashdb.Unit
}

var r *vk.Run

func reference(sc scenario) (*ref, error) {
	db := crashdb.New()
	c, err := chainx.New(db, spec(sc.prune))
	if err != nil {
		return nil, err
	}
	for _, tr := range c.Init.TxResponses {
		if tr.Error != nil {
			return nil, fmt.Errorf("genesis tx failed: %v", tr.Log)
		}
	}
	rf := &ref{}
	rf.boundary = append(rf.boundary, db.NumUnits())
	rf.commitBytes = append(rf.commitBytes, 0)
	rf.hash = append(rf.hash, c.Base.LastCommitID().Hash)
	rf.dump = append(rf.dump, chainx.HashDump(c.Dump()))
	for _, blk := range sc.blocks {
		c.BeginBlock()
		var bz [][]byte
		var rs []string
		for _, mk := range blk {
			tx := mk(c)
			b := amino.MustMarshal(tx)
			bz = append(bz, b)
			res := c.DeliverRaw(b)
			rs = append(rs, chainx.ResKey(res))
			if res.Error != nil {
				rf.txErrors = append(rf.txErrors, fmt.Sprintf("block %d tx %d: %s", len(rf.txs)+1, len(rs)-1, firstLine(res.Log)))
			}
		}
		before := db.NumUnits()
		_, h := c.EndBlockCommit()
		nb := 0
		for _, u := range db.Units[before:] {
			for _, o := range u.Ops {
				nb += len(o.K) + len(o.V)
			}
		}
		rf.commitBytes = append(rf.commitBytes, nb)
		if i := len(rf.txs); i < len(sc.scale) && nb <= sc.scale[i] {
			return nil, fmt.Errorf("block %d commits %d physical bytes, scenario wants > %d (failed txs: %v)", i+1, nb, sc.scale[i], rf.txErrors)
		}
		rf.txs = append(rf.txs, bz)
		rf.results = append(rf.results, rs)
		rf.boundary = append(rf.boundary, db.NumUnits())
		rf.hash = append(rf.hash, h)
		rf.dump = append(rf.dump, chainx.HashDump(c.Dump()))
	}
	rf.units = db.Units
	return rf, nil
}

// crashAt rebuilds the DB from units[:k], reopens the app and checks the property.
func crashAt(sc scenario, rf *ref, units []crashdb.Unit, k int, label string) {
	r.Eval()
	// the height whose commit contains unit k (units in [boundary[h-1], boundary[h]) belong to the commit of h)
	db := crashdb.Rebuild(units, k)
	c := &chainx.Chain{Spec: spec(sc.prune), DB: db}
	var reopenErr any
	func() {
		defer func() {
			if rec := recover(); rec != nil {
				reopenErr = rec
			}
		}()
		if err := c.Restart(); err != nil {
			reopenErr = err
		}
	}()
	key := fmt.Sprintf("%s:%s", sc.name, label)
	if reopenErr != nil {
		r.Violation("reopen-fails:"+key, map[string]any{"scenario": sc.name, "crash_after_units": k, "error": firstLine(fmt.Sprint(reopenErr))})
		return
	}
	// chainx commits the genesis state as store version 1 (as the repo's own app tests do), so store
	// version v corresponds to chain index v-1 (index 0 = genesis)
	h := c.Base.LastBlockHeight() - 1
	c.Height = h
	// LastTime must follow the reference clock: genesis time + 5s per block
	c.LastTime = time.Unix(1_700_000_000, 0).UTC().Add(time.Duration(h) * 5 * time.Second)
	if h < 0 || int(h) >= len(rf.hash) {
		r.Violation("unknown-height:"+key, map[string]any{"scenario": sc.name, "crash_after_units": k, "height": h})
		return
	}
	r.Outcome(fmt.Sprintf("reopened-at-height-%d", h))
	r.Distinct(fmt.Sprintf("%s|k=%d|h=%d", sc.name, k, h))
	got := c.Base.LastCommitID().Hash
	if string(got) != string(rf.hash[h]) {
		r.Violation("apphash-after-crash:"+key, map[string]any{"scenario": sc.name, "crash_after_units": k, "height": h, "got": fmt.Sprintf("%x", got), "want": fmt.Sprintf("%x", rf.hash[h])})
		return
	}
	if d := chainx.HashDump(c.Dump()); d != rf.dump[h] {
		r.Violation("contents-after-crash:"+key, map[string]any{"scenario": sc.name, "crash_after_units": k, "height": h})
		return
	}
	// the version found must be the previous or the new one of the commit that was in progress
	lo := 0
	for hh := range rf.boundary {
		if rf.boundary[hh] <= k {
			lo = hh
		}
	}
	if int(h) != lo && int(h) != lo+1 {
		r.Violation("not-previous-or-new:"+key, map[string]any{"scenario": sc.name, "crash_after_units": k, "height": h, "last_fully_committed": lo})
		return
	}
	// continue the chain: same tx bytes, same results, same hashes
	for hh := int(h) + 1; hh < len(rf.hash); hh++ {
		c.BeginBlock()
		for i, bz := range rf.txs[hh-1] {
			res := c.DeliverRaw(bz)
			if rk := chainx.ResKey(res); rk != rf.results[hh-1][i] {
				r.Violation("continuation-result:"+key, map[string]any{"scenario": sc.name, "crash_after_units": k, "height": hh, "tx": i, "got": rk + " " + firstLine(res.Log), "want": rf.results[hh-1][i]})
				return
			}
		}
		_, ah := c.EndBlockCommit()
		if string(ah) != string(rf.hash[hh]) {
			r.Violation("continuation-apphash:"+key, map[string]any{"scenario": sc.name, "crash_after_units": k, "height": hh})
			return
		}
	}
}

func firstLine(s string) string {
	if i := strings.IndexByte(s, '\n'); i >= 0 {
		s = s[:i]
	}
	if len(s) > 300 {
		s = s[:300]
	}
	return s
}

func abs(x abci.ResponseDeliverTx) {}

func main() {
	gcp := 400
	if v := os.Getenv("VERIF_GOGC"); v != "" {
		fmt.Sscan(v, &gcp)
	}
	debug.SetGCPercent(gcp)
	part := flag.String("part", "app,store", "which levels to run")
	r = vk.New("fault_enumeration")
	doApp, doStore := strings.Contains(*part, "app"), strings.Contains(*part, "store")
	if r.Thorough() && os.Getenv("VERIF_GOGC") == "" {
		debug.SetGCPercent(150) // ~28 app re-opens + 5 store-level workers with MiB-sized commits: 17 GB RSS at 400
	}
	r.SetBudget(240*time.Second, 25*time.Minute)
	// store-level enumeration runs beside the app-level one on a few workers of its own (the app-level crash points
	// are a handful of long single-threaded jobs)
	slCov := map[string]any{"crash_points": 0}
	var slWG sync.WaitGroup
	if doStore {
		slWG.Add(1)
		go func() {
			defer slWG.Done()
			t0 := time.Now()
			slCov = storeLevel(r, 5)
			slCov["wall_s"] = time.Since(t0).Seconds()
		}()
	}
	type job struct {
		sc    scenario
		rf    *ref
		units []crashdb.Unit
		k     int
		label string
	}
	var jobs []job
	scs := scenarios(r.Thorough())
	if !doApp {
		scs = nil
	}
	refs := make([]*ref, len(scs))
	errs := make([]error, len(scs))
	var wg sync.WaitGroup
	for i := range scs {
		wg.Add(1)
		go func(i int) {
			defer wg.Done()
			refs[i], errs[i] = reference(scs[i])
		}(i)
	}
	wg.Wait()
	var layout []map[string]any
	for i, sc := range scs {
		rf := refs[i]
		if errs[i] != nil {
			r.HarnessError("reference run %s: %v", sc.name, errs[i])
		}
		var kinds []string
		for i, u := range rf.units {
			if i >= rf.boundary[0] {
				kinds = append(kinds, fmt.Sprintf("%s(%d ops,sync=%v)", u.Kind, len(u.Ops), u.Sync))
			}
		}
		layout = append(layout, map[string]any{"scenario": sc.name, "units_total": len(rf.units), "boundaries": rf.boundary, "units_after_genesis": kinds,
			"physical_commit_bytes_per_block": rf.commitBytes[1:], "failed_txs": rf.txErrors})
		// every prefix from the genesis commit's last unit to the full log
		for k := rf.boundary[0]; k <= len(rf.units); k++ {
			// (before genesis is durable there is no committed version to come back to: InitChain is re-run by the node)
			jobs = append(jobs, job{sc, rf, rf.units, k, fmt.Sprintf("atomic-batch:k=%d", k-rf.boundary[0])})
		}
		r.Sample(map[string]any{"scenario": sc.name, "write_units_per_commit": kinds, "physical_commit_bytes_per_block": rf.commitBytes[1:]})
	}
	r.ParFor(len(jobs), func(i int) { j := jobs[i]; crashAt(j.sc, j.rf, j.units, j.k, j.label) })
	slWG.Wait()
	r.Assumptions = []string{
		"process-kill model: every completed physical write unit survives; a batch write is atomic (true for memdb, goleveldb, pebbledb, boltdb batches)",
		"crash points before the genesis commit is durable are out of scope (the node re-runs InitChain)",
		"state equality = app hash + full semantic dump of both stores through the multistore (store level: Get of every key of the key universe + iteration of both stores, values by length+SHA-256)",
		"app level, quick tier: pruning strategies syncable and everything (syncable keeps 705600 recent versions, i.e. behaves like nothing at this depth); nothing runs in the thorough tier; the store level runs syncable, everything, nothing and KeepRecent=2",
	}
	r.Finish("every prefix of the physical write log of genesis+N blocks of the real app (N=4 quick, 5 thorough; commits of < 64 KiB, > 64 KiB, > 1 MiB, > 4 MiB) and of every block sequence s,X,Y,s over 6 commit shapes x 4 pruning options at the store level; distinct = distinct (scenario, crash point, version found)",
		!r.Capped(), map[string]any{"crash_points": len(jobs) + slCov["crash_points"].(int), "app_level_crash_points": len(jobs), "layout": layout, "store_level": slCov})
}
