// C27: a crash during commit never leaves a torn state (fault_enumeration).
//
// The real gno.land app runs genesis + N blocks on crashdb (memdb that logs every physical write unit; a
// Batch.Write/WriteSync is one atomic unit, as on every production backend). The log is recorded once;
// then for EVERY prefix of the log a fresh DB holding exactly that prefix is built, the app is re-opened
// on it (LoadLatestVersion + VM Initialize, as after a process kill) and must come up at exactly the
// previous or the new committed version: LastBlockHeight/app hash equal to the uncrashed run's at that
// height, full semantic store dump equal, and re-executing the remaining blocks (same tx bytes) must
// reproduce the same tx results and app hashes. Any write that reaches the DB outside a commit's single
// batch shows up as an extra unit and is therefore itself a crash point.
package main

import (
	"fmt"
	"runtime/debug"
	"strings"
	"time"

	"github.com/gnolang/gno/tm2/pkg/amino"
	abci "github.com/gnolang/gno/tm2/pkg/bft/abci/types"
	"github.com/gnolang/gno/tm2/pkg/sdk/bank"
	"github.com/gnolang/gno/tm2/pkg/std"
	"github.com/gnolang/gno/tm2/pkg/store/types"
	"verif/engine/chainx"
	"verif/engine/crashdb"
	"verif/engine/vk"
)

const stPath = "gno.land/r/verif/st"

const realmSt = `package st

var (
	val   string
	items []*item
)

type item struct{ s string }

func Write(cur realm, v string) string { val = v; return val }
func Grow(cur realm, n int) int {
	for i := 0; i < n; i++ {
		items = append(items, &item{s: "xxxxxxxxxxxxxxxxxxxxxxxxxxxxxxxx"})
	}
	return len(items)
}
func Shrink(cur realm) int { items = nil; return 0 }
`

var (
	A, B = chainx.NewKey("A"), chainx.NewKey("B")
	keys = []chainx.Key{A, B}
)

func coins(n int64) std.Coins { return std.Coins{std.NewCoin("ugnot", n)} }

type scenario struct {
	name   string
	prune  types.PruneStrategy
	blocks [][]func(c *chainx.Chain) std.Tx
}

func call(k chainx.Key, fn string, args ...string) func(c *chainx.Chain) std.Tx {
	return func(c *chainx.Chain) std.Tx {
		return c.MakeTx(keys, []std.Msg{chainx.Call(k.Addr, nil, stPath, fn, args...)}, chainx.TxOpt{})
	}
}

func scenarios(thorough bool) []scenario {
	deploy := func(c *chainx.Chain) std.Tx {
		return c.MakeTx(keys, []std.Msg{chainx.AddPkg(B.Addr, "gno.land/r/verif/late", map[string]string{"a.gno": "package late\n\nvar N int\n\nfunc Inc(cur realm) int { N++; return N }\n"})}, chainx.TxOpt{})
	}
	send := func(c *chainx.Chain) std.Tx {
		return c.MakeTx(keys, []std.Msg{bank.MsgSend{FromAddress: A.Addr, ToAddress: B.Addr, Amount: coins(777)}}, chainx.TxOpt{})
	}
	inc := func(c *chainx.Chain) std.Tx {
		return c.MakeTx(keys, []std.Msg{chainx.Call(A.Addr, nil, "gno.land/r/verif/late", "Inc")}, chainx.TxOpt{})
	}
	fail := func(c *chainx.Chain) std.Tx {
		return c.MakeTx(keys, []std.Msg{bank.MsgSend{FromAddress: B.Addr, ToAddress: A.Addr, Amount: coins(900_000_000_000_000)}}, chainx.TxOpt{})
	}
	base := [][]func(c *chainx.Chain) std.Tx{
		{call(A, "Write", "one"), call(B, "Grow", "5")},
		{deploy, send},
		{call(A, "Shrink"), inc, fail},
		{},
		{call(B, "Write", "two"), inc},
	}
	scs := []scenario{
		{"syncable", types.PruneSyncableStrategy, base[:4]},
		{"prune-everything", types.PruneEverythingStrategy, base[:4]},
	}
	if thorough {
		scs = append(scs, scenario{"prune-nothing-5-blocks", types.PruneNothingStrategy, base},
			scenario{"prune-everything-5-blocks", types.PruneEverythingStrategy, base})
	}
	return scs
}

func spec(p types.PruneStrategy) chainx.Spec {
	s := chainx.Spec{Keys: keys, Fund: 1_000_000_000_000, Prune: p}
	s.GenesisTxs = []std.Tx{{
		Msgs:       []std.Msg{chainx.AddPkg(A.Addr, stPath, map[string]string{"st.gno": realmSt})},
		Fee:        std.NewFee(100_000_000, std.NewCoin("ugnot", 1_000_000)),
		Signatures: []std.Signature{{}},
	}}
	return s
}

type ref struct {
	boundary []int      // boundary[h] = number of log units after the commit of height h (h=0: genesis)
	hash     [][]byte   // app hash per height
	dump     []string   // HashDump of committed state per height
	txs      [][][]byte // tx bytes per block (index = height-1)
	results  [][]string // ResKey per tx per block
	units    []crashdb.Unit
}

var r *vk.Run

func reference(sc scenario) (*ref, error) {
	db := crashdb.New()
	c, err := chainx.New(db, spec(sc.prune))
	if err != nil {
		return nil, err
	}
	for _, tr := range c.Init.TxResponses {
		if tr.Error != nil {
			return nil, fmt.Errorf("genesis tx failed: %v", tr.Log)
		}
	}
	rf := &ref{}
	rf.boundary = append(rf.boundary, db.NumUnits())
	rf.hash = append(rf.hash, c.Base.LastCommitID().Hash)
	rf.dump = append(rf.dump, chainx.HashDump(c.Dump()))
	for _, blk := range sc.blocks {
		c.BeginBlock()
		var bz [][]byte
		var rs []string
		for _, mk := range blk {
			tx := mk(c)
			b := amino.MustMarshal(tx)
			bz = append(bz, b)
			rs = append(rs, chainx.ResKey(c.DeliverRaw(b)))
		}
		_, h := c.EndBlockCommit()
		rf.txs = append(rf.txs, bz)
		rf.results = append(rf.results, rs)
		rf.boundary = append(rf.boundary, db.NumUnits())
		rf.hash = append(rf.hash, h)
		rf.dump = append(rf.dump, chainx.HashDump(c.Dump()))
	}
	rf.units = db.Units
	return rf, nil
}

// crashAt rebuilds the DB from units[:k], reopens the app and checks the property.
func crashAt(sc scenario, rf *ref, units []crashdb.Unit, k int, label string) {
	r.Eval()
	// the height whose commit contains unit k (units in [boundary[h-1], boundary[h]) belong to the commit of h)
	db := crashdb.Rebuild(units, k)
	c := &chainx.Chain{Spec: spec(sc.prune), DB: db}
	var reopenErr any
	func() {
		defer func() {
			if rec := recover(); rec != nil {
				reopenErr = rec
			}
		}()
		if err := c.Restart(); err != nil {
			reopenErr = err
		}
	}()
	key := fmt.Sprintf("%s:%s", sc.name, label)
	if reopenErr != nil {
		r.Violation("reopen-fails:"+key, map[string]any{"scenario": sc.name, "crash_after_units": k, "error": firstLine(fmt.Sprint(reopenErr))})
		return
	}
	// chainx commits the genesis state as store version 1 (as the repo's own app tests do), so store
	// version v corresponds to chain index v-1 (index 0 = genesis)
	h := c.Base.LastBlockHeight() - 1
	c.Height = h
	// LastTime must follow the reference clock: genesis time + 5s per block
	c.LastTime = time.Unix(1_700_000_000, 0).UTC().Add(time.Duration(h) * 5 * time.Second)
	if h < 0 || int(h) >= len(rf.hash) {
		r.Violation("unknown-height:"+key, map[string]any{"scenario": sc.name, "crash_after_units": k, "height": h})
		return
	}
	r.Outcome(fmt.Sprintf("reopened-at-height-%d", h))
	r.Distinct(fmt.Sprintf("%s|k=%d|h=%d", sc.name, k, h))
	got := c.Base.LastCommitID().Hash
	if string(got) != string(rf.hash[h]) {
		r.Violation("apphash-after-crash:"+key, map[string]any{"scenario": sc.name, "crash_after_units": k, "height": h, "got": fmt.Sprintf("%x", got), "want": fmt.Sprintf("%x", rf.hash[h])})
		return
	}
	if d := chainx.HashDump(c.Dump()); d != rf.dump[h] {
		r.Violation("contents-after-crash:"+key, map[string]any{"scenario": sc.name, "crash_after_units": k, "height": h})
		return
	}
	// the version found must be the previous or the new one of the commit that was in progress
	lo := 0
	for hh := range rf.boundary {
		if rf.boundary[hh] <= k {
			lo = hh
		}
	}
	if int(h) != lo && int(h) != lo+1 {
		r.Violation("not-previous-or-new:"+key, map[string]any{"scenario": sc.name, "crash_after_units": k, "height": h, "last_fully_committed": lo})
		return
	}
	// continue the chain: same tx bytes, same results, same hashes
	for hh := int(h) + 1; hh < len(rf.hash); hh++ {
		c.BeginBlock()
		for i, bz := range rf.txs[hh-1] {
			res := c.DeliverRaw(bz)
			if rk := chainx.ResKey(res); rk != rf.results[hh-1][i] {
				r.Violation("continuation-result:"+key, map[string]any{"scenario": sc.name, "crash_after_units": k, "height": hh, "tx": i, "got": rk + " " + firstLine(res.Log), "want": rf.results[hh-1][i]})
				return
			}
		}
		_, ah := c.EndBlockCommit()
		if string(ah) != string(rf.hash[hh]) {
			r.Violation("continuation-apphash:"+key, map[string]any{"scenario": sc.name, "crash_after_units": k, "height": hh})
			return
		}
	}
}

func firstLine(s string) string {
	if i := strings.IndexByte(s, '\n'); i >= 0 {
		s = s[:i]
	}
	if len(s) > 300 {
		s = s[:300]
	}
	return s
}

func abs(x abci.ResponseDeliverTx) {}

func main() {
	debug.SetGCPercent(400)
	r = vk.New("fault_enumeration")
	r.SetBudget(240*time.Second, 25*time.Minute)
	type job struct {
		sc    scenario
		rf    *ref
		units []crashdb.Unit
		k     int
		label string
	}
	var jobs []job
	var layout []map[string]any
	for _, sc := range scenarios(r.Thorough()) {
		rf, err := reference(sc)
		if err != nil {
			r.HarnessError("reference run %s: %v", sc.name, err)
		}
		var kinds []string
		for i, u := range rf.units {
			if i >= rf.boundary[0] {
				kinds = append(kinds, fmt.Sprintf("%s(%d ops,sync=%v)", u.Kind, len(u.Ops), u.Sync))
			}
		}
		layout = append(layout, map[string]any{"scenario": sc.name, "units_total": len(rf.units), "boundaries": rf.boundary, "units_after_genesis": kinds})
		// every prefix from "just before the genesis commit's last unit" to the full log
		start := rf.boundary[0] - 3
		if start < 0 {
			start = 0
		}
		for k := start; k <= len(rf.units); k++ {
			if k < rf.boundary[0] {
				continue // before genesis is durable there is no committed version to come back to (InitChain is re-run by the node)
			}
			jobs = append(jobs, job{sc, rf, rf.units, k, fmt.Sprintf("atomic-batch:k=%d", k-rf.boundary[0])})
		}
		r.Sample(map[string]any{"scenario": sc.name, "write_units_per_commit": kinds})
	}
	r.ParFor(len(jobs), func(i int) { j := jobs[i]; crashAt(j.sc, j.rf, j.units, j.k, j.label) })
	r.Assumptions = []string{
		"process-kill model: every completed physical write unit survives; a batch write is atomic (true for memdb, goleveldb, pebbledb, boltdb batches)",
		"crash points before the genesis commit is durable are out of scope (the node re-runs InitChain)",
		"state equality = app hash + full semantic dump of both stores through the multistore",
	}
	r.Finish("every prefix of the physical write log of genesis+N blocks (N=4 quick, 5 thorough; pruning strategies syncable/everything/nothing); distinct = distinct (scenario, crash point, height found)",
		true, map[string]any{"crash_points": len(jobs), "layout": layout})
}
