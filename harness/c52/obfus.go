package main

// Systematic scheme obfuscation: every script-capable scheme, written with every combination of character encodings
// at three positions (first letter, a middle letter, the colon), at encoding depth 1 and 2 (an encoding of the lead
// character of an encoding: entity of an entity, entity of a percent sign, percent-encoded ampersand, ...), placed in
// every link-bearing construct the renderer supports, at top level and inside every container the gnoweb extensions
// add. The documents are rendered and judged exactly like the fragment sequences (renderCheck: x/net/html decodes
// character references ONCE, like a browser parsing the attribute; badURL then looks at the scheme).

import (
	"fmt"
	"sort"
	"strings"
	"sync"
)

type otok struct {
	s     string
	name  string
	depth int
}

// depth-1 encodings of character c. pos: 0 first letter, 1 middle letter, 2 colon.
func encodings1(c byte, pos int) []otok {
	out := []otok{
		{string(c), "plain", 0},
		{fmt.Sprintf("&#%d;", c), "dec-entity", 1},
		{fmt.Sprintf("&#x%X;", c), "hex-entity", 1},
	}
	switch pos {
	case 0: // no named reference for a letter: a named whitespace reference the browser strips, in front of it
		out = append(out, otok{"&Tab;" + string(c), "named-entity(&Tab; before)", 1})
	case 1:
		out = append(out, otok{string(c) + "&NewLine;", "named-entity(&NewLine; after)", 1})
	default:
		out = append(out, otok{"&colon;", "named-entity", 1})
	}
	out = append(out, otok{`\` + string(c), "backslash", 1}, otok{fmt.Sprintf("%%%02X", c), "percent", 1})
	if pos != 2 {
		out = append(out, otok{string(c ^ 0x20), "case-flip", 1})
	}
	return out
}

var leadNamed = map[byte]string{'&': "&amp;", '%': "&percnt;", '\\': "&bsol;"}

// depth-2: the first '&', '%' or '\' of a depth-1 token encoded once more, in each of the five ways
func encodings2(d1 []otok) []otok {
	var out []otok
	for _, t := range d1 {
		i := strings.IndexAny(t.s, `&%\`)
		if i < 0 {
			continue
		}
		l := t.s[i]
		for _, e := range []otok{
			{fmt.Sprintf("&#%d;", l), "dec-entity", 0},
			{fmt.Sprintf("&#x%X;", l), "hex-entity", 0},
			{leadNamed[l], "named-entity", 0},
			{`\` + string(l), "backslash", 0},
			{fmt.Sprintf("%%%02X", l), "percent", 0},
		} {
			out = append(out, otok{t.s[:i] + e.s + t.s[i+1:], t.name + " of which the '" + string(l) + "' as " + e.name, 2})
		}
	}
	return out
}

type oscheme struct {
	url string
	mid int // index of the middle letter
}

var oschemes = []oscheme{
	{"javascript:alert(1)", 4},
	{"vbscript:msgbox(1)", 3},
	{"data:text/html;base64,PHNjcmlwdD5hbGVydCgxKTwvc2NyaXB0Pg==", 2},
}

type odest struct {
	s      string
	desc   string
	depth  int // max depth over the positions
	nonpl  int // number of non-plain positions
	scheme int
}

// destinations: full = every combination of depth<=2 tokens at the three positions; otherwise every combination of
// depth<=1 tokens plus every depth-2 token at one position with the other two plain.
func destinations(full bool) []odest {
	var out []odest
	for si, sc := range oschemes {
		colon := strings.IndexByte(sc.url, ':')
		idx := [3]int{0, sc.mid, colon}
		var toks [3][]otok
		for p := 0; p < 3; p++ {
			d1 := encodings1(sc.url[idx[p]], p)
			toks[p] = append(d1, encodings2(d1)...)
		}
		for _, a := range toks[0] {
			for _, b := range toks[1] {
				for _, c := range toks[2] {
					depth := max(a.depth, b.depth, c.depth)
					nonpl := 0
					for _, t := range []otok{a, b, c} {
						if t.depth > 0 {
							nonpl++
						}
					}
					if !full && depth == 2 && nonpl > 1 {
						continue
					}
					s := a.s + sc.url[1:idx[1]] + b.s + sc.url[idx[1]+1:colon] + c.s + sc.url[colon+1:]
					out = append(out, odest{s, fmt.Sprintf("%s first=%s middle=%s colon=%s", sc.url[:colon+1], a.name, b.name, c.name), depth, nonpl, si})
				}
			}
		}
	}
	// simplest first: minimal violation keys are the most readable documents
	sort.SliceStable(out, func(i, j int) bool {
		if out[i].depth != out[j].depth {
			return out[i].depth < out[j].depth
		}
		return out[i].nonpl < out[j].nonpl
	})
	return out
}

type oconstruct struct {
	name string
	f    func(d string) (inline, defs string)
	top  bool // block-level construct: top level only
}

var oconstructs = []oconstruct{
	{"inline link", func(d string) (string, string) { return "[x](" + d + ")", "" }, false},
	{"inline link <dest>", func(d string) (string, string) { return "[x](<" + d + ">)", "" }, false},
	{"inline link with title", func(d string) (string, string) { return "[x](" + d + ` "t")`, "" }, false},
	{"image", func(d string) (string, string) { return "![x](" + d + ")", "" }, false},
	{"image <dest>", func(d string) (string, string) { return "![x](<" + d + ">)", "" }, false},
	{"autolink", func(d string) (string, string) { return "<" + d + ">", "" }, false},
	{"reference link", func(d string) (string, string) { return "[x][r]", "[r]: " + d }, false},
	{"reference link <dest>", func(d string) (string, string) { return "[r]", "[r]: <" + d + `> "t"` }, false},
	{"reference image", func(d string) (string, string) { return "![x][r]", "[r]: " + d }, false},
	{"gno-form path/exec + gno-input value/placeholder", func(d string) (string, string) {
		return "<gno-form path=\"" + d + "\" exec=\"" + d + "\">\n<gno-input name=\"n\" value=\"" + d + "\" placeholder=\"" + d + "\" />\n</gno-form>", ""
	}, true},
}

type ocontainer struct {
	name    string
	f       func(inline, defs string) string
	refOnly bool // differs from another container only for constructs with definitions
	quick   bool
}

var ocontainers = []ocontainer{
	{"top level", func(i, d string) string {
		if d == "" {
			return i + "\n"
		}
		return i + "\n\n" + d + "\n"
	}, false, true},
	{"gno-foreign", func(i, d string) string { return "<gno-foreign>\n" + i + "\n\n" + d + "\n</gno-foreign>\n" }, false, true},
	{"gno-foreign (definition outside)", func(i, d string) string { return "<gno-foreign>\n" + i + "\n</gno-foreign>\n\n" + d + "\n" }, true, true},
	{"gno-columns", func(i, d string) string {
		return "<gno-columns>\n" + i + "\n<gno-columns-sep/>\n" + i + "\n\n" + d + "\n</gno-columns>\n"
	}, false, true},
	{"alert body", func(i, d string) string { return "> [!NOTE] t\n> " + i + "\n>\n> " + d + "\n" }, false, true},
	{"alert title", func(i, d string) string { return "> [!WARNING]- " + i + "\n> b\n\n" + d + "\n" }, false, true},
	{"table cell", func(i, d string) string { return "| a |\n|---|\n| " + i + " |\n\n" + d + "\n" }, false, true},
	{"gno-foreign > gno-columns", func(i, d string) string {
		return "<gno-foreign label=\"l\">\n<gno-columns>\n" + i + "\n\n" + d + "\n</gno-columns>\n</gno-foreign>\n"
	}, false, false},
	{"alert body (definition outside)", func(i, d string) string { return "> [!NOTE] t\n> " + i + "\n\n" + d + "\n" }, true, false},
	{"list item", func(i, d string) string { return "- " + i + "\n\n  " + d + "\n" }, false, false},
	{"block quote", func(i, d string) string { return "> " + i + "\n>\n> " + d + "\n" }, false, false},
	{"heading", func(i, d string) string { return "# " + i + "\n\n" + d + "\n" }, false, false},
	{"emphasis + footnote", func(i, d string) string { return "**" + i + "**[^1]\n\n[^1]: " + i + "\n\n" + d + "\n" }, false, false},
}

type odoc struct {
	doc, dest, desc, construct, container string
}

// obfuscationDocs builds the document list in a fixed order (top level / simplest encodings first).
// quick: top level x every construct x (all depth<=1 combinations + single-position depth 2); the extension
// containers x every inline construct x (single-position encodings of depth 1 and 2).
// thorough: every depth<=2 combination at top level, every container x construct x the quick top-level set.
func obfuscationDocs(thorough bool) []odoc {
	topSet := destinations(thorough)
	var contSet []odest
	for _, d := range destinations(false) {
		if thorough || d.nonpl <= 1 {
			contSet = append(contSet, d)
		}
	}
	var out []odoc
	for _, c := range ocontainers {
		if !thorough && !c.quick {
			continue
		}
		set := contSet
		if c.name == "top level" {
			set = topSet
		}
		for _, k := range oconstructs {
			if k.top && c.name != "top level" {
				continue
			}
			for _, d := range set {
				in, defs := k.f(d.s)
				if c.refOnly && defs == "" {
					continue
				}
				out = append(out, odoc{c.f(in, defs), d.s, d.desc, k.name, c.name})
			}
		}
	}
	return out
}

// obfuscationPhase renders every document of obfuscationDocs and reports, per finding, the first (simplest) violating
// document as the key; the detail carries how many documents violate per construct / container.
func obfuscationPhase() (docs, violating int64) {
	list := obfuscationDocs(r.Thorough())
	type hit struct {
		ord int
		f   finding
	}
	var (
		hmu  sync.Mutex
		hits []hit
	)
	r.ParFor(len(list), func(i int) {
		if r.Expired() {
			return
		}
		fs, feats, ok := renderCheck(list[i].doc)
		if !ok {
			return
		}
		switch { // non-vacuity: what became of the destination
		case len(fs) > 0:
			bump("obfuscation:VIOLATING")
		case feats["neutralised-url"]:
			bump("obfuscation:link rendered, URL blanked by the renderer")
		case feats["el:a"] || feats["el:img"]:
			bump("obfuscation:link rendered, URL inert after the browser's single decode")
		case feats["el:form"]:
			bump("obfuscation:form rendered")
		default:
			bump("obfuscation:no link element (construct not recognised as a link)")
		}
		if len(fs) == 0 {
			return
		}
		seen := map[finding]bool{}
		hmu.Lock()
		for _, f := range fs {
			if !seen[f] {
				seen[f] = true
				hits = append(hits, hit{i, f})
			}
		}
		hmu.Unlock()
	})
	sort.Slice(hits, func(i, j int) bool {
		if hits[i].ord != hits[j].ord {
			return hits[i].ord < hits[j].ord
		}
		return hits[i].f.class+hits[i].f.what < hits[j].f.class+hits[j].f.what
	})
	first := map[finding]int{}
	where := map[finding]map[string]int{}
	vdocs := map[int]bool{}
	var order []finding
	for _, h := range hits {
		vdocs[h.ord] = true
		if _, ok := first[h.f]; !ok {
			first[h.f] = h.ord
			where[h.f] = map[string]int{}
			order = append(order, h.f)
		}
		where[h.f][list[h.ord].construct+" in "+list[h.ord].container]++
	}
	for _, f := range order {
		d := list[first[f]]
		out, _ := render([]byte(d.doc))
		n := 0
		for _, c := range where[f] {
			n += c
		}
		r.Violation(fmt.Sprintf("%s %s doc=%q", f.class, f.what, d.doc), map[string]any{
			"class": f.class, "what": f.what, "markdown": d.doc, "destination": d.dest, "encoding": d.desc, "construct": d.construct, "container": d.container,
			"html": string(out), "violating_documents_with_this_finding": n, "by_construct_and_container": where[f],
		})
	}
	return int64(len(list)), int64(len(vdocs))
}
