// C52: gnoweb (default, safe configuration) never turns realm output into executable web content.
//
// Enumerated: every markdown document that is a concatenation of <= k fragments (k = 3 quick, 4 thorough,
// budget-capped) over a hostile fragment alphabet: raw HTML, script-capable URL schemes in every link /
// image / autolink / reference form, every gnoweb extension (columns, forms + inputs, alerts, mentions,
// $help links, gno-foreign) with hostile attribute values, and quote / angle / backtick / newline / NUL glue.
// Each document is rendered by the REAL renderer gnoweb uses for realm output
// (gnoweb.NewHTMLRenderer(NewDefaultRenderConfig()).RenderRealm), the HTML is parsed like a browser would
// (golang.org/x/net/html fragment parser) and a forbid-list oracle is applied on the DOM.
package main

import (
	"bytes"
	"crypto/sha256"
	"flag"
	"fmt"
	"io"
	"log/slog"
	"os"
	"runtime/pprof"
	"sort"
	"strings"
	"sync"
	"sync/atomic"
	"time"

	"github.com/gnolang/gno/gno.land/pkg/gnoweb"
	"github.com/gnolang/gno/gno.land/pkg/gnoweb/weburl"
	"golang.org/x/net/html"
	"golang.org/x/net/html/atom"
	"verif/engine/vk"
)

var r *vk.Run

// ---------------------------------------------------------------------------------------------
// alphabet

// a valid bech32 g1 address (the well-known test1 key) for the mention extension
// hostile attribute payload (entity-encoded so that it survives the extension's own tag parser): breaks out of a
// double-quoted attribute and carries the canary tag for element-content contexts
const hp = `&quot; onx=&quot;1&quot;&gt;&lt;xq7&gt;`

const g1addr = "g1jg8mtutu9khhfwc4nxmuhcpftf0pajdhfvsqf5"

var alphabet = []string{
	// --- raw HTML (must be dropped / escaped in safe mode) ---
	`<script>alert(1)</script>`,
	`<img src=x onerror=alert(1)>`,
	`<a href="javascript:alert(1)">x</a>`,
	`<iframe src="//evil.example"></iframe>`,
	`<!-- c -->`,
	`<xq7 data-xq7="1">`, // canary tag + attribute
	`<xq7 data-xq7=`,     // unclosed tag
	"<div data-xq7=1>\n", // HTML block (type 6)
	// --- script-capable schemes: inline links, images, autolinks, references ---
	`[a](javascript:alert(1))`,
	`[a](JaVaScRiPt:alert(1))`,
	"[a](<java\tscript:alert(1)>)",
	`[a](&#106;avascript:alert(1))`,
	`[a](&#x6A;avascript&colon;alert(1))`,
	`[a](javascript\:alert(1))`,
	`[a](vbscript:msgbox(1))`,
	`[a](data:text/html;base64,PHNjcmlwdD5hbGVydCgxKTwvc2NyaXB0Pg==)`,
	`![i](data:text/html;base64,PHNjcmlwdD5hbGVydCgxKTwvc2NyaXB0Pg==)`,
	`![i](data:image/svg+xml;base64,PHN2Zz48L3N2Zz4=)`,
	`![i](DATA:text/html,x)`,
	`![i](< data:text/html,x>)`,
	`![i](&#100;ata:text/html,x)`,
	`![i](javascript:alert(1))`,
	`[a](//evil.example/x)`,
	`[a](/r/demo/x:y$help&func=F)`,
	`<javascript:alert(1)>`,
	`<JAVASCRIPT:alert(1)>`,
	`<data:text/html,x>`,
	`<https://e.example/?q="onmouseover=alert(1)>`,
	`[a](x "t\" onmouseover=\"alert(1)")`,
	`![a" onerror="alert(1)](x)`,
	`[r]`,
	"\n[r]: javascript:alert(1)\n",
	"\n[r]: <&#106;avascript:alert(1)> \"t\\\" onx=\\\"1\"\n",
	// --- gnoweb extensions ---
	"<gno-columns>\n",
	"<gno-columns-sep/>\n",
	"</gno-columns>\n",
	"<gno-form>\n",
	"<gno-form path=\"p" + hp + "\" exec=\"F" + hp + "\">\n",
	"<gno-input name=\"n" + hp + "\" placeholder=\"p" + hp + "\" value=\"v" + hp + "\" description=\"d" + hp + "\" />\n",
	"<gno-input name=\"r" + hp + "\" type=\"radio\" value=\"v" + hp + "\" placeholder=\"p" + hp + "\" description=\"d" + hp + "\" />\n",
	"<gno-input name=\"t\" type=\"text" + hp + "\" />\n",
	"<gno-input name=\"--&gt;&lt;script&gt;alert(1)&lt;/script&gt;\" />\n",
	"<gno-textarea name=\"ta" + hp + "\" placeholder=\"p" + hp + "\" value=\"&lt;/textarea&gt;&lt;script&gt;alert(1)&lt;/script&gt;\" description=\"d" + hp + "\" />\n",
	"<gno-select name=\"s" + hp + "\" value=\"v" + hp + "\" description=\"d" + hp + "\" />\n",
	"</gno-form>\n",
	"<gno-foreign>\n",
	"<gno-foreign label=\"l" + hp + "\">\n",
	"</gno-foreign>\n",
	"> [!NOTE] t<xq7>\n",
	"> [!WARNING]- \"><script>alert(1)</script>\n> b\n",
	"@user_xq7",
	" " + g1addr,
	"```go\" onx=\"1\nx<xq7>\n```\n",
	"```\n",
	"[^1]",
	"\n[^1]: n<xq7>\n",
	"| a | b |\n|---|---|\n| <xq7> | [a](javascript:x) |\n",
	"# h {#i onclick=alert(1)}\n",
	// --- glue ---
	"\n", "\n\n", " ", "    ", "> ", `"`, ">", "<", "`", "\x00", `\`, "](", "!",
}

// ---------------------------------------------------------------------------------------------
// oracle

var forbiddenElems = map[string]bool{
	"script": true, "iframe": true, "object": true, "embed": true, "style": true,
	"base": true, "meta": true, "link": true, "frame": true, "frameset": true, "applet": true,
}

var urlAttrs = map[string]bool{
	"href": true, "src": true, "action": true, "formaction": true, "xlink:href": true,
	"srcset": true, "poster": true, "data": true, "background": true, "ping": true, "cite": true, "manifest": true,
}

// allowed data: media types (not script capable when used as link/image target); this is what the
// default configuration lets through: goldmark's IsDangerousURL whitelist (png/gif/jpeg/webp/svg+xml)
// intersected for images with gnoweb's image validator (svg+xml only).
var dataImageOK = []string{"image/png", "image/gif", "image/jpeg", "image/webp", "image/svg+xml"}

// normScheme does what a browser's URL parser does before it looks at the scheme: strip leading/trailing
// C0 control + space, remove every tab / CR / LF, then take the (case-folded) scheme.
var stripTabNL = strings.NewReplacer("\t", "", "\r", "", "\n", "")

func normScheme(v string) (scheme, rest string) {
	v = strings.TrimFunc(v, func(c rune) bool { return c <= 0x20 })
	v = stripTabNL.Replace(v)
	for i := 0; i < len(v); i++ {
		c := v[i]
		switch {
		case c >= 'a' && c <= 'z', c >= 'A' && c <= 'Z':
		case i > 0 && (c >= '0' && c <= '9' || c == '+' || c == '-' || c == '.'):
		case c == ':' && i > 0:
			return strings.ToLower(v[:i]), v[i+1:]
		default:
			return "", v
		}
	}
	return "", v
}

func badURL(v string) string {
	scheme, rest := normScheme(v)
	switch scheme {
	case "javascript", "vbscript", "livescript", "mocha":
		return scheme
	case "data":
		mt := strings.ToLower(strings.TrimSpace(rest))
		for _, ok := range dataImageOK {
			if strings.HasPrefix(mt, ok) && (len(mt) == len(ok) || mt[len(ok)] == ';' || mt[len(ok)] == ',') {
				return ""
			}
		}
		return "data"
	}
	return ""
}

type finding struct{ class, what string }

// check applies the forbid-list oracle to the DOM of one rendered document.
func check(nodes []*html.Node, feats map[string]bool) (out []finding) {
	var walk func(n *html.Node)
	walk = func(n *html.Node) {
		switch n.Type {
		case html.ElementNode:
			tag := strings.ToLower(n.Data)
			feats["el:"+tag] = true
			if forbiddenElems[tag] {
				out = append(out, finding{"forbidden-element", "<" + tag + ">"})
			}
			if strings.Contains(tag, "xq7") {
				out = append(out, finding{"raw-html-passthrough", "<" + tag + ">"})
			}
			for _, a := range n.Attr {
				key := strings.ToLower(a.Key)
				if a.Namespace != "" {
					key = a.Namespace + ":" + key
				}
				if strings.HasPrefix(key, "on") {
					out = append(out, finding{"event-handler-attribute", "<" + tag + " " + key + ">"})
				}
				if strings.Contains(key, "xq7") {
					out = append(out, finding{"raw-html-passthrough", "<" + tag + " " + key + ">"})
				}
				if key == "style" && (strings.Contains(strings.ToLower(a.Val), "expression") || strings.Contains(strings.ToLower(a.Val), "url(")) {
					out = append(out, finding{"style-attribute", "<" + tag + " style>"})
				}
				if key == "srcdoc" {
					out = append(out, finding{"forbidden-attribute", "<" + tag + " srcdoc>"})
				}
				if urlAttrs[key] {
					vals := []string{a.Val}
					if key == "srcset" {
						vals = strings.Split(a.Val, ",")
					}
					for _, v := range vals {
						if s := badURL(v); s != "" {
							out = append(out, finding{"script-capable-url", "<" + tag + " " + key + "=" + s + ":>"})
						}
					}
					if a.Val == "" && (tag == "a" || tag == "img") {
						feats["neutralised-url"] = true
					}
				}
			}
		case html.CommentNode:
			switch {
			case strings.Contains(n.Data, "raw HTML omitted"):
				feats["raw-html-omitted"] = true
			case strings.Contains(n.Data, "Error:"):
				feats["form-error-comment"] = true
			case strings.Contains(n.Data, "invalid link"):
				feats["invalid-link-comment"] = true
			default:
				feats["other-comment"] = true
			}
		}
		for c := n.FirstChild; c != nil; c = c.NextSibling {
			walk(c)
		}
	}
	for _, n := range nodes {
		walk(n)
	}
	return out
}

// ---------------------------------------------------------------------------------------------
// rendering

var bodyCtx = &html.Node{Type: html.ElementNode, Data: "body", DataAtom: atom.Body}

var rendPool = sync.Pool{New: func() any {
	return gnoweb.NewHTMLRenderer(slog.New(slog.NewTextHandler(io.Discard, nil)), gnoweb.NewDefaultRenderConfig(), nil)
}}

// titleMu owns a nondeterminism of the code under test: markdown/utils.go keeps ONE package-level
// golang.org/x/text/cases.Caser (titleCaser), which is stateful and not safe for concurrent use; rendering forms
// with exec= / gno-select concurrently makes it panic ("slice bounds out of range") or garble the title.
// That is a concurrency defect outside C52's statement; documents that reach titleCase render exclusively.
var titleMu sync.RWMutex

func render(doc []byte) ([]byte, error) {
	if bytes.Contains(doc, []byte("exec=")) || bytes.Contains(doc, []byte("gno-select")) {
		titleMu.Lock()
		defer titleMu.Unlock()
	} else {
		titleMu.RLock()
		defer titleMu.RUnlock()
	}
	rd := rendPool.Get().(*gnoweb.HTMLRenderer)
	defer rendPool.Put(rd)
	var buf bytes.Buffer
	u := &weburl.GnoURL{Domain: "gno.land", Path: "/r/demo/c52"}
	_, err := rd.RenderRealm(&buf, u, doc, gnoweb.RealmRenderContext{ChainId: "dev", Remote: "127.0.0.1:26657", Domain: "gno.land"})
	return buf.Bytes(), err
}

// ---------------------------------------------------------------------------------------------
// enumeration

type viol struct {
	seq []int
	f   finding
	doc string
}

var (
	mu             sync.Mutex
	minimal        = map[finding][][]int{} // per finding: fragment sequences of already reported (minimal) violations
	pending        []viol
	firstLen       = map[finding]int{}
	further        atomic.Int64
	furtherSamples int
	subsumed       atomic.Int64
	featCount      sync.Map // feature -> *atomic.Int64
	renderErr      atomic.Int64
	panics         atomic.Int64
)

// contains reports whether sub is a (not necessarily contiguous) subsequence of seq.
func contains(seq, sub []int) bool {
	j := 0
	for i := 0; i < len(seq) && j < len(sub); i++ {
		if seq[i] == sub[j] {
			j++
		}
	}
	return j == len(sub)
}

func bump(k string) {
	v, ok := featCount.Load(k)
	if !ok {
		v, _ = featCount.LoadOrStore(k, new(atomic.Int64))
	}
	v.(*atomic.Int64).Add(1)
}

// renderCheck renders one document with the real renderer, parses the HTML like a browser (x/net/html: character
// references in attribute values are decoded exactly once) and applies the oracle. ok=false: panic / render error.
func renderCheck(doc string) (fs []finding, feats map[string]bool, ok bool) {
	var out []byte
	var err error
	if rec := vk.Catch(func() { out, err = render([]byte(doc)) }); rec != nil {
		// a panic in the renderer is not what C52 states; record it visibly but do not call it an XSS
		panics.Add(1)
		bump("renderer-panic")
		r.Sample(map[string]any{"renderer_panic": fmt.Sprint(rec), "doc": doc})
		return nil, nil, false
	}
	r.Eval()
	if err != nil {
		renderErr.Add(1)
		return nil, nil, false
	}
	h := sha256.Sum256(out)
	r.Distinct(string(h[:]))
	nodes, perr := html.ParseFragment(bytes.NewReader(out), bodyCtx)
	if perr != nil {
		r.HarnessError("x/net/html cannot parse output of %q: %v", doc, perr)
	}
	feats = map[string]bool{}
	fs = check(nodes, feats)
	for k := range feats {
		if strings.HasPrefix(k, "el:") {
			switch k {
			case "el:a", "el:img", "el:form", "el:input", "el:textarea", "el:select", "el:details", "el:table", "el:pre", "el:svg":
			default:
				continue
			}
		}
		bump(k)
	}
	return fs, feats, true
}

func bumpN(k string, n int64) {
	if n > 0 {
		v, _ := featCount.LoadOrStore(k, new(atomic.Int64))
		v.(*atomic.Int64).Add(n)
	}
}

func evalSeq(seq []int) {
	var sb strings.Builder
	for _, i := range seq {
		sb.WriteString(alphabet[i])
	}
	doc := sb.String()
	fs, _, ok := renderCheck(doc)
	if !ok {
		return
	}
	if len(fs) == 0 {
		return
	}
	bump("VIOLATING-DOCS")
	seen := map[finding]bool{}
	for _, f := range fs {
		if seen[f] {
			continue
		}
		seen[f] = true
		sub := false
		for _, m := range minimal[f] { // minimal is only written between length passes (flush)
			if contains(seq, m) {
				sub = true
				break
			}
		}
		if sub {
			subsumed.Add(1)
			continue
		}
		mu.Lock()
		pending = append(pending, viol{append([]int(nil), seq...), f, doc})
		mu.Unlock()
	}
}

// flush reports the violating documents found at the current length L. Reporting policy (keeps keys few,
// minimal and stable): a violating document is "subsumed" when a shorter already recorded violating document
// with the same finding is a sub-sequence of its fragments; un-subsumed documents become VIOLATION keys only at
// the shortest length at which their finding (class, what) occurs; longer un-subsumed ones are counted and sampled.
func flush(L int) {
	mu.Lock()
	defer mu.Unlock()
	sort.Slice(pending, func(i, j int) bool {
		if pending[i].doc != pending[j].doc {
			return pending[i].doc < pending[j].doc
		}
		return pending[i].f.class+pending[i].f.what < pending[j].f.class+pending[j].f.what
	})
	for _, v := range pending {
		minimal[v.f] = append(minimal[v.f], v.seq)
		if fl, ok := firstLen[v.f]; ok && fl != L {
			further.Add(1)
			if furtherSamples < 5 {
				furtherSamples++
				r.Sample(map[string]any{"further_minimal_violating_doc": v.doc, "finding": v.f.class + " " + v.f.what})
			}
			continue
		}
		firstLen[v.f] = L
		frs := make([]string, len(v.seq))
		for i, s := range v.seq {
			frs[i] = alphabet[s]
		}
		out, _ := render([]byte(v.doc))
		r.Violation(fmt.Sprintf("%s %s doc=%q", v.f.class, v.f.what, v.doc),
			map[string]any{"class": v.f.class, "what": v.f.what, "markdown": v.doc, "fragments": frs, "html": string(out)})
	}
	pending = nil
}

func pow(n, k int) int {
	p := 1
	for i := 0; i < k; i++ {
		p *= n
	}
	return p
}

func main() {
	one := flag.String("doc", "", "render one markdown document, print HTML and findings (debug)")
	maxk := flag.Int("k", 0, "override max sequence length")
	prof := flag.String("cpuprofile", "", "write cpu profile (debug)")
	obfOnly := flag.Bool("obfonly", false, "run only the scheme-obfuscation phase (debug)")
	r = vk.New("exploration")
	if *prof != "" {
		f, _ := os.Create(*prof)
		pprof.StartCPUProfile(f)
	}
	r.SetBudget(90*time.Second, 25*time.Minute)
	if *one != "" {
		out, err := render([]byte(*one))
		fmt.Printf("err=%v\n%s\n", err, out)
		nodes, _ := html.ParseFragment(bytes.NewReader(out), bodyCtx)
		fmt.Println(check(nodes, map[string]bool{}))
		return
	}
	n := len(alphabet)
	k := 3
	if r.Thorough() {
		k = 4
	}
	if *maxk > 0 {
		k = *maxk
	}
	// self-test of the oracle on hand-made HTML: it must flag each forbidden construct (guards against a vacuous oracle)
	for _, tc := range []struct{ htm, class string }{
		{`<p><script>alert(1)</script></p>`, "forbidden-element"},
		{`<img src="x" onerror="alert(1)">`, "event-handler-attribute"},
		{"<a href=\" \tjava\nscript:alert(1)\">x</a>", "script-capable-url"},
		{`<a href="&#106;avascript&colon;alert(1)">x</a>`, "script-capable-url"},
		{`<img src="data:text/html,x">`, "script-capable-url"},
		{`<p><xq7>x</xq7></p>`, "raw-html-passthrough"},
		{`<input name="a" data-xq7="1">`, "raw-html-passthrough"},
		{`<svg><a xlink:href="javascript:alert(1)">x</a></svg>`, "script-capable-url"},
		{`<a href="javascript&#58;alert(1)">x</a>`, "script-capable-url"},
		{`<a href="&#x6a;avascript&#x3a;alert(1)">x</a>`, "script-capable-url"},
		{"<a href=\"&#1;&Tab;java&NewLine;script&colon;alert(1)\">x</a>", "script-capable-url"},
		{`<a href="DATA:text/html;base64,PHNjcmlwdD4=">x</a>`, "script-capable-url"},
	} {
		nodes, _ := html.ParseFragment(strings.NewReader(tc.htm), bodyCtx)
		ok := false
		for _, f := range check(nodes, map[string]bool{}) {
			ok = ok || f.class == tc.class
		}
		if !ok {
			r.HarnessError("oracle self-test: %q not flagged as %s", tc.htm, tc.class)
		}
	}
	// a browser decodes character references ONCE when it parses the attribute and never percent-decodes a scheme:
	// doubly encoded or percent-encoded schemes in the produced HTML are inert and must not be flagged
	for _, okh := range []string{`<a href="javascript&amp;#58;alert(1)">x</a>`, `<a href="javascript&amp;colon;alert(1)">x</a>`, `<a href="&amp;#106;avascript:alert(1)">x</a>`,
		`<a href="javascript%3Aalert(1)">x</a>`, `<a href="%6Aavascript:alert(1)">x</a>`, `<a href="java%09script:alert(1)">x</a>`, `<a href="\javascript:alert(1)">x</a>`,
		`<img src="data:image/svg+xml;base64,PHN2Zz4=">`, `<a href="/r/x$help&amp;func=F">x</a>`, `<p>&lt;script&gt; onerror= javascript:</p><!-- <script> -->`} {
		nodes, _ := html.ParseFragment(strings.NewReader(okh), bodyCtx)
		if fs := check(nodes, map[string]bool{}); len(fs) != 0 {
			r.HarnessError("oracle self-test: benign %q flagged %v", okh, fs)
		}
	}

	// phase 1: systematic scheme obfuscation x link-bearing constructs x containers (obfus.go)
	obfDocs, obfViolating := obfuscationPhase()
	bumpN("obfuscation:documents", obfDocs)
	bumpN("obfuscation:VIOLATING-DOCS", obfViolating)

	if *obfOnly {
		k = 0
	}
	// phase 2: fragment sequences
	complete := 0
	perLen := map[string]int64{}
	for L := 1; L <= k; L++ {
		before := r.Evals()
		prefixes := pow(n, L-1)
		r.ParFor(prefixes, func(p int) {
			seq := make([]int, L)
			x := p
			for i := L - 2; i >= 0; i-- {
				seq[i] = x % n
				x /= n
			}
			for last := 0; last < n; last++ {
				seq[L-1] = last
				evalSeq(seq)
			}
		})
		flush(L)
		perLen[fmt.Sprint(L)] = r.Evals() - before
		if r.Capped() || r.Expired() {
			break
		}
		complete = L
	}
	pprof.StopCPUProfile()
	featCount.Range(func(k, v any) bool { r.OutcomeN(k.(string), v.(*atomic.Int64).Load()); return true })
	r.Sample(map[string]any{"fragments": []string{alphabet[10], alphabet[38], alphabet[44]}, "note": "example document = concatenation of these fragments"})
	r.Sample(map[string]any{"alphabet_size": n, "alphabet_head": alphabet[:12]})
	r.Assumptions = []string{
		"scheme obfuscation (obfus.go): schemes javascript:/vbscript:/data:text/html; encodings {plain, decimal entity, hex entity, named entity (&colon;, &Tab; before, &NewLine; after), backslash escape, percent-encoding, case flip} at first letter / one middle letter / colon; depth 2 = the lead character (& % \\) of a depth-1 encoding encoded again in each of the 5 ways (entity of entity, entity of percent, percent of ampersand, ...). quick: all depth<=1 combinations + depth 2 at one position, in 10 constructs at top level; single-position encodings in 9 constructs inside gno-foreign (definition inside and outside), gno-columns, alert body, alert title, table cell. thorough: every depth<=2 combination at top level and the quick top-level set in 12 containers",
		"the oracle never decodes twice: x/net/html decodes character references once (as a browser does when parsing an attribute value), the scheme test then strips leading/trailing C0+space and tab/CR/LF, case-folds, and does not percent-decode (self-tested on doubly/percent-encoded href values, which must NOT be flagged)",
		"documents are concatenations of <=k alphabet fragments; the alphabet (not all byte strings) bounds the input space",
		"oracle DOM = golang.org/x/net/html fragment parse in <body> context (HTML5 tree construction, entity decoding) stands in for a browser",
		"data: URLs with media type image/png|gif|jpeg|webp|svg+xml are treated as allowed by the default configuration (goldmark whitelist; gnoweb image validator keeps svg+xml only); every other data:, javascript:, vbscript: after browser-style normalisation is forbidden",
		"documents reaching markdown.titleCase (forms with exec=, gno-select) are rendered under an exclusive lock: the package-level cases.Caser there is not goroutine-safe (panics under parallel rendering) - a concurrency defect outside this property",
		"renderer = gnoweb.NewHTMLRenderer(NewDefaultRenderConfig()).RenderRealm, i.e. AppConfig.UnsafeHTML=false",
	}
	r.Finish(fmt.Sprintf("every script-capable scheme x every combination of {plain, dec/hex/named entity, backslash, percent, case flip} at {first letter, middle letter, colon} at encoding depth 1 and 2 x every link-bearing construct x top level and every gnoweb container; all fragment sequences of length 1..%d over a %d-fragment hostile alphabet rendered by RenderRealm (default config), HTML parsed by x/net/html, forbid-list oracle (script-ish elements, on* attributes, canary raw-HTML tag/attribute, script-capable URL schemes after browser normalisation); distinct = distinct rendered HTML outputs", k, n),
		complete == k, map[string]any{
			"obfuscation_docs": obfDocs, "obfuscation_violating_docs": obfViolating,
			"alphabet": n, "max_len": k, "complete_len": complete, "docs_per_len": perLen,
			"subsumed_violating_docs": subsumed.Load(), "further_minimal_violating_docs_not_keyed": further.Load(), "render_errors": renderErr.Load(), "renderer_panics": panics.Load(),
		})
}
