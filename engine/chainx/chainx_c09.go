package chainx

// Helpers added for the C09/C13/C08 harnesses (prefix-restricted dumps, balances re-derived from raw store
// bytes, realm records). New file; chainx.go is untouched.

import (
	"encoding/binary"
	"encoding/hex"
	"strconv"
	"strings"

	"github.com/gnolang/gno/gnovm/pkg/gnolang"
	"github.com/gnolang/gno/tm2/pkg/amino"
	"github.com/gnolang/gno/tm2/pkg/crypto"
	"github.com/gnolang/gno/tm2/pkg/std"
	"github.com/gnolang/gno/tm2/pkg/store/types"
)

// Items returns every key/value of one store ("base" or "main") whose key starts with prefix, read from the
// deliver state inside a block and from the committed state otherwise. Keys are returned WITHOUT a store name.
func (c *Chain) Items(store, prefix string) map[string]string {
	ms := c.Base.VerifDeliverMultiStore()
	if ms == nil {
		ms = c.Base.GetCacheMultiStore()
	}
	baseKey, mainKey := c.Base.VerifStoreKeys()
	key := mainKey
	if store == "base" {
		key = baseKey
	}
	out := map[string]string{}
	var it types.Iterator
	if prefix == "" {
		it = ms.GetStore(key).Iterator(nil, nil, nil)
	} else {
		it = types.PrefixIterator(nil, ms.GetStore(key), []byte(prefix))
	}
	for ; it.Valid(); it.Next() {
		out[string(it.Key())] = string(it.Value())
	}
	it.Close()
	return out
}

// RealmOIDPrefix is the base-store key prefix of every object owned by the realm at path.
func RealmOIDPrefix(path string) string {
	pid := gnolang.PkgIDFromPkgPath(path)
	return "oid:" + hex.EncodeToString(pid.Hashlet[:]) + ":"
}

// RealmRecord is the decoded persisted realm record (oid:<pkgid>:1#realm).
type RealmRecord struct {
	Exists           bool
	Storage, Deposit uint64
	Time             uint64
	Path             string
}

// DecodeRealm decodes the realm record found in items (keys as returned by Items("base", RealmOIDPrefix(path))).
func DecodeRealm(path string, items map[string]string) RealmRecord {
	bz, ok := items[RealmOIDPrefix(path)+"1#realm"]
	if !ok {
		return RealmRecord{}
	}
	var rlm gnolang.Realm
	amino.MustUnmarshal([]byte(bz), &rlm)
	return RealmRecord{Exists: true, Storage: rlm.Storage, Deposit: rlm.Deposit, Time: rlm.Time, Path: rlm.Path}
}

// ObjectBytes sums len(value) over the realm's object keys (everything under the oid prefix except the
// "#realm" record) and returns the number of objects too.
func ObjectBytes(path string, items map[string]string) (bytes int64, n int) {
	p := RealmOIDPrefix(path)
	for k, v := range items {
		if !strings.HasPrefix(k, p) || strings.HasSuffix(k, "#realm") {
			continue
		}
		bytes += int64(len(v))
		n++
	}
	return
}

// Balances re-derives every address's coins from raw main-store items: the account object ("/a/<addr>",
// account-tier denoms) plus the split-tier balance keys ("/b/<addr><denom>" -> 8-byte big-endian amount).
func Balances(mainItems map[string]string) map[crypto.Address]std.Coins {
	out := map[crypto.Address]std.Coins{}
	for k, v := range mainItems {
		switch {
		case strings.HasPrefix(k, "/a/") && len(k) == 3+crypto.AddressSize:
			var acc std.Account
			if err := amino.Unmarshal([]byte(v), &acc); err != nil {
				panic("undecodable account: " + err.Error())
			}
			var a crypto.Address
			copy(a[:], k[3:])
			for _, c := range acc.GetCoins() {
				out[a] = append(out[a], c)
			}
		case strings.HasPrefix(k, "/b/") && len(k) > 3+crypto.AddressSize:
			var a crypto.Address
			copy(a[:], k[3:3+crypto.AddressSize])
			if len(v) != 8 {
				panic("corrupt split balance value")
			}
			out[a] = append(out[a], std.Coin{Denom: k[3+crypto.AddressSize:], Amount: int64(binary.BigEndian.Uint64([]byte(v)))})
		}
	}
	return out
}

// Amount returns the amount of denom in coins (0 if absent), without requiring coins to be sorted.
func Amount(coins std.Coins, denom string) int64 {
	var n int64
	for _, c := range coins {
		if c.Denom == denom {
			n += c.Amount
		}
	}
	return n
}

// ReadKey reads one key of one store ("base" or "main") from the state the next tx would see. Iterators on the
// memdb-backed stores cost O(size of the whole DB) each; harnesses that know their keys use Get instead.
func (c *Chain) ReadKey(store, key string) (string, bool) {
	ms := c.Base.VerifDeliverMultiStore()
	if ms == nil {
		ms = c.Base.GetCacheMultiStore()
	}
	baseKey, mainKey := c.Base.VerifStoreKeys()
	k := mainKey
	if store == "base" {
		k = baseKey
	}
	bz := ms.GetStore(k).Get(nil, []byte(key))
	if bz == nil {
		return "", false
	}
	return string(bz), true
}

// BalanceOf re-derives the coins of addr from raw store bytes with direct reads: the account object (account-tier
// denoms) plus the split-tier balance keys of the listed denoms.
func (c *Chain) BalanceOf(addr crypto.Address, splitDenoms ...string) std.Coins {
	items := map[string]string{}
	if v, ok := c.ReadKey("main", "/a/"+string(addr[:])); ok {
		items["/a/"+string(addr[:])] = v
	}
	for _, d := range splitDenoms {
		if v, ok := c.ReadKey("main", "/b/"+string(addr[:])+d); ok {
			items["/b/"+string(addr[:])+d] = v
		}
	}
	return Balances(items)[addr]
}

// RealmScan reads the realm record and the objects oid:<pkgid>:1..maxN with direct reads.
func (c *Chain) RealmScan(path string, maxN uint64) (rec RealmRecord, objBytes int64, nObj int) {
	p := RealmOIDPrefix(path)
	if v, ok := c.ReadKey("base", p+"1#realm"); ok {
		rec = DecodeRealm(path, map[string]string{p + "1#realm": v})
	}
	if rec.Time > maxN {
		maxN = rec.Time
	}
	for n := uint64(1); n <= maxN+2; n++ {
		if v, ok := c.ReadKey("base", p+strconv.FormatUint(n, 10)); ok {
			objBytes += int64(len(v))
			nObj++
		}
	}
	return
}
