package chainx

import (
	"fmt"
	"time"

	"github.com/gnolang/gno/gno.land/pkg/gnoland"
	abci "github.com/gnolang/gno/tm2/pkg/bft/abci/types"
	dbm "github.com/gnolang/gno/tm2/pkg/db"
	"github.com/gnolang/gno/tm2/pkg/sdk"
)

// NewLikeNode (C28) creates the app and runs InitChain WITHOUT the extra genesis commit of New: as on a real node the
// genesis state is committed together with block 1, so the multistore version always equals the height of the last
// committed block header (Simulate and the custom-query path rely on header.Height == store version).
func NewLikeNode(db dbm.DB, spec Spec) (*Chain, error) {
	if spec.GenesisTime.IsZero() {
		spec.GenesisTime = time.Unix(1_700_000_000, 0).UTC()
	}
	app, err := gnoland.NewAppWithOptions(spec.options(db))
	if err != nil {
		return nil, err
	}
	c := &Chain{Spec: spec, DB: db, App: app, Base: app.(*sdk.BaseApp), LastTime: spec.GenesisTime}
	c.Init = app.InitChain(abci.RequestInitChain{
		Time: spec.GenesisTime, ChainID: ChainID, ConsensusParams: spec.consensusParams(),
		Validators: []abci.ValidatorUpdate{}, AppState: spec.genesisState(),
	})
	if c.Init.Error != nil {
		return c, fmt.Errorf("InitChain: %v", c.Init.Error)
	}
	return c, nil
}
