package chainx

import (
	"fmt"
	"path/filepath"

	"github.com/gnolang/gno/gno.land/pkg/gnoland"
	abci "github.com/gnolang/gno/tm2/pkg/bft/abci/types"
	bft "github.com/gnolang/gno/tm2/pkg/bft/types"
	dbm "github.com/gnolang/gno/tm2/pkg/db"
	"github.com/gnolang/gno/tm2/pkg/events"
	"github.com/gnolang/gno/tm2/pkg/log"
)

// GenesisRun is what one application of a genesis document yields.
type GenesisRun struct {
	Rejected string // non-empty: the document was refused before/while InitChain (validation error, InitChain error or panic)
	Init     abci.ResponseInitChain
	AppHash  []byte // app hash of the first Commit (only when not rejected)
	ReqInitialHeight int64
}

// InitFromDoc applies a genesis document to a fresh gno.land app on db the way a node does: the document is
// validated/completed like state.MakeGenesisState does, the RequestInitChain is built like consensus.Handshaker does
// (validators, consensus params, AppState and InitialHeight taken from the document), then the first Commit follows.
// doc.AppState may be a gnoland.GnoGenesisState (in-memory mode) or a *gnoland.GenesisStateRef (streamed mode).
func InitFromDoc(db dbm.DB, doc *bft.GenesisDoc) (run GenesisRun) {
	d := *doc
	if err := d.ValidateAndComplete(); err != nil {
		run.Rejected = "genesis-doc-validation: " + err.Error()
		return
	}
	o := gnoland.TestAppOptions(db)
	o.Logger = log.NewNoopLogger()
	o.EventSwitch = events.NewEventSwitch()
	o.InitChainerConfig.StdlibDir = filepath.Join(RepoRoot(), "gnovm", "stdlibs")
	o.InitChainerConfig.GenesisTxResultHandler = gnoland.NoopGenesisTxResultHandler
	o.InitChainerConfig.CacheStdlibLoad = true
	app, err := gnoland.NewAppWithOptions(o)
	if err != nil {
		run.Rejected = "app: " + err.Error()
		return
	}
	var vals []abci.ValidatorUpdate
	if len(d.Validators) > 0 {
		vs := make([]*bft.Validator, len(d.Validators))
		for i, v := range d.Validators {
			vs[i] = bft.NewValidator(v.PubKey, v.Power)
		}
		vals = bft.NewValidatorSet(vs).ABCIValidatorUpdates()
	}
	cp := d.ConsensusParams
	req := abci.RequestInitChain{Time: d.GenesisTime, ChainID: d.ChainID, ConsensusParams: &cp, Validators: vals,
		AppState: d.AppState, InitialHeight: d.InitialHeight}
	run.ReqInitialHeight = req.InitialHeight
	func() {
		defer func() {
			if r := recover(); r != nil {
				run.Rejected = fmt.Sprintf("panic: %v", r)
			}
		}()
		run.Init = app.InitChain(req)
	}()
	if run.Rejected != "" {
		return
	}
	if run.Init.Error != nil {
		run.Rejected = "InitChain: " + run.Init.Error.Error()
		return
	}
	func() {
		defer func() {
			if r := recover(); r != nil {
				run.Rejected = fmt.Sprintf("panic in Commit: %v", r)
			}
		}()
		run.AppHash = app.Commit().Data
	}()
	return
}
