package chainx

import (
	"fmt"
	"sync/atomic"

	"github.com/cockroachdb/pebble"
	"github.com/cockroachdb/pebble/vfs"
	dbm "github.com/gnolang/gno/tm2/pkg/db"
	"github.com/gnolang/gno/tm2/pkg/db/pebbledb"
)

var memfsN atomic.Int64

// NewMemPebble returns the real PebbleDB backend on an in-memory filesystem. Unlike memdb (whose Iterator and
// NewSnapshot are O(size of the whole DB), which makes every ABCI query on a long chain cost milliseconds) its
// snapshots and prefix iterators are cheap, so harnesses that query after every block should use it.
func NewMemPebble() dbm.DB {
	db, err := pebbledb.NewPebbleDBWithOpts(fmt.Sprintf("chainx-%d", memfsN.Add(1)), "mem", &pebble.Options{FS: vfs.NewMem()})
	if err != nil {
		panic(err)
	}
	return db
}
