package chainx

import (
	"github.com/gnolang/gno/tm2/pkg/store/types"
)

// PrefixDump returns every key/value of one store ("main" or "base") whose key starts with prefix, read from the
// state the next tx would see (deliver state inside a block, committed state otherwise). Much cheaper than Dump.
func (c *Chain) PrefixDump(store, prefix string) map[string]string {
	ms := c.Base.VerifDeliverMultiStore()
	if ms == nil {
		ms = c.Base.GetCacheMultiStore()
	}
	baseKey, mainKey := c.Base.VerifStoreKeys()
	var key types.StoreKey = mainKey
	if store == "base" {
		key = baseKey
	}
	out := map[string]string{}
	start := []byte(prefix)
	var end []byte
	if len(start) > 0 {
		end = append([]byte{}, start...)
		i := len(end) - 1
		for i >= 0 && end[i] == 0xff {
			i--
		}
		if i < 0 {
			end = nil
		} else {
			end = end[:i+1]
			end[i]++
		}
	} else {
		start = nil
	}
	it := ms.GetStore(key).Iterator(nil, start, end)
	for ; it.Valid(); it.Next() {
		out[string(it.Key())] = string(it.Value())
	}
	it.Close()
	return out
}

// PrefixScan is PrefixDump with a value filter: values are only read for keys for which want(key) is true
// (others map to ""). Reading values of large blobs (stdlib mempackages) is what makes dumps expensive.
func (c *Chain) PrefixScan(store, prefix string, want func(key string) bool) map[string]string {
	ms := c.Base.VerifDeliverMultiStore()
	if ms == nil {
		ms = c.Base.GetCacheMultiStore()
	}
	baseKey, mainKey := c.Base.VerifStoreKeys()
	var key types.StoreKey = mainKey
	if store == "base" {
		key = baseKey
	}
	out := map[string]string{}
	start := []byte(prefix)
	end := append([]byte{}, start...)
	end[len(end)-1]++
	it := ms.GetStore(key).Iterator(nil, start, end)
	for ; it.Valid(); it.Next() {
		k := string(it.Key())
		if want != nil && want(k) {
			out[k] = string(it.Value())
		} else {
			out[k] = ""
		}
	}
	it.Close()
	return out
}
