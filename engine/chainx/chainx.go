// Package chainx drives the real gno.land ABCI application in-process (engine E5): real BaseApp, real ante
// handler with real signatures, real VM keeper, real multistore on a caller-provided DB. Harnesses build
// histories of blocks/txs, restart the app on the same DB, and dump/compare the full state.
//
// Needs the overlay-added export file hooks/chainx/zz_verif_export.go in tm2/pkg/sdk.
package chainx

import (
	"bytes"
	"crypto/sha256"
	"encoding/hex"
	"fmt"
	"os"
	"path/filepath"
	"sort"
	"strings"
	"time"

	"github.com/gnolang/gno/gno.land/pkg/gnoland"
	"github.com/gnolang/gno/gno.land/pkg/sdk/vm"
	"github.com/gnolang/gno/gnovm/pkg/gnolang"
	"github.com/gnolang/gno/tm2/pkg/amino"
	abci "github.com/gnolang/gno/tm2/pkg/bft/abci/types"
	bft "github.com/gnolang/gno/tm2/pkg/bft/types"
	"github.com/gnolang/gno/tm2/pkg/crypto"
	"github.com/gnolang/gno/tm2/pkg/crypto/secp256k1"
	dbm "github.com/gnolang/gno/tm2/pkg/db"
	"github.com/gnolang/gno/tm2/pkg/events"
	"github.com/gnolang/gno/tm2/pkg/log"
	"github.com/gnolang/gno/tm2/pkg/sdk"
	"github.com/gnolang/gno/tm2/pkg/std"
	"github.com/gnolang/gno/tm2/pkg/store/types"
)

const ChainID = "verif-chain"

// RepoRoot is the repository the harness reads stdlibs/examples from (VERIF_REPO, default /repo).
func RepoRoot() string {
	if r := os.Getenv("VERIF_REPO"); r != "" {
		return r
	}
	return "/repo"
}

type Key struct {
	Name string
	Priv secp256k1.PrivKeySecp256k1
	Pub  crypto.PubKey
	Addr crypto.Address
}

func NewKey(name string) Key {
	p := secp256k1.GenPrivKeySecp256k1([]byte("verif-key-" + name))
	return Key{Name: name, Priv: p, Pub: p.PubKey(), Addr: p.PubKey().Address()}
}

// Spec describes the genesis.
type Spec struct {
	Keys        []Key   // funded accounts, in this order (account numbers follow)
	Fund        int64   // ugnot per key
	ExtraCoins  std.Coins
	MaxGas      int64   // block gas limit (0 => 3_000_000_000 default; -1 => unlimited)
	GenesisTxs  []std.Tx // unsigned genesis txs (sig verification is skipped at genesis)
	Mutate      func(gs *gnoland.GnoGenesisState)
	GenesisTime time.Time
	Prune       types.PruneStrategy
}

type Chain struct {
	Spec    Spec
	DB      dbm.DB
	App     abci.Application
	Base    *sdk.BaseApp
	Height  int64 // last committed height
	InBlock bool
	Init    abci.ResponseInitChain
	LastTime time.Time
}

func (s Spec) genesisState() gnoland.GnoGenesisState {
	gs := gnoland.DefaultGenState()
	for _, k := range s.Keys {
		amt := std.Coins{std.NewCoin("ugnot", s.Fund)}
		if len(s.ExtraCoins) > 0 {
			amt = amt.Add(s.ExtraCoins)
		}
		gs.Balances = append(gs.Balances, gnoland.Balance{Address: k.Addr, Amount: amt})
	}
	for _, tx := range s.GenesisTxs {
		gs.Txs = append(gs.Txs, gnoland.TxWithMetadata{Tx: tx})
	}
	if s.Mutate != nil {
		s.Mutate(&gs)
	}
	return gs
}

func (s Spec) options(db dbm.DB) *gnoland.AppOptions {
	o := gnoland.TestAppOptions(db)
	o.Logger = log.NewNoopLogger()
	o.EventSwitch = events.NewEventSwitch()
	o.InitChainerConfig.StdlibDir = filepath.Join(RepoRoot(), "gnovm", "stdlibs")
	o.InitChainerConfig.GenesisTxResultHandler = gnoland.NoopGenesisTxResultHandler
	o.InitChainerConfig.CacheStdlibLoad = true
	if s.Prune != "" {
		o.PruneStrategy = s.Prune
	}
	return o
}

func (s Spec) consensusParams() *abci.ConsensusParams {
	mg := s.MaxGas
	if mg == 0 {
		mg = 3_000_000_000
	}
	return &abci.ConsensusParams{
		Block: &abci.BlockParams{MaxTxBytes: 1_000_000, MaxDataBytes: 2_000_000, MaxBlockBytes: 0, MaxGas: mg, TimeIotaMS: 100},
		Validator: &abci.ValidatorParams{PubKeyTypeURLs: []string{"/tm.PubKeyEd25519"}},
	}
}

// New creates the app on db, runs InitChain with the genesis from spec and commits the genesis block.
func New(db dbm.DB, spec Spec) (*Chain, error) {
	if spec.GenesisTime.IsZero() {
		spec.GenesisTime = time.Unix(1_700_000_000, 0).UTC()
	}
	app, err := gnoland.NewAppWithOptions(spec.options(db))
	if err != nil {
		return nil, err
	}
	c := &Chain{Spec: spec, DB: db, App: app, Base: app.(*sdk.BaseApp), LastTime: spec.GenesisTime}
	c.Init = app.InitChain(abci.RequestInitChain{
		Time: spec.GenesisTime, ChainID: ChainID, ConsensusParams: spec.consensusParams(),
		Validators: []abci.ValidatorUpdate{}, AppState: spec.genesisState(),
	})
	if c.Init.Error != nil {
		return c, fmt.Errorf("InitChain: %v", c.Init.Error)
	}
	app.Commit()
	return c, nil
}

// Restart closes the app and re-opens it on the same DB (cold caches; LoadLatestVersion + VM Initialize).
func (c *Chain) Restart() error {
	if c.InBlock {
		return fmt.Errorf("restart inside a block")
	}
	// NOTE: BaseApp.Close closes the DB too for some backends; harnesses use memdb-backed wrappers
	// for which Close is a no-op, so we do not call Close here.
	app, err := gnoland.NewAppWithOptions(c.Spec.options(c.DB))
	if err != nil {
		return err
	}
	c.App, c.Base = app, app.(*sdk.BaseApp)
	return nil
}

func (c *Chain) BeginBlock() {
	c.LastTime = c.LastTime.Add(5 * time.Second)
	h := &bft.Header{ChainID: ChainID, Height: c.Height + 1, Time: c.LastTime}
	c.App.BeginBlock(abci.RequestBeginBlock{Header: h})
	c.InBlock = true
}

func (c *Chain) DeliverTx(tx std.Tx) abci.ResponseDeliverTx {
	return c.App.DeliverTx(abci.RequestDeliverTx{Tx: amino.MustMarshal(tx)})
}

func (c *Chain) DeliverRaw(bz []byte) abci.ResponseDeliverTx {
	return c.App.DeliverTx(abci.RequestDeliverTx{Tx: bz})
}

func (c *Chain) EndBlockCommit() (abci.ResponseEndBlock, []byte) {
	eb := c.App.EndBlock(abci.RequestEndBlock{Height: c.Height + 1})
	cm := c.App.Commit()
	c.Height++
	c.InBlock = false
	return eb, cm.Data
}

// Block runs one block with the given txs and returns the results and the app hash.
func (c *Chain) Block(txs ...std.Tx) ([]abci.ResponseDeliverTx, []byte) {
	c.BeginBlock()
	var rs []abci.ResponseDeliverTx
	for _, tx := range txs {
		rs = append(rs, c.DeliverTx(tx))
	}
	_, h := c.EndBlockCommit()
	return rs, h
}

// ---- accounts & signing ------------------------------------------------------------------------

type AccInfo struct {
	Num, Seq uint64
	Exists   bool
	Coins    std.Coins
}

// Account reads account number/sequence from the current (deliver if in block, else committed) state.
func (c *Chain) Account(addr crypto.Address) AccInfo {
	ms := c.Base.VerifDeliverMultiStore()
	if ms == nil {
		ms = c.Base.GetCacheMultiStore()
	}
	_, mainKey := c.Base.VerifStoreKeys()
	st := ms.GetStore(mainKey)
	bz := st.Get(nil, append([]byte("/a/"), addr[:]...))
	if bz == nil {
		return AccInfo{}
	}
	var acc std.Account
	if err := amino.Unmarshal(bz, &acc); err != nil {
		panic(err)
	}
	return AccInfo{Num: acc.GetAccountNumber(), Seq: acc.GetSequence(), Exists: true, Coins: acc.GetCoins()}
}

type TxOpt struct {
	GasWanted int64
	FeeAmount int64
	Memo      string
	SeqDelta  int64 // added to the real sequence when signing (to forge stale/future sequences)
	ChainID   string
	NoSign    bool
}

// MakeTx builds and signs a tx for msgs; signers are taken from the msgs (in order), keys looked up by address.
func (c *Chain) MakeTx(keys []Key, msgs []std.Msg, o TxOpt) std.Tx {
	if o.GasWanted == 0 {
		o.GasWanted = 50_000_000
	}
	if o.FeeAmount == 0 {
		o.FeeAmount = 1_000_000
	}
	if o.ChainID == "" {
		o.ChainID = ChainID
	}
	tx := std.Tx{Msgs: msgs, Fee: std.NewFee(o.GasWanted, std.NewCoin("ugnot", o.FeeAmount)), Memo: o.Memo}
	if o.NoSign {
		tx.Signatures = make([]std.Signature, len(tx.GetSigners()))
		return tx
	}
	for _, sa := range tx.GetSigners() {
		var k *Key
		for i := range keys {
			if keys[i].Addr == sa {
				k = &keys[i]
			}
		}
		if k == nil {
			panic("no key for signer " + sa.String())
		}
		ai := c.Account(sa)
		sb, err := tx.GetSignBytes(o.ChainID, ai.Num, uint64(int64(ai.Seq)+o.SeqDelta))
		if err != nil {
			panic(err)
		}
		sig, err := k.Priv.Sign(sb)
		if err != nil {
			panic(err)
		}
		tx.Signatures = append(tx.Signatures, std.Signature{PubKey: k.Pub, Signature: sig})
	}
	return tx
}

// ---- messages ------------------------------------------------------------------------------------

func Files(pkgPath string, files map[string]string) []*std.MemFile {
	var names []string
	for n := range files {
		names = append(names, n)
	}
	sort.Strings(names)
	var mf []*std.MemFile
	for _, n := range names {
		mf = append(mf, &std.MemFile{Name: n, Body: files[n]})
	}
	if _, ok := files["gnomod.toml"]; !ok {
		mf = append(mf, &std.MemFile{Name: "gnomod.toml", Body: gnolang.GenGnoModLatest(pkgPath)})
	}
	sort.Slice(mf, func(i, j int) bool { return mf[i].Name < mf[j].Name })
	return mf
}

func AddPkg(creator crypto.Address, pkgPath string, files map[string]string) std.Msg {
	return vm.NewMsgAddPackage(creator, pkgPath, Files(pkgPath, files))
}

func Call(caller crypto.Address, send std.Coins, pkgPath, fn string, args ...string) std.Msg {
	return vm.NewMsgCall(caller, send, pkgPath, fn, args)
}

func Run(caller crypto.Address, send std.Coins, body string) std.Msg {
	return vm.NewMsgRun(caller, send, []*std.MemFile{{Name: "main.gno", Body: body}})
}

// ---- state dumps ---------------------------------------------------------------------------------

// Dump returns every key/value of both stores ("main/", "base/" prefixes) from the state the next tx would
// see: the deliver state inside a block, the committed state otherwise.
func (c *Chain) Dump() map[string]string {
	ms := c.Base.VerifDeliverMultiStore()
	if ms == nil {
		ms = c.Base.GetCacheMultiStore()
	}
	baseKey, mainKey := c.Base.VerifStoreKeys()
	out := map[string]string{}
	for name, key := range map[string]types.StoreKey{"base/": baseKey, "main/": mainKey} {
		it := ms.GetStore(key).Iterator(nil, nil, nil)
		for ; it.Valid(); it.Next() {
			out[name+string(it.Key())] = string(it.Value())
		}
		it.Close()
	}
	return out
}

// DiffDump lists keys whose values differ between a and b (sorted, each "key: a -> b" abbreviated).
func DiffDump(a, b map[string]string) []string {
	var d []string
	for k, va := range a {
		if vb, ok := b[k]; !ok {
			d = append(d, fmt.Sprintf("%s: <%s> -> (absent)", show(k), abbrev(va)))
		} else if va != vb {
			d = append(d, fmt.Sprintf("%s: <%s> -> <%s>", show(k), abbrev(va), abbrev(vb)))
		}
	}
	for k, vb := range b {
		if _, ok := a[k]; !ok {
			d = append(d, fmt.Sprintf("%s: (absent) -> <%s>", show(k), abbrev(vb)))
		}
	}
	sort.Strings(d)
	return d
}

func show(k string) string {
	var b strings.Builder
	for _, c := range []byte(k) {
		if c >= 32 && c < 127 {
			b.WriteByte(c)
		} else {
			fmt.Fprintf(&b, "\\x%02x", c)
		}
	}
	return b.String()
}

func abbrev(v string) string {
	h := sha256.Sum256([]byte(v))
	return fmt.Sprintf("%dB:%s", len(v), hex.EncodeToString(h[:4]))
}

func HashDump(d map[string]string) string {
	var ks []string
	for k := range d {
		ks = append(ks, k)
	}
	sort.Strings(ks)
	h := sha256.New()
	for _, k := range ks {
		fmt.Fprintf(h, "%d:%s=%d:%s;", len(k), k, len(d[k]), d[k])
	}
	return hex.EncodeToString(h.Sum(nil)[:12])
}

// ResKey is a canonical string of the consensus-relevant parts of a tx result.
func ResKey(r abci.ResponseDeliverTx) string {
	var ev bytes.Buffer
	for _, e := range r.Events {
		ev.Write(amino.MustMarshalJSON(e))
	}
	es := ""
	if r.Error != nil {
		es = fmt.Sprintf("%T", r.Error)
	}
	h := sha256.Sum256(append(append([]byte{}, r.Data...), ev.Bytes()...))
	return fmt.Sprintf("err=%s gasUsed=%d gasWanted=%d data+events=%s", es, r.GasUsed, r.GasWanted, hex.EncodeToString(h[:6]))
}

// Query runs an ABCI query against the committed state.
func (c *Chain) Query(path string, data []byte) abci.ResponseQuery {
	return c.App.Query(abci.RequestQuery{Path: path, Data: data})
}
