package chainx

// Accessors for /verif/harness/c33, which boots the app through the real tm2 Handshaker (InitChain from the
// genesis document) instead of chainx.New.

import (
	"github.com/gnolang/gno/gno.land/pkg/gnoland"
	abci "github.com/gnolang/gno/tm2/pkg/bft/abci/types"
	dbm "github.com/gnolang/gno/tm2/pkg/db"
)

func (s Spec) AppOptions(db dbm.DB) *gnoland.AppOptions   { return s.options(db) }
func (s Spec) GenesisState() gnoland.GnoGenesisState       { return s.genesisState() }
func (s Spec) ConsensusParams() abci.ConsensusParams       { return *s.consensusParams() }
