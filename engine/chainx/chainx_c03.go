package chainx

import (
	"github.com/gnolang/gno/tm2/pkg/store/types"
)

// Push snapshots the deliver state of the open block (see hooks/c03/zz_verif_c03.go); the returned function
// rolls the chain back to the snapshot. Needs the overlay file hooks/c03/zz_verif_c03.go in tm2/pkg/sdk.
func (c *Chain) Push() (pop func()) { return c.Base.VerifPushDeliver() }

// DumpPrefix returns the key/values of one store ("base" or "main") whose key starts with prefix, from the
// state the next tx would see.
func (c *Chain) DumpPrefix(storeName, prefix string) map[string]string {
	ms := c.Base.VerifDeliverMultiStore()
	if ms == nil {
		ms = c.Base.GetCacheMultiStore()
	}
	baseKey, mainKey := c.Base.VerifStoreKeys()
	key := baseKey
	if storeName == "main" {
		key = mainKey
	}
	out := map[string]string{}
	it := types.PrefixIterator(nil, ms.GetStore(key), []byte(prefix))
	for ; it.Valid(); it.Next() {
		out[string(it.Key())] = string(it.Value())
	}
	it.Close()
	return out
}

// Get reads one key of one store ("base" or "main") from the state the next tx would see.
func (c *Chain) Get(storeName, key string) (string, bool) {
	ms := c.Base.VerifDeliverMultiStore()
	if ms == nil {
		ms = c.Base.GetCacheMultiStore()
	}
	baseKey, mainKey := c.Base.VerifStoreKeys()
	k := baseKey
	if storeName == "main" {
		k = mainKey
	}
	v := ms.GetStore(k).Get(nil, []byte(key))
	if v == nil {
		return "", false
	}
	return string(v), true
}
