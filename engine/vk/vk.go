// Package vk is the shared kit of every harness: flags, violation reporting (replay artefacts,
// known-findings matching), evidence writing, budgets and a parallel-for helper.
package vk

import (
	"bufio"
	"crypto/sha256"
	"encoding/hex"
	"encoding/json"
	"flag"
	"fmt"
	"os"
	"path/filepath"
	"runtime"
	"sort"
	"strconv"
	"sync"
	"sync/atomic"
	"time"
)

const Root = "/verif"

type Run struct {
	ID       string
	Tier     string // quick | thorough
	Seed     int64
	Level    string
	Evidence string
	ReplayIn string
	Budget   time.Duration // soft wall budget; on expiry harnesses stop and report exhaustive:false
	start    time.Time

	mu         sync.Mutex
	violations int
	knownHit   map[string]bool
	seenKeys   map[string]bool
	known      []knownEntry
	Assumptions []string

	evals    atomic.Int64
	distinct sync.Map
	ndist    atomic.Int64
	samples  []any
	hist     map[string]int64
	capped   atomic.Bool
}

type knownEntry struct {
	Property string `json:"property"`
	Kind     string `json:"kind"` // known | fixed
	Key      string `json:"key"`
	What     string `json:"what"`
	Commit   string `json:"commit,omitempty"`
}

// New parses the common flags. level is the evidence level of this check.
func New(level string) *Run {
	r := &Run{Level: level, knownHit: map[string]bool{}, seenKeys: map[string]bool{}, hist: map[string]int64{}}
	flag.StringVar(&r.ID, "id", "", "property id")
	flag.StringVar(&r.Tier, "tier", "quick", "quick|thorough")
	flag.StringVar(&r.Evidence, "evidence", "", "evidence file")
	flag.StringVar(&r.ReplayIn, "replay", "", "replay file")
	budget := flag.Duration("budget", 0, "soft wall budget (0 = tier default)")
	flag.Parse()
	if r.Tier != "quick" && r.Tier != "thorough" {
		fmt.Println("HARNESS-ERROR: bad tier", r.Tier)
		os.Exit(2)
	}
	if s := os.Getenv("VERIF_SEED"); s != "" {
		r.Seed, _ = strconv.ParseInt(s, 10, 64)
	}
	r.Budget = *budget
	r.start = time.Now()
	r.loadKnown()
	return r
}

func (r *Run) Quick() bool    { return r.Tier == "quick" }
func (r *Run) Thorough() bool { return r.Tier == "thorough" }

// SetBudget sets the default soft budget for the tier unless -budget was given.
func (r *Run) SetBudget(quick, thorough time.Duration) {
	if r.Budget != 0 {
		return
	}
	if r.Quick() {
		r.Budget = quick
	} else {
		r.Budget = thorough
	}
}

// Expired reports whether the soft budget is used up; the first true marks the run as capped.
func (r *Run) Expired() bool {
	if r.Budget > 0 && time.Since(r.start) > r.Budget {
		r.capped.Store(true)
		return true
	}
	return false
}
func (r *Run) MarkCapped()  { r.capped.Store(true) }
func (r *Run) Capped() bool { return r.capped.Load() }

func (r *Run) loadKnown() {
	f, err := os.Open(filepath.Join(Root, "known_findings.jsonl"))
	if err != nil {
		return
	}
	defer f.Close()
	sc := bufio.NewScanner(f)
	sc.Buffer(make([]byte, 1<<20), 1<<20)
	for sc.Scan() {
		var e knownEntry
		if json.Unmarshal(sc.Bytes(), &e) == nil && e.Property != "" {
			r.known = append(r.known, e)
		}
	}
}

// Eval counts one evaluation (case / execution / transition checked).
func (r *Run) Eval()           { r.evals.Add(1) }
func (r *Run) EvalN(n int64)   { r.evals.Add(n) }
func (r *Run) Evals() int64    { return r.evals.Load() }
func (r *Run) NDistinct() int64 { return r.ndist.Load() }

// Distinct records a canonical key of a non-trivial case; returns true if it was new.
func (r *Run) Distinct(key string) bool {
	h := sha256.Sum256([]byte(key))
	_, loaded := r.distinct.LoadOrStore(h, struct{}{})
	if !loaded {
		r.ndist.Add(1)
	}
	return !loaded
}

// Outcome increments a histogram bucket (outcome classes make vacuous exploration visible).
func (r *Run) Outcome(class string) {
	r.mu.Lock()
	r.hist[class]++
	r.mu.Unlock()
}
func (r *Run) OutcomeN(class string, n int64) {
	r.mu.Lock()
	r.hist[class] += n
	r.mu.Unlock()
}

// Sample keeps up to 6 written-out cases.
func (r *Run) Sample(v any) {
	r.mu.Lock()
	if len(r.samples) < 6 {
		r.samples = append(r.samples, v)
	}
	r.mu.Unlock()
}

// Violation reports a property violation. key identifies the specific failing input / history class
// (it is what known_findings.jsonl matches on, exactly); detail is written to the replay artefact.
// Returns true if it is a NEW (unlisted) violation.
func (r *Run) Violation(key string, detail any) bool {
	r.mu.Lock()
	defer r.mu.Unlock()
	for _, k := range r.known {
		if k.Property == r.ID && k.Kind == "known" && k.Key == key {
			if !r.knownHit[key] {
				r.knownHit[key] = true
				fmt.Printf("KNOWN-FINDING: property=%s %s [%s]\n", r.ID, k.What, key)
			}
			return false
		}
	}
	if r.seenKeys[key] {
		return true
	}
	r.seenKeys[key] = true
	r.violations++
	if r.violations > 20 {
		return true
	}
	h := sha256.Sum256([]byte(key))
	dir := filepath.Join(Root, "replays", r.ID)
	if os.Getenv("VERIF_MUTANT") != "" || os.Getenv("VERIF_SCRATCH_EVIDENCE") != "" || (os.Getenv("VERIF_REPO") != "" && os.Getenv("VERIF_REPO") != "/repo") {
		dir = filepath.Join(Root, ".work", lower(r.ID), "replays-scratch") // mutation demos must not litter the real replay dir
	}
	os.MkdirAll(dir, 0o755)
	p := filepath.Join(dir, hex.EncodeToString(h[:6])+".json")
	b, _ := json.MarshalIndent(map[string]any{"property": r.ID, "key": key, "tier": r.Tier, "detail": detail}, "", " ")
	os.WriteFile(p, b, 0o644)
	fmt.Printf("VIOLATION property=%s replay=%s\n", r.ID, p)
	fmt.Printf("  key: %s\n", key)
	return true
}

func (r *Run) Violations() int { r.mu.Lock(); defer r.mu.Unlock(); return r.violations }

// HarnessError aborts with exit 2 (never a VIOLATION).
func (r *Run) HarnessError(format string, a ...any) {
	fmt.Printf("HARNESS-ERROR: "+format+"\n", a...)
	os.Exit(2)
}

// Finish writes the evidence file and exits. cov holds extra coverage keys (states, transitions, depth, ...).
func (r *Run) Finish(rule string, exhaustive bool, cov map[string]any) {
	if cov == nil {
		cov = map[string]any{}
	}
	if r.capped.Load() {
		exhaustive = false
		cov["capped"] = true
	}
	cov["evaluations"] = r.evals.Load()
	cov["distinct_nontrivial"] = r.ndist.Load()
	cov["rule"] = rule
	r.mu.Lock()
	samples := r.samples
	hist := map[string]int64{}
	for k, v := range r.hist {
		hist[k] = v
	}
	viol := r.violations
	var kh []string
	for k := range r.knownHit {
		kh = append(kh, k)
	}
	sort.Strings(kh)
	r.mu.Unlock()
	if len(samples) == 0 {
		samples = []any{"(none recorded)"}
	}
	cov["samples"] = samples
	cov["exhaustive"] = exhaustive
	if len(hist) > 0 {
		cov["outcome_histogram"] = hist
	}
	if len(kh) > 0 {
		cov["known_findings_hit"] = kh
	}
	cov["gomaxprocs"] = runtime.GOMAXPROCS(0)
	if hb, err := os.ReadFile(filepath.Join(Root, ".work", lower(r.ID), "overlay.json.hooked.json")); err == nil {
		var hk any
		if json.Unmarshal(hb, &hk) == nil {
			cov["hooked_files"] = hk
		}
	}
	ev := map[string]any{
		"property_id": r.ID, "tier": r.Tier, "seed": r.Seed, "level": r.Level,
		"coverage": cov, "assumptions": r.Assumptions,
		"wall_s": time.Since(r.start).Seconds(), "violations": viol,
	}
	if r.Assumptions == nil {
		ev["assumptions"] = []string{}
	}
	if r.Evidence != "" {
		b, _ := json.MarshalIndent(ev, "", " ")
		os.MkdirAll(filepath.Dir(r.Evidence), 0o755)
		if err := os.WriteFile(r.Evidence, b, 0o644); err != nil {
			fmt.Println("HARNESS-ERROR: cannot write evidence:", err)
			os.Exit(2)
		}
	}
	fmt.Printf("%s tier=%s evaluations=%d distinct=%d exhaustive=%v violations=%d wall=%.1fs\n",
		r.ID, r.Tier, r.evals.Load(), r.ndist.Load(), exhaustive, viol, time.Since(r.start).Seconds())
	if viol > 0 {
		os.Exit(1)
	}
	os.Exit(0)
}

func lower(s string) string {
	b := []byte(s)
	for i, c := range b {
		if c >= 'A' && c <= 'Z' {
			b[i] = c + 32
		}
	}
	return string(b)
}

// ParFor runs f(i) for i in [0,n) on all cores; stops early when the budget expires.
func (r *Run) ParFor(n int, f func(i int)) {
	w := runtime.GOMAXPROCS(0)
	if w > n {
		w = n
	}
	var next atomic.Int64
	var wg sync.WaitGroup
	for k := 0; k < w; k++ {
		wg.Add(1)
		go func() {
			defer wg.Done()
			for {
				i := int(next.Add(1) - 1)
				if i >= n {
					return
				}
				if r.Expired() {
					return
				}
				f(i)
			}
		}()
	}
	wg.Wait()
}

// Catch runs f and returns the recovered panic value (nil if none).
func Catch(f func()) (rec any) {
	defer func() { rec = recover() }()
	f()
	return nil
}

func J(v any) string { b, _ := json.Marshal(v); return string(b) }
