// Package crashdb (engine E4) wraps a memdb and logs every PHYSICAL mutation as a numbered unit:
// a direct Set/SetSync/Delete/DeleteSync is one unit; a Batch.Write/WriteSync is ONE unit holding all its
// operations (backends used in production commit a batch atomically). Rebuild(k) returns a fresh memdb
// holding exactly units [0,k): the state a process killed after unit k-1 finds on disk.
// Split() turns every batch into per-operation units (models a backend whose batches are NOT atomic;
// used for detection demos only).
package crashdb

import (
	"sync"

	dbm "github.com/gnolang/gno/tm2/pkg/db"
	"github.com/gnolang/gno/tm2/pkg/db/memdb"
)

type Op struct {
	Del bool
	K   []byte
	V   []byte
}

type Unit struct {
	Kind string // set | delete | batch
	Sync bool
	Ops  []Op
}

type DB struct {
	*memdb.MemDB
	mu    sync.Mutex
	Units []Unit
	// Hook, if set, is called (outside the lock) before a unit is applied; used as a scheduling point / fault point.
	Hook func(u *Unit)
}

func New() *DB { return &DB{MemDB: memdb.NewMemDB()} }

func cp(b []byte) []byte {
	if b == nil {
		return nil
	}
	return append([]byte{}, b...)
}

func (d *DB) log(u Unit) {
	if d.Hook != nil {
		d.Hook(&u)
	}
	d.mu.Lock()
	d.Units = append(d.Units, u)
	d.mu.Unlock()
}

func (d *DB) NumUnits() int { d.mu.Lock(); defer d.mu.Unlock(); return len(d.Units) }

func (d *DB) Set(k, v []byte) error {
	d.log(Unit{Kind: "set", Ops: []Op{{K: cp(k), V: cp(v)}}})
	return d.MemDB.Set(k, v)
}

func (d *DB) SetSync(k, v []byte) error {
	d.log(Unit{Kind: "set", Sync: true, Ops: []Op{{K: cp(k), V: cp(v)}}})
	return d.MemDB.SetSync(k, v)
}

func (d *DB) Delete(k []byte) error {
	d.log(Unit{Kind: "delete", Ops: []Op{{Del: true, K: cp(k)}}})
	return d.MemDB.Delete(k)
}

func (d *DB) DeleteSync(k []byte) error {
	d.log(Unit{Kind: "delete", Sync: true, Ops: []Op{{Del: true, K: cp(k)}}})
	return d.MemDB.DeleteSync(k)
}

// Close is a no-op so that an application can be "restarted" on the same DB object.
func (d *DB) Close() error { return nil }

func (d *DB) NewBatch() dbm.Batch             { return &batch{db: d} }
func (d *DB) NewBatchWithSize(int) dbm.Batch { return &batch{db: d} }

type batch struct {
	db   *DB
	ops  []Op
	size int
}

func (b *batch) Set(k, v []byte) error {
	b.ops = append(b.ops, Op{K: cp(k), V: cp(v)})
	b.size += len(k) + len(v)
	return nil
}

func (b *batch) Delete(k []byte) error {
	b.ops = append(b.ops, Op{Del: true, K: cp(k)})
	b.size += len(k)
	return nil
}

func (b *batch) write(sync bool) error {
	b.db.log(Unit{Kind: "batch", Sync: sync, Ops: b.ops})
	mtx := b.db.MemDB.Mutex() // atomic w.r.t. readers and snapshots, like memdb's own batch
	mtx.Lock()
	for _, o := range b.ops {
		if o.Del {
			b.db.MemDB.DeleteNoLock(o.K)
		} else {
			b.db.MemDB.SetNoLock(o.K, o.V)
		}
	}
	mtx.Unlock()
	b.ops = nil
	return nil
}

func (b *batch) Write() error               { return b.write(false) }
func (b *batch) WriteSync() error           { return b.write(true) }
func (b *batch) Close() error               { b.ops = nil; return nil }
func (b *batch) GetByteSize() (int, error) { return b.size, nil }

// Rebuild returns a fresh crashdb whose contents are units [0,k) of the log (and whose own log starts empty).
func Rebuild(units []Unit, k int) *DB {
	n := New()
	for _, u := range units[:k] {
		for _, o := range u.Ops {
			if o.Del {
				n.MemDB.Delete(o.K)
			} else {
				n.MemDB.Set(o.K, o.V)
			}
		}
	}
	return n
}

// Split returns the log with every batch exploded into one unit per operation.
func Split(units []Unit) []Unit {
	var out []Unit
	for _, u := range units {
		if u.Kind != "batch" {
			out = append(out, u)
			continue
		}
		for _, o := range u.Ops {
			k := "set"
			if o.Del {
				k = "delete"
			}
			out = append(out, Unit{Kind: k, Sync: u.Sync, Ops: []Op{o}})
		}
	}
	return out
}
