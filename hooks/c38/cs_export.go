//go:build verif

// Added to package consensus by the C38 overlay: constructors for the unexported WAL message types
// (the values the real node writes to its consensus WAL).
package consensus

import (
	"time"

	cstypes "github.com/gnolang/gno/tm2/pkg/bft/consensus/types"
	walm "github.com/gnolang/gno/tm2/pkg/bft/wal"
	p2pTypes "github.com/gnolang/gno/tm2/pkg/p2p/types"
)

func VerifMsgInfo(msg ConsensusMessage, peer string) walm.WALMessage {
	return msgInfo{Msg: msg, PeerID: p2pTypes.ID(peer)}
}

func VerifTimeoutInfo(d time.Duration, h int64, r int, step uint8) walm.WALMessage {
	return timeoutInfo{Duration: d, Height: h, Round: r, Step: cstypes.RoundStepType(step)}
}

func VerifNewRoundStep(h int64, r int, step uint8) walm.WALMessage {
	return newRoundStepInfo{HRS: cstypes.HRS{Height: h, Round: r, Step: cstypes.RoundStepType(step)}}
}
