//go:build verif

// Added to package autofile by the C38 overlay. AutoFile.Close closes the SIGHUP channel but never calls
// signal.Stop, so every opened AutoFile stays registered in os/signal's handler table for the life of the
// process. The harness opens millions of groups; this lets it unregister the channel after Close.
package autofile

import "os/signal"

func (af *AutoFile) VerifStopSignals() {
	if af.hupc != nil {
		signal.Stop(af.hupc)
	}
}
