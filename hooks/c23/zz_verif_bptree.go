//go:build verif

// Verification-only read access to B+ tree internals (added to package bptree through the build
// overlay of harnesses c23/c24/c25; never part of a normal build).  Everything here is READ-ONLY:
// it walks nodes through the package's own getChild (which never memoizes) and copies what it sees.
package bptree

// VerifNode is a plain copy of one tree node.
type VerifNode struct {
	Leaf        bool
	Height      int
	NodeKey     string // "" = unsaved (dirty) node, else "version:nonce"
	Keys        [][]byte
	ValueHashes []Hash  // leaf only
	ValueKeyVer []int64 // leaf only: version part of each valueKey (-1 = nil valueKey)
	ChildSizes  []int64 // inner only
	ChildHashes []Hash  // inner only (as cached in the parent)
	ChildInMem  []bool  // inner only: child pointer held in memory
	Children    []*VerifNode
	Hash        Hash // the node's own mini-merkle root
	Slots       []Hash
}

func verifDump(n Node) (*VerifNode, error) {
	if n == nil {
		return nil, nil
	}
	out := &VerifNode{Hash: n.Hash()}
	if nk := n.GetNodeKey(); nk != nil {
		out.NodeKey = itoa(nk.Version) + ":" + itoa(int64(nk.Nonce))
	}
	switch x := n.(type) {
	case *LeafNode:
		out.Leaf = true
		for i := 0; i < int(x.numKeys); i++ {
			out.Keys = append(out.Keys, copyKey(x.keys[i]))
			out.ValueHashes = append(out.ValueHashes, x.valueHashes[i])
			if x.valueKeys[i] == nil {
				out.ValueKeyVer = append(out.ValueKeyVer, -1)
			} else {
				out.ValueKeyVer = append(out.ValueKeyVer, vkVersion(x.valueKeys[i]))
			}
		}
		for i := 0; i < B; i++ {
			out.Slots = append(out.Slots, x.miniTree.GetSlot(i))
		}
	case *InnerNode:
		out.Height = int(x.height)
		for i := 0; i < int(x.numKeys); i++ {
			out.Keys = append(out.Keys, copyKey(x.keys[i]))
		}
		for i := 0; i < x.NumChildren(); i++ {
			out.ChildSizes = append(out.ChildSizes, x.childSizes[i])
			out.ChildHashes = append(out.ChildHashes, x.childHashes[i])
			out.ChildInMem = append(out.ChildInMem, x.childNodes[i] != nil)
			c, err := x.getChild(i)
			if err != nil {
				return nil, err
			}
			cd, err := verifDump(c)
			if err != nil {
				return nil, err
			}
			out.Children = append(out.Children, cd)
		}
		for i := 0; i < B; i++ {
			out.Slots = append(out.Slots, x.miniTree.GetSlot(i))
		}
	}
	return out, nil
}

func itoa(v int64) string {
	if v == 0 {
		return "0"
	}
	neg := v < 0
	if neg {
		v = -v
	}
	var b [24]byte
	i := len(b)
	for v > 0 {
		i--
		b[i] = byte('0' + v%10)
		v /= 10
	}
	if neg {
		i--
		b[i] = '-'
	}
	return string(b[i:])
}

// VerifDumpWorking copies the working tree (nil for an empty tree).
func VerifDumpWorking(t *MutableTree) (*VerifNode, error) { return verifDump(t.root) }

// VerifDumpSaved copies the tree of the last saved / loaded version held in memory.
func VerifDumpSaved(t *MutableTree) (*VerifNode, error) { return verifDump(t.lastSaved) }

// VerifDumpImm copies an immutable snapshot's tree.
func VerifDumpImm(t *ImmutableTree) (*VerifNode, error) { return verifDump(t.root) }

// VerifParams returns the compile-time shape parameters actually built into this binary.
func VerifParams() (b, minKeys, depth int) { return B, MinKeys, miniMerkleDepth }

// VerifSentinel returns the empty-slot hash.
func VerifSentinel() Hash { return sentinelHash }

// VerifSession exposes working-session bookkeeping (for state digests only).
func VerifSession(t *MutableTree) (nonce uint32, orphans int, poisoned bool, pending int, clean bool) {
	return t.nextValueNonce, len(t.versionOrphans), t.poisoned != nil, len(t.ndb.pendingVals), t.root == t.lastSaved
}

// VerifExport calls ImmutableTree.Export with the tree's own nodeDB (the parameter type is unexported).
func VerifExport(t *ImmutableTree) (*Exporter, error) { return t.Export(t.ndb) }

// VerifBatchSize returns the byte size of the shared, not yet committed write batch (state digests only:
// anything a finished session leaves staged there would be flushed by the next Commit).
func VerifBatchSize(t *MutableTree) int {
	if t.ndb.batch == nil {
		return -1
	}
	n, err := t.ndb.batch.GetByteSize()
	if err != nil {
		return -2
	}
	return n
}
