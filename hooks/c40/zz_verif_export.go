//go:build verif

package mempool

import (
	"sync/atomic"

	"github.com/gnolang/gno/tm2/pkg/bft/types"
)

// VerifContents walks the tx list without taking the mempool lock and without the recheck spin of Reap.
func VerifContents(mem *CListMempool) (txs []types.Tx, gas []int64) {
	for e := mem.txs.Front(); e != nil; e = e.Next() {
		m := e.Value.(*mempoolTx)
		txs = append(txs, m.tx)
		gas = append(gas, m.gasWanted)
	}
	return
}

// VerifRechecking reports the recheck-in-progress flag and whether a recheck cursor is still set.
func VerifRechecking(mem *CListMempool) (flag int32, cursorSet bool) {
	return atomic.LoadInt32(&mem.rechecking), mem.recheckCursor != nil
}
