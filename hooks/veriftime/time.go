//go:build verif

// Package veriftime replaces "time" in hooked files whose only use of time is a polling sleep:
// Sleep becomes a scheduler yield while an exploration is active. Virtual package (overlay only).
package veriftime

import (
	realtime "time"

	vs "github.com/gnolang/gno/tm2/pkg/verifsync"
)

type (
	Duration = realtime.Duration
	Time     = realtime.Time
)

const (
	Nanosecond  = realtime.Nanosecond
	Microsecond = realtime.Microsecond
	Millisecond = realtime.Millisecond
	Second      = realtime.Second
	Minute      = realtime.Minute
)

func Now() Time               { return realtime.Now() }
func Since(t Time) Duration   { return realtime.Since(t) }
func Sleep(d Duration) {
	if vs.Active() {
		vs.Yield("time.Sleep")
		return
	}
	realtime.Sleep(d)
}
