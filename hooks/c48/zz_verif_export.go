//go:build verif

package bitarray

// VerifTrueIndices exposes the unexported true-index enumeration (used by PickRandom) to the C48 harness.
// (overlay-added file; never part of a normal build)
func (bA *BitArray) VerifTrueIndices() []int {
	if bA == nil {
		return nil
	}
	bA.mtx.Lock()
	defer bA.mtx.Unlock()
	return bA.getTrueIndices()
}
