//go:build verif

// Overlay-added to gno.land/pkg/sdk/vm by /verif/harness/c11.
// VerifRecoverHook, when set, is shown the RAW value recovered by the keeper's doRecover* before it is
// rendered into a "VM panic: ..." error (so that an interpreter fault masked as a transaction error is visible).
package vm

var VerifRecoverHook func(r any)
