//go:build verif

// Package verifos is a drop-in for the subset of package "os" used by tm2/pkg/os (tempfile.go, os.go) and
// tm2/pkg/bft/privval/state/state.go. The C34 overlay rewrites the `"os"` import of those files to this
// package (import name stays `os`).
//
// Paths that do not start with MemPrefix are forwarded to the real os unchanged.
// Paths under MemPrefix+"<n>/" live in the n-th in-memory file system (one per harness worker), which
//   - counts every MUTATING call (create/truncate, write, sync, rename, remove) and
//   - can inject, at the k-th mutating call: a crash before the call, a crash after a torn (half) write,
//     or an I/O error returned by the call.
//
// A crash panics with Crash{} and FREEZES the file system: every later call fails without any effect, so the
// deferred cleanups that run while the panic unwinds (e.g. WriteFileAtomic's Remove of the temp file) cannot
// touch the "disk" - exactly as if the process had died at that point.
package verifos

import (
	"errors"
	"io"
	"io/fs"
	"os"
	"sort"
	"strconv"
	"strings"
	"sync"
	"syscall"
	"time"
)

// ---- re-exports ----------------------------------------------------------------------------------------

const (
	O_RDONLY = os.O_RDONLY
	O_WRONLY = os.O_WRONLY
	O_RDWR   = os.O_RDWR
	O_APPEND = os.O_APPEND
	O_CREATE = os.O_CREATE
	O_EXCL   = os.O_EXCL
	O_SYNC   = os.O_SYNC
	O_TRUNC  = os.O_TRUNC

	ModePerm = os.ModePerm
)

type (
	FileMode  = os.FileMode
	FileInfo  = os.FileInfo
	Signal    = os.Signal
	Process   = os.Process
	PathError = os.PathError
)

var (
	Interrupt   = os.Interrupt
	Kill        = os.Kill
	ErrNotExist = os.ErrNotExist
	ErrExist    = os.ErrExist
	Stdout      = os.Stdout
	Stderr      = os.Stderr
)

func Exit(code int)                         { os.Exit(code) }
func Getpid() int                           { return os.Getpid() }
func FindProcess(pid int) (*Process, error) { return os.FindProcess(pid) }
func IsExist(err error) bool                { return os.IsExist(err) }
func IsNotExist(err error) bool             { return os.IsNotExist(err) }
func Getenv(k string) string                { return os.Getenv(k) }
func MkdirAll(p string, m FileMode) error {
	if _, _, ok := memOf(p); ok {
		return nil // directories are implicit in the in-memory fs
	}
	return os.MkdirAll(p, m)
}

// ---- in-memory fs --------------------------------------------------------------------------------------

const MemPrefix = "/__verifmem__/"

type FaultKind int

const (
	NoFault     FaultKind = iota
	CrashBefore           // process dies right before the k-th mutating call
	CrashTorn             // k-th call is a write: half of the bytes reach the file, then the process dies
	ErrBefore             // the k-th mutating call fails with EIO and has no effect; the process lives on
)

// Crash is the panic value of an injected crash.
type Crash struct{ At int }

func IsCrash(rec any) bool { _, ok := rec.(Crash); return ok }

var errFrozen = errors.New("verifos: process crashed (file system frozen)")

type MemFS struct {
	mu     sync.Mutex
	files  map[string][]byte
	calls  int
	at     int
	kind   FaultKind
	fired  bool
	frozen bool
	trace  []string
}

var memTab [1024]*MemFS

func init() {
	for i := range memTab {
		memTab[i] = &MemFS{files: map[string][]byte{}}
	}
}

// Mem returns the n-th in-memory file system (paths MemPrefix+"<n>/...").
func Mem(n int) *MemFS { return memTab[n] }

func (m *MemFS) Root(n int) string { return MemPrefix + strconv.Itoa(n) + "/" }

func memOf(path string) (*MemFS, string, bool) {
	if !strings.HasPrefix(path, MemPrefix) {
		return nil, "", false
	}
	rest := path[len(MemPrefix):]
	i := strings.IndexByte(rest, '/')
	if i < 0 {
		i = len(rest)
	}
	n, err := strconv.Atoi(rest[:i])
	if err != nil || n < 0 || n >= len(memTab) {
		return nil, "", false
	}
	return Mem(n), path, true
}

// Reset replaces the whole content, unfreezes and disarms.
func (m *MemFS) Reset(files map[string]string) {
	m.mu.Lock()
	defer m.mu.Unlock()
	m.files = make(map[string][]byte, len(files)+2)
	for k, v := range files {
		m.files[k] = []byte(v)
	}
	m.calls, m.at, m.kind, m.fired, m.frozen, m.trace = 0, 0, NoFault, false, false, m.trace[:0]
}

// Arm plans a fault at the k-th mutating call from now (k >= 1); counters restart.
func (m *MemFS) Arm(k int, kind FaultKind) {
	m.mu.Lock()
	defer m.mu.Unlock()
	m.calls, m.at, m.kind, m.fired, m.frozen, m.trace = 0, k, kind, false, false, m.trace[:0]
}

// Thaw ends the frozen state after a crash (the "restart"); the disk keeps what it had at the crash.
func (m *MemFS) Thaw() {
	m.mu.Lock()
	defer m.mu.Unlock()
	m.frozen, m.at, m.kind = false, 0, NoFault
}

func (m *MemFS) Calls() int  { m.mu.Lock(); defer m.mu.Unlock(); return m.calls }
func (m *MemFS) Fired() bool { m.mu.Lock(); defer m.mu.Unlock(); return m.fired }
func (m *MemFS) Trace() []string {
	m.mu.Lock()
	defer m.mu.Unlock()
	return append([]string(nil), m.trace...)
}

// Snapshot returns path -> content.
func (m *MemFS) Snapshot() map[string]string {
	m.mu.Lock()
	defer m.mu.Unlock()
	out := make(map[string]string, len(m.files))
	for k, v := range m.files {
		out[k] = string(v)
	}
	return out
}

func (m *MemFS) Paths() []string {
	m.mu.Lock()
	defer m.mu.Unlock()
	var out []string
	for k := range m.files {
		out = append(out, k)
	}
	sort.Strings(out)
	return out
}

// mutating is called with m.mu held at the start of every mutating call. It returns
// (proceed, torn, err): err != nil means "fail the call with err and do nothing".
func (m *MemFS) mutating(op, path string, isWrite bool) (torn bool, err error) {
	if m.frozen {
		return false, errFrozen
	}
	m.calls++
	m.trace = append(m.trace, op)
	if m.at == 0 || m.calls != m.at {
		return false, nil
	}
	switch m.kind {
	case CrashBefore:
		m.fired, m.frozen = true, true
		panic(Crash{At: m.calls}) // the caller's deferred Unlock releases m.mu
	case CrashTorn:
		if isWrite {
			m.fired = true
			return true, nil
		}
	case ErrBefore:
		m.fired = true
		return false, &PathError{Op: op, Path: path, Err: syscall.EIO}
	}
	return false, nil
}

// ---- File ----------------------------------------------------------------------------------------------

type File struct {
	real   *os.File
	m      *MemFS
	path   string
	off    int
	wr, rd bool
	closed bool
}

func (f *File) Name() string {
	if f.real != nil {
		return f.real.Name()
	}
	return f.path
}

func OpenFile(name string, flag int, perm FileMode) (*File, error) {
	m, p, ok := memOf(name)
	if !ok {
		rf, err := os.OpenFile(name, flag, perm)
		if err != nil {
			return nil, err
		}
		return &File{real: rf}, nil
	}
	m.mu.Lock()
	defer m.mu.Unlock()
	if m.frozen {
		return nil, errFrozen
	}
	_, exists := m.files[p]
	if exists && flag&O_CREATE != 0 && flag&O_EXCL != 0 {
		return nil, &PathError{Op: "open", Path: name, Err: syscall.EEXIST}
	}
	if !exists && flag&O_CREATE == 0 {
		return nil, &PathError{Op: "open", Path: name, Err: syscall.ENOENT}
	}
	wr := flag&(O_WRONLY|O_RDWR) != 0
	if !exists || (flag&O_TRUNC != 0 && wr) {
		op := "create"
		if exists {
			op = "truncate"
		}
		if _, err := m.mutating(op, name, false); err != nil {
			return nil, err
		}
		m.files[p] = []byte{}
	}
	f := &File{m: m, path: p, wr: wr, rd: flag&O_WRONLY == 0}
	if flag&O_APPEND != 0 {
		f.off = len(m.files[p])
	}
	return f, nil
}

func Open(name string) (*File, error) { return OpenFile(name, O_RDONLY, 0) }
func Create(name string) (*File, error) {
	return OpenFile(name, O_RDWR|O_CREATE|O_TRUNC, 0o666)
}

func (f *File) Write(b []byte) (int, error) {
	if f.real != nil {
		return f.real.Write(b)
	}
	m := f.m
	m.mu.Lock()
	defer m.mu.Unlock()
	if f.closed {
		return 0, &PathError{Op: "write", Path: f.path, Err: os.ErrClosed}
	}
	if !f.wr {
		return 0, &PathError{Op: "write", Path: f.path, Err: syscall.EBADF}
	}
	torn, err := m.mutating("write", f.path, true)
	if err != nil {
		return 0, err
	}
	data := b
	if torn {
		data = b[:len(b)/2]
	}
	cur := m.files[f.path]
	if end := f.off + len(data); end > len(cur) {
		cur = append(cur, make([]byte, end-len(cur))...)
	}
	copy(cur[f.off:], data)
	m.files[f.path] = cur
	f.off += len(data)
	if torn {
		m.frozen = true
		panic(Crash{At: m.calls}) // deferred Unlock releases m.mu
	}
	return len(b), nil
}

func (f *File) WriteString(s string) (int, error) { return f.Write([]byte(s)) }

func (f *File) Read(b []byte) (int, error) {
	if f.real != nil {
		return f.real.Read(b)
	}
	m := f.m
	m.mu.Lock()
	defer m.mu.Unlock()
	if m.frozen {
		return 0, errFrozen
	}
	cur := m.files[f.path]
	if f.off >= len(cur) {
		return 0, io.EOF
	}
	n := copy(b, cur[f.off:])
	f.off += n
	return n, nil
}

func (f *File) Sync() error {
	if f.real != nil {
		return f.real.Sync()
	}
	m := f.m
	m.mu.Lock()
	defer m.mu.Unlock()
	_, err := m.mutating("sync", f.path, false)
	return err
}

// Close is not a crash point of its own (closing does not change file content).
func (f *File) Close() error {
	if f.real != nil {
		return f.real.Close()
	}
	f.m.mu.Lock()
	defer f.m.mu.Unlock()
	if f.closed {
		return &PathError{Op: "close", Path: f.path, Err: os.ErrClosed}
	}
	f.closed = true
	return nil
}

func (f *File) Stat() (FileInfo, error) {
	if f.real != nil {
		return f.real.Stat()
	}
	return Stat(f.path)
}

// ---- path functions ------------------------------------------------------------------------------------

func Rename(oldp, newp string) error {
	m, op, ok := memOf(oldp)
	m2, np, ok2 := memOf(newp)
	if !ok && !ok2 {
		return os.Rename(oldp, newp)
	}
	if !ok || !ok2 || m != m2 {
		return &os.LinkError{Op: "rename", Old: oldp, New: newp, Err: syscall.EXDEV}
	}
	m.mu.Lock()
	defer m.mu.Unlock()
	if m.frozen {
		return errFrozen
	}
	c, exists := m.files[op]
	if !exists {
		return &os.LinkError{Op: "rename", Old: oldp, New: newp, Err: syscall.ENOENT}
	}
	if _, err := m.mutating("rename", oldp, false); err != nil {
		return err
	}
	delete(m.files, op)
	m.files[np] = c // atomic replace
	return nil
}

func Remove(name string) error {
	m, p, ok := memOf(name)
	if !ok {
		return os.Remove(name)
	}
	m.mu.Lock()
	defer m.mu.Unlock()
	if m.frozen {
		return errFrozen
	}
	if _, exists := m.files[p]; !exists {
		return &PathError{Op: "remove", Path: name, Err: syscall.ENOENT}
	}
	if _, err := m.mutating("remove", name, false); err != nil {
		return err
	}
	delete(m.files, p)
	return nil
}

func ReadFile(name string) ([]byte, error) {
	m, p, ok := memOf(name)
	if !ok {
		return os.ReadFile(name)
	}
	m.mu.Lock()
	defer m.mu.Unlock()
	if m.frozen {
		return nil, errFrozen
	}
	c, exists := m.files[p]
	if !exists {
		return nil, &PathError{Op: "open", Path: name, Err: syscall.ENOENT}
	}
	return append([]byte(nil), c...), nil
}

// WriteFile has the crash points of the real one: create/truncate, then write (then close).
func WriteFile(name string, data []byte, perm FileMode) error {
	if _, _, ok := memOf(name); !ok {
		return os.WriteFile(name, data, perm)
	}
	f, err := OpenFile(name, O_WRONLY|O_CREATE|O_TRUNC, perm)
	if err != nil {
		return err
	}
	_, err = f.Write(data)
	if err1 := f.Close(); err1 != nil && err == nil {
		err = err1
	}
	return err
}

type memInfo struct {
	name string
	size int64
	dir  bool
}

func (i memInfo) Name() string { return i.name }
func (i memInfo) Size() int64  { return i.size }
func (i memInfo) Mode() fs.FileMode {
	if i.dir {
		return fs.ModeDir | 0o755
	}
	return 0o600
}
func (i memInfo) ModTime() time.Time { return time.Time{} }
func (i memInfo) IsDir() bool        { return i.dir }
func (i memInfo) Sys() any           { return nil }

func Stat(name string) (FileInfo, error) {
	m, p, ok := memOf(name)
	if !ok {
		return os.Stat(name)
	}
	m.mu.Lock()
	defer m.mu.Unlock()
	if m.frozen {
		return nil, errFrozen
	}
	if c, exists := m.files[p]; exists {
		return memInfo{name: p[strings.LastIndexByte(p, '/')+1:], size: int64(len(c))}, nil
	}
	pre := strings.TrimSuffix(p, "/") + "/"
	for k := range m.files {
		if strings.HasPrefix(k, pre) {
			return memInfo{name: p, dir: true}, nil
		}
	}
	// the root of a memfs always exists as a directory
	if strings.Count(strings.TrimSuffix(p[len(MemPrefix):], "/"), "/") == 0 {
		return memInfo{name: p, dir: true}, nil
	}
	return nil, &PathError{Op: "stat", Path: name, Err: syscall.ENOENT}
}

func Lstat(name string) (FileInfo, error) { return Stat(name) }
