//go:build verif

// Added to package privval by the C34 overlay: snapshot / restore of the in-memory sign state so that the
// model checker can return to an already explored state without replaying its history.
package privval

import (
	fstate "github.com/gnolang/gno/tm2/pkg/bft/privval/state"
	"github.com/gnolang/gno/tm2/pkg/bft/types"
)

// VerifNew builds a PrivValidator around an in-memory state (field-for-field what NewPrivValidator builds).
func VerifNew(signer types.Signer, st *fstate.FileState) *PrivValidator {
	return &PrivValidator{signer: signer, state: st}
}

// VerifState exposes the in-memory sign state (read-only use).
func (pv *PrivValidator) VerifState() *fstate.FileState { return pv.state }
