//go:build verif

// Added to package privval/state by the C34 overlay.
package state

// VerifMake builds a FileState with the given fields and file path (no validation, no I/O).
func VerifMake(h int64, r int, s Step, signBytes, signature []byte, path string) *FileState {
	return &FileState{Height: h, Round: r, Step: s, SignBytes: signBytes, Signature: signature, filePath: path}
}
