//go:build verif

package types

// Overlay-added file for the C35 harness (never part of a normal build).
// It only READS / deep-copies the unexported state of VoteSet; no logic of the package is changed.

// VerifBlockVotes is a read-only view of one votesByBlock entry.
type VerifBlockVotes struct {
	PeerMaj23 bool
	Sum       int64
	Votes     []*Vote // shared pointers (votes are immutable once added)
	Bits      []bool
}

// VerifVoteSetState is a read-only view of the complete internal state of a VoteSet.
type VerifVoteSetState struct {
	Sum        int64
	Maj23      *BlockID
	Votes      []*Vote
	Bits       []bool
	ByBlock    map[string]VerifBlockVotes
	PeerMaj23s map[P2PID]BlockID
}

// VerifState returns a snapshot of the internal state.
func (voteSet *VoteSet) VerifState() VerifVoteSetState {
	voteSet.mtx.Lock()
	defer voteSet.mtx.Unlock()
	st := VerifVoteSetState{Sum: voteSet.sum, ByBlock: map[string]VerifBlockVotes{}, PeerMaj23s: map[P2PID]BlockID{}}
	if voteSet.maj23 != nil {
		b := *voteSet.maj23
		st.Maj23 = &b
	}
	st.Votes = append([]*Vote(nil), voteSet.votes...)
	st.Bits = make([]bool, voteSet.votesBitArray.Size())
	for i := range st.Bits {
		st.Bits[i] = voteSet.votesBitArray.GetIndex(i)
	}
	for k, bv := range voteSet.votesByBlock {
		v := VerifBlockVotes{PeerMaj23: bv.peerMaj23, Sum: bv.sum, Votes: append([]*Vote(nil), bv.votes...)}
		v.Bits = make([]bool, bv.bitArray.Size())
		for i := range v.Bits {
			v.Bits[i] = bv.bitArray.GetIndex(i)
		}
		st.ByBlock[k] = v
	}
	for p, b := range voteSet.peerMaj23s {
		st.PeerMaj23s[p] = b
	}
	return st
}

// VerifClone returns a deep copy of the vote set (votes themselves are shared: they are never mutated after AddVote).
func (voteSet *VoteSet) VerifClone() *VoteSet {
	voteSet.mtx.Lock()
	defer voteSet.mtx.Unlock()
	c := &VoteSet{
		chainID:       voteSet.chainID,
		height:        voteSet.height,
		round:         voteSet.round,
		type_:         voteSet.type_,
		valSet:        voteSet.valSet,
		votesBitArray: voteSet.votesBitArray.Copy(),
		votes:         append([]*Vote(nil), voteSet.votes...),
		sum:           voteSet.sum,
		votesByBlock:  make(map[string]*blockVotes, len(voteSet.votesByBlock)),
		peerMaj23s:    make(map[P2PID]BlockID, len(voteSet.peerMaj23s)),
	}
	if voteSet.maj23 != nil {
		b := *voteSet.maj23
		c.maj23 = &b
	}
	for k, bv := range voteSet.votesByBlock {
		c.votesByBlock[k] = &blockVotes{
			peerMaj23: bv.peerMaj23,
			bitArray:  bv.bitArray.Copy(),
			votes:     append([]*Vote(nil), bv.votes...),
			sum:       bv.sum,
		}
	}
	for p, b := range voteSet.peerMaj23s {
		c.peerMaj23s[p] = b
	}
	return c
}

// VerifDump appends a compact, canonical text encoding of the complete internal state to buf (read-only).
// blocks/peers give the fixed order in which votesByBlock / peerMaj23s entries are listed; idOf names a stored vote.
// Format: s<sum>m<maj>|<id><flag>,...|B<k>p<0|1>s<sum>:<id><flag>,...;...|x<number of votesByBlock entries>|P<blk>,...
// flag: '+' bit set & vote present, '-' none, '!' bit array and vote slice disagree, 'M' vote of another height/round/type.
func (voteSet *VoteSet) VerifDump(buf []byte, blocks []BlockID, keys []string, peers []P2PID, idOf func(*Vote) int) []byte {
	voteSet.mtx.Lock()
	defer voteSet.mtx.Unlock()
	app := func(buf []byte, vt *Vote, bit bool) []byte {
		if vt == nil {
			if bit {
				return append(buf, '!', ',')
			}
			return append(buf, '-', ',')
		}
		buf = verifAppendInt(buf, int64(idOf(vt)))
		switch {
		case !bit:
			buf = append(buf, '!')
		case vt.Height != voteSet.height || vt.Round != voteSet.round || vt.Type != voteSet.type_:
			buf = append(buf, 'M')
		default:
			buf = append(buf, '+')
		}
		return append(buf, ',')
	}
	buf = append(buf, 's')
	buf = verifAppendInt(buf, voteSet.sum)
	buf = append(buf, 'm')
	mj := int64(-1)
	if voteSet.maj23 != nil {
		mj = 99
		for i := range blocks {
			if blocks[i].Equals(*voteSet.maj23) {
				mj = int64(i)
			}
		}
	}
	buf = verifAppendInt(buf, mj)
	buf = append(buf, '|')
	for i, vt := range voteSet.votes {
		buf = app(buf, vt, voteSet.votesBitArray.GetIndex(i))
	}
	buf = append(buf, '|')
	for k, key := range keys {
		bv, ok := voteSet.votesByBlock[key]
		if !ok {
			continue
		}
		buf = append(buf, 'B')
		buf = verifAppendInt(buf, int64(k))
		if bv.peerMaj23 {
			buf = append(buf, 'p', '1')
		} else {
			buf = append(buf, 'p', '0')
		}
		buf = append(buf, 's')
		buf = verifAppendInt(buf, bv.sum)
		buf = append(buf, ':')
		for i, vt := range bv.votes {
			buf = app(buf, vt, bv.bitArray.GetIndex(i))
		}
		buf = append(buf, ';')
	}
	buf = append(buf, '|', 'x')
	buf = verifAppendInt(buf, int64(len(voteSet.votesByBlock)))
	buf = append(buf, '|', 'P')
	for _, p := range peers {
		b, ok := voteSet.peerMaj23s[p]
		x := int64(-1)
		if ok {
			x = 99
			for i := range blocks {
				if blocks[i].Equals(b) {
					x = int64(i)
				}
			}
		}
		buf = verifAppendInt(buf, x)
		buf = append(buf, ',')
	}
	buf = append(buf, 'n')
	buf = verifAppendInt(buf, int64(len(voteSet.peerMaj23s)))
	return buf
}

func verifAppendInt(buf []byte, x int64) []byte {
	if x < 0 {
		buf = append(buf, '-')
		x = -x
	}
	var tmp [20]byte
	i := len(tmp)
	for {
		i--
		tmp[i] = byte('0' + x%10)
		x /= 10
		if x == 0 {
			break
		}
	}
	return append(buf, tmp[i:]...)
}
