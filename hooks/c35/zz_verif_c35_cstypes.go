//go:build verif

package cstypes

import (
	"sort"

	"github.com/gnolang/gno/tm2/pkg/bft/types"
	p2pTypes "github.com/gnolang/gno/tm2/pkg/p2p/types"
)

// Overlay-added file for the C35 harness (never part of a normal build): deep copy + read-only view of HeightVoteSet.

// VerifClone returns a deep copy of the height vote set.
func (hvs *HeightVoteSet) VerifClone() *HeightVoteSet {
	hvs.mtx.Lock()
	defer hvs.mtx.Unlock()
	c := &HeightVoteSet{
		chainID:           hvs.chainID,
		height:            hvs.height,
		valSet:            hvs.valSet,
		round:             hvs.round,
		roundVoteSets:     make(map[int]RoundVoteSet, len(hvs.roundVoteSets)),
		peerCatchupRounds: make(map[p2pTypes.ID][]int, len(hvs.peerCatchupRounds)),
	}
	for r, rvs := range hvs.roundVoteSets {
		c.roundVoteSets[r] = RoundVoteSet{Prevotes: rvs.Prevotes.VerifClone(), Precommits: rvs.Precommits.VerifClone()}
	}
	for p, rs := range hvs.peerCatchupRounds {
		c.peerCatchupRounds[p] = append([]int(nil), rs...)
	}
	return c
}

// VerifRounds returns the sorted list of rounds that have vote sets, and the per-peer catch-up rounds.
func (hvs *HeightVoteSet) VerifRounds() (round int, rounds []int, catchup map[p2pTypes.ID][]int) {
	hvs.mtx.Lock()
	defer hvs.mtx.Unlock()
	for r := range hvs.roundVoteSets {
		rounds = append(rounds, r)
	}
	sort.Ints(rounds)
	catchup = map[p2pTypes.ID][]int{}
	for p, rs := range hvs.peerCatchupRounds {
		catchup[p] = append([]int(nil), rs...)
	}
	return hvs.round, rounds, catchup
}

// VerifVoteSet returns the vote set of (round, type) or nil, without creating anything.
func (hvs *HeightVoteSet) VerifVoteSet(round int, t types.SignedMsgType) *types.VoteSet {
	hvs.mtx.Lock()
	defer hvs.mtx.Unlock()
	rvs, ok := hvs.roundVoteSets[round]
	if !ok {
		return nil
	}
	if t == types.PrevoteType {
		return rvs.Prevotes
	}
	return rvs.Precommits
}

// VerifCloneSharing copies the height vote set for branching: the vote set of (round, t) — the only one an AddVote /
// SetPeerMaj23 with these coordinates can touch — is deep-copied, every other vote set is SHARED with the original.
// The harness verifies after every operation that the complete state (all vote sets) equals its model, so an
// operation that wrongly touched a shared set is reported rather than hidden.
func (hvs *HeightVoteSet) VerifCloneSharing(round int, t types.SignedMsgType) *HeightVoteSet {
	hvs.mtx.Lock()
	defer hvs.mtx.Unlock()
	c := &HeightVoteSet{
		chainID:           hvs.chainID,
		height:            hvs.height,
		valSet:            hvs.valSet,
		round:             hvs.round,
		roundVoteSets:     make(map[int]RoundVoteSet, len(hvs.roundVoteSets)+1),
		peerCatchupRounds: make(map[p2pTypes.ID][]int, len(hvs.peerCatchupRounds)+1),
	}
	for r, rvs := range hvs.roundVoteSets {
		if r == round && t == types.PrevoteType {
			rvs.Prevotes = rvs.Prevotes.VerifClone()
		}
		if r == round && t == types.PrecommitType {
			rvs.Precommits = rvs.Precommits.VerifClone()
		}
		c.roundVoteSets[r] = rvs
	}
	for p, rs := range hvs.peerCatchupRounds {
		c.peerCatchupRounds[p] = append([]int(nil), rs...)
	}
	return c
}
