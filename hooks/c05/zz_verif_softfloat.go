//go:build verif

// Verification hook (C05): re-exports the internal softfloat package so that a harness outside
// gnovm/pkg/gnolang can drive it directly. Added by build overlay only; never part of the repo.
package gnolang

import "github.com/gnolang/gno/gnovm/pkg/gnolang/internal/softfloat"

func VerifFadd64(f, g uint64) uint64 { return softfloat.Fadd64(f, g) }
func VerifFsub64(f, g uint64) uint64 { return softfloat.Fsub64(f, g) }
func VerifFmul64(f, g uint64) uint64 { return softfloat.Fmul64(f, g) }
func VerifFdiv64(f, g uint64) uint64 { return softfloat.Fdiv64(f, g) }
func VerifFneg64(f uint64) uint64    { return softfloat.Fneg64(f) }
func VerifFeq64(f, g uint64) bool    { return softfloat.Feq64(f, g) }
func VerifFgt64(f, g uint64) bool    { return softfloat.Fgt64(f, g) }
func VerifFge64(f, g uint64) bool    { return softfloat.Fge64(f, g) }
func VerifFlt64(f, g uint64) bool    { return softfloat.Flt64(f, g) }
func VerifFle64(f, g uint64) bool    { return softfloat.Fle64(f, g) }

func VerifFadd32(f, g uint32) uint32 { return softfloat.Fadd32(f, g) }
func VerifFsub32(f, g uint32) uint32 { return softfloat.Fsub32(f, g) }
func VerifFmul32(f, g uint32) uint32 { return softfloat.Fmul32(f, g) }
func VerifFdiv32(f, g uint32) uint32 { return softfloat.Fdiv32(f, g) }
func VerifFneg32(f uint32) uint32    { return softfloat.Fneg32(f) }
func VerifFeq32(f, g uint32) bool    { return softfloat.Feq32(f, g) }
func VerifFgt32(f, g uint32) bool    { return softfloat.Fgt32(f, g) }
func VerifFge32(f, g uint32) bool    { return softfloat.Fge32(f, g) }
func VerifFlt32(f, g uint32) bool    { return softfloat.Flt32(f, g) }
func VerifFle32(f, g uint32) bool    { return softfloat.Fle32(f, g) }

func VerifFcmp64(f, g uint64) (int32, bool) { return softfloat.Fcmp64(f, g) }

func VerifFintto64(v int64) uint64         { return softfloat.Fintto64(v) }
func VerifFintto32(v int64) uint32         { return softfloat.Fintto32(v) }
func VerifF32to64(f uint32) uint64         { return softfloat.F32to64(f) }
func VerifF64to32(f uint64) uint32         { return softfloat.F64to32(f) }
func VerifF32toint32(x uint32) int32       { return softfloat.F32toint32(x) }
func VerifF32toint64(x uint32) int64       { return softfloat.F32toint64(x) }
func VerifF32touint64(x uint32) uint64     { return softfloat.F32touint64(x) }
func VerifF64toint(f uint64) (int64, bool) { return softfloat.F64toint(f) }
func VerifF64toint32(x uint64) int32       { return softfloat.F64toint32(x) }
func VerifF64toint64(x uint64) int64       { return softfloat.F64toint64(x) }
func VerifF64touint64(x uint64) uint64     { return softfloat.F64touint64(x) }
func VerifFint32to32(x int32) uint32       { return softfloat.Fint32to32(x) }
func VerifFint32to64(x int32) uint64       { return softfloat.Fint32to64(x) }
func VerifFint64to32(x int64) uint32       { return softfloat.Fint64to32(x) }
func VerifFint64to64(x int64) uint64       { return softfloat.Fint64to64(x) }
func VerifFuint64to32(x uint64) uint32     { return softfloat.Fuint64to32(x) }
func VerifFuint64to64(x uint64) uint64     { return softfloat.Fuint64to64(x) }
func VerifFtrunc64(f uint64) uint64        { return softfloat.Ftrunc64(f) }
func VerifFtrunc32(f uint32) uint32        { return softfloat.Ftrunc32(f) }
