//go:build verif

// Overlay-added to tm2/pkg/bft/blockchain by /verif/harness/c32: exposes the (unexported) wire messages of
// the block-sync reactor so that a scripted peer can speak to the REAL reactor, and a read-only status view.
package blockchain

import (
	"github.com/gnolang/gno/tm2/pkg/amino"
	"github.com/gnolang/gno/tm2/pkg/bft/types"
)

func VerifEncodeBlockResponse(b *types.Block) []byte {
	return amino.MustMarshalAny(&bcBlockResponseMessage{Block: b})
}

func VerifEncodeNoBlockResponse(h int64) []byte {
	return amino.MustMarshalAny(&bcNoBlockResponseMessage{Height: h})
}

func VerifEncodeStatusResponse(h int64) []byte {
	return amino.MustMarshalAny(&bcStatusResponseMessage{Height: h})
}

// VerifDecode classifies a message sent by the reactor to a peer.
func VerifDecode(bz []byte) (kind string, height int64) {
	msg, err := decodeMsg(bz)
	if err != nil {
		return "undecodable", 0
	}
	switch m := msg.(type) {
	case *bcBlockRequestMessage:
		return "block_request", m.Height
	case *bcStatusRequestMessage:
		return "status_request", m.Height
	case *bcStatusResponseMessage:
		return "status_response", m.Height
	case *bcBlockResponseMessage:
		return "block_response", m.Block.Height
	case *bcNoBlockResponseMessage:
		return "no_block_response", m.Height
	}
	return "other", 0
}

// VerifPoolStatus is a read-only view of the pool.
func (bcR *BlockchainReactor) VerifPoolStatus() (height int64, numPending int32, requesters int, caughtUp bool) {
	height, numPending, requesters = bcR.pool.GetStatus()
	return height, numPending, requesters, bcR.pool.IsCaughtUp()
}
