//go:build verif

package verifsync

import (
	realsync "sync"
)

// Aliases for everything not modelled (hooked files may use them).
type (
	Pool   = realsync.Pool
	Map    = realsync.Map
	Locker = realsync.Locker
)

func OnceFunc(f func()) func() { return realsync.OnceFunc(f) }

// ---------------------------------------------------------------------------------------------
// Mutex

type Mutex struct {
	real realsync.Mutex
	held bool
}

func (m *Mutex) Lock() {
	if active == nil {
		m.real.Lock()
		return
	}
	if active.aborted {
		return
	}
	PointOp("Mutex.Lock")
	Block("Mutex", func() bool { return !m.held })
	m.held = true
}

func (m *Mutex) TryLock() bool {
	if active == nil {
		return m.real.TryLock()
	}
	if active.aborted {
		return true
	}
	PointOp("Mutex.TryLock")
	if m.held {
		return false
	}
	m.held = true
	return true
}

func (m *Mutex) Unlock() {
	if active == nil {
		m.real.Unlock()
		return
	}
	if active.aborted {
		return
	}
	if !m.held {
		panic("verifsync: unlock of unlocked mutex")
	}
	m.held = false
}

// ---------------------------------------------------------------------------------------------
// RWMutex (with Go's writer preference: a blocked Lock excludes new readers)

type RWMutex struct {
	real    realsync.RWMutex
	writer  bool
	readers int
	pendW   int
}

func (m *RWMutex) Lock() {
	if active == nil {
		m.real.Lock()
		return
	}
	if active.aborted {
		return
	}
	PointOp("RWMutex.Lock")
	if m.writer || m.readers > 0 {
		m.pendW++
		Block("RWMutex.W", func() bool { return !m.writer && m.readers == 0 })
		m.pendW--
	}
	m.writer = true
}

func (m *RWMutex) Unlock() {
	if active == nil {
		m.real.Unlock()
		return
	}
	if active.aborted {
		return
	}
	if !m.writer {
		panic("verifsync: Unlock of unlocked RWMutex")
	}
	m.writer = false
}

func (m *RWMutex) RLock() {
	if active == nil {
		m.real.RLock()
		return
	}
	if active.aborted {
		return
	}
	PointOp("RWMutex.RLock")
	Block("RWMutex.R", func() bool { return !m.writer && m.pendW == 0 })
	m.readers++
}

func (m *RWMutex) RUnlock() {
	if active == nil {
		m.real.RUnlock()
		return
	}
	if active.aborted {
		return
	}
	if m.readers <= 0 {
		panic("verifsync: RUnlock of unlocked RWMutex")
	}
	m.readers--
}

func (m *RWMutex) TryLock() bool {
	if active == nil {
		return m.real.TryLock()
	}
	if active.aborted {
		return true
	}
	PointOp("RWMutex.TryLock")
	if m.writer || m.readers > 0 {
		return false
	}
	m.writer = true
	return true
}

func (m *RWMutex) TryRLock() bool {
	if active == nil {
		return m.real.TryRLock()
	}
	if active.aborted {
		return true
	}
	PointOp("RWMutex.TryRLock")
	if m.writer || m.pendW > 0 {
		return false
	}
	m.readers++
	return true
}

func (m *RWMutex) RLocker() Locker { return (*rlocker)(m) }

type rlocker RWMutex

func (r *rlocker) Lock()   { (*RWMutex)(r).RLock() }
func (r *rlocker) Unlock() { (*RWMutex)(r).RUnlock() }

// ---------------------------------------------------------------------------------------------
// WaitGroup

type WaitGroup struct {
	real realsync.WaitGroup
	n    int
}

func (w *WaitGroup) Add(d int) {
	if active == nil {
		w.real.Add(d)
		return
	}
	if active.aborted {
		return
	}
	PointOp("WaitGroup.Add")
	w.n += d
	if w.n < 0 {
		panic("sync: negative WaitGroup counter")
	}
}

func (w *WaitGroup) Done() { w.Add(-1) }

func (w *WaitGroup) Wait() {
	if active == nil {
		w.real.Wait()
		return
	}
	if active.aborted {
		return
	}
	PointOp("WaitGroup.Wait")
	Block("WaitGroup", func() bool { return w.n == 0 })
}

func (w *WaitGroup) Go(f func()) {
	if active == nil {
		w.real.Go(f)
		return
	}
	w.Add(1)
	Go("wg.Go", func() { defer w.Done(); f() })
}

// ---------------------------------------------------------------------------------------------
// Once

type Once struct {
	real realsync.Once
	done bool
	m    Mutex
}

func (o *Once) Do(f func()) {
	if active == nil {
		o.real.Do(f)
		return
	}
	if active.aborted {
		return
	}
	PointOp("Once.Do")
	if o.done {
		return
	}
	o.m.Lock()
	defer o.m.Unlock()
	if !o.done {
		defer func() { o.done = true }()
		f()
	}
}

// ---------------------------------------------------------------------------------------------
// Cond

type Cond struct {
	L     Locker
	real  *realsync.Cond
	seq   int // number of signals/broadcast generations
	waits []*condWaiter
}

type condWaiter struct{ woken bool }

func NewCond(l Locker) *Cond { return &Cond{L: l, real: realsync.NewCond(l)} }

func (c *Cond) Wait() {
	if active == nil {
		c.real.Wait()
		return
	}
	if active.aborted {
		return
	}
	w := &condWaiter{}
	c.waits = append(c.waits, w)
	c.L.Unlock()
	PointOp("Cond.Wait")
	Block("Cond", func() bool { return w.woken })
	c.L.Lock()
}

func (c *Cond) Signal() {
	if active == nil {
		c.real.Signal()
		return
	}
	if active.aborted {
		return
	}
	PointOp("Cond.Signal")
	if len(c.waits) > 0 {
		c.waits[0].woken = true
		c.waits = c.waits[1:]
	}
}

func (c *Cond) Broadcast() {
	if active == nil {
		c.real.Broadcast()
		return
	}
	if active.aborted {
		return
	}
	PointOp("Cond.Broadcast")
	for _, w := range c.waits {
		w.woken = true
	}
	c.waits = nil
}

// ---------------------------------------------------------------------------------------------
// Helpers for harness bodies

// WaitClosed blocks (as a modelled wait) until ch is closed or has a value ready; it does not consume.
func WaitClosed(on string, isReady func() bool) {
	if active == nil {
		panic("WaitClosed outside exploration")
	}
	PointOp("chan.wait:" + on)
	Block("chan:"+on, isReady)
}

// IsClosed reports (non-blocking) whether a struct{} channel is closed.
func IsClosed(ch <-chan struct{}) bool {
	select {
	case <-ch:
		return true
	default:
		return false
	}
}
