//go:build verif

// Package verifsync is a drop-in replacement for the subset of package sync used by hooked files,
// plus the controlled cooperative scheduler and the preemption-bounded DFS explorer (engine E2).
//
// It is a *virtual* package: the sources live in /verif/hooks/verifsync and are added to the build by
// `go build -overlay` only; the repository does not contain it. Hooked files get
// `sync "github.com/gnolang/gno/tm2/pkg/verifsync"` instead of `"sync"` through import rewriting of a copy.
//
// When no exploration is active every primitive falls through to the real sync primitive.
package verifsync

import (
	"fmt"
	"runtime"
	"strings"
	realsync "sync"
)

// ---------------------------------------------------------------------------------------------
// Scheduler

type thread struct {
	id      int
	name    string
	wake    chan struct{}
	waitFor func() bool // nil = runnable; otherwise enabled iff waitFor() is true
	waitOn  string
	done    bool
	spin    bool // last point was a spin-yield: must not be chosen as "continue" if others are enabled
	panicV  any
	nPoints int
}

// Point is one scheduling decision recorded during an execution.
type Point struct {
	Enabled             []int  // thread ids in canonical order (running first if still enabled, then ascending)
	RunningStillEnabled bool   // whether the thread that reached the point could have continued
	Chosen              int    // index into Enabled
	Op                  string // what the running thread was about to do
	Thread              int    // running thread id
}

// Exec is the record of one complete execution.
type Exec struct {
	Points   []Point
	Choices  []int
	Deadlock bool     // ended with unfinished threads and none enabled
	Blocked  []string // "name:waitOn" of unfinished threads at the end
	Panics   map[string]any
	Horizon  bool // stopped because the point horizon was reached
	Trace    []string
}

type Sched struct {
	threads []*thread
	cur     *thread
	prefix  []int
	x       *Exec
	aborted bool
	horizon int
	mainRet chan struct{}
	trace   bool
	err     error
	aborter *thread
	live    realsync.WaitGroup
}

var active *Sched

// Active reports whether an exploration is running (shims use it to choose modelled vs real behaviour).
func Active() bool { return active != nil }

func (s *Sched) enabledList() (ids []int, runningEnabled bool) {
	cur := s.cur
	if cur != nil && !cur.done && cur.waitFor == nil && !cur.spin {
		runningEnabled = true
		ids = append(ids, cur.id)
	}
	for _, t := range s.threads {
		if t.done || t == cur {
			continue
		}
		if t.waitFor == nil || t.waitFor() {
			ids = append(ids, t.id)
		}
	}
	// a spinner (Yield) is eligible only after all others, so "choice 0" never re-picks it while
	// someone else can run; if it is alone it is picked (the horizon then bounds the spin).
	if cur != nil && !cur.done && cur.spin {
		ids = append(ids, cur.id)
	}
	return
}

// decide is called by the running thread (or at thread exit) to pick who runs next; it returns the
// chosen thread or nil if none is enabled.
func (s *Sched) decide(op string) *thread {
	ids, re := s.enabledList()
	if len(ids) == 0 {
		return nil
	}
	i := len(s.x.Points)
	choice := 0
	if i < len(s.prefix) {
		choice = s.prefix[i]
		if choice >= len(ids) {
			if s.err == nil {
				s.err = fmt.Errorf("replay divergence at point %d: choice %d but only %d enabled (op %s)", i, choice, len(ids), op)
			}
			choice = 0
		}
	}
	curID := -1
	if s.cur != nil {
		curID = s.cur.id
	}
	s.x.Points = append(s.x.Points, Point{Enabled: ids, RunningStillEnabled: re, Chosen: choice, Op: op, Thread: curID})
	s.x.Choices = append(s.x.Choices, choice)
	return s.threads[ids[choice]]
}

// switchTo hands the token to t and parks the calling thread (me) until it is woken again.
func (s *Sched) switchTo(me, t *thread) {
	if t == me {
		return
	}
	s.cur = t
	t.wake <- struct{}{}
	<-me.wake
	if s.aborted {
		runtime.Goexit()
	}
}

func (s *Sched) checkHorizon(me *thread) {
	if len(s.x.Points) >= s.horizon {
		s.x.Horizon = true
		s.abortAll(me)
	}
}

// PointOp is a scheduling point before a visible operation of the running thread.
func PointOp(op string) {
	s := active
	if s == nil || s.aborted {
		return
	}
	me := s.cur
	if s.trace {
		s.x.Trace = append(s.x.Trace, me.name+":"+op)
	}
	s.checkHorizon(me)
	me.spin = false
	t := s.decide(op)
	s.switchTo(me, t)
}

// Yield is a scheduling point inside a spin/poll loop: any other enabled thread is preferred.
func Yield(op string) {
	s := active
	if s == nil || s.aborted {
		runtime.Gosched()
		return
	}
	me := s.cur
	if s.trace {
		s.x.Trace = append(s.x.Trace, me.name+":yield:"+op)
	}
	s.checkHorizon(me)
	me.spin = true
	t := s.decide("yield:" + op)
	me.spin = false
	s.switchTo(me, t)
}

// Block parks the running thread until cond() holds (cond is evaluated by the scheduler at decision points).
func Block(on string, cond func() bool) {
	s := active
	if s == nil || s.aborted {
		return
	}
	me := s.cur
	for !cond() {
		if s.trace {
			s.x.Trace = append(s.x.Trace, me.name+":block:"+on)
		}
		me.waitFor = cond
		me.waitOn = on
		t := s.decide("block:" + on)
		if t == nil {
			s.x.Deadlock = true // nobody can run
			s.abortAll(me)
		}
		s.switchTo(me, t)
		me.waitFor = nil
		me.waitOn = ""
	}
}

func (s *Sched) recordBlocked() {
	for _, t := range s.threads {
		if !t.done {
			w := t.name
			if t.waitOn != "" {
				w += ":" + t.waitOn
			}
			s.x.Blocked = append(s.x.Blocked, w)
		}
	}
}

func (s *Sched) wakeOthers(me *thread) {
	for _, t := range s.threads {
		if t != me && !t.done {
			t.done = true
			select {
			case t.wake <- struct{}{}:
			default:
			}
		}
	}
}

// abortAll ends the execution from the running thread me: every parked thread is woken with the aborted
// flag set and unwinds through runtime.Goexit (deferred shim calls are no-ops while aborted); me unwinds too.
func (s *Sched) abortAll(me *thread) {
	s.recordBlocked()
	s.aborted = true
	s.aborter = me
	s.wakeOthers(me)
	runtime.Goexit()
}

// Go starts a new controlled thread (callable from the body or from any controlled thread).
func Go(name string, fn func()) {
	s := active
	if s == nil {
		panic("verifsync.Go outside exploration")
	}
	t := &thread{id: len(s.threads), name: name, wake: make(chan struct{}, 1)}
	s.threads = append(s.threads, t)
	s.startThread(t, fn, true)
}

func (s *Sched) startThread(t *thread, fn func(), park bool) {
	s.live.Add(1)
	go func() {
		defer s.live.Done()
		if park {
			<-t.wake
			if s.aborted {
				t.done = true
				return
			}
		}
		finished := false
		defer func() {
			r := recover()
			s.threadExit(t, r, finished)
		}()
		fn()
		finished = true
	}()
}

func (s *Sched) threadExit(t *thread, r any, finished bool) {
	if s.aborted {
		t.done = true
		if s.aborter == t {
			s.finish()
		}
		return
	}
	if r != nil {
		if s.x.Panics == nil {
			s.x.Panics = map[string]any{}
		}
		buf := make([]byte, 4096)
		n := runtime.Stack(buf, false)
		s.x.Panics[t.name] = fmt.Sprintf("%v\n%s", r, firstLines(string(buf[:n]), 24))
	}
	t.done = true
	t.waitFor = nil
	nt := s.decide("exit:" + t.name)
	if nt == nil {
		for _, o := range s.threads {
			if !o.done {
				s.x.Deadlock = true
			}
		}
		if s.x.Deadlock {
			s.recordBlocked()
			s.aborted = true
			s.aborter = t
			s.wakeOthers(t)
		}
		s.finish()
		return
	}
	s.cur = nt
	nt.wake <- struct{}{}
}

func (s *Sched) finish() { s.mainRet <- struct{}{} }

func firstLines(s string, n int) string {
	parts := strings.SplitN(s, "\n", n+1)
	if len(parts) > n {
		parts = parts[:n]
	}
	return strings.Join(parts, "\n")
}

// RunOnce executes body under the scheduler replaying prefix and then always taking choice 0.
// body runs as thread 0 ("main"); it typically builds the shared objects and calls Go for each thread.
func RunOnce(prefix []int, horizon int, trace bool, body func()) (*Exec, error) {
	if active != nil {
		panic("nested exploration")
	}
	s := &Sched{prefix: prefix, x: &Exec{}, horizon: horizon, mainRet: make(chan struct{}, 4), trace: trace}
	active = s
	main := &thread{id: 0, name: "main", wake: make(chan struct{}, 1)}
	s.threads = append(s.threads, main)
	s.cur = main
	s.startThread(main, body, false)
	<-s.mainRet
	s.live.Wait() // every controlled goroutine has fully unwound before shims fall back to real primitives
	active = nil
	return s.x, s.err
}

// ---------------------------------------------------------------------------------------------
// Explorer: iterative preemption bounding (CHESS style) over RunOnce.

type Explorer struct {
	Bound    int // max preemptions
	Horizon  int // max scheduling points per execution
	MaxExecs int // 0 = unlimited
	Stop     func() bool
	// Check is called for every complete execution; return false to stop exploring.
	Check func(x *Exec) bool

	Execs      int
	MaxPoints  int
	Capped     bool
	HorizonHit int
}

func preemptionsBefore(x *Exec, i int) int {
	n := 0
	for k := 0; k < i; k++ {
		if x.Points[k].RunningStillEnabled && x.Points[k].Chosen != 0 {
			n++
		}
	}
	return n
}

// Explore runs body under every schedule with at most e.Bound preemptions.
func (e *Explorer) Explore(body func()) error {
	if e.Horizon == 0 {
		e.Horizon = 2000
	}
	stop := false
	var rec func(prefix []int) error
	rec = func(prefix []int) error {
		if stop {
			return nil
		}
		if (e.MaxExecs > 0 && e.Execs >= e.MaxExecs) || (e.Stop != nil && e.Stop()) {
			e.Capped = true
			stop = true
			return nil
		}
		x, err := RunOnce(prefix, e.Horizon, false, body)
		if err != nil {
			return err
		}
		e.Execs++
		if len(x.Points) > e.MaxPoints {
			e.MaxPoints = len(x.Points)
		}
		if x.Horizon {
			e.HorizonHit++
		}
		if e.Check != nil && !e.Check(x) {
			stop = true
			return nil
		}
		for i := len(prefix); i < len(x.Points); i++ {
			p := x.Points[i]
			cost := preemptionsBefore(x, i)
			if p.RunningStillEnabled {
				cost++
			}
			if cost > e.Bound {
				continue
			}
			for alt := 1; alt < len(p.Enabled); alt++ {
				np := append(append([]int{}, x.Choices[:i]...), alt)
				if err := rec(np); err != nil {
					return err
				}
				if stop {
					return nil
				}
			}
		}
		return nil
	}
	return rec(nil)
}

// Replay re-executes one recorded schedule with tracing on.
func Replay(choices []int, horizon int, body func()) (*Exec, error) {
	return RunOnce(choices, horizon, true, body)
}
