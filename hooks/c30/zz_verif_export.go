//go:build verif

// Verification hook (C30): read-only views of IAVL internals for the model checker
// (tree structure walk, canonical state digest). Added by build overlay only; never part of the repo.
package iavl

import (
	"fmt"
	"sort"
	"strings"

	"github.com/gnolang/gno/tm2/pkg/iavl/fastnode"
)

// VNode is a plain copy of one tree node.
type VNode struct {
	Key, Value, Hash []byte
	Height           int8
	Size             int64
	Saved            bool
	Version          int64
	Nonce            uint32
	Left, Right      *VNode
}

// VerifWalk copies the whole tree below t.root (children are resolved like every reader does:
// in-memory pointer first, node DB otherwise). It does not memoize anything in the tree.
func VerifWalk(t *ImmutableTree) (*VNode, error) {
	if t == nil || t.root == nil {
		return nil, nil
	}
	return verifWalk(t, t.root, 0)
}

func verifWalk(t *ImmutableTree, n *Node, depth int) (*VNode, error) {
	if depth > 64 {
		return nil, fmt.Errorf("tree deeper than 64")
	}
	v := &VNode{Key: n.key, Value: n.value, Hash: n.hash, Height: n.subtreeHeight, Size: n.size}
	if n.nodeKey != nil {
		v.Saved, v.Version, v.Nonce = true, n.nodeKey.version, n.nodeKey.nonce
	}
	if n.isLeaf() {
		return v, nil
	}
	l, err := n.getLeftNode(t)
	if err != nil {
		return nil, fmt.Errorf("left child of %q: %w", n.key, err)
	}
	r, err := n.getRightNode(t)
	if err != nil {
		return nil, fmt.Errorf("right child of %q: %w", n.key, err)
	}
	if l == nil || r == nil {
		return nil, fmt.Errorf("nil child below %q", n.key)
	}
	if v.Left, err = verifWalk(t, l, depth+1); err != nil {
		return nil, err
	}
	if v.Right, err = verifWalk(t, r, depth+1); err != nil {
		return nil, err
	}
	return v, nil
}

// VerifStateDigest is a canonical description of everything in the MutableTree that is not in the
// database and can influence later behaviour (node caches excluded): versions, lazily cached
// first/latest versions, storage version, the working tree down to the first persisted nodes, and
// the unsaved fast-node sets.
func VerifStateDigest(tree *MutableTree) string {
	var b strings.Builder
	ndb := tree.ndb
	fmt.Fprintf(&b, "v=%d ls=%d lsroot=", tree.version, tree.lastSaved.version)
	verifDigestNode(&b, tree.lastSaved.root)
	fmt.Fprintf(&b, " fv=%d lv=%d llv=%d sv=%s ivs=%v skip=%v root=", ndb.firstVersion, ndb.latestVersion,
		ndb.legacyLatestVersion, ndb.storageVersion, tree.initialVersionSet, tree.skipFastStorageUpgrade)
	verifDigestNode(&b, tree.root)
	var adds, rems []string
	tree.unsavedFastNodeAdditions.Range(func(k, v any) bool {
		fn := v.(*fastnode.Node)
		adds = append(adds, fmt.Sprintf("%s=%s@%d", k.(string), fn.GetValue(), fn.GetVersionLastUpdatedAt()))
		return true
	})
	tree.unsavedFastNodeRemovals.Range(func(k, _ any) bool {
		rems = append(rems, k.(string))
		return true
	})
	sort.Strings(adds)
	sort.Strings(rems)
	fmt.Fprintf(&b, " adds=%v rems=%v", adds, rems)
	return b.String()
}

func verifDigestNode(b *strings.Builder, n *Node) {
	switch {
	case n == nil:
		b.WriteString("-")
	case n.nodeKey != nil:
		fmt.Fprintf(b, "S(%d,%d)", n.nodeKey.version, n.nodeKey.nonce)
	case n.isLeaf():
		fmt.Fprintf(b, "L(%s=%s)", n.key, n.value)
	default:
		fmt.Fprintf(b, "I(%s,%d,%d,", n.key, n.subtreeHeight, n.size)
		verifDigestNode(b, n.leftNode)
		b.WriteString(",")
		verifDigestNode(b, n.rightNode)
		b.WriteString(")")
	}
}
