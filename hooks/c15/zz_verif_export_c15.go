//go:build verif

package sdk

import "github.com/gnolang/gno/tm2/pkg/store"

// VerifCheckMultiStore returns the multistore of the CheckTx (mempool) state.
func (app *BaseApp) VerifCheckMultiStore() store.MultiStore {
	if app.checkState == nil {
		return nil
	}
	return app.checkState.ms
}

// VerifPushCheck stacks a fresh cache-wrapped multistore on top of the CheckTx (mempool) state and returns a function
// that discards everything written since — the CheckTx twin of VerifPushDeliver (hooks/chainx), so that a harness can
// snapshot/roll back both states between transactions; the txs themselves run through the unmodified CheckTx path.
func (app *BaseApp) VerifPushCheck() (pop func()) {
	old := app.checkState
	if old == nil {
		panic("VerifPushCheck without a check state")
	}
	ms := old.ms.MultiCacheWrap()
	app.checkState = &state{ms: ms, ctx: old.ctx.WithMultiStore(ms)}
	return func() { app.checkState = old }
}
