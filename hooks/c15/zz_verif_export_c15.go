//go:build verif

package sdk

import "github.com/gnolang/gno/tm2/pkg/store"

// VerifCheckMultiStore returns the multistore of the CheckTx (mempool) state.
func (app *BaseApp) VerifCheckMultiStore() store.MultiStore {
	if app.checkState == nil {
		return nil
	}
	return app.checkState.ms
}
