//go:build verif

// Verification hook (C10): exports the per-output-byte gas price and the output buffer size of the metered print
// writer (values_string_stream.go) so the harness can state "every emitted byte is charged" with the repo's own
// constant. Added by build overlay only; never part of the repo.
package gnolang

const (
	VerifStreamOutputGasPerByte = streamOutputGasPerByte
	VerifMeteredWriterBufSize   = meteredWriterBufSize
)
