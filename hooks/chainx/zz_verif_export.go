//go:build verif

package sdk

import "github.com/gnolang/gno/tm2/pkg/store"

// VerifStoreKeys exposes the two store keys of the app's multistore (needed to read stores for dumps).
func (app *BaseApp) VerifStoreKeys() (base, main store.StoreKey) { return app.baseKey, app.mainKey }

// VerifDeliverMultiStore returns the multistore of the block being delivered (nil outside a block).
func (app *BaseApp) VerifDeliverMultiStore() store.MultiStore {
	if app.deliverState == nil {
		return nil
	}
	return app.deliverState.ms
}

// VerifBlockGas reports the block gas meter of the block being delivered.
func (app *BaseApp) VerifBlockGas() (consumed, limit int64, ok bool) {
	if app.deliverState == nil || app.deliverState.ctx.BlockGasMeter() == nil {
		return 0, 0, false
	}
	m := app.deliverState.ctx.BlockGasMeter()
	return m.GasConsumed(), m.Limit(), true
}

// (moved here from hooks/c03 so that every chainx harness builds)


// VerifPushDeliver stacks a fresh cache-wrapped multistore on top of the state of the block being delivered
// and returns a function that discards everything written since (restoring the previous deliver state).
// Used by the realm explorers (C03/C06/C07) as an O(1) snapshot/rollback of the chain state between
// transactions: the txs themselves run through the unmodified DeliverTx path.
func (app *BaseApp) VerifPushDeliver() (pop func()) {
	old := app.deliverState
	if old == nil {
		panic("VerifPushDeliver outside a block")
	}
	ms := old.ms.MultiCacheWrap()
	app.deliverState = &state{
		ms:  ms,
		ctx: old.ctx.WithMultiStore(ms).WithBlockGasMeter(store.NewInfiniteGasMeter()),
	}
	return func() { app.deliverState = old }
}
