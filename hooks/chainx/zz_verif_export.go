//go:build verif

package sdk

import "github.com/gnolang/gno/tm2/pkg/store"

// VerifStoreKeys exposes the two store keys of the app's multistore (needed to read stores for dumps).
func (app *BaseApp) VerifStoreKeys() (base, main store.StoreKey) { return app.baseKey, app.mainKey }

// VerifDeliverMultiStore returns the multistore of the block being delivered (nil outside a block).
func (app *BaseApp) VerifDeliverMultiStore() store.MultiStore {
	if app.deliverState == nil {
		return nil
	}
	return app.deliverState.ms
}

// VerifBlockGas reports the block gas meter of the block being delivered.
func (app *BaseApp) VerifBlockGas() (consumed, limit int64, ok bool) {
	if app.deliverState == nil || app.deliverState.ctx.BlockGasMeter() == nil {
		return 0, 0, false
	}
	m := app.deliverState.ctx.BlockGasMeter()
	return m.GasConsumed(), m.Limit(), true
}
