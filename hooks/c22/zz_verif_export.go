//go:build verif

// Verification-only READ access to cacheStore internals (added to package cache through the build
// overlay of harness c22; never part of a normal build).  Nothing here mutates the store.
package cache

import (
	"sort"
	"strconv"
	"strings"

	"github.com/gnolang/gno/tm2/pkg/std"
	"github.com/gnolang/gno/tm2/pkg/store/types"
)

func verifQ(b []byte) string {
	if b == nil {
		return "~"
	}
	return strconv.Quote(string(b))
}

// VerifDigest returns a canonical rendering of the implementation state of a cache store:
// the cache map (value / deleted / dirty per key), the unsortedCache set, the sortedCache list
// (in list order, with the values the list currently holds) and the checkpoint snapshot.
// It is used by the harness as the implementation-shape part of the BFS dedup key.
// ok is false when s is not a *cacheStore.
func VerifDigest(s types.Store) (digest string, ok bool) {
	cs, isCS := s.(*cacheStore)
	if !isCS {
		return "", false
	}
	cs.mtx.Lock()
	defer cs.mtx.Unlock()
	var sb strings.Builder
	dumpMap := func(m map[string]*cValue) {
		keys := make([]string, 0, len(m))
		for k := range m {
			keys = append(keys, k)
		}
		sort.Strings(keys)
		for _, k := range keys {
			v := m[k]
			sb.WriteString(strconv.Quote(k))
			sb.WriteByte('=')
			sb.WriteString(verifQ(v.value))
			if v.deleted {
				sb.WriteByte('D')
			}
			if v.dirty {
				sb.WriteByte('!')
			}
			sb.WriteByte(',')
		}
	}
	sb.WriteString("C{")
	dumpMap(cs.cache)
	sb.WriteString("}U{")
	uk := make([]string, 0, len(cs.unsortedCache))
	for k := range cs.unsortedCache {
		uk = append(uk, k)
	}
	sort.Strings(uk)
	for _, k := range uk {
		sb.WriteString(strconv.Quote(k))
		sb.WriteByte(',')
	}
	sb.WriteString("}S[")
	for e := cs.sortedCache.Front(); e != nil; e = e.Next() {
		kv := e.Value.(*std.KVPair)
		sb.WriteString(verifQ(kv.Key))
		sb.WriteByte('=')
		sb.WriteString(verifQ(kv.Value))
		sb.WriteByte(',')
	}
	sb.WriteString("]")
	if cs.checkpointCache != nil {
		sb.WriteString("K{")
		dumpMap(cs.checkpointCache)
		sb.WriteString("}")
	}
	return sb.String(), true
}

// VerifPartition reports the sizes of the dirty-item partition (for coverage statistics).
func VerifPartition(s types.Store) (unsorted, sorted int, hasCheckpoint bool) {
	cs, isCS := s.(*cacheStore)
	if !isCS {
		return 0, 0, false
	}
	cs.mtx.Lock()
	defer cs.mtx.Unlock()
	return len(cs.unsortedCache), cs.sortedCache.Len(), cs.checkpointCache != nil
}
