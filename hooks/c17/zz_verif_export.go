//go:build verif

package auth

import "github.com/gnolang/gno/tm2/pkg/std"

// VerifCalcBlockGasPrice exposes the unexported pure function calcBlockGasPrice to the C17 harness.
// (overlay-added file; never part of a normal build)
func VerifCalcBlockGasPrice(last std.GasPrice, gasUsed, maxGas int64, p Params) std.GasPrice {
	return GasPriceKeeper{}.calcBlockGasPrice(last, gasUsed, maxGas, p)
}
