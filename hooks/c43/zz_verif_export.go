//go:build verif

package conn

import (
	"time"

	"github.com/gnolang/gno/tm2/pkg/timer"
)

// Overlay-added file (C43 harness only; never part of a normal build).
//
// It lets the harness drive the SENDER CORE of an MConnection synchronously: the exact code that Send/TrySend
// and sendRoutine execute (Channel.trySendBytes, MConnection.sendPacketMsg, flush), one call at a time from a
// single goroutine, instead of through the free-running sendRoutine goroutine. The interleaving
// "Send ... Send, one sendPacketMsg step, Send ..." thereby becomes an enumerable input.

// VerifSyncInit prepares a NOT started connection for synchronous driving (sendPacketMsg arms flushTimer).
func (c *MConnection) VerifSyncInit() {
	c.flushTimer = timer.NewThrottleTimer("flush", time.Hour)
}

// VerifEnqueue is what TrySend does once the service runs: queue the bytes on the channel, non-blocking.
func (c *MConnection) VerifEnqueue(chID byte, msg []byte) bool {
	ch, ok := c.channelsIdx[chID]
	if !ok {
		return false
	}
	return ch.trySendBytes(msg)
}

// VerifSendPacketMsg is one iteration of the sender loop; true = nothing left to send.
func (c *MConnection) VerifSendPacketMsg() bool { return c.sendPacketMsg() }

// VerifCanSend is CanSend without the IsRunning guard.
func (c *MConnection) VerifCanSend(chID byte) bool { return c.channelsIdx[chID].canSend() }

func (c *MConnection) VerifFlush() { c.flush() }

func (c *MConnection) VerifCleanup() { c.flushTimer.Stop() }

func (c *MConnection) VerifMaxPacketMsgSize() int { return c._maxPacketMsgSize }
