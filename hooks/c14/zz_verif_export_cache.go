//go:build verif

package cache

import "github.com/gnolang/gno/tm2/pkg/store/types"

// VerifDirty calls f for every dirty (written but not yet flushed to the parent) entry of the cache layer.
func (store *cacheStore) VerifDirty(f func(key string, value []byte, deleted bool)) {
	store.mtx.Lock()
	defer store.mtx.Unlock()
	for k, cv := range store.cache {
		if cv.dirty {
			f(k, cv.value, cv.deleted)
		}
	}
}

// VerifParent returns the store this cache layer wraps.
func (store *cacheStore) VerifParent() types.Store { return store.parent }
