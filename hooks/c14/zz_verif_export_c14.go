//go:build verif

package sdk

import (
	"fmt"

	"github.com/gnolang/gno/tm2/pkg/std"
	"github.com/gnolang/gno/tm2/pkg/store"
)

// VerifRunMsgs delivers msgs to the block being delivered the way runTx does once a tx is decoded, minus the
// ante handler (no signatures, no fee): validateBasicTxMsgs on every message, then the app's real runMsgs (real
// router, real handlers) on a cache-wrapped multistore that is written back only if the result is OK; a panic is
// recovered and fails the delivery with nothing written, like runTx's deferred recover. Used by C14 for messages
// that cannot be amino-encoded into a tx (bank.MsgMultiSend is not registered) and for message-level enumeration.
// txHooks=false skips the app's begin/end-tx hooks (gno.land: the VM's per-tx object store, which reads the VM params;
// bank handlers never touch it).
// stage: "validate-basic" | "validate-basic-panic" | "handler" | "handler-panic" | "ok".
func (app *BaseApp) VerifRunMsgs(msgs []Msg, gasLimit int64, txHooks bool) (result Result, stage string) {
	ctx := app.getContextForTx(RunTxModeDeliver, nil)
	ctx = ctx.WithGasMeter(store.NewGasMeter(gasLimit))
	stage = "validate-basic"
	defer func() {
		if r := recover(); r != nil {
			stage += "-panic"
			log := clipLog(fmt.Sprintf("recovered: %v", r))
			if _, oog := r.(store.OutOfGasError); oog {
				result = Result{}
				result.Error = ABCIError(std.ErrOutOfGas(log))
			} else {
				result = Result{}
				result.Error = ABCIError(std.ErrInternal(log))
			}
			result.Log = log
		}
	}()
	if err := validateBasicTxMsgs(msgs); err != nil {
		result.Error = ABCIError(err)
		return
	}
	stage = "handler"
	ctx, msCache := app.cacheTxContext(ctx)
	runMsgCtx := ctx
	if txHooks && app.beginTxHook != nil {
		runMsgCtx = app.beginTxHook(runMsgCtx)
	}
	result = app.runMsgs(runMsgCtx, msgs, RunTxModeDeliver)
	if txHooks && app.endTxHook != nil {
		app.endTxHook(runMsgCtx, result)
	}
	if result.IsOK() {
		msCache.MultiWrite()
		stage = "ok"
	}
	return
}
