//go:build verif

// Package verifatomic replaces sync/atomic in hooked files: every operation is a scheduling point of
// the verifsync scheduler followed by the real atomic operation. Virtual package (overlay only).
package verifatomic

import (
	realatomic "sync/atomic"
	"unsafe"

	vs "github.com/gnolang/gno/tm2/pkg/verifsync"
)

func p(op string) { vs.PointOp("atomic." + op) }

func LoadInt32(a *int32) int32                      { p("LoadInt32"); return realatomic.LoadInt32(a) }
func LoadInt64(a *int64) int64                      { p("LoadInt64"); return realatomic.LoadInt64(a) }
func LoadUint32(a *uint32) uint32                   { p("LoadUint32"); return realatomic.LoadUint32(a) }
func LoadUint64(a *uint64) uint64                   { p("LoadUint64"); return realatomic.LoadUint64(a) }
func StoreInt32(a *int32, v int32)                  { p("StoreInt32"); realatomic.StoreInt32(a, v) }
func StoreInt64(a *int64, v int64)                  { p("StoreInt64"); realatomic.StoreInt64(a, v) }
func StoreUint32(a *uint32, v uint32)               { p("StoreUint32"); realatomic.StoreUint32(a, v) }
func StoreUint64(a *uint64, v uint64)               { p("StoreUint64"); realatomic.StoreUint64(a, v) }
func AddInt32(a *int32, d int32) int32              { p("AddInt32"); return realatomic.AddInt32(a, d) }
func AddInt64(a *int64, d int64) int64              { p("AddInt64"); return realatomic.AddInt64(a, d) }
func AddUint32(a *uint32, d uint32) uint32          { p("AddUint32"); return realatomic.AddUint32(a, d) }
func AddUint64(a *uint64, d uint64) uint64          { p("AddUint64"); return realatomic.AddUint64(a, d) }
func SwapInt32(a *int32, v int32) int32             { p("SwapInt32"); return realatomic.SwapInt32(a, v) }
func SwapInt64(a *int64, v int64) int64             { p("SwapInt64"); return realatomic.SwapInt64(a, v) }
func CompareAndSwapInt32(a *int32, o, n int32) bool { p("CASInt32"); return realatomic.CompareAndSwapInt32(a, o, n) }
func CompareAndSwapInt64(a *int64, o, n int64) bool { p("CASInt64"); return realatomic.CompareAndSwapInt64(a, o, n) }
func CompareAndSwapUint32(a *uint32, o, n uint32) bool {
	p("CASUint32")
	return realatomic.CompareAndSwapUint32(a, o, n)
}
func CompareAndSwapUint64(a *uint64, o, n uint64) bool {
	p("CASUint64")
	return realatomic.CompareAndSwapUint64(a, o, n)
}
func LoadPointer(a *unsafe.Pointer) unsafe.Pointer { p("LoadPointer"); return realatomic.LoadPointer(a) }
func StorePointer(a *unsafe.Pointer, v unsafe.Pointer) {
	p("StorePointer")
	realatomic.StorePointer(a, v)
}

type Int32 struct{ v realatomic.Int32 }

func (x *Int32) Load() int32           { p("Int32.Load"); return x.v.Load() }
func (x *Int32) Store(v int32)         { p("Int32.Store"); x.v.Store(v) }
func (x *Int32) Add(d int32) int32     { p("Int32.Add"); return x.v.Add(d) }
func (x *Int32) Swap(v int32) int32    { p("Int32.Swap"); return x.v.Swap(v) }
func (x *Int32) CompareAndSwap(o, n int32) bool {
	p("Int32.CAS")
	return x.v.CompareAndSwap(o, n)
}

type Int64 struct{ v realatomic.Int64 }

func (x *Int64) Load() int64           { p("Int64.Load"); return x.v.Load() }
func (x *Int64) Store(v int64)         { p("Int64.Store"); x.v.Store(v) }
func (x *Int64) Add(d int64) int64     { p("Int64.Add"); return x.v.Add(d) }
func (x *Int64) Swap(v int64) int64    { p("Int64.Swap"); return x.v.Swap(v) }
func (x *Int64) CompareAndSwap(o, n int64) bool {
	p("Int64.CAS")
	return x.v.CompareAndSwap(o, n)
}

type Uint32 struct{ v realatomic.Uint32 }

func (x *Uint32) Load() uint32         { p("Uint32.Load"); return x.v.Load() }
func (x *Uint32) Store(v uint32)       { p("Uint32.Store"); x.v.Store(v) }
func (x *Uint32) Add(d uint32) uint32  { p("Uint32.Add"); return x.v.Add(d) }
func (x *Uint32) CompareAndSwap(o, n uint32) bool {
	p("Uint32.CAS")
	return x.v.CompareAndSwap(o, n)
}

type Uint64 struct{ v realatomic.Uint64 }

func (x *Uint64) Load() uint64         { p("Uint64.Load"); return x.v.Load() }
func (x *Uint64) Store(v uint64)       { p("Uint64.Store"); x.v.Store(v) }
func (x *Uint64) Add(d uint64) uint64  { p("Uint64.Add"); return x.v.Add(d) }
func (x *Uint64) CompareAndSwap(o, n uint64) bool {
	p("Uint64.CAS")
	return x.v.CompareAndSwap(o, n)
}

type Bool struct{ v realatomic.Bool }

func (x *Bool) Load() bool             { p("Bool.Load"); return x.v.Load() }
func (x *Bool) Store(v bool)           { p("Bool.Store"); x.v.Store(v) }
func (x *Bool) Swap(v bool) bool       { p("Bool.Swap"); return x.v.Swap(v) }
func (x *Bool) CompareAndSwap(o, n bool) bool {
	p("Bool.CAS")
	return x.v.CompareAndSwap(o, n)
}

type Pointer[T any] struct{ v realatomic.Pointer[T] }

func (x *Pointer[T]) Load() *T         { p("Pointer.Load"); return x.v.Load() }
func (x *Pointer[T]) Store(v *T)       { p("Pointer.Store"); x.v.Store(v) }
func (x *Pointer[T]) Swap(v *T) *T     { p("Pointer.Swap"); return x.v.Swap(v) }
func (x *Pointer[T]) CompareAndSwap(o, n *T) bool {
	p("Pointer.CAS")
	return x.v.CompareAndSwap(o, n)
}

type Value struct{ v realatomic.Value }

func (x *Value) Load() any             { p("Value.Load"); return x.v.Load() }
func (x *Value) Store(v any)           { p("Value.Store"); x.v.Store(v) }
