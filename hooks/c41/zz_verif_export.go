//go:build verif

// Verification hook (C41): the validator checkpoint interval becomes a variable (the build overlay renames the
// constant in store.go to valSetCheckpointIntervalDefault; the variable defaults to it, so behaviour is unchanged
// unless a harness scales it), and the unexported state transition function is re-exported.
// Added by build overlay only; never part of the repo.
package state

import "github.com/gnolang/gno/tm2/pkg/bft/types"

var valSetCheckpointInterval int64 = valSetCheckpointIntervalDefault

func VerifSetCheckpointInterval(n int64)    { valSetCheckpointInterval = n }
func VerifCheckpointIntervalDefault() int64 { return valSetCheckpointIntervalDefault }

func VerifUpdateState(state State, blockID types.BlockID, header *types.Header, resp *ABCIResponses) (State, error) {
	return updateState(state, blockID, header, resp)
}
