//go:build verif

package cache

// VerifDirtyKeys returns the keys set or deleted in THIS cache layer that were not flushed to the parent yet
// (used by the C13 harness to learn which params keys a transaction wrote without iterating the whole store).
func (store *cacheStore) VerifDirtyKeys() []string {
	store.mtx.Lock()
	defer store.mtx.Unlock()
	var out []string
	for k, v := range store.cache {
		if v.dirty {
			out = append(out, k)
		}
	}
	return out
}
