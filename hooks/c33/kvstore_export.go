//go:build verif

// Export seam for /verif/harness/c33: the persistent kvstore example application on a caller-supplied DB.
package kvstore

import (
	dbm "github.com/gnolang/gno/tm2/pkg/db"
	"github.com/gnolang/gno/tm2/pkg/log"
)

func NewVerifPersistentKVStore(d dbm.DB) *PersistentKVStoreApplication {
	return &PersistentKVStoreApplication{
		app:    &KVStoreApplication{state: loadState(d)},
		logger: log.NewNoopLogger(),
	}
}
