//go:build verif

// Logical clock seam for /verif/harness/c33: tmtime.Now() is redirected (overlay subst) to verifNow().
package time

import (
	"sync/atomic"
	"time"
)

// VerifClock, when non-nil, replaces the wall clock behind Now().
var VerifClock atomic.Pointer[func() time.Time]

func verifNow() time.Time {
	if f := VerifClock.Load(); f != nil {
		return Canonical((*f)())
	}
	return Canonical(time.Now())
}
