//go:build verif

// Export seam for /verif/harness/c33 (property C33). Added to package consensus through the build overlay only.
package consensus

import (
	"fmt"
	"log/slog"
	"sync"

	"github.com/gnolang/gno/tm2/pkg/bft/types"
	walm "github.com/gnolang/gno/tm2/pkg/bft/wal"
)

const VerifMaxMsgSize = maxMsgSize

// VerifSetWAL installs an already started WAL (cs.OnStart then does not open its own).
func (cs *ConsensusState) VerifSetWAL(w walm.WAL) { cs.wal = w }

// VerifTicker is a TimeoutTicker with a logical notion of time: a scheduled timeout "expires" only when
// the receive loop is quiescent. Chan() is evaluated by receiveRoutine every time it (re-)enters its select,
// in the receiveRoutine goroutine, i.e. exactly when the previous message has been handled completely; if
// both message queues are empty at that moment the pending timeout is released, so at most one source of
// the select is ever ready and the run is deterministic. The replacement rule of ScheduleTimeout is the
// real timeoutTicker's.
type VerifTicker struct {
	mtx     sync.Mutex
	cs      *ConsensusState
	tock    chan timeoutInfo
	pending *timeoutInfo
	last    timeoutInfo
	idle    bool
	gate    chan struct{}
	once    sync.Once
	stopAt  int64 // a timeout for a height > stopAt is never released; Done is closed instead
	Done    chan struct{}
	Stuck   chan struct{}
	done    bool
	stuck   bool
	Fired   int
}

func NewVerifTicker(cs *ConsensusState, stopAt int64) *VerifTicker {
	return &VerifTicker{
		cs: cs, tock: make(chan timeoutInfo, 1), gate: make(chan struct{}), stopAt: stopAt,
		Done: make(chan struct{}), Stuck: make(chan struct{}),
	}
}

func (t *VerifTicker) Start() error           { return nil }
func (t *VerifTicker) Stop() error            { t.Release(); return nil }
func (t *VerifTicker) SetLogger(*slog.Logger) {}

// Release lets the receive loop run (called by the harness after cs.Start() returned, so that the
// scheduleRound0 of OnStart cannot race with the loop).
func (t *VerifTicker) Release() { t.once.Do(func() { close(t.gate) }) }

func (t *VerifTicker) ScheduleTimeout(newti timeoutInfo) {
	t.mtx.Lock()
	defer t.mtx.Unlock()
	ti := t.last
	if newti.Height < ti.Height {
		return
	} else if newti.Height == ti.Height {
		if newti.Round < ti.Round {
			return
		} else if newti.Round == ti.Round {
			if ti.Step > 0 && newti.Step <= ti.Step {
				return
			}
		}
	}
	t.last = newti
	c := newti
	t.pending = &c
	if t.idle {
		t.idle = false
		t.fire()
	}
}

func (t *VerifTicker) fire() {
	if t.pending.Height > t.stopAt {
		if !t.done {
			t.done = true
			close(t.Done)
		}
		return
	}
	t.tock <- *t.pending
	t.pending = nil
	t.Fired++
}

func (t *VerifTicker) Chan() <-chan timeoutInfo {
	<-t.gate
	t.mtx.Lock()
	defer t.mtx.Unlock()
	if len(t.cs.internalMsgQueue) == 0 && len(t.cs.peerMsgQueue) == 0 && len(t.tock) == 0 {
		if t.pending != nil {
			t.fire()
		} else if !t.done {
			t.idle = true
			if !t.stuck {
				t.stuck = true
				close(t.Stuck)
			}
		}
	}
	return t.tock
}

// VerifDescribe gives a short stable description of a WAL message (for the persistence-unit log).
func VerifDescribe(m walm.WALMessage) string {
	switch m := m.(type) {
	case newRoundStepInfo:
		return fmt.Sprintf("step %d/%d/%v", m.Height, m.Round, m.Step)
	case timeoutInfo:
		return fmt.Sprintf("timeout %d/%d/%v", m.Height, m.Round, m.Step)
	case msgInfo:
		switch x := m.Msg.(type) {
		case *ProposalMessage:
			return fmt.Sprintf("proposal %d/%d", x.Proposal.Height, x.Proposal.Round)
		case *BlockPartMessage:
			return fmt.Sprintf("blockpart %d/%d#%d", x.Height, x.Round, x.Part.Index)
		case *VoteMessage:
			k := "prevote"
			if x.Vote.Type == types.PrecommitType {
				k = "precommit"
			}
			nilv := ""
			if len(x.Vote.BlockID.Hash) == 0 {
				nilv = "(nil)"
			}
			return fmt.Sprintf("%s %d/%d%s", k, x.Vote.Height, x.Vote.Round, nilv)
		}
		return fmt.Sprintf("msg %T", m.Msg)
	}
	return fmt.Sprintf("%T", m)
}

// VerifMsgHeight returns the consensus height a WAL message belongs to (0: none).
func VerifMsgHeight(m walm.WALMessage) int64 {
	switch m := m.(type) {
	case newRoundStepInfo:
		return m.Height
	case timeoutInfo:
		return m.Height
	case msgInfo:
		switch x := m.Msg.(type) {
		case *ProposalMessage:
			return x.Proposal.Height
		case *BlockPartMessage:
			return x.Height
		case *VoteMessage:
			return x.Vote.Height
		}
	}
	return 0
}
