//go:build verif

package consensus

// Overlay-added file for the C31 harness (never part of a normal build). It exposes the unexported
// event handlers of ConsensusState so that an explorer can drive NEVER-STARTED consensus states:
// no receiveRoutine, no reactor, no timers. Nothing here changes the behaviour of the handlers.

import (
	"log/slog"

	cstypes "github.com/gnolang/gno/tm2/pkg/bft/consensus/types"
	sm "github.com/gnolang/gno/tm2/pkg/bft/state"
	"github.com/gnolang/gno/tm2/pkg/bft/types"
	p2pTypes "github.com/gnolang/gno/tm2/pkg/p2p/types"
)

// VerifMsgInfo / VerifTimeoutInfo alias the WAL message types handled by the receive routine.
type (
	VerifMsgInfo     = msgInfo
	VerifTimeoutInfo = timeoutInfo
)

// VerifSetMsgQueueSize sets the capacity of the three message queues of consensus states created afterwards (the
// production value 1000 only matters for a running receive routine; the explorer drains the queues after every step).
func VerifSetMsgQueueSize(n int) { msgQueueSize = n }

// VerifHandleMsg is what receiveRoutine does for one peer/internal message (minus the WAL write).
func (cs *ConsensusState) VerifHandleMsg(mi msgInfo) { cs.handleMsg(mi) }

// VerifHandleTimeout is what receiveRoutine does for one tock: rs is the round state at dequeue time.
func (cs *ConsensusState) VerifHandleTimeout(ti timeoutInfo) {
	rs := cs.RoundState
	cs.handleTimeout(ti, rs)
}

// VerifDrainInternal empties internalMsgQueue (the node's own proposal / parts / votes), in FIFO order.
func (cs *ConsensusState) VerifDrainInternal() []msgInfo {
	var out []msgInfo
	for {
		select {
		case mi := <-cs.internalMsgQueue:
			out = append(out, mi)
		default:
			return out
		}
	}
}

// VerifDrainStats empties statsMsgQueue (only the absent reactor would read it).
func (cs *ConsensusState) VerifDrainStats() int {
	n := 0
	for {
		select {
		case <-cs.statsMsgQueue:
			n++
		default:
			return n
		}
	}
}

// VerifKick does what OnStart does after starting the routines: schedule round 0.
func (cs *ConsensusState) VerifKick() { cs.scheduleRound0(cs.GetRoundState()) }

// VerifSetPeerMaj23 is the reactor's handling of a VoteSetMaj23Message (reactor.go, StateChannel).
func (cs *ConsensusState) VerifSetPeerMaj23(height int64, round int, t types.SignedMsgType, peer p2pTypes.ID, id types.BlockID) error {
	cs.mtx.Lock()
	h, votes := cs.Height, cs.Votes
	cs.mtx.Unlock()
	if h != height {
		return nil
	}
	return votes.SetPeerMaj23(round, t, peer, id)
}

// VerifRS returns a pointer to the live round state (read-only use by the harness, single-threaded per node).
func (cs *ConsensusState) VerifRS() *cstypes.RoundState { return &cs.RoundState }

// VerifSMState returns a pointer to the live sm.State (read-only).
func (cs *ConsensusState) VerifSMState() *sm.State { return &cs.state }

// VerifBlockStore returns the block store.
func (cs *ConsensusState) VerifBlockStore() sm.BlockStore { return cs.blockStore }

// VerifTicker is the harness TimeoutTicker: it only records ScheduleTimeout calls following the replacement
// rule of the real timeoutRoutine (a tick for an older or equal height/round/step is ignored, a newer one
// replaces the pending timer); firing the pending timeout is an explorer choice.
type VerifTicker struct {
	Last      timeoutInfo // last accepted tick (comparison base, like `ti` in timeoutRoutine)
	Pending   bool        // timer armed and not yet fired
	Scheduled int         // number of ScheduleTimeout calls
	c         chan timeoutInfo
}

func NewVerifTicker() *VerifTicker { return &VerifTicker{c: make(chan timeoutInfo)} }

func (t *VerifTicker) Start() error           { return nil }
func (t *VerifTicker) Stop() error            { return nil }
func (t *VerifTicker) Chan() <-chan timeoutInfo { return t.c }
func (t *VerifTicker) SetLogger(*slog.Logger) {}

func (t *VerifTicker) ScheduleTimeout(newti timeoutInfo) {
	t.Scheduled++
	ti := t.Last
	if newti.Height < ti.Height {
		return
	} else if newti.Height == ti.Height {
		if newti.Round < ti.Round {
			return
		} else if newti.Round == ti.Round {
			if ti.Step > 0 && newti.Step <= ti.Step {
				return
			}
		}
	}
	t.Last = newti
	t.Pending = true
}

// Fire returns the pending timeout and disarms the timer (what timer.C -> tockChan does).
func (t *VerifTicker) Fire() (timeoutInfo, bool) {
	if !t.Pending {
		return timeoutInfo{}, false
	}
	t.Pending = false
	return t.Last, true
}
