//go:build verif

// Package verifclock replaces the standard "time" import of tm2/pkg/bft/types/time (C31 harness only):
// tmtime.Now() becomes a logical clock owned by the harness, so that every execution of the consensus
// handlers replays bit-identically (vote timestamps, proposal timestamps, commit times).
package verifclock

import (
	"sync/atomic"
	"time"
)

// Time is the standard time type (only the clock source is replaced).
type Time = time.Time

var nowNanos atomic.Int64

func init() { nowNanos.Store(time.Date(2024, 1, 2, 3, 4, 5, 0, time.UTC).UnixNano()) }

// Set sets the logical clock (process-wide).
func Set(t time.Time) { nowNanos.Store(t.UnixNano()) }

// Now returns the logical clock.
func Now() time.Time { return time.Unix(0, nowNanos.Load()).UTC() }
