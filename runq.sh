#!/bin/bash
# runq.sh ID... : run quick tier of each check sequentially, print one summary line each
for ID in "$@"; do
  s=$(date +%s)
  out=$(./vcheck $ID quick 2>&1); rc=$?
  e=$(( $(date +%s) - s ))
  echo "== $ID rc=$rc ${e}s :: $(echo "$out" | grep -E "tier=quick|HARNESS-ERROR" | tail -1)"
  echo "$out" | grep -E "^VIOLATION|^KNOWN-FINDING|^  key:" | head -12
done
