#!/usr/bin/env python3
"""kf.py fixed <prop> <commit> <key> <what>   |   kf.py known <prop> <key> <what>  — append to known_findings.jsonl (+ fix patches)"""
import json,subprocess,sys
V='/verif'
def rev(c): return subprocess.run(['git','-C','/repo','rev-parse','--short=10',c],capture_output=True,text=True).stdout.strip()
if sys.argv[1]=='fixed':
    _,_,prop,commit,key,what=sys.argv
    c=rev(commit)
    open(f'{V}/fixes/{c}.patch','w').write(subprocess.run(['git','-C','/repo','show',c],capture_output=True,text=True).stdout)
    open(f'{V}/fixes/revert-{c}.diff','w').write(subprocess.run(['git','-C','/repo','diff',c,c+'~1'],capture_output=True,text=True).stdout)
    open(f'{V}/known_findings.jsonl','a').write(json.dumps({"property":prop,"kind":"fixed","key":key,"what":f"fixed: property={prop} {c} {what}","commit":c})+"\n")
else:
    _,_,prop,key,what=sys.argv
    open(f'{V}/known_findings.jsonl','a').write(json.dumps({"property":prop,"kind":"known","key":key,"what":what})+"\n")
