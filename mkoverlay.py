#!/usr/bin/env python3
"""mkoverlay.py <id> <repo> <out.json>

Generates a `go build -overlay` file for harness <id> from /verif/harness/<id>/overlay.json (optional).
The repository working tree is never modified.  Spec keys (all optional):
  add     : {"<repo-rel path of new file>": "<verif-rel source>"}     add a file to a repo package
  addpkg  : {"<repo-rel dir of virtual package>": "<verif-rel dir>"}  add every *.go of a dir as a new package
  rewrite : [{"file": "<repo-rel>", "imports": {"sync": "<new import path>", ...}}]
            copy of the WORKING-TREE file with only those import specs rewritten (alias keeps old name)
  subst   : [{"file": "<repo-rel>", "regex": "...", "repl": "...", "count": n}]
            copy of the working-tree file with a regex substitution (parameter scaling); must match
Everything emitted is recorded in <out>.hooked.json so evidence can list hooked files.
"""
import json, os, re, sys

def main():
    hid, repo, out = sys.argv[1], sys.argv[2], sys.argv[3]
    mutdir = sys.argv[4] if len(sys.argv) > 4 and sys.argv[4] else None
    V = os.path.dirname(os.path.abspath(__file__))
    spec_path = os.path.join(V, "harness", hid, "overlay.json")
    spec = {}
    if os.path.exists(spec_path):
        spec = json.load(open(spec_path))
    work = os.path.dirname(os.path.abspath(out))
    os.makedirs(work, exist_ok=True)
    replace = {}
    hooked = {"added": [], "rewritten": [], "noop_rewrites": []}
    for dst, src in spec.get("add", {}).items():
        replace[os.path.join(repo, dst)] = os.path.join(V, src)
        hooked["added"].append(dst)
    for dstdir, srcdir in spec.get("addpkg", {}).items():
        sd = os.path.join(V, srcdir)
        for f in sorted(os.listdir(sd)):
            if f.endswith(".go"):
                replace[os.path.join(repo, dstdir, f)] = os.path.join(sd, f)
                hooked["added"].append(os.path.join(dstdir, f))
    gen = {}  # repo-rel file -> current text
    def load(rel):
        if rel not in gen:
            src = os.path.join(repo, rel)
            if mutdir and os.path.exists(os.path.join(mutdir, rel)):
                src = os.path.join(mutdir, rel)
            gen[rel] = open(src).read()
        return gen[rel]
    for rw in spec.get("rewrite", []):
        rel = rw["file"]
        if not os.path.exists(os.path.join(repo, rel)) and not (mutdir and os.path.exists(os.path.join(mutdir, rel))):
            hooked["noop_rewrites"].append(rel + " (missing)")
            continue
        txt = load(rel)
        for old, new in rw["imports"].items():
            alias = old.split("/")[-1]
            # import spec forms:   "sync"   |   name "sync"
            pat = re.compile(r'^(\s*)(?:import\s+)?(?:(\w+)\s+)?"' + re.escape(old) + r'"\s*$', re.M)
            def repl(m, alias=alias, new=new):
                lead = m.group(1)
                name = m.group(2) or alias
                kw = "import " if m.group(0).lstrip().startswith("import") else ""
                return '%s%s%s "%s"' % (lead, kw, name, new)
            txt2, n = pat.subn(repl, txt)
            if n == 0:
                hooked["noop_rewrites"].append("%s:%s" % (rel, old))
            txt = txt2
        gen[rel] = txt
        hooked["rewritten"].append(rel)
    for sb in spec.get("subst", []):
        rel = sb["file"]
        txt = load(rel)
        txt2, n = re.subn(sb["regex"], sb["repl"], txt, count=sb.get("count", 0), flags=re.M)
        if n == 0:
            print("mkoverlay: subst %r did not match in %s" % (sb["regex"], rel), file=sys.stderr)
            sys.exit(1)
        gen[rel] = txt2
        hooked["rewritten"].append(rel + " (subst)")
    if mutdir:
        for dp, _, fs in os.walk(mutdir):
            for f in fs:
                rel = os.path.relpath(os.path.join(dp, f), mutdir)
                if rel not in gen:
                    replace[os.path.join(repo, rel)] = os.path.join(dp, f)
        hooked["mutant"] = True
    for rel, txt in gen.items():
        p = os.path.join(work, "gen", rel)
        os.makedirs(os.path.dirname(p), exist_ok=True)
        old = open(p).read() if os.path.exists(p) else None
        if old != txt:
            open(p, "w").write(txt)
        replace[os.path.join(repo, rel)] = p
    json.dump({"Replace": replace}, open(out, "w"), indent=1)
    json.dump(hooked, open(out + ".hooked.json", "w"), indent=1)

if __name__ == "__main__":
    main()
