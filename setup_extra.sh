#!/bin/bash
# Called by /verif/setup.sh when present. Engine E9 (mapseed): creates the patched GOROOT /verif/goroot-mapseed, runs its
# self-test and prebuilds the C01 harness with it (private GOCACHE), so that `vcheck C01 quick` can replay under map seeds.
# Offline; idempotent (an up-to-date tree costs a few seconds). Cold: compiler rebuild + app build, ~10 min CPU.
set -u
V=/verif
cd $V || exit 2
./mapseed/setup.sh || { echo "setup_extra: mapseed setup/self-test failed"; exit 1; }
mkdir -p .work/c01 .cache/go-build-mapseed
cat /repo/go.sum go.sum.extra > go.sum.tmp && mv -f go.sum.tmp go.sum
python3 mkoverlay.py c01 /repo .work/c01/overlay.json || exit 1
env -u GOFLAGS GOROOT=$V/goroot-mapseed GOTOOLCHAIN=local GOPROXY=off GOFLAGS=-mod=mod GOCACHE=$V/.cache/go-build-mapseed \
  $V/goroot-mapseed/bin/go build -tags verif -overlay .work/c01/overlay.json -o .work/c01/c01-mapseed ./harness/c01 \
  2> .work/c01/build-mapseed.log || { echo "setup_extra: C01 map-seed build failed"; tail -5 .work/c01/build-mapseed.log; exit 1; }
echo "setup_extra: ok"
