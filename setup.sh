#!/bin/bash
# Run once after a fresh restore (offline): warms the private build cache by building every claimed harness.
set -u
cd /verif
export GOFLAGS=-mod=mod GOPROXY=off GOCACHE=/verif/.cache/go-build GOTOOLCHAIN=auto
mkdir -p .cache/go-build .work/bin evidence replays
cat /repo/go.sum go.sum.extra > go.sum
ids=$(python3 -c "import json;print(' '.join(c['property_id'] for c in json.load(open('MANIFEST.json'))['checks']))")
fail=0
build_one() {
  ID=$1; id=$(echo $ID | tr A-Z a-z)
  mkdir -p .work/$id
  python3 mkoverlay.py $id /repo .work/$id/overlay.json || return 1
  go build -tags verif -overlay .work/$id/overlay.json -o .work/bin/$id ./harness/$id 2> .work/$id/build.log || { echo "setup: build failed for $ID"; tail -5 .work/$id/build.log; return 1; }
}
# a first sequential build warms the shared dependency cache; the rest go 4 at a time
first=1
pids=()
for ID in $ids; do
  if [ $first = 1 ]; then build_one $ID || fail=1; first=0; continue; fi
  build_one $ID &
  pids+=($!)
  if [ ${#pids[@]} -ge 4 ]; then wait ${pids[0]} || fail=1; pids=("${pids[@]:1}"); fi
done
for p in "${pids[@]:-}"; do [ -n "$p" ] && { wait $p || fail=1; }; done
# engine E9 is optional: without it C01 records mapseed-skipped and still runs every other configuration
[ -x setup_extra.sh ] && { ./setup_extra.sh || echo "setup: setup_extra.sh failed - C01 will skip its map-seed replays"; }
echo "setup done fail=$fail"
exit $fail
